#!/usr/bin/env python3
"""Evaluate every kept seeded change against the registered quick checks, in parallel.

usage: tools/eval_all.py <out_dir> <seeded_dir> [<seeded_dir> ...]      (a seeded_dir holds patch.diff)
       tools/eval_all.py <out_dir> --queue FILE     (FILE lists seeded_dirs, may grow while running, ends with a line END)
       EVAL_SLOTS=1,2,3,4 selects the clones / worktrees to use; EVAL_ONLY_TARGET=1 runs only the target property's check

Uses the clones /tmp/vpar/{1,2,3} of /verif (brought to the committed HEAD of /verif first) and the scratch worktrees
/tmp/wt/eval{1,2,3} of /repo: the patch is applied to the worktree, every quick_cmd of MANIFEST.json runs in the clone
with NASIM_REPO pointing at it, the worktree is restored.  Neither /repo nor /verif's evidence is touched.
"""
import sys, os, subprocess, json, threading, queue, time
out_dir = sys.argv[1]
qfile = sys.argv[3] if len(sys.argv) > 3 and sys.argv[2] == "--queue" else None
dirs = [] if qfile else [os.path.abspath(d) for d in sys.argv[2:]]
os.makedirs(out_dir, exist_ok=True)
slots = queue.Queue()
for k in [int(x) for x in os.environ.get("EVAL_SLOTS", "1,2,3").split(",")]:
    subprocess.run(["git", "-C", f"/tmp/vpar/{k}", "fetch", "-q", "origin"], check=True)
    subprocess.run(["git", "-C", f"/tmp/vpar/{k}", "reset", "-q", "--hard", "origin/main"], check=True)
    subprocess.run(["git", "-C", f"/tmp/wt/eval{k}", "checkout", "-q", "--", "."], check=True)
    slots.put(k)


def work(d):
    k = slots.get()
    sid = os.path.basename(d)
    try:
        t0 = time.time()
        repo, clone = f"/tmp/wt/eval{k}", f"/tmp/vpar/{k}"
        r = subprocess.run(["git", "-C", repo, "apply", os.path.join(d, "patch.diff")], capture_output=True, text=True)
        if r.returncode != 0:
            json.dump(dict(id=sid, error="patch does not apply: " + r.stderr[:300]), open(os.path.join(out_dir, sid + ".json"), "w"))
            return
        res = {}
        try:
            man = json.load(open(os.path.join(clone, "MANIFEST.json")))
            env = dict(os.environ, NASIM_REPO=repo, PYTHONPATH=repo, VERIF_NPROC="5", VERIF_SEED=os.environ.get("VERIF_SEED", "0"))
            only = os.environ.get("EVAL_ONLY_TARGET")
            for c in man["checks"]:
                if only and c["property_id"] != sid.split("-")[0]:
                    continue                       # EVAL_ONLY_TARGET=1: just the check of the property the change breaks
                p = subprocess.run(c["quick_cmd"].split(), cwd=clone, capture_output=True, text=True, env=env)
                vio = [l for l in p.stdout.split("\n") if l.startswith("VIOLATION")]
                detail = ""
                if vio:
                    try:
                        body = json.load(open(vio[0].split("replay=")[1].split()[0]))
                        detail = str(body.get("theorem_or_correspondence"))[:300]
                    except Exception:
                        pass
                res[c["property_id"]] = dict(rc=p.returncode, line=(vio[0] if vio else ""), detail=detail,
                                             err=(p.stderr.strip().split("\n")[-1][:300] if p.returncode == 2 else ""))
        finally:
            subprocess.run(["git", "-C", repo, "checkout", "--", "."], check=True)
        pid = sid.split("-")[0]
        fired = [p for p, v in res.items() if v["rc"] == 1]
        concrete = [p for p, v in res.items() if v["rc"] == 1 and "no-failing-input-found" not in v["line"]]
        json.dump(dict(id=sid, breaks=pid, fired=fired, concrete=concrete, infra=[p for p, v in res.items() if v["rc"] == 2],
                       target=pid in fired, target_concrete=pid in concrete, results=res, wall=round(time.time() - t0)),
                  open(os.path.join(out_dir, sid + ".json"), "w"), indent=1)
        print(sid, "target" if pid in fired else "MISSED", "concrete" if pid in concrete else "-", fired, round(time.time() - t0), "s", flush=True)
    finally:
        slots.put(k)


ths = []
if qfile:
    seen = 0
    while True:
        lines = [l.strip() for l in open(qfile) if l.strip()]
        stop = False
        while seen < len(lines):
            d = lines[seen]; seen += 1
            if d == "END":
                stop = True
                break
            k = slots.get(); slots.put(k)          # wait for a free slot so that the queue order is the start order
            th = threading.Thread(target=work, args=(os.path.abspath(d),)); th.start(); ths.append(th)
            time.sleep(1.0)
        if stop:
            break
        time.sleep(5)
else:
    for d in dirs:
        th = threading.Thread(target=work, args=(d,)); th.start(); ths.append(th)
        time.sleep(0.3)
for th in ths:
    th.join()
