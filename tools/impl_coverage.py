#!/venv/bin/python
"""Measure which lines of the implementation the correspondence suites execute (not a check).

usage: tools/impl_coverage.py [suite ...]      (default: dyn layout load bound multi; quick tier, seed 0)

Runs the suites in one process (no worker pool) under coverage.py with $NASIM_REPO/nasim as the
source and prints the per-file report with the missing lines. The GEN suite generates in
subprocesses; its parameter sets are replayed in-process here (`gen`). Lines of the modelled files
that no correspondence run executes are places where a change could not be noticed by the tie
(the theorems do not see the code at all), so the list is reviewed whenever a generator changes.
"""
import os, sys, random, signal
os.environ["VERIF_NPROC"] = "1"
os.environ["VERIF_NOCACHE"] = "1"
VERIF = os.path.dirname(os.path.dirname(os.path.abspath(__file__)))
sys.path.insert(0, os.path.join(VERIF, "harness"))
import coverage
repo = os.environ.get("NASIM_REPO", "/repo")
cov = coverage.Coverage(source=[os.path.join(repo, "nasim")], data_file=os.path.join(VERIF, ".cache", "impl.coverage"),
                        branch=True)
os.makedirs(os.path.join(VERIF, ".cache"), exist_ok=True)
cov.start()
import common as C          # noqa: E402
import runner               # noqa: E402
runner.NPROC = 1
suites = sys.argv[1:] or ["dyn", "layout", "load", "bound", "multi", "gen"]
for name in suites:
    if name == "gen":
        import suite_gen, nasim
        from nasim.scenarios.benchmark import AVAIL_GEN_BENCHMARKS

        class TO(Exception):
            pass

        def on_alarm(*a):
            raise TO()
        signal.signal(signal.SIGALRM, on_alarm)
        n = 0
        for i in range(300):
            p = suite_gen.gen_params(random.Random(f"0-{i}-random"))
            signal.alarm(20)
            try:
                nasim.generate_scenario(**p); n += 1
            except TO:
                print("timeout", p)
            finally:
                signal.alarm(0)
        for b in AVAIL_GEN_BENCHMARKS:
            nasim.make_benchmark_scenario(b, 1)
        print("gen: generated", n, "parameter sets in-process", flush=True)
        continue
    mod = __import__(f"suite_{name}")
    r = mod.run("quick", 0)
    print(name, "findings", len(r["findings"]), "errors", len(r.get("errors", [])), flush=True)
cov.stop()
cov.save()
cov.report(include=[os.path.join(repo, "nasim/envs/*"), os.path.join(repo, "nasim/scenarios/*")], show_missing=True)
