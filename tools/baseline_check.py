#!/usr/bin/env python3
"""Run the repo's pinned suite (guard off) and check every stable_pass test of BASELINE.json passes.
usage: baseline_check.py [repo_dir]"""
import json, subprocess, sys, os, tempfile, xml.etree.ElementTree as ET
repo = sys.argv[1] if len(sys.argv) > 1 else "/repo"
base = json.load(open("/root/.vp/BASELINE.json"))
want = set(base["stable_pass"])
fd, xml = tempfile.mkstemp(suffix=".xml"); os.close(fd)
env = dict(os.environ); env.pop("NASIM_VERIF", None)
subprocess.run(["/venv/bin/python", "-m", "pytest", "-q", "-p", "no:cacheprovider", "--timeout=900",
                "--continue-on-collection-errors", "-n", "14", f"--junitxml={xml}"], cwd=repo, env=env,
               stdout=subprocess.DEVNULL, stderr=subprocess.DEVNULL)
passed = set(); failed = set()
for tc in ET.parse(xml).getroot().iter("testcase"):
    name = f"{tc.get('classname')}::{tc.get('name')}"
    bad = any(ch.tag in ("failure", "error", "skipped") for ch in tc)
    (failed if bad else passed).add(name)
os.unlink(xml)
missing = sorted(want - passed)
print(f"stable_pass={len(want)} passed_now={len(passed)} failed_now={len(failed)} stable_missing={len(missing)}")
for m in missing[:20]: print("  MISSING", m)
sys.exit(1 if missing else 0)
