#!/usr/bin/env python3
"""Merge the results of tools/eval_all.py into seeded/<id>/meta.json and print the table of DESIGN §12.

usage: tools/merge_eval.py <eval_out_dir> <commit> [<round>] [--target-only]
  meta.json gains  evaluation = {commit, fired, concrete, infra}  (the first evaluation stays in checks_reporting),
  detected_by_target_check / checks_reporting are brought up to date, `round` is recorded when given.
"""
import sys, os, json, glob
VERIF = os.path.dirname(os.path.dirname(os.path.abspath(__file__)))
out_dir, commit = sys.argv[1], sys.argv[2]
rnd = int(sys.argv[3]) if len(sys.argv) > 3 and sys.argv[3].isdigit() else None
target_only = "--target-only" in sys.argv        # results of EVAL_ONLY_TARGET=1: only the target property's check was run
n = 0
for f in sorted(glob.glob(os.path.join(out_dir, "C*.json"))):
    r = json.load(open(f))
    mp = os.path.join(VERIF, "seeded", r["id"], "meta.json")
    if not os.path.exists(mp) or "fired" not in r:
        print("skip", r.get("id"), r.get("error", ""))
        continue
    m = json.load(open(mp))
    if "first_evaluation" not in m:
        m["first_evaluation"] = dict(checks_reporting=m.get("checks_reporting", []),
                                     detected_by_target_check=m.get("detected_by_target_check"))
    if target_only:
        m["evaluation_target_only"] = dict(commit=commit, target=r["target"], target_concrete=r["target_concrete"], infra=r["infra"])
        m["detected_by_target_check"] = r["target"]
        m["target_concrete"] = r["target_concrete"]
        json.dump(m, open(mp, "w"), indent=1)
        n += 1
        continue
    if "evaluation" in m and m["evaluation"].get("commit") != commit:
        m.setdefault("earlier_evaluations", []).append(m["evaluation"])       # keep what older machinery reported
    m["evaluation"] = dict(commit=commit, fired=r["fired"], concrete=r["concrete"], infra=r["infra"])
    m["checks_reporting"] = r["fired"]
    m["detected_by_target_check"] = r["target"]
    m["target_concrete"] = r["target_concrete"]
    if rnd is not None and "round" not in m:
        m["round"] = rnd
    json.dump(m, open(mp, "w"), indent=1)
    n += 1
print(n, "merged")
