#!/usr/bin/env python3
"""Apply a seeded change to /repo, run the registered quick checks, undo the change.

usage: tools/eval_seeded.py <patch.diff> [C01,C05,...]
Prints one line per check and a JSON summary; /repo is restored in every case.
"""
import sys, os, subprocess, json, time
VERIF = os.path.dirname(os.path.dirname(os.path.abspath(__file__)))
REPO = "/repo"
patch = os.path.abspath(sys.argv[1])
man = json.load(open(os.path.join(VERIF, "MANIFEST.json")))
ids = sys.argv[2].split(",") if len(sys.argv) > 2 else [c["property_id"] for c in man["checks"]]
st = subprocess.run(["git", "-C", REPO, "status", "--porcelain", "--untracked-files=no"], capture_output=True, text=True).stdout
if st.strip():
    print("refusing: /repo has uncommitted changes:\n" + st); sys.exit(2)
r = subprocess.run(["git", "-C", REPO, "apply", patch], capture_output=True, text=True)
if r.returncode != 0:
    print("patch does not apply:", r.stderr); sys.exit(2)
res = {}
try:
    for pid in ids:
        t = time.time()
        p = subprocess.run(["./check", pid, "--tier", "quick"], cwd=VERIF, capture_output=True, text=True,
                           env=dict(os.environ, VERIF_SEED=os.environ.get("VERIF_SEED", "0")))
        lines = [l for l in p.stdout.split("\n") if l.startswith(("VIOLATION", "OK", "KNOWN"))]
        vio = [l for l in lines if l.startswith("VIOLATION")]
        res[pid] = dict(rc=p.returncode, violation=vio[0] if vio else None, wall=round(time.time() - t, 1))
        print(pid, p.returncode, (vio[0] if vio else (p.stderr.strip().split("\n")[-1][:200] if p.returncode == 2 else "ok")))
finally:
    subprocess.run(["git", "-C", REPO, "checkout", "--", "."], check=True)
fired = [k for k, v in res.items() if v["rc"] == 1]
infra = [k for k, v in res.items() if v["rc"] == 2]
print(json.dumps(dict(patch=patch, fired=fired, infrastructure_errors=infra)))
