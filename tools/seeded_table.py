#!/usr/bin/env python3
"""Print the markdown table `change | breaks | checks that report it` for one round from seeded/*/meta.json.

usage: tools/seeded_table.py <round>      (a check in bold reported a concrete failing input)
"""
import sys, os, json, glob
VERIF = os.path.dirname(os.path.dirname(os.path.abspath(__file__)))
rnd = int(sys.argv[1])
print("| change | breaks | checks that report it (bold: with a concrete failing input) |\n|---|---|---|")
for f in sorted(glob.glob(os.path.join(VERIF, "seeded", "*", "meta.json"))):
    m = json.load(open(f))
    if m.get("round", 1) != rnd:
        continue
    ev = m.get("evaluation", {})
    fired = ev.get("fired", m.get("checks_reporting", []))
    conc = set(ev.get("concrete", []))
    cells = ", ".join(f"**{p}**" if p in conc else p for p in fired) or "-"
    print(f"| `{m['id']}` | {m['breaks']} | {cells} |")
