#!/usr/bin/env python3
"""validate MANIFEST.json and evidence/*.json against the schemas (run with python3-vt)"""
import json, glob, sys, jsonschema
jsonschema.validate(json.load(open('MANIFEST.json')), json.load(open('/root/.vp/MANIFEST.schema.json')))
print("MANIFEST ok")
es = json.load(open('/root/.vp/EVIDENCE.schema.json'))
for f in sorted(glob.glob('evidence/*.json')):
    jsonschema.validate(json.load(open(f)), es); print(f, "ok")
