#!/usr/bin/env python3
"""Confirm a seeded change and record which checks report it.

usage: tools/confirm_seeded.py <seeded_dir> <property_id> <short-id> [--repo DIR] [--no-checks] [--round N]
       (--no-checks: steps 1, 2, 4 only; the checks are then run by tools/eval_all.py)

 1. demo on the clean tree must pass (exit 0); with patch.diff applied it must fail (exit != 0);
 2. with the patch applied every stable_pass test of BASELINE.json must still pass;
 3. run all registered quick checks against the patched tree, record VIOLATION lines;
 4. undo the patch; write /verif/seeded/<short-id>/{patch.diff, demo.py, notes.md, meta.json}.
The tree DIR (default /repo) is restored in every case.
"""
import sys, os, subprocess, json, shutil, time
VERIF = os.path.dirname(os.path.dirname(os.path.abspath(__file__)))
args = [a for i, a in enumerate(sys.argv[1:], 1) if not a.startswith("--") and sys.argv[i - 1] not in ("--repo", "--round")]
src, pid, short = os.path.abspath(args[0]), args[1], args[2]
repo = "/repo"
if "--repo" in sys.argv:
    repo = os.path.abspath(sys.argv[sys.argv.index("--repo") + 1])
patch = os.path.join(src, "patch.diff")
demo = os.path.join(src, "demo.py")
env = dict(os.environ, PYTHONPATH=repo, NASIM_REPO=repo)


def sh(cmd, **kw):
    return subprocess.run(cmd, capture_output=True, text=True, **kw)


def run_demo():
    p = sh(["/venv/bin/python", demo], env=env, cwd=repo, timeout=600)
    return p.returncode, (p.stdout + p.stderr)[-400:]


st = sh(["git", "-C", repo, "status", "--porcelain", "--untracked-files=no"]).stdout
if st.strip():
    print("refusing: tree has uncommitted changes:\n" + st); sys.exit(2)
meta = dict(id=short, breaks=pid, source=src, repo=repo)
rc0, out0 = run_demo()
meta["demo_clean"] = dict(rc=rc0, tail=out0)
r = sh(["git", "-C", repo, "apply", patch])
if r.returncode != 0:
    print("patch does not apply:", r.stderr); sys.exit(2)
try:
    rc1, out1 = run_demo()
    meta["demo_patched"] = dict(rc=rc1, tail=out1)
    b = sh(["python3", os.path.join(VERIF, "tools", "baseline_check.py"), repo])
    meta["stable_tests_with_patch"] = b.stdout.strip().split("\n")[0]
    meta["stable_ok"] = b.returncode == 0
    man = json.load(open(os.path.join(VERIF, "MANIFEST.json")))
    fired, lines, infra = [], {}, []
    for c in ([] if "--no-checks" in sys.argv else man["checks"]):
        p = subprocess.run(c["quick_cmd"].split(), cwd=VERIF, capture_output=True, text=True,
                           env=dict(env, VERIF_SEED=os.environ.get("VERIF_SEED", "0")))
        vio = [l for l in p.stdout.split("\n") if l.startswith("VIOLATION")]
        if p.returncode == 1:
            fired.append(c["property_id"]); lines[c["property_id"]] = vio[0] if vio else "exit 1"
            if vio:
                rp = vio[0].split("replay=")[1].split()[0]
                try:
                    body = json.load(open(rp))
                    lines[c["property_id"]] += " :: " + str(body.get("theorem_or_correspondence"))[:200]
                except Exception:
                    pass
        elif p.returncode == 2:
            infra.append(c["property_id"]); lines[c["property_id"]] = p.stderr.strip().split("\n")[-1][:300]
    meta.update(checks_reporting=fired, infrastructure_errors=infra, lines=lines)
finally:
    subprocess.run(["git", "-C", repo, "checkout", "--", "."], check=True)
meta["confirmed"] = (rc0 == 0 and meta.get("demo_patched", {}).get("rc", 0) != 0 and meta.get("stable_ok", False))
meta["detected_by_target_check"] = pid in meta.get("checks_reporting", [])
if "--round" in sys.argv:
    meta["round"] = int(sys.argv[sys.argv.index("--round") + 1])
meta["ran"] = ("demo on clean tree; git apply patch.diff; demo (must fail); tools/baseline_check.py (1092 stable tests); "
               "every quick_cmd of MANIFEST.json with NASIM_REPO at the patched tree; git checkout -- .")
dst = os.path.join(os.environ.get("SEEDED_OUT", os.path.join(VERIF, "seeded")), short)
if meta["confirmed"]:
    os.makedirs(dst, exist_ok=True)
    shutil.copy(patch, os.path.join(dst, "patch.diff"))
    shutil.copy(demo, os.path.join(dst, "demo.py"))
    if os.path.exists(os.path.join(src, "notes.md")):
        shutil.copy(os.path.join(src, "notes.md"), os.path.join(dst, "notes.md"))
    json.dump(meta, open(os.path.join(dst, "meta.json"), "w"), indent=1)
print(json.dumps({k: meta[k] for k in ("id", "breaks", "confirmed", "detected_by_target_check", "checks_reporting",
                                        "infrastructure_errors", "stable_tests_with_patch")}, indent=0))
for k, v in meta.get("lines", {}).items():
    print("  ", k, v[:260])
if not meta["confirmed"]:
    print("NOT CONFIRMED:", json.dumps({k: meta.get(k) for k in ("demo_clean", "demo_patched", "stable_ok")})[:600])
