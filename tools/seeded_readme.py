#!/usr/bin/env python3
"""Write seeded/README.md from seeded/*/meta.json (and fill meta.json's `needs` from notes.md).

usage: tools/seeded_readme.py
"""
import os, json, re, glob
VERIF = os.path.dirname(os.path.dirname(os.path.abspath(__file__)))
SEEDED = os.path.join(VERIF, "seeded")


def section(notes, pat):
    """text under the first markdown heading matching pat"""
    m = re.search(r"^#+\s*[^\n]*(" + pat + r")[^\n]*\n(.*?)(?=^#+\s|\Z)", notes, flags=re.S | re.M | re.I)
    return re.sub(r"\s+", " ", m.group(2)).strip() if m else ""


rows = []
for d in sorted(glob.glob(os.path.join(SEEDED, "*", "meta.json"))):
    meta = json.load(open(d))
    notes_p = os.path.join(os.path.dirname(d), "notes.md")
    notes = open(notes_p).read() if os.path.exists(notes_p) else ""
    changed = False
    if not meta.get("needs"):
        meta["needs"] = section(notes, r"needed|manifest|trigger")[:700]
        changed = True
    if not meta.get("change"):
        meta["change"] = section(notes, r"change|what")[:500]
        changed = True
    if changed:
        json.dump(meta, open(d, "w"), indent=1)
    rows.append(meta)

out = ["# Seeded changes\n",
       "Each directory holds one change to NetworkAttackSimulator written by a fresh sub-agent that was given only the text of",
       "one property and a scratch worktree (nothing from /verif; five rounds, see DESIGN.md §12): `patch.diff` (applies to the pinned tree with",
       "`git -C /repo apply`), `demo.py` (exit 0 on the clean tree, non-zero with the patch), the agent's `notes.md`, and",
       "`meta.json` (property broken, what the change needs to manifest, what was run to confirm it, which registered quick",
       "checks reported it). Every change compiles and passes the 1092 pinned tests. None is committed to /repo.",
       "Confirm / re-evaluate one with `tools/confirm_seeded.py seeded/<id> <Cxx> <id> [--repo DIR]`.\n",
       f"{len(rows)} changes; target check reports {sum(1 for r in rows if r.get('detected_by_target_check'))} of them; "
       f"some check reports {sum(1 for r in rows if r.get('checks_reporting'))}.\n",
       "| id | round | breaks | target check reports it | all checks reporting | what it needs to manifest |",
       "|---|---|---|---|---|---|"]
for r in rows:
    needs = (r.get("needs") or "").replace("|", "\\|")
    if len(needs) > 330:
        needs = needs[:327] + "..."
    tgt = ("yes" if r.get("target_concrete") else "yes (no failing input)") if r.get("detected_by_target_check") else "**no**"
    out.append(f"| `{r['id']}` | {r.get('round', 1)} | {r['breaks']} | {tgt} | "
               f"{', '.join(r.get('checks_reporting', [])) or '-'} | {needs} |")
out.append("")
open(os.path.join(SEEDED, "README.md"), "w").write("\n".join(out))
print(f"{len(rows)} seeded changes -> seeded/README.md")
