#!/usr/bin/env python3
"""Writes /verif/MANIFEST.json from harness/registry.py (single source for the property table)."""
import json, os, sys
VERIF = os.path.dirname(os.path.dirname(os.path.abspath(__file__)))
sys.path.insert(0, os.path.join(VERIF, "harness"))
import registry as R

checks = []
for pid, spec in sorted(R.PROPS.items()):
    checks.append(dict(
        property_id=pid,
        quick_cmd=f"./check {pid} --tier quick",
        thorough_cmd=f"./check {pid} --tier thorough",
        evidence_file=f"evidence/{pid}.json",
        replay_cmd_template=f"./check {pid} --replay {{path}}",
        engine="lean4-model+correspondence",
        level_claimed=dict(category="proof", text=spec["text"], design_ref=spec.get("design_ref", "DESIGN.md §8")),
        level_note=spec["note"],
        technique=spec["technique"]))
all_ids = [json.loads(l)["id"] for l in open(os.path.join(VERIF, "properties.jsonl"))]
na = [dict(property_id=i, reason=R.NOT_APPLICABLE.get(i, "not yet claimed: model and theorems for this property are under construction (see DESIGN.md §9)"))
      for i in all_ids if i not in R.PROPS]
m = dict(
    version=1,
    setup_cmd="./check --setup",
    hooks=dict(guard="NASIM_VERIF", enable="no source hooks are needed: the harness wraps NumPy's global random functions from outside and reads public attributes; NASIM_VERIF is reserved and unused by the repository",
               baseline_off_cmd="cd /repo && /venv/bin/python -m pytest -ra -q -p no:cacheprovider --timeout=900 --continue-on-collection-errors",
               source_commits=[], add_only=True),
    engines=[dict(name="lean4-model+correspondence", path="lean/NasimModel + harness/ + check",
                  serves_properties=sorted(R.PROPS),
                  kind_free_text="hand-written executable Lean 4 model with machine-checked theorems per property (Props/Cxx.lean); tied to /repo on every run by T1 translators (Generated/*.lean) and a differential correspondence harness driving the native Lean driver through a line protocol")],
    checks=checks,
    notes="Every check: T1 translate -> lake build (driver + theorem module) -> #print axioms audit -> correspondence suite(s) -> decision. Exit 2 = infrastructure error. Fixes applied to the repository are listed in known_findings.json (fixed:) and DESIGN.md §7.",
    not_applicable=na)
json.dump(m, open(os.path.join(VERIF, "MANIFEST.json"), "w"), indent=1)
print("checks", len(checks), "not_applicable", len(na))
