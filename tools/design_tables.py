#!/usr/bin/env python3
"""Fill the tables of DESIGN.md §12 (rounds 2-5) from seeded/*/meta.json.

usage: tools/design_tables.py
A block `<!-- ROUNDn-TABLE --> ... <!-- /ROUNDn-TABLE -->` (or the bare opening marker) is replaced by the table
`change | breaks | checks that report it` of round n (bold = with a concrete failing input), with the commit(s) the
evaluation was made with.
"""
import os, json, glob, re
VERIF = os.path.dirname(os.path.dirname(os.path.abspath(__file__)))
metas = [json.load(open(f)) for f in sorted(glob.glob(os.path.join(VERIF, "seeded", "*", "meta.json")))]


def table(rnd):
    rows, commits = [], set()
    for m in metas:
        if m.get("round", 1) != rnd:
            continue
        ev = m.get("evaluation", {})
        fired = ev.get("fired", m.get("checks_reporting", []))
        conc = set(ev.get("concrete", []))
        if ev.get("commit"):
            commits.add(ev["commit"])
        cells = ", ".join(f"**{p}**" if p in conc else p for p in fired) or "-"
        rows.append(f"| `{m['id']}` | {m['breaks']} | {cells} |")
    n = len(rows)
    tgt = sum(1 for m in metas if m.get("round", 1) == rnd and m.get("detected_by_target_check"))
    tc = sum(1 for m in metas if m.get("round", 1) == rnd and m["breaks"] in m.get("evaluation", {}).get("concrete", []))
    tgt = sum(1 for m in metas if m.get("round", 1) == rnd and m["breaks"] in m.get("evaluation", {}).get("fired", []))
    retried = [m["id"] for m in metas if m.get("round", 1) == rnd and m.get("retried_target_check")]
    head = (f"Final evaluation of round {rnd} (all registered quick checks against each change; machinery of commit"
            f"{'s' if len(commits) > 1 else ''} {', '.join('`' + c + '`' for c in sorted(commits))}): {tgt} of {n} reported by the target "
            f"property's check, {tc} of them with a concrete failing input"
            + (f" ({', '.join('`' + r + '`' for r in retried)} re-tried with the final machinery: concrete)" if retried else "")
            + ".\n\n"
            "| change | breaks | checks that report it (bold: with a concrete failing input) |\n|---|---|---|\n")
    return head + "\n".join(rows) + "\n"


p = os.path.join(VERIF, "DESIGN.md")
s = open(p).read()
for rnd in (2, 3, 4, 5):
    o, c = f"<!-- ROUND{rnd}-TABLE -->", f"<!-- /ROUND{rnd}-TABLE -->"
    if o not in s:
        continue
    body = o + "\n" + table(rnd) + c
    if c in s:
        s = re.sub(re.escape(o) + r".*?" + re.escape(c), lambda m_: body, s, flags=re.S)
    else:
        s = s.replace(o, body)
open(p, "w").write(s)
print("DESIGN.md tables written")
