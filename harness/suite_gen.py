"""GEN suite: the scenario generator against the Lean generator model (C14, C15, C16).

Per parameter set (the 9 benchmark sets + random documented-valid sets far from the defaults):
 * the real generator runs in a *subprocess under a kill-timeout* with NumPy's random functions
   recorded; termination and absence of exceptions are C15;
 * the recorded decision stream is replayed through the model generator: the whole scenario must
   coincide (wire lines), no decision left over (C15: the model describes what the code does);
 * the C15 postcondition predicate (Lean, `genPostChecks`) is evaluated on the implementation's
   scenario;
 * further subprocesses with other values of PYTHONHASHSEED and without the recorder must give the
   same scenario fingerprint and the same seeded trajectory hash (C14);
 * the model's saturation plan is replayed on the real environment with every draw succeeding and
   must end with the terminal flag (C16); the 9 shipped scenarios likewise.
"""
import sys, os, json, random, subprocess, collections, time, traceback
from fractions import Fraction
import numpy as np
import common as C
from common import NASimEnv
import nasim

WORKER = os.path.join(os.path.dirname(os.path.abspath(__file__)), "gen_worker.py")
PY = sys.executable
POST_NAMES = None


def fr(x):
    f = Fraction(float(x))
    return f"{f.numerator}/{f.denominator}"


def probspec(x):
    if x is None:
        return "0"
    if isinstance(x, str):
        return "1"
    if isinstance(x, float):
        return "2 " + fr(x)
    return f"3 {len(x)} " + " ".join(fr(v) for v in x)


DEFAULTS = dict(num_os=2, num_processes=2, num_exploits=None, num_privescs=None, r_sensitive=10, r_user=10,
                exploit_cost=1, exploit_probs=1.0, privesc_cost=1, privesc_probs=1.0, service_scan_cost=1,
                os_scan_cost=1, subnet_scan_cost=1, process_scan_cost=1, uniform=False, alpha_H=2.0,
                alpha_V=2.0, lambda_V=1.0, restrictiveness=5, random_goal=False, base_host_value=1,
                host_discovery_value=1, step_limit=None, address_space_bounds=None)


def param_tokens(params):
    p = dict(DEFAULTS); p.update(params)
    b = p["address_space_bounds"]
    toks = [p["num_hosts"], p["num_services"], p["num_os"], p["num_processes"],
            -1 if p["num_exploits"] is None else p["num_exploits"],
            -1 if p["num_privescs"] is None else p["num_privescs"],
            C.sv(p["r_sensitive"]), C.sv(p["r_user"]), C.sv(p["exploit_cost"]), C.sv(p["privesc_cost"]),
            C.sv(p["service_scan_cost"]), C.sv(p["os_scan_cost"]), C.sv(p["subnet_scan_cost"]),
            C.sv(p["process_scan_cost"]), int(p["uniform"]), fr(p["alpha_H"]), fr(p["alpha_V"]),
            fr(p["lambda_V"]), p["restrictiveness"], int(p["random_goal"]), C.sv(p["base_host_value"]),
            C.sv(p["host_discovery_value"]), -1 if p["step_limit"] is None else p["step_limit"],
            -1 if b is None else b[0], -1 if b is None else b[1]]
    return " ".join(map(str, toks)) + " " + probspec(p["exploit_probs"]) + " " + probspec(p["privesc_probs"])


def gen_params(rng):
    """documented-valid parameter sets far from the defaults"""
    ns = rng.choice([1, 1, 2, 3, 4, 6, 9, 11, 12, 13])   # beyond ten names `srv_10` sorts before `srv_2`: order-sensitive code shows
    no = rng.randint(1, 4)
    npr = rng.randint(1, 4)
    nh = rng.choice([3, 4, 5, 6, 8, 11, 16, 23, 38, 41, 45, 60, 82, 95, 120])
    ne = rng.choice([None, None, 1, rng.randint(1, ns * (no + 1))])
    npe = rng.choice([None, None, 1, rng.randint(1, npr * (no + 1)), rng.randint(npr, npr * (no + 1))])
    ep = rng.choice([None, "mixed", 1.0, 0.75, 0.3])
    if rng.random() < 0.15:
        n_e = ne if ne is not None else ns
        ep = [rng.choice([0.25, 0.5, 1.0, 0.9]) for _ in range(n_e)]
    pp = rng.choice([None, 1.0, 0.5, 1.0])
    p = dict(num_hosts=nh, num_services=ns, num_os=no, num_processes=npr, num_exploits=ne, num_privescs=npe,
             r_sensitive=rng.choice([10, 100, 0.5, 37.25]), r_user=rng.choice([10, 100, 1]),
             exploit_cost=rng.choice([1, 2, 1.5]), privesc_cost=rng.choice([1, 3, 0.5]),
             exploit_probs=ep, privesc_probs=pp,
             service_scan_cost=rng.choice([1, 0, 2]), os_scan_cost=rng.choice([1, 0.5]),
             subnet_scan_cost=rng.choice([1, 3]), process_scan_cost=rng.choice([1, 0.25]),
             uniform=rng.random() < 0.35, alpha_H=rng.choice([0.5, 1.0, 2.0, 5.0]),
             alpha_V=rng.choice([0.5, 1.0, 2.0, 5.0]), lambda_V=rng.choice([0.5, 1.0, 3.0, 0.5, 1.0, 3.0, 1e-20]),
             restrictiveness=rng.randint(1, 6), random_goal=rng.random() < 0.5,
             base_host_value=rng.choice([0, 1, 1, 0.5]), host_discovery_value=rng.choice([0, 1, 2, 0.25]),
             step_limit=rng.choice([None, 100, 1000]), seed=rng.randint(0, 10 ** 6))
    if rng.random() < 0.2:
        # custom (larger) address bounds: computed from the deterministic subnet layout
        import math
        dmz = math.ceil(nh / 40); sens = math.ceil(nh / 41); user = nh - dmz - sens
        nsub = 3 + user // 5 + (1 if user % 5 else 0)
        mx = max(dmz, sens, 5 if user >= 5 else user, 1)
        p["address_space_bounds"] = (nsub + rng.randint(0, 3), mx + rng.randint(0, 3))
    if p["uniform"] and (ns > 9 or npr > 9):
        p["uniform"] = False
    return p


def run_worker(params, hashseed, record=True, trajectory=0, timeout=60):
    env = dict(os.environ)
    env["PYTHONHASHSEED"] = str(hashseed)
    env["NASIM_REPO"] = C.REPO
    q = dict(params)
    if q.get("address_space_bounds") is not None:
        q["address_space_bounds"] = list(q["address_space_bounds"])
    q["_record"] = record; q["_trajectory"] = trajectory
    try:
        p = subprocess.run([PY, WORKER, json.dumps(q)], capture_output=True, text=True, timeout=timeout, env=env)
    except subprocess.TimeoutExpired:
        return dict(ok=False, error="TIMEOUT", message=f"generator did not return within {timeout}s")
    if p.returncode != 0 or not p.stdout.strip():
        return dict(ok=False, error="WORKER", message=(p.stderr or "")[-400:])
    return json.loads(p.stdout.strip().split("\n")[-1])


def replay_plan(sc, plan):
    """replay a plan of flat action indices on the real environment, every draw succeeding"""
    np.random.rand = lambda *a: 0.0
    env = NASimEnv(sc, fully_obs=True, flat_actions=True, flat_obs=True)
    env.reset()
    done = False
    total = 0.0
    for i in plan:
        o, r, done, trunc, info = env.step(int(i))
        total += float(r)
    if not done or not plan:
        return bool(done), total
    # the same sequence must also end with the terminal flag (a) through generative_step from a stored initial state,
    # twice in a row without a reset in between, and (b) on two environments of the scenario stepped alternately
    for _ in range(2):
        s = env.generate_initial_state()
        d2 = False
        for i in plan:
            s, o, r, d2, info = env.generative_step(s, int(i))
        if not d2:
            return False, total
    ea = NASimEnv(sc, fully_obs=True, flat_actions=True, flat_obs=True)
    eb = NASimEnv(sc, fully_obs=False, flat_actions=True, flat_obs=True)
    ea.reset(); eb.reset()
    da = db = False
    for i in plan:
        da = ea.step(int(i))[2]
        db = eb.step(int(i))[2]
    return bool(da and db), total


def run_case(args):
    seed, idx, kind, tier = args
    rng = random.Random(f"{seed}-{idx}-{kind}-gen")
    res = dict(idx=idx, kind=kind, findings=[], error=None, decisions=0, hosts=0, sample=None,
               plan_len=0, hashseeds=0, sites=collections.Counter(), untranslatable=False)
    orig_rand = np.random.rand
    try:
        if kind.startswith("bench:"):
            from nasim.scenarios.benchmark import AVAIL_GEN_BENCHMARKS
            name = kind.split(":")[1]
            params = {k: v for k, v in AVAIL_GEN_BENCHMARKS[name].items() if k not in ("name",)}
            params["seed"] = rng.randint(0, 1000)
        elif kind.startswith("shipped:"):
            return run_shipped(kind.split(":")[1], res)
        elif kind.startswith("history:"):
            return run_history(kind.split(":")[1], rng, res)
        else:
            params = gen_params(rng)
            if kind == "manynames":
                # more than ten names per list (`srv_10` sorts before `srv_2`, sets of eleven strings iterate in an order
                # that depends on the hash seed), busy hosts, tight firewalls: whatever depends on the order of names or of
                # a set shows in the comparison across hash seeds (C14) and against the model (C15)
                params.update(num_services=rng.choice([11, 12, 14]), num_processes=rng.choice([2, 11]),
                              num_hosts=rng.choice([16, 23, 38]), restrictiveness=rng.randint(1, 3), uniform=False,
                              num_exploits=None, num_privescs=None, alpha_V=rng.choice([0.5, 5.0]), lambda_V=3.0)
                if isinstance(params["exploit_probs"], list):
                    params["exploit_probs"] = None
                params.pop("address_space_bounds", None)
            if rng.random() < 0.5:
                # the same generator object first serves one or two other parameter sets (half of them larger name
                # lists under the same `uniform` flag: whatever it keeps between calls is then visibly stale)
                prior = []
                for _ in range(rng.randint(1, 2)):
                    q = gen_params(rng)
                    if rng.random() < 0.35:
                        # the very same parameter set under another seed: same names, other exploits / hosts - what the
                        # object remembers per name or per configuration fits the names but not the scenario
                        q = dict(params, seed=rng.randint(0, 10 ** 6))
                    elif rng.random() < 0.5:
                        q["uniform"] = params["uniform"]
                        q["num_services"] = min(9, params["num_services"] + rng.randint(1, 3))
                        q["num_processes"] = min(9, params["num_processes"] + rng.randint(0, 2))
                        q["num_exploits"] = None; q["num_privescs"] = None
                        if isinstance(q["exploit_probs"], list):
                            q["exploit_probs"] = None
                    prior.append(q)
                res["prior"] = prior
        res["params"] = {k: v for k, v in params.items()}
        replay = dict(kind="gen", params=res["params"])
        wparams = dict(params)
        if res.get("prior"):
            wparams["_prior"] = res["prior"]
            replay["same_generator_object_first_served"] = res["prior"]
        w = run_worker(wparams, 0, record=True, trajectory=40 if tier == "quick" else 150)
        if not w["ok"]:
            what = (f"the generator does not return for a documented-valid parameter set: "
                    f"{w.get('error')} {w.get('message', '')[:120]}")
            res["findings"].append(dict(property="C15", kind="failing-input", what=what,
                                        replay=dict(replay, worker=w.get("error"), message=w.get("message"))))
            return res
        if "untranslatable" in w:
            res["untranslatable"] = True
            return res
        res["decisions"] = len(w["log"])
        for t in w["log"]:
            res["sites"][t.split()[0]] += 1
        ptoks = param_tokens(params)
        reqs = ["GEN " + ptoks + " | " + " ".join(w["log"]), "SAT"]
        # the C15 predicate on the implementation's own scenario
        reqs += w["lines"] + ["POST15 " + ptoks, "SAT"]
        out = C.run_driver(reqs)
        gen_reply, sat_reply, post_reply, sat_impl_reply = out[0], out[1], out[2], out[3]
        expect = "ok 0 ; " + " ; ".join(w["lines"])
        res["hosts"] = sum(1 for l in w["lines"] if l.startswith("host "))
        bits = post_reply.split()
        failed_posts = [i for i, b in enumerate(bits) if b != "1"]
        if failed_posts or not bits or any(b not in "01" for b in bits):
            res["findings"].append(dict(property="C15", kind="failing-input",
                what=f"the generated scenario violates postcondition(s) #{failed_posts} of C15 ({post_reply[:60]})",
                replay=dict(replay, failed_checks=failed_posts, scenario=w["lines"][:60])))
        if gen_reply != expect:
            gl = gen_reply.split(" ; "); el = expect.split(" ; ")
            fd = next((i for i, (a, b) in enumerate(zip(gl, el)) if a != b), min(len(gl), len(el)))
            res["findings"].append(dict(property="C15", kind="correspondence",
                what=f"model generator replaying the recorded decisions differs from the implementation at line {fd}",
                replay=dict(replay, impl_line=el[fd][:300] if fd < len(el) else None,
                            model_line=gl[fd][:300] if fd < len(gl) else None, decisions=w["log"][:400])))
        # C16: plan from the model, replayed on the real environment.  When the model generator cannot replay the
        # recorded decisions (the generators have drifted apart: C15's business), the plan is searched on the scenario the
        # implementation returned instead - solvability is a property of *that* scenario
        st = sat_reply.split()
        if not gen_reply.startswith("ok"):
            st = sat_impl_reply.split()
        if st and st[0] in ("0", "1"):
            plan = [int(x) for x in st[2:]]
            res["plan_len"] = len(plan)
            p2 = dict(params)
            if res.get("prior"):
                # the scenario of a *reused* generator object: reproduce the reuse (same seeds, same order)
                from nasim.scenarios.generator import ScenarioGenerator
                g = ScenarioGenerator()
                for q in res["prior"]:
                    q2 = dict(q)
                    if q2.get("address_space_bounds") is not None:
                        q2["address_space_bounds"] = tuple(q2["address_space_bounds"])
                    g.generate(**q2)
                sc = g.generate(**p2)
            else:
                sc = nasim.generate_scenario(**p2)      # same seed: terminated in the worker already
            done, total = replay_plan(sc, plan)
            if st[0] != "1" or not done:
                res["findings"].append(dict(property="C16", kind="failing-input",
                    what="no goal-reaching action sequence: saturation with every draw succeeding "
                         f"{'finds no plan in the model' if st[0] != '1' else 'plan does not end with the terminal flag on the real environment'}",
                    replay=dict(replay, plan=plan[:200], model_solved=st[0], impl_done=done)))
        # C14: other hash seeds / no recorder / other process
        fps = {("0", True): (w["fingerprint"], w.get("trajectory"))}
        for hs, rec in ([("1", True), ("random", False)] if tier == "quick" else
                        [("1", True), ("2", True), ("random", False), ("random", True)]):
            w2 = run_worker(wparams, hs, record=rec, trajectory=40 if tier == "quick" else 150)
            res["hashseeds"] += 1
            if not w2["ok"]:
                res["findings"].append(dict(property="C14", kind="failing-input",
                    what=f"generation fails under PYTHONHASHSEED={hs}: {w2.get('error')}", replay=replay))
                continue
            fps[(hs, rec)] = (w2["fingerprint"], w2.get("trajectory"))
        if len(set(v[0] for v in fps.values())) > 1:
            res["findings"].append(dict(property="C14", kind="failing-input",
                what="the same parameters and seed give different scenarios in different processes / hash seeds",
                replay=dict(replay, fingerprints={str(k): v[0][:16] for k, v in fps.items()})))
        elif w.get("trajectory_lookahead") not in (None, w.get("trajectory")):
            res["findings"].append(dict(property="C14", kind="failing-input",
                what="the same seed, scenario and action sequence give another trajectory when generative_step is called on "
                     "stored states in between (the global generator restored after every such call)",
                replay=dict(replay, plain=(w.get("trajectory") or "")[:16], lookahead=w["trajectory_lookahead"][:16])))
        elif len(set(v[1] for v in fps.values())) > 1:
            res["findings"].append(dict(property="C14", kind="failing-input",
                what="the same seed, scenario and action sequence give different trajectories in different processes",
                replay=dict(replay, trajectories={str(k): (v[1] or "")[:16] for k, v in fps.items()})))
        res["sample"] = dict(params=res["params"], decisions=w["log"][:12], n_decisions=len(w["log"]))
    except C.Untranslatable:
        res["untranslatable"] = True
    except Exception as e:
        res["error"] = "".join(traceback.format_exception(type(e), e, e.__traceback__))[-3000:]
    finally:
        np.random.rand = orig_rand
    res["sites"] = dict(res["sites"])
    return res


def run_history(name, rng, res):
    """C14: a generated benchmark, NumPy seeded identically, in a fresh process vs a process with a
    history of other (seeded and unseeded) benchmark constructions"""
    try:
        base = run_worker(dict(_benchmark_history=dict(name=name, prior=[])), 0)
        prior = [[name, rng.randint(0, 50)], [rng.choice(BENCH), None], [name, None]]
        hist = run_worker(dict(_benchmark_history=dict(name=name, prior=prior)), 0)
        res["hashseeds"] += 2
        if not (base.get("ok") and hist.get("ok")):
            res["findings"].append(dict(property="C14", kind="failing-input",
                what=f"benchmark {name} could not be generated: {base.get('error') or hist.get('error')}",
                replay=dict(kind="gen-history", name=name, prior=prior)))
        elif base["fingerprint"] != hist["fingerprint"]:
            res["findings"].append(dict(property="C14", kind="failing-input",
                what=f"np.random.seed(123); make_benchmark_scenario('{name}') gives a different scenario after "
                     f"earlier constructions in the same process than in a fresh process",
                replay=dict(kind="gen-history", name=name, prior=prior,
                            fresh=base["fingerprint"][:16], with_history=hist["fingerprint"][:16])))
        # the same seed through the package's top-level entry points, in two processes
        sd = rng.randint(0, 1000)
        api = [run_worker(dict(_api_seeded=dict(name=name, seed=sd)), hs) for hs in ("0", "random")]
        if all(a.get("ok") for a in api):
            vals = {k: {a[k] for a in api} for k in ("env", "env_again", "scenario", "gen_env", "gen_scenario")}
            if len(vals["env"] | vals["env_again"] | vals["scenario"]) > 1:
                res["findings"].append(dict(property="C14", kind="failing-input",
                    what=f"nasim.make_benchmark('{name}', seed={sd}) does not always hold the scenario "
                         f"make_benchmark_scenario('{name}', {sd}) returns (two calls, two processes)",
                    replay=dict(kind="gen-api", name=name, seed=sd, fingerprints={k: sorted(x[:12] for x in v) for k, v in vals.items()})))
            if len(vals["gen_env"] | vals["gen_scenario"]) > 1:
                res["findings"].append(dict(property="C14", kind="failing-input",
                    what=f"nasim.generate(6, 2, seed={sd}, num_os=2) does not always hold the scenario generate_scenario returns "
                         "for the same arguments (two processes)",
                    replay=dict(kind="gen-api", seed=sd, fingerprints={k: sorted(x[:12] for x in v) for k, v in vals.items()})))
        else:
            bad = next(a for a in api if not a.get("ok"))
            res["findings"].append(dict(property="C14", kind="failing-input",
                what=f"a seeded top-level entry point fails: {bad.get('error')} {str(bad.get('message'))[:100]}",
                replay=dict(kind="gen-api", name=name, seed=sd)))
        res["sample"] = dict(history=prior, name=name)
    except Exception as e:
        res["error"] = "".join(traceback.format_exception(type(e), e, e.__traceback__))[-3000:]
    res["sites"] = dict(res["sites"])
    return res


def run_shipped(name, res):
    """C16 for a shipped benchmark: model plan replayed on the real environment"""
    orig_rand = np.random.rand
    try:
        sc = nasim.make_benchmark_scenario(name)
        lines = C.scenario_lines(sc)
        out = C.run_driver(lines + ["SAT"])
        st = out[0].split()
        plan = [int(x) for x in st[2:]]
        res["plan_len"] = len(plan)
        res["hosts"] = len(sc.hosts)
        done, total = replay_plan(sc, plan)
        if st[0] != "1" or not done:
            res["findings"].append(dict(property="C16", kind="failing-input",
                what=f"shipped scenario {name}: no goal-reaching action sequence "
                     f"(model solved={st[0]}, real terminal flag={done})",
                replay=dict(kind="shipped", name=name, plan=plan[:200])))
        res["sample"] = dict(shipped=name, plan=plan[:30], reward=total)
    except Exception as e:
        res["error"] = "".join(traceback.format_exception(type(e), e, e.__traceback__))[-3000:]
    finally:
        np.random.rand = orig_rand
    res["sites"] = dict(res["sites"])
    return res


BENCH = ["tiny-gen", "tiny-gen-rgoal", "small-gen", "small-gen-rgoal", "medium-gen", "large-gen", "huge-gen",
         "pocp-1-gen", "pocp-2-gen"]
SHIPPED = ["tiny", "tiny-hard", "tiny-small", "small", "small-honeypot", "small-linear", "medium",
           "medium-single-site", "medium-multi-site"]
BUDGET = {"quick": dict(n_random=40, n_big=8, bench_rep=1), "thorough": dict(n_random=600, n_big=80, bench_rep=6)}


def run(tier, seed):
    import runner
    b, tier = runner.budget(BUDGET, tier)
    kinds = ["random"] * b["n_random"] + ["manynames"] * b["n_big"] + [f"bench:{n}" for n in BENCH] * b["bench_rep"] \
        + [f"shipped:{n}" for n in SHIPPED] + [f"history:{n}" for n in (BENCH[:3] if tier == "quick" else BENCH)]
    tasks = [(seed, i, k, tier) for i, k in enumerate(kinds)]
    rs = runner.pmap(run_case, tasks)
    runner.stamp("gen", "run_case", tasks, rs)
    errors = [dict(idx=r["idx"], kind=r["kind"], error=r["error"]) for r in rs if r["error"]]
    sites = collections.Counter()
    for r in rs:
        sites.update(r["sites"])
    hosts_hist = collections.Counter(str(r["hosts"]) for r in rs)
    return dict(suite="gen", tier=tier, seed=seed, scenarios=len(rs),
                evaluations=len(rs) + sum(r["hashseeds"] for r in rs),
                decisions_replayed=sum(r["decisions"] for r in rs),
                plans_replayed=sum(1 for r in rs if r["plan_len"] > 0),
                hashseed_runs=sum(r["hashseeds"] for r in rs),
                untranslatable=sum(1 for r in rs if r["untranslatable"]),
                decision_kinds=dict(sites), hosts_hist=dict(hosts_hist),
                distinct_nontrivial=len(hosts_hist) + len(sites) + sum(1 for r in rs if r["plan_len"] > 0),
                traces=sum(1 for r in rs if r["plan_len"] > 0),
                findings=[f for r in rs for f in r["findings"]], errors=errors,
                samples=[r["sample"] for r in rs if r.get("sample")][:3])


if __name__ == "__main__":
    tier = sys.argv[1] if len(sys.argv) > 1 else "quick"
    seed = int(sys.argv[2]) if len(sys.argv) > 2 else 0
    t = time.time()
    r = run(tier, seed)
    print(json.dumps({k: v for k, v in r.items() if k not in ("findings", "samples")}, indent=1, default=str)[:3000])
    print("findings", len(r["findings"]))
    for f in r["findings"][:10]:
        print(f["property"], f["kind"], f["what"][:200])
        print("    ", json.dumps(f["replay"], default=str)[:700])
    print("wall", time.time() - t)
