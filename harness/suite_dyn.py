"""DYN suite: dynamics / observations / environment wrapper against the Lean model.

(a) exhaustive breadth-first exploration of the reachable state graph of random small scenarios
    through `generative_step`, every flat action + no-op, the draw placed on both sides of the
    action's probability; every observable of every transition is compared with the model;
    frame conditions of `generative_step` (C13) are checked on the implementation itself;
(b) lock-step walks of the 8 mode combinations through `step` with resets interleaved,
    compared with the model's `Env` (and with each other, C12).

A mismatch is classified by evaluating the Lean predicates C01..C08 on the *implementation's*
transition (driver request `P`).
"""
import sys, os, json, random, collections, time, itertools, traceback
import numpy as np
import common as C
from common import (NASimEnv, NoOp, Exploit, PrivilegeEscalation, ServiceScan, OSScan, SubnetScan,
                    ProcessScan, SEP)
import scen_gen

DR = C.Draw()

OWNER_HEAD = {"draws": "C07", "success": "C02", "value": "C05", "conn": "C02", "perm": "C02",
              "undef": "C07", "svc_info": "C08", "os_info": "C08", "proc_info": "C08",
              "access_info": "C08", "discovered": "C03", "newly": "C03", "reward": "C05",
              "done": "C06"}
OWNER_COL = {"addr": "C04", "comp": "C01", "reach": "C03", "disc": "C03", "access": "C01",
             "value": "C04", "dvalue": "C04", "os": "C04", "svc": "C04", "proc": "C04"}
PRED_IDS = ["C01", "C02", "C03", "C04", "C05", "C06", "C07", "C08", "C09"]


def take_opt(xs, i):
    k = xs[i]
    if k < 0:
        return None, i + 1
    return xs[i + 1:i + 1 + k], i + 1 + k


def take_counted(xs, i):
    k = xs[i]
    return xs[i + 1:i + 1 + k], i + 1 + k


def parse_head(xs):
    d = dict(draws=xs[0], success=xs[1], value=xs[2], conn=xs[3], perm=xs[4], undef=xs[5])
    i = 6
    d["svc_info"], i = take_opt(xs, i)
    d["os_info"], i = take_opt(xs, i)
    d["proc_info"], i = take_opt(xs, i)
    d["access_info"] = xs[i]; i += 1
    d["discovered"], i = take_counted(xs, i)
    d["newly"], i = take_counted(xs, i)
    d["reward"] = xs[i]; d["done"] = xs[i + 1]
    assert i + 2 == len(xs), (i, len(xs))
    return d


def parse_rows(xs):
    rows = []
    i = 0
    while i < len(xs):
        r = dict(addr=(xs[i], xs[i + 1]), comp=xs[i + 2], reach=xs[i + 3], disc=xs[i + 4],
                 access=xs[i + 5], value=xs[i + 6], dvalue=xs[i + 7])
        i += 8
        r["os"], i = take_counted(xs, i)
        r["svc"], i = take_counted(xs, i)
        r["proc"], i = take_counted(xs, i)
        rows.append(r)
    return rows


def diff_fields(impl, model):
    """list of (field, owner) in which two Q-format int lists differ"""
    if impl == model:
        return []
    pi, pm = C.split_sep(impl), C.split_sep(model)
    out = []
    try:
        hi, hm = parse_head(pi[0]), parse_head(pm[0])
        for k in hi:
            if hi[k] != hm[k]:
                out.append((k, OWNER_HEAD[k]))
        ri, rm = parse_rows(pi[1]), parse_rows(pm[1])
        if len(ri) != len(rm):
            out.append(("rows", "C04"))
        for a, b in zip(ri, rm):
            for k in a:
                if a[k] != b[k]:
                    out.append((f"row{a['addr']}.{k}", OWNER_COL[k]))
        if pi[2] != pm[2]:
            out.append(("raw_tensor", "C09"))
        if pi[3] != pm[3]:
            out.append(("obs_full", "C08"))
        if pi[4] != pm[4]:
            out.append(("obs_partial", "C08"))
    except Exception as e:          # malformed output: charge to layout
        out.append((f"unparsable:{e}", "C09"))
    if not out:
        out.append(("unknown", "C09"))
    return out


def outcome_class(a, info):
    k = type(a).__name__
    if info["success"]:
        o = "success"
    elif info["connection_error"]:
        o = "conn"
    elif info["permission_error"]:
        o = "perm"
    elif info["undefined_error"]:
        o = "chance"
    else:
        o = "hostpre"
    return f"{k}:{o}"


def placements(p):
    one = float(np.nextafter(1.0, 0.0))
    us = {0.0, one}
    if p < 1.0:
        us.add(float(p))
        us.add(float(np.nextafter(p, 2.0)))
    else:
        us.add(0.5)
    return sorted(us)


class ImplFrameError(Exception):
    pass


def impl_record(sc, envF, envP, st, a, uval, frame_log):
    """run generative_step on both observability modes, return the Q-format ints; check the
    frame conditions of C13 on the way"""
    before = st.tensor.tobytes()
    curF = envF.current_state.tensor.tobytes(); lastF = envF.last_obs.tensor.tobytes()
    stepsF = envF.steps
    DR.v = uval; DR.n = 0
    ns, obs, rew, done, info = envF.generative_step(st, a)
    n_draws = DR.n
    DR.v = uval; DR.n = 0
    ns2, obs2, rew2, done2, info2 = envP.generative_step(st, a)
    if st.tensor.tobytes() != before:
        frame_log.append("argument state modified by generative_step")
    if envF.current_state.tensor.tobytes() != curF:
        frame_log.append("current_state modified by generative_step")
    if envF.last_obs.tensor.tobytes() != lastF:
        frame_log.append("last_obs modified by generative_step")
    if envF.steps != stepsF:
        frame_log.append("steps modified by generative_step")
    if ns is st or np.shares_memory(ns.tensor, st.tensor):
        frame_log.append("next state shares storage with its input")
    if np.shares_memory(obs.tensor, ns.tensor) or np.shares_memory(obs.tensor, st.tensor):
        frame_log.append("observation shares storage with a state")
    if DR.n != n_draws or not np.array_equal(ns2.tensor, ns.tensor) or rew != rew2 \
            or done != done2 or C.result_ints(envF, info) != C.result_ints(envP, info2):
        frame_log.append("observability mode changed the dynamics")
    H = len(sc.hosts)
    rec = ([n_draws] + C.result_ints(envF, info) + [C.sv(rew), int(bool(done))]
           + [SEP] + C.row_ints(envF, ns)
           + [SEP] + C.tensor_ints(sc, ns.tensor, H)
           + [SEP] + C.tensor_ints(sc, obs.numpy(), H)
           + [SEP] + C.tensor_ints(sc, obs2.numpy_flat(), H))
    return rec, ns, info


ORIG_RAND = np.random.mtrand._rand.rand          # NumPy's global generator, whatever np.random.rand has been replaced by
REVISIT = 4
ARBITRARY = 6
PARAM_STATES = 5


def handmade_actions(sc):
    """action objects built by hand rather than taken from the action space - `step` and `generative_step` accept any
    `Action`: required access NONE or ROOT instead of the USER every listed action carries, on the first and the last
    host (the properties quantify over every action, not over the listed ones)"""
    from nasim.envs.utils import AccessLevel
    out = []
    addrs = list(sc.hosts)
    for t in {addrs[0], addrs[-1]}:
        out.append(ProcessScan(t, sc.process_scan_cost, req_access=AccessLevel.NONE))
        out.append(SubnetScan(t, sc.subnet_scan_cost, req_access=AccessLevel.NONE))
        out.append(ServiceScan(t, sc.service_scan_cost, req_access=AccessLevel.ROOT))
        out.append(OSScan(t, sc.os_scan_cost, req_access=AccessLevel.NONE))
        for name, d in list(sc.exploits.items())[:1]:
            out.append(Exploit(name, t, req_access=AccessLevel.ROOT, **d))
            out.append(Exploit(name, t, req_access=AccessLevel.NONE, **d))
        for name, d in list(sc.privescs.items())[:1]:
            out.append(PrivilegeEscalation(name, t, req_access=AccessLevel.NONE, **d))
            out.append(PrivilegeEscalation(name, t, req_access=AccessLevel.ROOT, **d))
    return out


def explore(sc, max_states, res):
    """BFS through generative_step; returns (queries, impl records, states)"""
    envF = NASimEnv(sc, fully_obs=True, flat_actions=True, flat_obs=False)
    envP = NASimEnv(sc, fully_obs=False, flat_actions=True, flat_obs=True)
    s0 = envF.current_state
    seen = {tuple(C.dyn_of(envF, s0)): s0}
    queue = collections.deque([s0])
    acts = list(envF.action_space.actions) + [NoOp()] + handmade_actions(sc)
    toks = [C.def_tokens(sc, a) for a in acts]           # the actions as the scenario defines them
    defprob = [float(C.Fraction(t[4])) if not isinstance(t[4], float) else t[4] for t in toks]
    queries, records, meta = [], [], []
    frame_log = []
    while queue:
        st = queue.popleft()
        d0 = C.dyn_of(envF, st)
        for a, tk, dp in zip(acts, toks, defprob):
            for uval in sorted(set(placements(a.prob)) | set(placements(dp))):
                rec, ns, info = impl_record(sc, envF, envP, st, a, uval, frame_log)
                queries.append("Q " + " ".join(map(str, d0 + tk + [C.fr(uval)])))
                records.append(rec)
                meta.append(outcome_class(a, info))
                k = tuple(C.dyn_of(envF, ns))
                if k not in seen and len(seen) < max_states:
                    seen[k] = ns
                    queue.append(ns)
    # second pass: the same environment objects have by now seen every explored state; the earliest
    # states (fewest compromised hosts) are stepped again, so that anything the implementation
    # remembers across calls (memo tables, caches keyed without the state) meets a state it does not fit
    early = list(seen.values())[:REVISIT]
    first = {q: r for q, r in zip(queries, records)}
    for st in reversed(early):
        d0 = C.dyn_of(envF, st)
        for a, tk in zip(acts, toks):
            for uval in (0.0, float(np.nextafter(1.0, 0.0))):
                rec, ns, info = impl_record(sc, envF, envP, st, a, uval, frame_log)
                q = "Q " + " ".join(map(str, d0 + tk + [C.fr(uval)]))
                if q in first and first[q] != rec:
                    frame_log.append("generative_step is not a function of (state, action, draw): the same call "
                                     "returned something else after other states had been stepped")
                queries.append(q)
                records.append(rec)
                meta.append(outcome_class(a, info))
    # third pass: fresh environment objects that have never stepped anything are handed the deepest
    # explored states (most compromised hosts): whatever the implementation tracks on the side
    # while it steps (sets of "hosts compromised so far", ...) is missing there
    envF2 = NASimEnv(sc, fully_obs=True, flat_actions=True, flat_obs=False)
    envP2 = NASimEnv(sc, fully_obs=False, flat_actions=True, flat_obs=True)
    late = list(seen.values())[-REVISIT:]
    for st in late:
        d0 = C.dyn_of(envF, st)
        for a, tk in zip(acts, toks):
            rec, ns, info = impl_record(sc, envF2, envP2, st, a, 0.0, frame_log)
            q = "Q " + " ".join(map(str, d0 + tk + [C.fr(0.0)]))
            if q in first and first[q] != rec:
                frame_log.append("generative_step is not a function of (state, action, draw): a fresh environment "
                                 "of the same scenario returned something else for the same call")
            queries.append(q)
            records.append(rec)
            meta.append(outcome_class(a, info))
    # fourth pass: arbitrary states. The theorems quantify over every state with distinct addresses
    # and access <= ROOT, not only over reachable ones, and `generative_step` accepts any state:
    # rows with random compromised / reachable / discovered flags and access levels reach the
    # branches no history from the initial state leads to (e.g. a compromised host without access)
    rng = random.Random(len(queries) * 7919 + len(sc.hosts))
    for _ in range(ARBITRARY):
        st = s0.copy()
        for addr in envF.network.address_space:
            h = st.get_host(addr)
            h.compromised = rng.random() < 0.5
            h.reachable = rng.random() < 0.6
            h.discovered = rng.random() < 0.6
            h.access = rng.choice([0, 0, 1, 2])
        d0 = C.dyn_of(envF, st)
        for a, tk in zip(acts, toks):
            for uval in (0.0, float(np.nextafter(1.0, 0.0))):
                rec, ns, info = impl_record(sc, envF, envP, st, a, uval, frame_log)
                queries.append("Q " + " ".join(map(str, d0 + tk + [C.fr(uval)])))
                records.append(rec)
                meta.append(outcome_class(a, info))
    # fifth pass: the parameterised action space as the entry point. The vector that documents an action (type,
    # target, OS, service, process) must lead to the transition of that action: whatever the vector loses or changes
    # on its way through `get_action` (an OS constraint, a cost, a probability, the access granted) shows as a
    # transition the model's step of the documented action does not make - judged by the same predicates C01..C08
    envFV = NASimEnv(sc, fully_obs=True, flat_actions=False, flat_obs=False)
    envPV = NASimEnv(sc, fully_obs=False, flat_actions=False, flat_obs=True)
    n_listed = len(envF.action_space.actions)             # only listed actions have a documenting vector
    vecs = [param_vector(sc, a) if i < n_listed else None for i, a in enumerate(acts)]
    pool = list(seen.values())
    sample = pool[:2] + pool[-PARAM_STATES:] + [st]           # earliest, deepest, and the last arbitrary state
    done_keys = set()
    for stv in sample:
        d0 = C.dyn_of(envF, stv)
        if tuple(d0) in done_keys:
            continue
        done_keys.add(tuple(d0))
        for a, tk, v in zip(acts, toks, vecs):
            if v is None:
                continue
            arg = list(v) if len(queries) % 2 else np.array(v)
            rec, ns, info = impl_record(sc, envFV, envPV, stv, arg, 0.0, frame_log)
            queries.append("Q " + " ".join(map(str, d0 + tk + [C.fr(0.0)])))
            records.append(rec)
            meta.append(outcome_class(a, info))
    res["frame_violations"] += [dict(what=w) for w in sorted(set(frame_log))]
    return queries, records, meta, len(seen), envF


def p_request(q, rec):
    """P request for a transition observed from the implementation"""
    parts = C.split_sep(rec)
    body = parts[0] + [SEP] + parts[1] + [SEP] + parts[3] + [SEP] + parts[4]
    return "P " + q[2:] + " " + " ".join(map(str, body))


# ----------------------------------------------------------------------------- walks (8 modes)

def param_vector(sc, a):
    """the vector of the parameterised space that documents action `a`, or None when the
    scenario's first-definition-wins maps shadow it"""
    T = {Exploit: 0, PrivilegeEscalation: 1, ServiceScan: 2, OSScan: 3, SubnetScan: 4,
         ProcessScan: 5}
    if isinstance(a, NoOp):
        return None
    v = [T[type(a)], a.target[0] - 1, a.target[1], 0, 0, 0]
    if isinstance(a, Exploit):
        v[3] = 0 if a.os is None else sc.os.index(a.os) + 1
        v[4] = sc.services.index(a.service)
        d = sc.exploit_map.get(a.service, {}).get(a.os)
        if d is None or d["name"] != a.name:
            return None
    if isinstance(a, PrivilegeEscalation):
        if a.process is None:
            return None
        v[3] = 0 if a.os is None else sc.os.index(a.os) + 1
        v[5] = sc.processes.index(a.process)
        d = sc.privesc_map.get(a.process, {}).get(a.os)
        if d is None or d["name"] != a.name:
            return None
    return v


def walk(sc, rng, length, res):
    """lock-step walk of all 8 mode combinations; returns model E requests + impl records"""
    modes = list(itertools.product([True, False], [True, False], [True, False]))
    if getattr(sc, "_bench", None) is not None:
        # benchmark scenarios: the eight environments come from the package's top-level entry point, flags and all
        import nasim
        np.random.rand = ORIG_RAND           # a generated benchmark is generated again here: with NumPy's own generator
        try:
            envs = {m: nasim.make_benchmark(sc._bench[0], sc._bench[1], fully_obs=m[0], flat_actions=m[1], flat_obs=m[2])
                    for m in modes}
        finally:
            np.random.rand = DR
    else:
        envs = {m: NASimEnv(sc, fully_obs=m[0], flat_actions=m[1], flat_obs=m[2]) for m in modes}
    ref = envs[(True, True, False)]
    acts = ref.action_space.actions
    H = len(sc.hosts)
    ops = []                       # model ops
    implF, implP = [], []          # per-op records for fully / partially observable
    cross = []
    older = []                     # stored older states for generative_step on non-current states

    def snapshot(tag, outs):
        # outs: mode -> (obs, reward, done, trunc, info) or (obs, info) for reset
        for fo, dest in ((True, implF), (False, implP)):
            m = (fo, True, False)
            e = envs[m]
            o = outs[m]
            if tag == "reset":
                head = [e.steps, 0, int(bool(e.goal_reached())), 0, 0]
            else:
                head = [e.steps, int(bool(o[3])), int(bool(o[2])), C.sv(o[1]), o[5]]
            dest.append(head + C.dyn_of(e, e.current_state) + [SEP]
                        + C.tensor_ints(sc, e.last_obs.numpy(), H) + [SEP])
        # cross-mode comparisons (C12) and shape facts (C09/C10)
        base = envs[(True, True, False)]
        for m, e in envs.items():
            if not np.array_equal(e.current_state.tensor, base.current_state.tensor):
                cross.append(f"state differs in mode {m}")
            if e.steps != base.steps:
                cross.append(f"steps differ in mode {m}")
            o = outs[m]
            if tag == "step":
                ob = outs[(True, True, False)]
                if (o[1] != ob[1]) or (o[2] != ob[2]) or (o[3] != ob[3]) \
                        or C.result_ints(e, o[4]) != C.result_ints(base, ob[4]) or o[5] != ob[5]:
                    cross.append(f"reward/done/truncated/info/draws differ in mode {m}")
                    if o[1] != ob[1] and C.result_ints(e, o[4]) == C.result_ints(base, ob[4]):
                        # same value gained, different reward: the cost charged in this mode is not
                        # the cost the scenario defines (the flat modes are compared with the model)
                        cross.append(f"C05: reward in mode {m} is not value minus the scenario's cost")
            obs = o[0]
            twin = outs[(m[0], True, False)][0]
            if m[2]:
                if obs.ndim != 1 or not np.array_equal(obs, twin.flatten()):
                    cross.append(f"1D observation is not the flattening of the 2D one in mode {m}")
            else:
                if obs.ndim != 2 or not np.array_equal(obs, twin):
                    cross.append(f"2D observation differs between action modes in mode {m}")

    outs = {m: e.reset() for m, e in envs.items()}
    ops.append("0")
    snapshot("reset", outs)
    paid_host, paid_disc = set(), set()      # C05 "every value is paid once" along the episode
    for _ in range(length):
        r = rng.random()
        if r < 0.06:
            outs = {m: e.reset() for m, e in envs.items()}
            ops.append("0")
            snapshot("reset", outs)
            paid_host, paid_disc = set(), set()
            continue
        # choose an action expressible in both spaces, biased towards discovered targets
        for _try in range(20):
            idx = rng.randrange(len(acts))
            a = acts[idx]
            vec = param_vector(sc, a)
            if vec is None:
                continue
            if ref.current_state.host_discovered(a.target) or rng.random() < 0.15:
                break
        else:
            continue
        noop = rng.random() < 0.07
        if noop:
            # the no-op as an Action object (accepted by step in both action modes); its fixed target (1, 0) may well
            # be undiscovered or unreachable at this point
            a, idx, vec = NoOp(), None, None
        uval = rng.choice(placements(a.prob))
        if 0.06 <= r < 0.12:
            # documented side-effect-free public calls in mid-episode must not change what follows
            for m, e in envs.items():
                cur = e.current_state.tensor.tobytes(); steps = e.steps
                e.generate_initial_state()
                if m[1]:
                    e.get_action_mask()          # defined for the flat action space only
                e.goal_reached()
                if e.current_state.tensor.tobytes() != cur or e.steps != steps:
                    cross.append("generate_initial_state / get_action_mask / goal_reached disturbed the environment")
        if r > 0.9 and older and not noop:
            # generative_step on a stored older state must not disturb the walk (C13)
            st_old = rng.choice(older)
            e = envs[(False, True, True)]
            cur = e.current_state.tensor.tobytes(); steps = e.steps
            DR.v = uval
            e.generative_step(st_old, idx)
            if e.current_state.tensor.tobytes() != cur or e.steps != steps:
                cross.append("generative_step on an older state disturbed the environment")
        outs = {}
        for m, e in envs.items():
            DR.v = uval; DR.n = 0
            if noop:
                arg = a
            else:
                arg = idx if m[1] else list(vec)
                if rng.random() < 0.5:
                    arg = np.int64(idx) if m[1] else np.array(vec)
            # step must equal generative_step + install (C13)
            st_before = e.current_state
            DR.v = uval
            g = e.generative_step(st_before, arg)
            DR.v = uval; DR.n = 0
            o = e.step(arg)
            outs[m] = tuple(o) + (DR.n,)
            if not (np.array_equal(g[0].tensor, e.current_state.tensor)
                    and np.array_equal(g[1].tensor, e.last_obs.tensor)
                    and g[2] == o[1] and g[3] == o[2]
                    and C.result_ints(e, g[4]) == C.result_ints(e, o[4])):
                cross.append(f"step disagrees with generative_step in mode {m}")
        # episode-level monitor of C05 on the implementation: a host's value / discovery value is
        # gained at most once between two resets
        info_ref = outs[(True, True, False)][4]
        if isinstance(a, (Exploit, PrivilegeEscalation)) and info_ref["success"] and float(info_ref["value"]) != 0.0:
            if a.target in paid_host:
                cross.append(f"C05: the value of host {a.target} was gained a second time in one episode")
            paid_host.add(a.target)
        for addr, new in (info_ref.get("newly_discovered") or {}).items():
            if new:
                if addr in paid_disc:
                    cross.append(f"C05: host {addr} was newly discovered (and paid) twice in one episode")
                paid_disc.add(addr)
        older.append(ref.current_state)
        if len(older) > 8:
            older.pop(0)
        ops.append("1 " + " ".join(map(str, C.def_tokens(sc, a) + [C.fr(uval)])))
        snapshot("step", outs)
    res["cross_mode"] += [dict(what=w) for w in sorted(set(cross))]
    reqs = [f"E {fo} {len(ops)} " + " ".join(ops) for fo in (1, 0)]
    flat = lambda recs: [x for r in recs for x in r]
    return reqs, [flat(implF), flat(implP)], len(ops)


# ----------------------------------------------------------------------------- per scenario

def run_scenario(args):
    seed, idx, max_states, walk_len, kind = args
    np.random.rand = ORIG_RAND               # scenarios are generated with NumPy's own generator ...
    rng = random.Random(f"{seed}-{idx}-{kind}")
    res = dict(idx=idx, transitions=0, states=0, walk_ops=0, mismatches=[], frame_violations=[],
               cross_mode=[], outcomes=collections.Counter(), untranslatable=0, shape=None,
               hosts=0, error=None, sample=None)
    try:
        if kind == "random":
            sc = scen_gen.rand_scenario(rng)
        else:
            sc = kind_scenario(kind, rng)
            if idx % 2 == 0:
                # the package's other two top-level entry points hand their mode flags to the environment they build
                import nasim, os
                ypath = os.path.join(C.REPO, "nasim", "scenarios", "benchmark", "tiny.yaml")
                res["entry_points"] = (C.entry_point_flags(lambda **kw: nasim.load(ypath, **kw), "nasim.load")
                                       + C.entry_point_flags(lambda **kw: nasim.generate(5, 2, seed=1, **kw), "nasim.generate")
                                       + C.gym_registrations())
        np.random.rand = DR                  # ... and stepped with the draw under the harness' control
        res["shape"] = getattr(sc, "_shape", kind)
        res["hosts"] = len(sc.hosts)
        lines = C.scenario_lines(sc)
        queries, records, meta, nstates, envF = explore(sc, max_states, res)
        wreqs, wrecs, nops = walk(sc, rng, walk_len, res)
        out = C.run_driver(lines + queries + wreqs)
        assert len(out) == len(queries) + len(wreqs), (len(out), len(queries), len(wreqs))
        res["transitions"] = len(queries); res["states"] = nstates; res["walk_ops"] = 2 * nops
        for m in meta:
            res["outcomes"][m] += 1
        bad = []
        for q, rec, line in zip(queries, records, out):
            got = C.parse_reply(line)
            if got != rec:
                bad.append((q, rec, got))
        preds = {}
        if bad:
            pl = C.run_driver(lines + [p_request(q, rec) for q, rec, _ in bad[:200]])
            for (q, _, _), l in zip(bad[:200], pl):
                preds[q] = C.parse_reply(l)
        for q, rec, got in bad[:200]:
            pb = preds.get(q)
            false_preds = [PRED_IDS[i] for i, v in enumerate(pb or []) if v == 0] \
                if pb and all(isinstance(v, int) for v in pb) and len(pb) == len(PRED_IDS) else None
            res["mismatches"].append(dict(
                fields=diff_fields(rec, got), query=q, impl=rec, model=got,
                false_predicates=false_preds, scenario=scen_gen.describe(sc), wire=lines))
        if len(bad) > 200:
            res["mismatches_truncated"] = len(bad)
        for fo, rec, line in zip((1, 0), wrecs, out[len(queries):]):
            got = C.parse_reply(line)
            if got != rec:
                res["mismatches"].append(dict(
                    fields=[("env_walk", "ENV")], query=f"E fully_obs={fo}", impl=rec[:400],
                    model=got[:400], impl_full=rec, model_full=got, false_predicates=None, scenario=scen_gen.describe(sc),
                    wire=lines, walk=wreqs[1 - fo],
                    first_diff=next((i for i, (x, y) in enumerate(zip(rec, got)) if x != y),
                                    min(len(rec), len(got)))))
        if res["sample"] is None and queries:
            res["sample"] = dict(scenario=scen_gen.describe(sc), query=queries[len(queries) // 2])
    except C.Untranslatable as e:
        res["untranslatable"] += 1
        res["error"] = f"untranslatable: {e}"
    except C.ImplLayout as e:
        res["impl_exception"] = C.layout_finding(e, "dynamics exploration", dict(scenario_index=idx, scenario_kind=kind))
    except C.ImplAction as e:
        res["impl_exception"] = C.action_finding(e, "dynamics exploration", dict(scenario_index=idx, scenario_kind=kind))
    except Exception as e:
        if C.raised_by_implementation(e):
            res["impl_exception"] = C.impl_exception_finding(
                e, "dynamics exploration", dict(scenario_index=idx, scenario_kind=kind))
        else:
            res["error"] = "".join(traceback.format_exception(type(e), e, e.__traceback__))[-3000:]
    res["outcomes"] = dict(res["outcomes"])
    return res


def kind_scenario(kind, rng):
    """shipped / generated benchmark scenarios for random-walk coverage"""
    name, seed = kind.split("@")
    sc = nasim_make(name, int(seed))
    sc._shape = name
    sc._bench = (name, int(seed))
    return sc


def nasim_make(name, seed):
    import nasim
    return nasim.make_benchmark_scenario(name, seed)


# ----------------------------------------------------------------------------- aggregation

def split_ops(xs):
    """E-format stream → list of (head5, dyn, obs)"""
    ops, cur, part = [], [], 0
    parts = C.split_sep(xs)
    # stream = head+dyn SEP obs SEP head+dyn SEP obs SEP ... (trailing empty part)
    for i in range(0, len(parts) - 1, 2):
        hd = parts[i]
        ops.append((hd[:5], hd[5:], parts[i + 1]))
    return ops


def diff_walk(impl, model, ops_line):
    """fields (name, owner) of the first differing operation of an environment walk"""
    oi, om = split_ops(impl), split_ops(model)
    kinds = []
    toks = ops_line.split()[3:]
    i = 0
    while i < len(toks):
        if toks[i] == "0":
            kinds.append("reset"); i += 1
        else:
            kinds.append("step"); i += 12
    for k, (a, b) in enumerate(zip(oi, om)):
        if a == b:
            continue
        kind = kinds[k] if k < len(kinds) else "?"
        out = []
        names = ["steps", "truncated", "done", "reward", "draws"]
        owners = ["C06", "C06", "C06", "C05", "C07"]
        for j in range(5):
            if a[0][j] != b[0][j]:
                own = owners[j]
                if kind == "reset" and names[j] == "steps":
                    own = "C04"
                out.append((f"op{k}:{kind}.{names[j]}", own))
        if a[1] != b[1]:
            out.append((f"op{k}:{kind}.state", "C04" if kind == "reset" else "C13"))
        if a[2] != b[2]:
            out.append((f"op{k}:{kind}.last_obs", "C08"))
        return out
    return [("walk_length", "C13")]


CROSS_OWNER = [("C05:", "C05"), ("1D observation", "C09"), ("step disagrees", "C13"), ("older state", "C13"),
               ("disturbed the environment", "C13"),
               ("", "C12")]


def attribute(res_list):
    """turn per-scenario results into findings per property"""
    findings = []
    drift = []      # disagreements on which every step predicate holds
    for r in res_list:
        for m in r["mismatches"]:
            fields = [tuple(f) for f in m["fields"]]
            if fields and fields[0][1] == "ENV":
                fields = diff_walk(m["impl_full"], m["model_full"], m["walk"])
            fp = m.get("false_predicates")
            replay = dict(kind="dyn-transition", scenario=m["scenario"], wire=m["wire"],
                          query=m["query"], impl_output=m["impl"][:600],
                          model_output=m["model"][:600], differing_fields=fields,
                          false_predicates=fp, scenario_index=r["idx"])
            if fp:
                for pid in fp:
                    findings.append(dict(property=pid, kind="failing-input",
                                         what=f"predicate {pid} is false on the implementation's "
                                              f"transition; fields {fields[:4]}", replay=replay))
                # properties that own a differing field but whose predicate holds are not charged
            else:
                # in a walk, what reset() leaves behind (state, counter: C04_env_reset; initial observation:
                # C08_initial) and the step counter / step-limit flag (C06_counter, C06_truncated) are stated outright
                # by theorems of the model: a difference there is a failing input of that property, not mere drift
                exact = [(n, o) for n, o in fields
                         if (":reset." in n and n.rsplit(".", 1)[-1] in ("state", "steps", "last_obs"))
                         or (":step." in n and n.rsplit(".", 1)[-1] in ("steps", "truncated"))]
                for pid in sorted(set(o for _, o in exact)):
                    findings.append(dict(property=pid, kind="failing-input",
                                         what=f"environment walk: implementation and model differ in {[n for n, o in exact if o == pid][:3]}",
                                         replay=dict(replay, kind="dyn-walk")))
                for pid in sorted(set(o for _, o in fields) - set(o for _, o in exact)):
                    drift.append(dict(property=pid, kind="correspondence",
                                      what=f"model and implementation differ in {fields[:4]}",
                                      replay=replay))
        for own, what in r.get("entry_points", []):
            findings.append(dict(property=own, kind="failing-input", what=what,
                                 replay=dict(kind="entry-point", what=what)))
        for fv in r["frame_violations"]:
            findings.append(dict(property="C13", kind="failing-input", what=fv["what"],
                                 replay=dict(kind="frame", scenario_index=r["idx"], what=fv["what"])))
        for cm in r["cross_mode"]:
            own = next(o for key, o in CROSS_OWNER if key in cm["what"])
            findings.append(dict(property=own, kind="failing-input", what=cm["what"],
                                 replay=dict(kind="cross-mode", scenario_index=r["idx"],
                                             what=cm["what"])))
    # A disagreement on which all predicates C01..C08 hold is charged to the owners of the
    # differing observables as a broken correspondence (no failing input) -- unless this run also
    # found concrete predicate violations: then the drift is the same code change seen on inputs
    # where no property is violated, and charging it to further properties would be a false alarm.
    if not any(f["kind"] == "failing-input" and f["replay"].get("kind") == "dyn-transition"
               for f in findings):
        findings += drift
    findings += [r["impl_exception"] for r in res_list if r.get("impl_exception")]
    return findings


BUDGET = {"quick": dict(n_random=56, max_states=120, walk_len=50, bench=["tiny@0", "small-gen@3"],
                        bench_states=2, bench_walk=40),
          "thorough": dict(n_random=1200, max_states=400, walk_len=200,
                           bench=["tiny@0", "tiny-hard@0", "tiny-small@0", "small@0",
                                  "small-honeypot@0", "small-linear@0", "medium@0",
                                  "medium-single-site@0", "medium-multi-site@0", "tiny-gen@1",
                                  "tiny-gen-rgoal@2", "small-gen@3", "small-gen-rgoal@4",
                                  "medium-gen@5", "large-gen@6", "huge-gen@7"],
                           bench_states=3, bench_walk=300)}


def stamp_cases(findings, tasks):
    by_idx = {t[1]: t for t in tasks}
    for f in findings:
        idx = f.get("replay", {}).get("scenario_index")
        if idx in by_idx:
            f["replay"]["case"] = dict(suite="dyn", fn="run_scenario", task=list(by_idx[idx]))
    return findings


def run(tier, seed):
    import runner
    b, tier = runner.budget(BUDGET, tier)
    tasks = [(seed, i, b["max_states"], b["walk_len"], "random") for i in range(b["n_random"])]
    tasks += [(seed, 100000 + i, b["bench_states"], b["bench_walk"], k)
              for i, k in enumerate(b["bench"])]
    rs = runner.pmap(run_scenario, tasks)
    outcomes, shapes, hosts = collections.Counter(), collections.Counter(), collections.Counter()
    for r in rs:
        outcomes.update(r["outcomes"]); shapes[r["shape"]] += 1; hosts[str(r["hosts"])] += 1
    errors = [dict(idx=r["idx"], error=r["error"]) for r in rs
              if r["error"] and not r["error"].startswith("untranslatable")]
    samples = [r["sample"] for r in rs if r.get("sample")][:3]
    return dict(suite="dyn", tier=tier, seed=seed, scenarios=len(rs),
                transitions=sum(r["transitions"] for r in rs),
                states=sum(r["states"] for r in rs),
                walk_ops=sum(r["walk_ops"] for r in rs),
                untranslatable=sum(r["untranslatable"] for r in rs),
                outcomes=dict(outcomes), distinct_outcome_classes=len(outcomes),
                shapes=dict(shapes), hosts_hist=dict(hosts),
                findings=stamp_cases(attribute(rs), tasks), errors=errors, samples=samples)


if __name__ == "__main__":
    tier = sys.argv[1] if len(sys.argv) > 1 else "quick"
    seed = int(sys.argv[2]) if len(sys.argv) > 2 else 0
    t = time.time()
    r = run(tier, seed)
    print(json.dumps({k: v for k, v in r.items() if k not in ("findings", "samples")}, indent=1))
    print("findings", len(r["findings"]), [(f["property"], f["kind"], f["what"][:100]) for f in r["findings"][:10]])
    print("wall", time.time() - t)
