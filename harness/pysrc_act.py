"""T1 source translator, third world: action classes and action spaces.

`translate_actions()` reads the source text (ast) of

  nasim/envs/action.py         Action.__init__ and the `__init__` of Exploit, PrivilegeEscalation, ServiceScan, OSScan,
                               SubnetScan, ProcessScan, NoOp; load_action_list; FlatActionSpace.get_action;
                               ParameterisedActionSpace: the class list `action_types`, the `nvec` of `__init__`,
                               get_action, _get_scan_action_def, _get_exploit_def, _get_privesc_def
  nasim/scenarios/scenario.py  Scenario.exploit_map, privesc_map, get_action_space_size
  nasim/envs/environment.py    NASimEnv.get_action_mask

and prints each as a Lean definition over the model's `Scenario` / `Action` records (`Generated/SrcAct.lean`).
Constructor calls are bound against the *signature* of the class's `__init__` (positional arguments, keywords,
`**dict`, defaults), `super().__init__(…)` calls the translated parent initialiser on the object under construction,
a class held in a variable (`a_class(target=…, **d)`) goes through a generated dispatcher over the six action
classes, nested dictionaries are association lists with write-through views (`m = d[k]; m[j] = v`).  OS / service /
process names are their positions in the scenario's lists (vocabulary).  `Props/SrcAct.lean` proves the model's
`flatActions`, `decodeParam`, `paramNvec`, `actionMask`, `Scenario.actionSpaceSize` equal to the translated functions.
"""
import ast, inspect, textwrap
import pysrc, pysrc_obs
from pysrc import Fn, World, Untranslatable, _methods
from pysrc_obs import TrRaw

LEAN_TYPE = pysrc.LEAN_TYPE
LEAN_TYPE.update({"Sc": "Scenario", "EDef": "ExploitDef", "PDef": "PrivescDef", "EDefs": "List ExploitDef",
                  "PDefs": "List PrivescDef", "Kw": "PyRt.KwDict", "OptKw": "Option PyRt.KwDict", "Kind": "Kind",
                  "ActList": "List Action", "NVec": "List Nat", "Unit": "Unit", "OptNat": "Option Nat",
                  "EMap": "List (Nat × List (Option Nat × PyRt.KwDict))",
                  "PMap": "List (Option Nat × List (Option Nat × PyRt.KwDict))",
                  "Inner": "List (Option Nat × PyRt.KwDict)", "Mask1": "List Int"})
PARAM_TY = {"name": "Unit", "target": "Addr", "cost": "Int", "prob": "Rat", "req_access": "Nat", "service": "Nat",
            "os": "OptNat", "access": "Nat", "process": "OptNat"}
KIND = {"NoOp": "noop", "ServiceScan": "svcScan", "OSScan": "osScan", "SubnetScan": "subnetScan",
        "ProcessScan": "procScan", "Exploit": "exploit", "PrivilegeEscalation": "privesc"}
ACTION_STORE = {"target": "target", "cost": "cost", "prob": "prob", "req_access": "req", "os": "os", "service": "svc",
                "access": "grant", "process": "proc", "name": None}
SC_ATTR = {
    "address_space": ("({o}.hosts.map (·.addr))", "List:Addr"),
    "service_scan_cost": ("{o}.svcScanCost", "Int"), "os_scan_cost": ("{o}.osScanCost", "Int"),
    "subnet_scan_cost": ("{o}.subnetScanCost", "Int"), "process_scan_cost": ("{o}.procScanCost", "Int"),
    "exploits": ("{o}.exploits", "EDefs"), "privescs": ("{o}.privescs", "PDefs"),
    "hosts": ("{o}.hosts", "Hosts"), "subnets": ("{o}.subnets", "Nats"),
    "os": ("{o}.nOs", "Names"), "services": ("{o}.nSvc", "Names"), "processes": ("{o}.nProc", "Names"),
    "num_os": ("{o}.nOs", "Nat"), "num_services": ("{o}.nSvc", "Nat"), "num_processes": ("{o}.nProc", "Nat"),
}
DEF_KEY = {("EDef", "service"): ("svc", "Nat"), ("EDef", "os"): ("os", "OptNat"), ("EDef", "cost"): ("cost", "Int"),
           ("EDef", "prob"): ("prob", "Rat"), ("EDef", "access"): ("access", "Nat"),
           ("PDef", "process"): ("proc", "OptNat"), ("PDef", "os"): ("os", "OptNat"), ("PDef", "cost"): ("cost", "Int"),
           ("PDef", "prob"): ("prob", "Rat"), ("PDef", "access"): ("access", "Nat")}
KW_FIELDS = {"name": "Unit", "service": "Nat", "process": "OptNat", "os": "OptNat", "cost": "Int", "prob": "Rat",
             "access": "Nat"}


class TrAct(TrRaw):
    # ---------------------------------------------------------------- helpers
    def const_key(self, node):
        """a dictionary key written as a string constant or as `u.NAME` (a constant of nasim.scenarios.utils)"""
        if isinstance(node, ast.Constant) and isinstance(node.value, str):
            return node.value
        if isinstance(node, ast.Attribute) and isinstance(node.value, ast.Name) and node.value.id == "u":
            v = self.w.ukeys.get(node.attr)
            if isinstance(v, str):
                return v
        return None

    def typed_const(self, node, ty):
        """a literal used where a parameter of type ty is expected"""
        if isinstance(node, ast.Constant):
            v = node.value
            if ty == "Unit":
                return "()"
            if v is None and ty == "OptNat":
                return "none"
            if isinstance(v, (int, float)) and not isinstance(v, bool) and v == int(v) and ty in ("Int", "Rat", "Nat"):
                return f"({int(v)} : {LEAN_TYPE[ty]})"
        if isinstance(node, ast.Attribute) and isinstance(node.value, ast.Name) and node.value.id == "AccessLevel" and ty == "Nat":
            return f"({self.w.access[node.attr]} : Nat)"
        if isinstance(node, ast.Tuple) and ty == "Addr" and all(isinstance(x, ast.Constant) for x in node.elts):
            return "(" + ", ".join(str(x.value) for x in node.elts) + ")"
        return None

    def arg(self, node, ty, env):
        if ty == "Unit":
            return "()"                                     # names of actions are not modelled
        c = self.typed_const(node, ty)
        if c is not None:
            return c
        o, t = self.expr(node, env)
        if t == "Num":
            return f"({o} : {LEAN_TYPE[ty]})"
        if t != ty and not (t == "Tuple" and ty == "Addr"):
            self.err(node, f"argument of type {t} where {ty} is expected")
        return o

    def bind_call(self, cls, args, keywords, env, node, skip_self=True):
        """the arguments of `cls.__init__` in signature order"""
        sig = self.w.sigs.get(cls) or self.err(node, f"constructor of {cls}")
        params, defaults = sig
        given = {}
        if len(args) > len(params):
            self.err(node, "too many positional arguments")
        for p, a in zip(params, args):
            given[p] = self.arg(a, PARAM_TY[p], env)
        star = None
        for kw in keywords:
            if kw.arg is None:
                if isinstance(kw.value, ast.Name) and env.get(kw.value.id, ("",))[0] == "kwargs":
                    continue                                # the function's own **kwargs: empty at every translated call
                o, t = self.expr(kw.value, env)
                if t == "OptKw":
                    o, t = f"({o}.getD default)", "Kw"      # behind `if d is None: return …`
                if t in ("EDef", "PDef") and star is None:
                    # a definition dictionary of the scenario: every key of the documented format is present
                    for (dt, key), (fld, _) in DEF_KEY.items():
                        if dt == t and key in params and key not in given:
                            given[key] = f"{o}.{fld}"
                    continue
                if t != "Kw" or star is not None:
                    self.err(node, f"**{t}")
                star = o
            else:
                if kw.arg not in params:
                    self.err(node, f"keyword {kw.arg}")
                given[kw.arg] = self.arg(kw.value, PARAM_TY[kw.arg], env)
        out = []
        for p in params:
            if p in given:
                out.append(given[p])
                continue
            d = defaults.get(p)
            dflt = self.typed_const(d, PARAM_TY[p]) if d is not None else None
            if star is not None and p in KW_FIELDS:
                out.append(f"({star}.{p}.getD {dflt if dflt is not None else 'default'})")
            elif dflt is not None:
                out.append(dflt)
            else:
                self.err(node, f"no argument for parameter {p} of {cls}")
        return " ".join(out)

    # ---------------------------------------------------------------- expressions
    def expr(self, e, env):
        if isinstance(e, ast.Name):
            if e.id in KIND and e.id not in env:
                return f"Kind.{KIND[e.id]}", "Kind"
            b = env.get(e.id)
            if b and b[0] == "view":
                return f"(PyRt.dget {b[1]} {b[2]})", "Inner"
        if isinstance(e, ast.Attribute):
            if isinstance(e.value, ast.Name) and e.value.id == "self" and e.attr.startswith("_") \
                    and env.get("self", ("", ""))[1] == "Sc" and e.attr in ("_e_map", "_pe_map"):
                return (e.attr, env[e.attr][1]) if e.attr in env else ("none", "None")
            o, t = self.expr(e.value, env)
            if t == "Sc":
                if e.attr in SC_ATTR:
                    tpl, rt = SC_ATTR[e.attr]
                    return tpl.format(o=o), rt
                fn = self.w.lookup("Sc", e.attr)
                if fn is not None and getattr(fn, "prop", False):
                    return f"({fn.lean} {o})", fn.ret
            if t == "ParamSpace":
                if e.attr == "scenario":
                    return o, "Sc"
                if e.attr == "action_types":
                    return "ParameterisedActionSpace.action_types", "Kinds"
            if t == "FlatSpace" and e.attr == "actions":
                return f"(load_action_list {o})", "ActList"
            if t == "FlatSpace" and e.attr == "n":
                return f"(load_action_list {o}).length", "Nat"
            if t == "Env" and e.attr == "action_space":
                return f"{o}.sc", "FlatSpace"
            return super().expr(e, env)
        if isinstance(e, ast.Subscript):
            o, t = self.expr(e.value, env)
            key = self.const_key(e.slice)
            if t in ("EDef", "PDef") and key is not None:
                fld, rt = DEF_KEY.get((t, key)) or self.err(e, f"key {key} of a definition")
                return f"{o}.{fld}", rt
            if t == "NVec":
                i, _ = self.expr(e.slice, env)
                return f"(PyRt.natAt {o} {i})", "Nat"
            if t == "Nats":
                i, _ = self.expr(e.slice, env)
                return f"(PyRt.natAt {o} {i})", "Nat"
            if t == "Names":
                # the i-th OS / service / process name is i
                i, _ = self.expr(e.slice, env)
                return i, "Nat"
            if t == "Kinds":
                i, _ = self.expr(e.slice, env)
                return f"({o}.getD {i} default)", "Kind"
            if t == "ActList":
                i, _ = self.expr(e.slice, env)
                return f"({o}.getD {i} default)", "Action"
            if t in ("EMap", "PMap"):
                k, kt = self.expr(e.slice, env)
                return f"(PyRt.dget {o} {self.key(k, kt, t)})", "Inner"
            if t == "Inner":
                k, kt = self.expr(e.slice, env)
                return f"(PyRt.dget {o} {self.key(k, kt, 'Inner')})", "Kw"
            return super().expr(e, env)
        if isinstance(e, ast.IfExp):
            c, ct = self.expr(e.test, env)
            a, ta = self.expr(e.body, env)
            b, tb = self.expr(e.orelse, env)
            if ta == "None" and tb == "Nat":
                return f"(if {self.as_bool(c, ct, e)} then none else some {b})", "OptNat"
            self.err(e, "conditional expression")
        if isinstance(e, ast.Dict):
            if not e.keys:
                return "[]", "EmptyDict"
            fields = []
            for k, v in zip(e.keys, e.values):
                key = self.const_key(k)
                if key not in KW_FIELDS:
                    self.err(e, f"dictionary key {ast.unparse(k)}")
                fields.append(f"{key} := some {self.arg(v, KW_FIELDS[key], env)}")
            return "({ " + ", ".join(fields) + " } : PyRt.KwDict)", "Kw"
        if isinstance(e, ast.BinOp) and isinstance(e.op, ast.Mod):
            a, _ = self.expr(e.left, env)
            b, _ = self.expr(e.right, env)
            return f"({a} % {b})", "Nat"
        if isinstance(e, ast.BinOp) and isinstance(e.op, ast.Mult):
            a, _ = self.expr(e.left, env)
            b, _ = self.expr(e.right, env)
            return f"({a} * {b})", "Nat"
        return super().expr(e, env)

    def key(self, k, kt, mapty):
        """a dictionary key of the type the map is keyed by"""
        want = "Nat" if mapty == "EMap" else "OptNat"
        if kt == want:
            return k
        if kt == "Nat" and want == "OptNat":
            return f"(some {k})"
        if kt == "None" and want == "OptNat":
            return "none"
        raise Untranslatable(f"{self.fn.cls}.{self.fn.name}: key of type {kt} in a {mapty}")

    def compare(self, e, env):
        op, l, r = e.ops[0], e.left, e.comparators[0]
        if isinstance(op, (ast.In, ast.NotIn)):
            c, ct = self.expr(r, env) if not isinstance(r, ast.Tuple) else (None, "TupleLit")
            if ct == "TupleLit":
                x, xt = self.expr(l, env)
                items = [self.expr(z, env) for z in r.elts]
                if xt != "Kind" or any(t != "Kind" for _, t in items):
                    self.err(e, "membership in a tuple")
                s = "([" + ", ".join(o for o, _ in items) + f"].contains {x})"
                return (s if isinstance(op, ast.In) else f"(!{s})"), "Bool"
            if ct in ("EMap", "PMap", "Inner"):
                x, xt = self.expr(l, env)
                s = f"(PyRt.dmem {c} {self.key(x, xt, ct)})"
                return (s if isinstance(op, ast.In) else f"(!{s})"), "Bool"
        if isinstance(op, (ast.Is, ast.IsNot)) and isinstance(r, ast.Constant) and r.value is None:
            o, t = self.expr(l, env)
            if t == "OptKw":
                return (f"{o}.isNone" if isinstance(op, ast.Is) else f"{o}.isSome"), "Bool"
        if isinstance(op, (ast.Eq, ast.NotEq)):
            a, ta = self.expr(l, env)
            b, tb = self.expr(r, env)
            if ta == "Kind" and tb == "Kind":
                return (f"({a} == {b})" if isinstance(op, ast.Eq) else f"({a} != {b})"), "Bool"
        return super().compare(e, env)

    def call(self, e, env):
        f = e.func
        text = ast.unparse(f)
        if text == "len" and len(e.args) == 1:
            o, t = self.expr(e.args[0], env)
            if t in ("EDefs", "PDefs", "Hosts", "Kinds", "Nats", "ActList"):
                return f"{o}.length", "Nat"
            if t == "Names":
                return o, "Nat"
            self.err(e, f"len of {t}")
        if text == "max" and len(e.args) == 1:
            o, t = self.expr(e.args[0], env)
            if t == "Nats":
                return f"(PyRt.maxNat {o})", "Nat"
        if text == "range" and len(e.args) == 1:
            o, _ = self.expr(e.args[0], env)
            return f"(List.range {o})", "List:Nat"
        if text in ("np.zeros", "numpy.zeros"):
            a, t = self.expr(e.args[0], env)
            return f"(PyRt.zeros1 {a})", "Vec"
        if text in KIND and text in self.w.sigs:
            args = self.bind_call(text, e.args, e.keywords, env, e)
            return f"({text}.__init__ {args})".replace(" )", ")"), "Action"
        if isinstance(f, ast.Name) and env.get(f.id, ("", ""))[1:] == ("Kind",):
            # a class held in a variable: dispatch over the action classes
            tgt = [kw for kw in e.keywords if kw.arg == "target"]
            star = [kw for kw in e.keywords if kw.arg is None]
            if e.args or len(tgt) != 1 or len(star) != 1 or len(e.keywords) != 2:
                self.err(e, "call of a class variable")
            t_, _ = self.expr(tgt[0].value, env)
            d, dt = self.expr(star[0].value, env)
            if dt == "OptKw":
                d = f"({d}.getD default)"
            elif dt != "Kw":
                self.err(e, f"**{dt}")
            return f"(construct {f.id} {t_} {d})", "Action"
        if isinstance(f, ast.Attribute) and f.attr == "items" and not e.args:
            o, t = self.expr(f.value, env)
            if t == "EDefs":
                return f"(PyRt.named {o})", "List:Nat*EDef"
            if t == "PDefs":
                return f"(PyRt.named {o})", "List:Nat*PDef"
        if isinstance(f, ast.Attribute):
            o, t = self.expr(f.value, env)
            if t == "State" and f.attr == "host_discovered":
                a, _ = self.expr(e.args[0], env)
                return f"(Src.State.host_discovered {o} {a})", "Bool"
            if t == "FlatSpace" and f.attr == "get_action":
                a, _ = self.expr(e.args[0], env)
                return f"(FlatActionSpace.get_action {o} {a})", "Action"
            fn = self.w.lookup(t, f.attr)
            if fn is not None and not fn.mutates and t in ("ParamSpace", "Sc"):
                parts = []
                for a, (pn, pt) in zip(e.args, fn.params):
                    ao, at = self.expr(a, env)
                    if at == "Nat" and pt == "OptNat":
                        ao = f"(some {ao})"                 # a name where a name-or-None is expected
                    elif at != pt and at != "Num":
                        self.err(e, f"argument of type {at} for parameter {pn} : {pt}")
                    parts.append(ao)
                if len(parts) != len(fn.params):
                    self.err(e, "number of arguments")
                return f"({fn.lean} {o} {' '.join(parts)})".replace(" )", ")"), fn.ret
        if text == "load_action_list":
            o, _ = self.expr(e.args[0], env)
            return f"(load_action_list {o})", "ActList"
        return super().call(e, env)

    # ---------------------------------------------------------------- statements
    def assigned(self, stmts, env):
        out = super().assigned(stmts, env)
        views = {k: v[1] for k, v in env.items() if v[0] == "view"}
        for st in stmts:
            for x in ast.walk(st):
                if isinstance(x, ast.Assign) and isinstance(x.targets[0], ast.Name) and isinstance(x.value, ast.Subscript) \
                        and isinstance(x.value.value, ast.Name) and env.get(x.value.value.id, ("", ""))[1:] in (("EMap",), ("PMap",)):
                    views[x.targets[0].id] = x.value.value.id
        res = []
        for v in out:
            v = views.get(v, v)
            if v not in res:
                res.append(v)
        return [v for v in res if v not in views]

    def assign(self, tgt, value, env, nxt, ind):
        pad = "  " * ind
        # self.<field> = v  inside a constructor
        if isinstance(tgt, ast.Attribute) and isinstance(tgt.value, ast.Name) and tgt.value.id == "self" \
                and env.get("self", ("", ""))[1] == "Action":
            if tgt.attr not in ACTION_STORE:
                self.err(tgt, "attribute of an action")
            fld = ACTION_STORE[tgt.attr]
            if fld is None:
                return nxt(env)                                       # the name of an action is not modelled
            o = self.arg(value, PARAM_TY[tgt.attr], env)
            return f"{pad}let self := {{ self with {fld} := {o} }}\n" + nxt(env)
        # the memo attributes of Scenario.exploit_map / privesc_map
        if isinstance(tgt, ast.Attribute) and isinstance(tgt.value, ast.Name) and tgt.value.id == "self" \
                and env.get("self", ("", ""))[1] == "Sc" and tgt.attr in ("_e_map", "_pe_map"):
            o, t = self.expr(value, env)
            env2 = dict(env)
            env2[tgt.attr] = ("val", t)
            return f"{pad}let {tgt.attr} := {o}\n" + nxt(env2)
        if isinstance(tgt, ast.Name) and isinstance(value, ast.Dict) and not value.keys:
            t = self.w.local_types.get((self.fn.name, tgt.id)) or self.err(tgt, "type of the empty dictionary")
            env2 = dict(env)
            env2[tgt.id] = ("val", t)
            return f"{pad}let {tgt.id} : {LEAN_TYPE[t]} := []\n" + nxt(env2)
        # m = d[k]  on a nested dictionary: a view that writes through
        if isinstance(tgt, ast.Name) and isinstance(value, ast.Subscript) and isinstance(value.value, ast.Name) \
                and env.get(value.value.id, ("", ""))[1:] in (("EMap",), ("PMap",)):
            k, kt = self.expr(value.slice, env)
            env2 = dict(env)
            env2[tgt.id] = ("view", value.value.id, self.key(k, kt, env[value.value.id][1]))
            return nxt(env2)
        if isinstance(tgt, ast.Subscript) and isinstance(tgt.value, ast.Name):
            b = env.get(tgt.value.id)
            if b and b[0] == "view":
                k, kt = self.expr(tgt.slice, env)
                v, vt = self.expr(value, env)
                if vt != "Kw":
                    self.err(tgt, f"store of {vt} into an inner dictionary")
                d, dk = b[1], b[2]
                return (f"{pad}let {d} := PyRt.dset {d} {dk} (PyRt.dset (PyRt.dget {d} {dk}) {self.key(k, kt, 'Inner')} {v})\n"
                        + nxt(env))
            if b and b[0] == "val" and b[1] in ("EMap", "PMap"):
                k, kt = self.expr(tgt.slice, env)
                v, vt = self.expr(value, env)
                if vt != "EmptyDict":
                    self.err(tgt, f"store of {vt} into a nested dictionary")
                d = tgt.value.id
                return f"{pad}let {d} := PyRt.dset {d} {self.key(k, kt, b[1])} []\n" + nxt(env)
            if b and b[0] == "val" and b[1] == "Vec":
                i, _ = self.expr(tgt.slice, env)
                v = self.arg(value, "Int", env)
                return f"{pad}let {tgt.value.id} := {tgt.value.id}.set {i} {v}\n" + nxt(env)
        if isinstance(tgt, ast.Name) and isinstance(value, ast.List):
            return super().assign(tgt, value, env, nxt, ind)
        if isinstance(tgt, ast.Name):
            c = None
            want = self.w.local_types.get((self.fn.name, tgt.id))
            if want:
                c = self.typed_const(value, want)
            if c is not None:
                env2 = dict(env)
                env2[tgt.id] = ("val", want)
                return f"{pad}let {tgt.id} := {c}\n" + nxt(env2)
            o, t = self.expr(value, env)
            if t == "Tuple" and want:
                t = want
            if t == "Num":
                t = want or "Nat"
                o = f"({o} : {LEAN_TYPE[t]})"
            if t == "None" and want:
                t, o = want, "none"
            env2 = dict(env)
            env2[tgt.id] = ("val", t)
            return f"{pad}let {tgt.id} := {o}\n" + nxt(env2)
        return super().assign(tgt, value, env, nxt, ind)

    def call_stmt(self, c, env, nxt, ind):
        pad = "  " * ind
        f = c.func
        if isinstance(f, ast.Attribute) and ast.unparse(f.value) == "super()" and f.attr == "__init__":
            if env.get("self", ("", ""))[1] != "Action":
                return nxt(env)
            args = self.bind_call("Action", c.args, c.keywords, env, c)
            return f"{pad}let self := Action.__init__ self {args}\n" + nxt(env)
        if isinstance(f, ast.Attribute) and f.attr == "append" and isinstance(f.value, ast.Name) \
                and env.get(f.value.id, ("", ""))[1:] == ("ActList",):
            a, t = self.expr(c.args[0], env)
            if t != "Action":
                self.err(c, f"append of {t}")
            return f"{pad}let {f.value.id} := {f.value.id} ++ [{a}]\n" + nxt(env)
        return super().call_stmt(c, env, nxt, ind)

    def ret_text(self, st, env):
        inner = getattr(self, "loop", None) is not None
        if st.value is None:
            v = self.fall_value(env)
        else:
            if self.fn.ret == "OptKw":
                if isinstance(st.value, ast.Constant) and st.value.value is None:
                    v = "none"
                else:
                    o, t = self.expr(st.value, env)
                    v = f"(some {o})" if t == "Kw" else self.err(st, f"return of {t}")
            else:
                v, t = self.expr(st.value, env)
                if t == "Num":
                    v = f"({v} : {LEAN_TYPE[self.fn.ret]})"
        return f".ret {v}" if inner else v

    # ---------------------------------------------------------------- whole function
    def run(self):
        pysrc.RAISE_EXITS = True
        try:
            return self.run1()
        finally:
            pysrc.RAISE_EXITS = False

    def run1(self):
        fn = self.fn
        env, ps = {}, ""
        if fn.kind == "ctor":
            params, _ = self.w.sigs[fn.cls]
            for p in params:
                env[p] = ("val", PARAM_TY[p])
                ps += f" ({p} : {LEAN_TYPE[PARAM_TY[p]]})"
            env["self"] = ("val", "Action")
            if self.node.args.kwarg:
                env[self.node.args.kwarg.arg] = ("kwargs",)
            if fn.cls == "Action":
                ps = " (self : Action)" + ps
                pre = ""
            else:
                pre = f"  let self : Action := PyRt.newAction .{KIND[fn.cls]}\n"
            self.loop = None
            body = self.block(self.node.body, env, lambda e2, i2: "  " * i2 + "self\n", 1)
            return ps.strip(), pre + body
        if fn.kind != "function":
            env["self"] = ("val", fn.self_ty)
            ps += f"(self : {LEAN_TYPE.get(fn.self_ty, 'Scenario')})"
        got = [a.arg for a in self.node.args.args if a.arg != "self"]
        want = [p for p, _ in fn.params]
        if got != want:
            raise Untranslatable(f"{fn.cls}.{fn.name}: parameters are {got}, expected {want}")
        for p, t in fn.params:
            env[p] = ("val", t)
            ps += f" ({p} : {LEAN_TYPE[t]})"
        self.loop = None
        body = self.block(self.node.body, env, lambda e2, i2: "  " * i2 + self.fall_value(e2) + "\n", 1)
        return ps.strip(), body


def _signature(node):
    """(parameter names without self / *args / **kwargs, {name: default node})"""
    names = [a.arg for a in node.args.args if a.arg != "self"]
    defaults = {}
    for n, d in zip(reversed(names), reversed(node.args.defaults)):
        defaults[n] = d
    for n in names:
        if n not in PARAM_TY:
            raise Untranslatable(f"constructor parameter {n}")
    return names, defaults


def translate_actions():
    """returns the Lean text of the body of Generated/SrcAct.lean"""
    from nasim.envs import action as action_mod, environment as env_mod
    from nasim.scenarios import scenario as sc_mod, utils as sutils
    from nasim.envs.utils import AccessLevel
    LEAN_TYPE.update({"ParamSpace": "Scenario", "FlatSpace": "Scenario"})
    w = World()
    w.idx_locals, w.idx_fields, w.obs_consts = [], [], []
    w.access = {m.name: int(m) for m in AccessLevel}
    w.consts, w.result_params = {}, []
    w.ukeys = {k: v for k, v in vars(sutils).items() if k.isupper() and isinstance(v, str)}
    w.local_types = {("load_action_list", "action_list"): "ActList", ("exploit_map", "e_map"): "EMap",
                     ("privesc_map", "pe_map"): "PMap", ("get_action", "target"): "Addr",
                     ("get_action", "os"): "OptNat", ("get_action_space_size", "num_scans"): "Nat"}
    w.sigs = {}
    w.lean_ret = lambda fn: LEAN_TYPE[fn.ret]
    out = []
    tree = ast.parse(textwrap.dedent(inspect.getsource(action_mod)))
    classes = {n.name: n for n in tree.body if isinstance(n, ast.ClassDef)}
    funcs = {n.name: n for n in tree.body if isinstance(n, ast.FunctionDef)}

    def emit(fn, node, doc):
        try:
            if node is None:
                raise Untranslatable(f"{fn.cls}.{fn.name} not found")
            ps, body = TrAct(w, fn, node).run()
            out.append(f"/-- {doc} -/\ndef {fn.lean} {ps} : {LEAN_TYPE[fn.ret]} :=\n{body}")
        except Untranslatable as e:
            if fn.kind == "ctor":
                params = w.sigs.get(fn.cls, ([], {}))[0]
                ps = ("(self : Action) " if fn.cls == "Action" else "") + " ".join(f"({p} : {LEAN_TYPE[PARAM_TY[p]]})" for p in params)
            else:
                ps = ("" if fn.kind == "function" else f"(self : {LEAN_TYPE.get(fn.self_ty, 'Scenario')}) ") \
                    + " ".join(f"({p} : {LEAN_TYPE[t]})" for p, t in fn.params)
            why = str(e).replace("-/", "- /")
            out.append(f"/-- UNTRANSLATABLE {doc} — {why} -/\ndef {fn.lean} {ps} : {LEAN_TYPE[fn.ret]} := default\n")

    def mk(cls, name, lean, params, ret, kind, self_ty=None, prop=False):
        fn = Fn(cls, name, lean, params, ret, self_ty=self_ty or cls)
        fn.kind, fn.prop, fn.classmethod = kind, prop, False
        w.add(fn)
        return fn

    # --- constructors
    order = ["Action", "Exploit", "PrivilegeEscalation", "ServiceScan", "OSScan", "SubnetScan", "ProcessScan", "NoOp"]
    inits = {}
    for c in order:
        node = next((n for n in classes.get(c, ast.ClassDef(body=[])).body
                     if isinstance(n, ast.FunctionDef) and n.name == "__init__"), None) if c in classes else None
        inits[c] = node
        if node is not None:
            try:
                w.sigs[c] = _signature(node)
            except Untranslatable:
                w.sigs[c] = ([], {})
    for c in order:
        fn = mk(c, "__init__", f"{c}.__init__", [], "Action", "ctor")
        emit(fn, inits[c], f"`nasim/envs/action.py`: `{c}.__init__`")
    # --- dispatcher for a class held in a variable
    disp = ["/-- `a_class(target=target, **d)`: the constructor of the class the variable holds -/",
            "def construct (k : Kind) (target : Addr) (d : PyRt.KwDict) : Action :=", "  match k with"]
    helper = TrAct(w, mk("Action", "<dispatch>", "", [], "Action", "function"), None)
    for c in order[1:]:
        try:
            kws = [ast.keyword(arg="target", value=ast.Name(id="target", ctx=ast.Load())),
                   ast.keyword(arg=None, value=ast.Name(id="d", ctx=ast.Load()))]
            env = {"target": ("val", "Addr"), "d": ("val", "Kw")}
            if c == "NoOp":
                args = ""
            else:
                args = helper.bind_call(c, [], kws, env, ast.Name(id=c, ctx=ast.Load()))
            disp.append(f"  | .{KIND[c]} => {c}.__init__ {args}".rstrip())
        except Untranslatable:
            disp.append(f"  | .{KIND[c]} => default")
    out.append("\n".join(disp) + "\n")
    # --- load_action_list
    fn = mk("action", "load_action_list", "load_action_list", [("scenario", "Sc")], "ActList", "function")
    emit(fn, funcs.get("load_action_list"), "`nasim/envs/action.py`: `load_action_list`")
    # --- Scenario
    sc_methods = _methods(sc_mod, "Scenario")
    sc_props = pysrc_obs._prop_methods(sc_mod, "Scenario")
    fn = mk("Scenario", "get_action_space_size", "Scenario.get_action_space_size", [], "Nat", "method", "Sc")
    emit(fn, sc_methods.get("get_action_space_size"), "`nasim/scenarios/scenario.py`: `Scenario.get_action_space_size`")
    fn = mk("Scenario", "exploit_map", "Scenario.exploit_map", [], "EMap", "method", "Sc", prop=True)
    emit(fn, sc_props.get("exploit_map"), "`nasim/scenarios/scenario.py`: `Scenario.exploit_map`")
    fn = mk("Scenario", "privesc_map", "Scenario.privesc_map", [], "PMap", "method", "Sc", prop=True)
    emit(fn, sc_props.get("privesc_map"), "`nasim/scenarios/scenario.py`: `Scenario.privesc_map`")
    # --- FlatActionSpace
    flat = _methods(action_mod, "FlatActionSpace")
    fn = mk("FlatActionSpace", "get_action", "FlatActionSpace.get_action", [("action_idx", "Nat")], "Action", "method", "FlatSpace")
    emit(fn, flat.get("get_action"), "`nasim/envs/action.py`: `FlatActionSpace.get_action`")
    # --- ParameterisedActionSpace
    pcls = classes.get("ParameterisedActionSpace")
    try:
        at = next(n for n in pcls.body if isinstance(n, ast.Assign) and isinstance(n.targets[0], ast.Name)
                  and n.targets[0].id == "action_types")
        kinds = [f"Kind.{KIND[ast.unparse(x)]}" for x in at.value.elts]
        out.append("/-- `ParameterisedActionSpace.action_types` -/\ndef ParameterisedActionSpace.action_types : List Kind := ["
                   + ", ".join(kinds) + "]\n")
    except Exception:
        out.append("/-- UNTRANSLATABLE `ParameterisedActionSpace.action_types` -/\n"
                   "def ParameterisedActionSpace.action_types : List Kind := default\n")
    par = _methods(action_mod, "ParameterisedActionSpace")
    try:
        init = par["__init__"]
        nv = next(n for n in init.body if isinstance(n, ast.Assign) and isinstance(n.targets[0], ast.Name)
                  and n.targets[0].id == "nvec")
        h = TrAct(w, mk("ParameterisedActionSpace", "__init__", "", [], "NVec", "method", "ParamSpace"), init)
        items = [h.expr(x, {"self": ("val", "ParamSpace")})[0] for x in nv.value.elts]
        out.append("/-- the `nvec` handed to `MultiDiscrete` by `ParameterisedActionSpace.__init__` -/\n"
                   "def ParameterisedActionSpace.nvec (self : Scenario) : List Nat :=\n  [" + ", ".join(items) + "]\n")
    except Exception as e:
        out.append(f"/-- UNTRANSLATABLE `ParameterisedActionSpace.__init__` (nvec) — {str(e).replace('-/', '- /')} -/\n"
                   "def ParameterisedActionSpace.nvec (self : Scenario) : List Nat := default\n")
    fn = mk("ParameterisedActionSpace", "_get_scan_action_def", "ParameterisedActionSpace._get_scan_action_def",
            [("a_class", "Kind")], "Kw", "method", "ParamSpace")
    emit(fn, par.get("_get_scan_action_def"), "`nasim/envs/action.py`: `ParameterisedActionSpace._get_scan_action_def`")
    fn = mk("ParameterisedActionSpace", "_get_exploit_def", "ParameterisedActionSpace._get_exploit_def",
            [("service", "Nat"), ("os", "OptNat")], "OptKw", "method", "ParamSpace")
    emit(fn, par.get("_get_exploit_def"), "`nasim/envs/action.py`: `ParameterisedActionSpace._get_exploit_def`")
    fn = mk("ParameterisedActionSpace", "_get_privesc_def", "ParameterisedActionSpace._get_privesc_def",
            [("proc", "OptNat"), ("os", "OptNat")], "OptKw", "method", "ParamSpace")
    emit(fn, par.get("_get_privesc_def"), "`nasim/envs/action.py`: `ParameterisedActionSpace._get_privesc_def`")
    fn = mk("ParameterisedActionSpace", "get_action", "ParameterisedActionSpace.get_action", [("action_vec", "NVec")],
            "Action", "method", "ParamSpace")
    emit(fn, par.get("get_action"), "`nasim/envs/action.py`: `ParameterisedActionSpace.get_action`")
    # --- NASimEnv.get_action_mask
    envm = _methods(env_mod, "NASimEnv")
    fn = mk("NASimEnv", "get_action_mask", "NASimEnv.get_action_mask", [], "Vec", "method", "Env")
    emit(fn, envm.get("get_action_mask"), "`nasim/envs/environment.py`: `NASimEnv.get_action_mask`")
    return "\n".join(out)
