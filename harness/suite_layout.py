"""LAYOUT suite: vector layout (C09), Gymnasium contract (C10), action spaces and mask (C11).

Per scenario (random small ones incl. enlarged address bounds, shipped and generated ones with
custom bounds):
 * INIT  raw initial tensor vs the documented concatenation `encodeRow` and vs the index
         arithmetic `vectorize`; dims, Box bounds, initial observations; readable decoders and
         from-array constructors round-trip (implementation side);
 * ACTS  the whole flat action list, token by token; size = advertised count; deterministic;
 * PARAM every vector of the parameterised space (sampled when large) vs `decodeParam`;
 * MASK  action mask in states along a random walk;
 * C10   dtype / shape / `observation_space.contains` of every observation, `step(sample())`
         in both action modes, shapes of the returned tuples (runtime facts, checked directly).
"""
import sys, os, json, random, collections, time, itertools, traceback
import numpy as np
import common as C
from common import (NASimEnv, NoOp, Exploit, PrivilegeEscalation, ServiceScan, OSScan, SubnetScan,
                    ProcessScan, SEP)
import scen_gen
import suite_dyn

DR = C.Draw()


def make_scenario(kind, rng):
    import nasim
    if kind == "random":
        return scen_gen.rand_scenario(rng)
    if kind == "randombig":
        return scen_gen.rand_scenario(rng, max_hosts=12, big=True)
    if kind.startswith("gen:"):
        # generated scenario, optionally with enlarged address-space bounds
        _, nh, ns, seed, extra = kind.split(":")
        nh, ns, seed, extra = int(nh), int(ns), int(seed), int(extra)
        kw = dict(num_os=rng.randint(1, 3), num_processes=rng.randint(1, 3), seed=seed,
                  host_discovery_value=rng.choice([0, 1, 2]), base_host_value=rng.choice([0, 1, 3]),
                  r_sensitive=rng.choice([10, 100]), r_user=rng.choice([10, 50]))
        if extra:
            probe = nasim.generate_scenario(nh, ns, **kw)
            kw["address_space_bounds"] = (len(probe.subnets) + extra, max(probe.subnets) + extra)
        sc = nasim.generate_scenario(nh, ns, **kw)
        sc._shape = f"generated(bounds+{extra})"
        return sc
    sc = nasim.make_benchmark_scenario(kind, 1)
    sc._shape = kind
    return sc


def impl_init(sc, env, envP):
    H = len(sc.hosts)
    st = env.current_state
    low, high = env.observation_space.low, env.observation_space.high
    head = [int(sc.get_state_dims()[0]), int(sc.get_state_dims()[1]),
            C.sv(float(low.flat[0])), C.sv(float(high.flat[0])), int(sc.get_action_space_size())]
    obsF = env.reset()[0]
    obsP = envP.reset()[0]
    raw = C.tensor_ints(sc, st.tensor, H)
    return (head + [SEP] + C.row_ints(env, st) + [SEP] + raw + [SEP] + raw
            + [SEP] + C.tensor_ints(sc, obsF, H) + [SEP] + C.tensor_ints(sc, obsP, H)
            + [SEP] + raw)


def impl_roundtrips(sc, env, problems):
    """readable decoders and from-array constructors give back the same content (C09)"""
    from nasim.envs.state import State
    from nasim.envs.observation import Observation
    st = env.current_state
    flat = st.numpy_flat()
    st2 = State.from_numpy(flat.copy(), st.shape(), st.host_num_map)
    if not np.array_equal(st2.tensor, st.tensor):
        problems.append(("C09", "State.from_numpy(flat) does not give back the state"))
    if list(flat) != [x for row in st.tensor for x in row]:
        problems.append(("C09", "numpy_flat is not the row-major flattening"))
    rd = st.get_readable()
    for (addr, host), d in zip(st.hosts, rd):
        exp = dict(Address=addr, Compromised=bool(host.compromised), Reachable=bool(host.reachable),
                   Discovered=bool(host.discovered), Value=host.value,
                   **{"Discovery Value": host.discovery_value}, Access=host.access)
        h = sc.hosts[addr]
        exp.update({k: bool(v) for k, v in h.os.items()})
        exp.update({k: bool(v) for k, v in h.services.items()})
        exp.update({k: bool(v) for k, v in h.processes.items()})
        got = dict(d); got["Address"] = tuple(int(x) for x in got["Address"])
        if got != exp or float(h.value) != float(d["Value"]):
            problems.append(("C09", f"get_readable of host {addr} does not reproduce its definition"))
            break
    o = env.last_obs
    o2 = Observation.from_numpy(o.numpy_flat().copy(), st.shape())
    if not np.array_equal(o2.tensor, o.tensor):
        problems.append(("C09", "Observation.from_numpy(flat) does not give back the observation"))
    o3 = Observation.from_numpy(o.numpy().copy(), st.shape())
    if not np.array_equal(o3.tensor, o.tensor):
        problems.append(("C09", "Observation.from_numpy(2D) does not give back the observation"))
    st3 = State.from_numpy(st.tensor.copy(), st.shape(), st.host_num_map)
    if not np.array_equal(st3.tensor, st.tensor):
        problems.append(("C09", "State.from_numpy(2D) does not give back the state"))
    if o.tensor.shape != (len(sc.hosts) + 1, sc.get_state_dims()[1]) \
            or tuple(sc.get_observation_dims()) != o.tensor.shape:
        problems.append(("C09", "observation shape is not (hosts+1, row width)"))
    hr, aux = o.get_readable()
    if set(aux) != {"Success", "Connection Error", "Permission Error", "Undefined Error"}:
        problems.append(("C09", "auxiliary readable keys"))


def gym_contract(sc, rng, problems, steps):
    """C10: runtime contract in all 8 modes"""
    n = 0
    for fo, fa, fl in itertools.product([True, False], repeat=3):
        env = NASimEnv(sc, fully_obs=fo, flat_actions=fa, flat_obs=fl)
        r = env.reset()
        if not (isinstance(r, tuple) and len(r) == 2 and isinstance(r[1], dict)):
            problems.append(("C10", "reset() does not return (observation, info)"))
            continue
        dims = sc.get_observation_dims()
        want_shape = (dims[0] * dims[1],) if fl else tuple(dims)

        def check_obs(obs, where):
            if not isinstance(obs, np.ndarray) or obs.dtype != np.float32:
                problems.append(("C10", f"{where}: observation is not a float32 array"))
            elif obs.shape != want_shape or env.observation_space.shape != want_shape:
                problems.append(("C10", f"{where}: observation shape {obs.shape} != advertised {want_shape}"))
            elif not env.observation_space.contains(obs):
                problems.append(("C10", f"{where}: observation not in observation_space"))
        check_obs(r[0], "reset")
        try:
            env.action_space.seed(rng.randrange(2 ** 31))
        except Exception:
            pass
        for i in range(steps):
            a = env.action_space.sample()
            DR.v = rng.choice([0.0, 0.3, 0.99])
            try:
                out = env.step(a)
            except Exception as e:
                problems.append(("C10", f"step rejected a sampled action {a!r} ({type(a).__name__}): "
                                        f"{type(e).__name__}: {str(e)[:80]}"))
                break
            n += 1
            if not (isinstance(out, tuple) and len(out) == 5 and isinstance(out[4], dict)
                    and isinstance(out[2], (bool, np.bool_)) and isinstance(out[3], (bool, np.bool_))):
                problems.append(("C10", "step() does not return (obs, reward, terminated, truncated, info)"))
                break
            check_obs(out[0], "step")
            if i % 7 == 3:
                # plain python ints / lists / tuples are members too
                b = int(a) if fa else [int(x) for x in a]
                try:
                    env.step(b if rng.random() < 0.5 or fa else tuple(b))
                except Exception as e:
                    problems.append(("C10", f"step rejected {b!r}: {type(e).__name__}"))
                    break
    return n


def run_scenario(args):
    seed, idx, kind, tier = args
    np.random.rand = DR
    rng = random.Random(f"{seed}-{idx}-{kind}-layout")
    res = dict(idx=idx, kind=kind, shape=None, evaluations=0, params=0, actions=0, masks=0,
               gym_steps=0, findings=[], error=None, sample=None, exhaustive_params=False)
    try:
        sc = make_scenario(kind, rng)
        res["shape"] = getattr(sc, "_shape", kind)
        lines = C.scenario_lines(sc)
        desc = scen_gen.describe(sc) if len(sc.hosts) <= 12 else dict(shape=res["shape"], hosts=len(sc.hosts))
        env = NASimEnv(sc, fully_obs=True, flat_actions=True, flat_obs=False)
        envP = NASimEnv(sc, fully_obs=False, flat_actions=True, flat_obs=False)
        envV = NASimEnv(sc, fully_obs=False, flat_actions=False, flat_obs=True)
        reqs, expect, owners = [], [], []

        def add(req, exp, owner, what):
            reqs.append(req); expect.append(exp); owners.append((owner, what))
        # INIT
        try:
            add("INIT", impl_init(sc, env, envP), "C09", "initial tensor / dims / bounds / initial observations")
        except C.ImplLayout as e:
            # the tensors cannot even be read in the documented layout; the other checks still run
            res["findings"].append(C.layout_finding(e, "initial state / observations",
                                                    dict(scenario_kind=kind, scenario_index=idx, scenario=desc)))
        # ACTS
        acts = env.action_space.actions
        flat = [len(acts)] + [t for a in acts for t in C.act_tokens(sc, a)]
        add("ACTS", flat, "C11", "flat action list")
        res["actions"] = len(acts)
        probs = []
        if env.action_space.n != len(acts) or len(acts) != sc.get_action_space_size():
            probs.append(("C11", "flat action space size differs from the advertised action count"))
        env_b = NASimEnv(sc, fully_obs=False, flat_actions=True, flat_obs=True)
        if [C.act_tokens(sc, a) for a in env_b.action_space.actions] != [C.act_tokens(sc, a) for a in acts]:
            probs.append(("C11", "index-to-action mapping differs between two environments of one scenario"))
        # NVEC / PARAM
        nvec = [int(x) for x in envV.action_space.nvec]
        add("NVEC", nvec, "C11", "nvec of the parameterised space")
        total = int(np.prod(nvec))
        limit = 4000 if tier == "quick" else 60000
        if total <= limit:
            vecs = itertools.product(*[range(k) for k in nvec])
            res["exhaustive_params"] = True
        else:
            vecs = (tuple(rng.randrange(k) for k in nvec) for _ in range(limit))
        flat_keys = set(C.act_key(C.act_tokens(sc, a)) for a in acts)
        for v in vecs:
            try:
                # every representation that is a member of the MultiDiscrete space
                form = rng.randrange(8)
                arg = (list(v) if form < 2 else tuple(v) if form == 2 else np.array(v) if form == 3 else
                       np.array(v, dtype=[np.uint8, np.uint16, np.uint32, np.int32][form - 4]))
                if isinstance(arg, np.ndarray) and not envV.action_space.contains(arg):
                    arg = np.array(v)
                a = envV.action_space.get_action(arg)
                tk = C.act_tokens(sc, a)
                if not isinstance(a, NoOp) and C.act_key(tk) not in flat_keys:
                    probs.append(("C11", f"vector {v} decodes to an action outside the flat set"))
            except Exception as e:
                tk = ["exception", type(e).__name__]
                probs.append(("C10", f"a member of the parameterised action space ({type(arg).__name__}"
                                     f"{'/' + str(arg.dtype) if isinstance(arg, np.ndarray) else ''} {list(v)}) "
                                     f"is rejected: {type(e).__name__}"))
            add("PARAM " + " ".join(map(str, v)), tk, "C11", f"decoding of parameter vector {v}")
            res["params"] += 1
        # MASK along a random walk
        st = env.current_state
        for step in range(12 if tier == "quick" else 60):
            try:
                m_arr = env.get_action_mask()
                m = [int(x) for x in m_arr]
                # what the caller does with the array it was handed (masking agents edit it in place) must not reach the
                # next query
                try:
                    m_arr[...] = 1 - np.asarray(m_arr)
                except Exception:
                    pass
            except Exception as e:
                m = ["exception", type(e).__name__]
            add("MASK " + " ".join(map(str, C.dyn_of(env, env.current_state))), m, "C11", "action mask")
            res["masks"] += 1
            cand = [i for i, a in enumerate(acts) if env.current_state.host_discovered(a.target)]
            DR.v = 0.0
            env.step(rng.choice(cand) if cand and rng.random() < 0.9 else rng.randrange(len(acts)))
        # a second episode on the same environment object in which nothing is discovered: the mask at step k of this
        # episode is not the mask at step k of the previous one (anything remembered per step count or per
        # environment would be stale here); the first query comes at the step count of the previous episode's last one
        env.reset()
        last_q = (12 if tier == "quick" else 60) - 1          # step count of the last query of the first episode
        for step in range(last_q + 3):
            if step >= last_q:
                try:
                    m = [int(x) for x in env.get_action_mask()]
                except Exception as e:
                    m = ["exception", type(e).__name__]
                add("MASK " + " ".join(map(str, C.dyn_of(env, env.current_state))), m, "C11", "action mask (second episode)")
                res["masks"] += 1
            DR.v = 0.99
            env.step(0)
        impl_roundtrips(sc, env, probs)
        res["gym_steps"] = gym_contract(sc, rng, probs, 10 if tier == "quick" else 40)
        if kind == "random":
            # a second environment in the same process whose scenario lists the same OS / service / process names in
            # another order (its own layout is the one installed last): its decoders must reproduce *its* definition
            sc2 = scen_gen.permute_names(sc)
            env2 = NASimEnv(sc2, fully_obs=True, flat_actions=True, flat_obs=False)
            p2 = []
            impl_roundtrips(sc2, env2, p2)
            probs += [(own, what + " (environment built after one whose scenario lists the same names in another order)")
                      for own, what in p2]
        out = C.run_driver(lines + reqs)
        assert len(out) == len(reqs), (len(out), len(reqs))
        for req, exp, (owner, what), line in zip(reqs, expect, owners, out):
            got = C.parse_reply(line)
            if got != exp:
                fd = next((i for i, (x, y) in enumerate(zip(exp, got)) if x != y), min(len(exp), len(got)))
                own = owner
                if req == "INIT":
                    own = init_owner(exp, got)
                res["findings"].append(dict(
                    # the model functions compared here *are* the documented layout / enumeration /
                    # decoding (theorems of Props/C09-C11), so a difference is a failing input
                    property=own, kind="failing-input",
                    what=f"{what}: implementation and model differ (first at token {fd})",
                    replay=dict(kind="layout", scenario=desc, wire=lines if len(lines) < 80 else None,
                                scenario_kind=kind, request=req[:300], impl_output=exp[:300],
                                model_output=got[:300], first_diff=fd)))
        for own, what in sorted(set(probs)):
            res["findings"].append(dict(property=own, kind="failing-input", what=what,
                                        replay=dict(kind="layout-direct", scenario=desc,
                                                    scenario_kind=kind, what=what)))
        res["evaluations"] = len(reqs) + res["gym_steps"]
        res["sample"] = dict(scenario_kind=kind, shape=res["shape"], nvec=nvec, n_actions=len(acts),
                             requests=reqs[1:2] + reqs[3:5])
    except C.Untranslatable as e:
        res["error"] = f"untranslatable: {e}"
    except C.ImplLayout as e:
        res["findings"].append(C.layout_finding(e, "layout / action-space suite",
                                                dict(scenario_kind=kind, scenario_index=idx)))
    except C.ImplAction as e:
        res["findings"].append(C.action_finding(e, "layout / action-space suite",
                                                dict(scenario_kind=kind, scenario_index=idx)))
    except Exception as e:
        if C.raised_by_implementation(e):
            res["findings"].append(C.impl_exception_finding(e, "layout / action-space suite",
                                                            dict(scenario_kind=kind, scenario_index=idx)))
        else:
            res["error"] = "".join(traceback.format_exception(type(e), e, e.__traceback__))[-3000:]
    return res


def init_owner(exp, got):
    """which part of the INIT reply differs → owning property"""
    pe, pg = C.split_sep(exp), C.split_sep(got)
    if len(pe) != len(pg):
        return "C09"
    if pe[0] != pg[0]:
        # dims → C09 (shape) ; bounds → C10 ; action count → C11
        if pe[0][:2] != pg[0][:2]:
            return "C09"
        if pe[0][2:4] != pg[0][2:4]:
            return "C10"
        return "C11"
    if pe[2] != pg[2] or pe[3] != pg[3] or pe[6] != pg[6]:
        return "C09"      # raw tensor differs from the documented layout
    if pe[1] != pg[1]:
        return "C04"      # same raw tensor, different initial rows: reset state
    if pe[4] != pg[4] or pe[5] != pg[5]:
        if pe[2] == pg[2]:
            return "C08"  # initial observation content
    return "C09"


BUDGET = {"quick": dict(n_random=30, n_big=6, gens=["gen:8:3:1:0", "gen:10:2:2:2", "gen:20:4:3:1"],
                        bench=["tiny", "small", "medium-single-site", "small-gen"]),
          "thorough": dict(n_random=400, n_big=60,
                           gens=[f"gen:{nh}:{ns}:{sd}:{ex}" for nh, ns, sd, ex in
                                 [(3, 1, 1, 0), (5, 2, 2, 1), (8, 3, 3, 2), (12, 5, 4, 0), (16, 2, 5, 3),
                                  (23, 4, 6, 1), (38, 6, 7, 2), (45, 3, 8, 0), (60, 2, 9, 1), (95, 4, 10, 0)]],
                           bench=["tiny", "tiny-hard", "tiny-small", "small", "small-honeypot",
                                  "small-linear", "medium", "medium-single-site", "medium-multi-site",
                                  "tiny-gen", "small-gen", "medium-gen", "large-gen", "huge-gen",
                                  "pocp-1-gen", "pocp-2-gen"])}


def run(tier, seed):
    import runner
    b, tier = runner.budget(BUDGET, tier)
    kinds = ["random"] * b["n_random"] + ["randombig"] * b["n_big"] + b["gens"] + b["bench"]
    tasks = [(seed, i, k, tier) for i, k in enumerate(kinds)]
    rs = runner.pmap(run_scenario, tasks)
    runner.stamp("layout", "run_scenario", tasks, rs)
    errors = [dict(idx=r["idx"], kind=r["kind"], error=r["error"]) for r in rs
              if r["error"] and not r["error"].startswith("untranslatable")]
    shapes = collections.Counter(r["shape"] for r in rs)
    return dict(suite="layout", tier=tier, seed=seed, scenarios=len(rs),
                evaluations=sum(r["evaluations"] for r in rs),
                param_vectors=sum(r["params"] for r in rs),
                flat_actions=sum(r["actions"] for r in rs), masks=sum(r["masks"] for r in rs),
                gym_steps=sum(r["gym_steps"] for r in rs),
                exhaustive_param_scenarios=sum(1 for r in rs if r["exhaustive_params"]),
                distinct_nontrivial=len(shapes) + sum(1 for r in rs if r["exhaustive_params"]),
                shapes=dict(shapes), untranslatable=sum(1 for r in rs if r["error"] and r["error"].startswith("untranslatable")),
                findings=[f for r in rs for f in r["findings"]], errors=errors,
                samples=[r["sample"] for r in rs if r.get("sample")][:3])


if __name__ == "__main__":
    tier = sys.argv[1] if len(sys.argv) > 1 else "quick"
    seed = int(sys.argv[2]) if len(sys.argv) > 2 else 0
    t = time.time()
    r = run(tier, seed)
    print(json.dumps({k: v for k, v in r.items() if k not in ("findings", "samples")}, indent=1)[:3000])
    print("findings", len(r["findings"]))
    for f in r["findings"][:8]:
        print(f["property"], f["kind"], f["what"][:160])
        print("   ", json.dumps(f["replay"], default=str)[:600])
    print("wall", time.time() - t)
