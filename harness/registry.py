"""Which theorem module and which correspondence suites decide each property."""

TRUSTED_BASE = [
    "Lean 4.33.0 kernel (thorough tier: re-checked by leanchecker)",
    "axioms of the property theorems: subset of {propext, Classical.choice, Quot.sound}; no sorry/admit/native_decide/bv_decide/implemented_by/unsafe (grep + #print axioms on every run)",
    "Lean compiler for the native driver that evaluates the model's definitions",
    "correspondence harness (Python): generators, canonicalisation, field-by-field diff",
    "T1 translator (harness/translate.py) that prints Generated/*.lean from the repository",
    "NumPy (float32 tensors, RandomState), Gymnasium spaces, PyYAML FullLoader",
]
DEFAULT_ASSUMPTIONS = [
    "the theorems are about the hand-written Lean model; the tie to the Python code is the correspondence run of this check (finite, seeded) plus the regenerated constants",
    "values/costs are multiples of 1/64 so that float32 arithmetic is exact; float rounding of other values is not modelled",
]
DEFAULT_RULE = ("cases = transitions (state, action, draw placement) of exhaustively explored small random scenarios "
                "plus lock-step walks of all 8 mode combinations; distinct_nontrivial = number of distinct "
                "(action type, outcome class) pairs hit plus number of distinct reachable states explored")

DYN = ["dyn"]
PROPS = {
    "C01": dict(module="C01", suites=DYN),
    "C02": dict(module="C02", suites=DYN),
    "C03": dict(module="C03", suites=DYN),
    "C04": dict(module="C04", suites=DYN),
    "C05": dict(module="C05", suites=DYN),
    "C06": dict(module="C06", suites=DYN),
    "C07": dict(module="C07", suites=DYN),
    "C08": dict(module="C08", suites=DYN),
    "C12": dict(module="C12", suites=DYN),
    "C13": dict(module="C13", suites=DYN),
}


def evaluations(r):
    return int(r.get("evaluations", r.get("transitions", 0) + r.get("walk_ops", 0)))


def distinct(r):
    return int(r.get("distinct_nontrivial", r.get("distinct_outcome_classes", 0) + r.get("states", 0)))
