"""Which theorem module and which correspondence suites decide each property."""

TRUSTED_BASE = [
    "Lean 4.33.0 kernel (thorough tier: re-checked by leanchecker)",
    "axioms of the property theorems: subset of {propext, Classical.choice, Quot.sound}; no sorry/admit/native_decide/bv_decide/implemented_by/unsafe (grep + #print axioms on every run)",
    "Lean compiler for the native driver that evaluates the model's definitions",
    "correspondence harness (Python): generators, canonicalisation, field-by-field diff",
    "T1 translator (harness/translate.py) that prints Generated/*.lean from the repository",
    "NumPy (float32 tensors, RandomState), Gymnasium spaces, PyYAML FullLoader",
]
DEFAULT_ASSUMPTIONS = [
    "the theorems are about the hand-written Lean model; the tie to the Python code is the correspondence run of this check (finite, seeded) plus the regenerated constants",
    "values/costs are multiples of 1/64 so that float32 arithmetic is exact; float rounding of other values is not modelled",
]
DEFAULT_RULE = ("cases = transitions (state, action, draw placement) of exhaustively explored small random scenarios "
                "plus lock-step walks of all 8 mode combinations; distinct_nontrivial = number of distinct "
                "(action type, outcome class) pairs hit plus number of distinct reachable states explored")

DYN = ["dyn"]
_T = "Lean 4 theorems over an executable model + differential correspondence with the implementation"
_N = ("Theorems quantify over all scenarios/states/actions/draws of the model; the model is tied to the Python code by the DYN "
      "correspondence suite (exhaustive BFS of small random scenarios x every action x draw on both sides of the probability, "
      "8-mode lock-step walks) run by this check, which is finite and seeded. The Boolean predicate pred<Cxx> that the driver evaluates on the "
      "implementation's transitions is proved to hold of every model transition (pred<Cxx>_model). Values restricted to multiples of 1/64.")
NOT_APPLICABLE = {}
PROPS = {
    "C01": dict(module="C01", extra=["PredOk"], suites=DYN, technique=_T, note=_N, design_ref="DESIGN.md §8 C01",
                text="C01_only_if / C01_scans / C01_if proved for every network, state with distinct addresses, action and draw (and lifted to reachable states): compromised/access change only at the target of an exploit/escalation whose host-level preconditions hold; gates + preconditions + surviving draw imply success with access = max(old, granted)."),
    "C02": dict(module="C02", extra=["PredOk", "C02Source"], suites=DYN, technique=_T, note=_N, design_ref="DESIGN.md §8 C02",
                text="C02_unreachable, C02_fail_changes_nothing, C02_remote_pivot, C02_exploit_firewalls, C02_on_host proved for all inputs of the model (after the fix of the internet-rule defect the model's traffic check is the property's right-hand side)."),
    "C03": dict(module="C03", extra=["PredOk"], suites=DYN, technique=_T, note=_N, design_ref="DESIGN.md §8 C03",
                text="Invariant Inv3 (reachable iff public or connected from a compromised subnet; compromised => discovered => reachable) proved for the initial state, preserved by every step, hence for every history of any length (induction over Reach); discovery characterised exactly (only by a successful subnet scan from a compromised host, which discovers all connected subnets)."),
    "C04": dict(module="C04", extra=["PredOk"], suites=DYN, technique=_T, note=_N, design_ref="DESIGN.md §8 C04",
                text="Per-row monotonicity and configuration immutability proved per step and over histories (C04_history); reset restores exactly the initial state from any reachable state, and at environment level after any interleaving of step/generative_step/reset (C04_env_reset), counter zeroed."),
    "C05": dict(module="C05", extra=["PredOk"], suites=DYN, technique=_T, note=_N, design_ref="DESIGN.md §8 C05",
                text="reward = value - cost by definition of genStep; value characterised exactly (host value iff access goes <ROOT -> ROOT in this step; sum of discovery values of rows newly discovered; 0 for failures, scans, no-op); paid-once theorems over arbitrary histories."),
    "C06": dict(module="C06", extra=["PredOk"], suites=DYN, technique=_T, note=_N, design_ref="DESIGN.md §8 C06",
                text="done = goal(next state) and goal = ROOT on every sensitive host; step counter = number of step() calls since last reset for any interleaving of ops; step-limit flag iff limit reached; generative steps not counted."),
    "C07": dict(module="C07", extra=["PredOk", "C07Source"], suites=DYN, technique=_T, design_ref="DESIGN.md §8 C07",
                note=_N + " The distributional reading (P[u <= p] = p for NumPy's uniform generator) is outside the model.",
                text="Gate failures independent of the draw (0 draws), re-exploit consumes no draw, otherwise exactly one; chance failure changes nothing / gains nothing / is exactly an undefined error; prob 1 never fails for u<1, prob 0 never succeeds for u>0; flags exclusive."),
    "C08": dict(module="C08", extra=["PredOk", "C08Source"], suites=DYN, technique=_T, note=_N, design_ref="DESIGN.md §8 C08",
                text="Truthfulness (every entry of an observed row is 0 or the true entry, for any mask), minimality (rows other than the target / scanned rows are empty; failures and no-ops reveal nothing), completeness (entitlement table, groups copied in full), full observability, auxiliary row, initial observation - all proved for the model's observe."),
    "C09": dict(module="C09", extra=["PredOk"], suites=["layout", "dyn"], technique=_T, design_ref="DESIGN.md §8 C09",
                note="Theorems are about the model's encodeRow/vectorize/decodeRow/observe; the LAYOUT suite compares the implementation's *raw* tensors with both (so a shifted index constant is a disagreement even if the implementation stays self-consistent), on random scenarios incl. enlarged address bounds, generated and shipped ones; DYN compares every raw next-state tensor. Values multiples of 1/64.",
                text="C09_layout_concat: writing through the index arithmetic of _update_vector_idxs equals the documented concatenation for all bounds and numbers of OS/services/processes; C09_decode_encode / C09_init_decodes: decoding reproduces every host; row length, aux row, row-major flattening index theorem; predC09_model: every observation row of every model transition is the documented encoding of a masked view of the host's row (the predicate the driver evaluates on the implementation's observations)."),
    "C10": dict(module="C10", suites=["layout", "dyn"], technique=_T, design_ref="DESIGN.md §8 C10",
                note="Partial by nature: the value-level part (shapes, Box bounds covering every entry incl. negative host values, totality of action decoding) is proved in Lean; dtype float32, Box.contains, acceptance of NumPy scalars/arrays sampled from the spaces and the tuple shapes are Python runtime facts decided on the implementation by the LAYOUT suite in all 8 modes.",
                text="C10_obs_shape / C10_flat_shape (advertised dims), C10_bounds_cover (low/high cover all host values of any sign, flags, access), C10_entries_small; runtime contract checked directly: every observation float32, right shape, contained in observation_space; step(action_space.sample()) accepted in both action modes."),
    "C11": dict(module="C11", suites=["layout", "dyn"], technique=_T, design_ref="DESIGN.md §8 C11",
                note="Theorems about flatActions/decodeParam/actionMask of the model; LAYOUT compares the whole flat list token by token, every vector of the parameterised space (exhaustively when <= 4000/60000 vectors, sampled above) and the mask along walks, on random, generated and shipped scenarios.",
                text="C11_flat_length (= advertised count), C11_flat_index (index i is slot i mod k of host i div k: nothing missing or duplicated, function of the scenario), C11_host_slots (costs, probs, service/process, OS, access as defined), C11_param_target / C11_param_in_flat / C11_param_exploit (wrapping, no-op for undefined combinations, first definition wins), C11_mask."),
    "C12": dict(module="C12", suites=DYN, technique=_T, design_ref="DESIGN.md §8 C12",
                note=_N + " The model's transition function is mode-free, so the theorems are short; the substance is the correspondence of all 8 implementation modes to it plus direct cross-mode comparison on the implementation.",
                text="genStep outputs other than the observation do not depend on fullyObs; trajectories of state and counter coincide for any op history (C12_history); equal decoded actions give equal steps; checked on the implementation in lock-step over all 8 mode combinations."),
    "C13": dict(module="C13", suites=DYN, technique=_T, design_ref="DESIGN.md §8 C13",
                note=_N + " Partial by nature: storage aliasing is a NumPy runtime fact no Lean model exhibits; it is decided on the implementation (bytes of argument/current state/last obs/steps before vs after, np.shares_memory) for every explored transition.",
                text="step = generative step from the current state + install (definitional shape, rfl); generative steps leave the environment untouched and are transparent in any history; runtime purity checked directly on the implementation."),
    "C14": dict(module="C14", suites=["gen"], technique=_T, design_ref="DESIGN.md §8 C14",
                note="Partial by nature: process boundaries and PYTHONHASHSEED are runtime facts no Lean model exhibits. The model shows there is no input besides (scenario, operations, draws) resp. (parameters, decision stream) and that choosing from sorted(set) is independent of the set's iteration order (for any total order; that Python's str order on service names is one is assumed). The GEN suite decides the runtime part on the implementation: every parameter set is generated in separate processes under PYTHONHASHSEED 0/1/2/random, with and without the recorder; scenario fingerprints and seeded-trajectory hashes must coincide, and the recorded decision stream must reproduce the scenario through the model.",
                text="C14_sorted_choice_order_independent (sorting any permutation of a set gives the same list: uniqueness of sorted permutations, proved from scratch), C14_subnet_services_mem (the candidate set depends on membership only), determinism of generate / Env.run as functions of their explicit inputs."),
    "C15": dict(module="C15", extra=["C15Post", "C16Gen", "C15Progress", "C15Replay"], suites=["gen"], technique=_T, design_ref="DESIGN.md §8 C15",
                note="Theorems hold for every decision stream on which the model generator returns; the GEN suite replays the recorded NumPy decisions of the real generator through the model (whole scenario must coincide, no decision left over) and evaluates the Lean postcondition predicate genPostChecks on the implementation's scenario; termination of the real generator is watched by a subprocess kill-timeout. C15_postcondition_checks proves the very predicate the driver evaluates on the implementation's scenario (all 15 checks; the two strict-positivity checks only for specified probabilities: with exploit_probs=None NumPy's random_sample ranges over [0,1), C15_zero_draw_counterexample). Termination: C15_exploit_loop_progress, C15_privesc_loop_progress (the loop repaired by D9 is never stuck once the OS choices pass the count test) and C15_os_choices_exist / C15_os_choice_loop_exits (the re-draw loop can exit for every admitted request) show that every retry loop can always make progress; termination with probability one additionally needs that NumPy gives every draw positive probability (outside the model; the real generator runs under a kill-timeout).",
                text="C15_subnets_partition, C15_topology_{symmetric,reflexive}, C15_only_dmz_public, C15_counts, C15_exploits, C15_privescs, C15_network, C15_sensitive, C15_hosts_addresses, C15_hosts_wf (exactly one OS, >=1 service, >=1 process, also after _ensure_host_vulnerability), C15_firewall_keys, C15_firewall_rules, C15_firewall_lower_bound (every rule into a network subnet allows >= 1 service: the vulnerability invariant of _ensure_host_vulnerability), C15_host_values, C15_postcondition_checks (the driver's predicate, proved), C15_exploit_loop_progress, C15_privesc_loop_progress, C15_os_choices_exist (pigeonhole arguments), C15_no_division_by_zero."),
    "C16": dict(module="C16", extra=["C16Gen", "C16Solve"], suites=["gen"], technique=_T, design_ref="DESIGN.md §8 C16",
                note="Generator side proved for every parameter set and every decision stream: C16_generated_structure (each sensitive host ROOT-vulnerable, every network subnet holds a host some exploit applies to, every rule into a network subnet admits a service usable on a host there) and C16_generated_solvable (an action history over the scenario's own action space, every draw 0, from the initial state to ROOT on all sensitive hosts - constructed along the generated topology: scan, exploit the entry witness, exploit (+ escalate) the sensitive host). Shipped side: the 9 YAML files are re-translated on every run and their plans kernel-checked (C16_shipped_solvable). 'Replaying on the real environment ends with the terminal flag' is a statement about the Python code: the GEN suite replays the driver's plan for every generated and shipped scenario on the real environment with every draw succeeding and requires the terminal flag.",
                text="C16_generated_solvable (all parameters, all streams; via solvable_of_structure for any scenario with an entry structure), C16_generated_structure, C16_shipped_solvable (kernel-checked plans for the regenerated shipped scenarios), C16_plan_sound / sweep_reach (accepted plans are histories over the scenario's own action space ending in a goal state); replay of plans on the implementation by the GEN suite."),
    "C17": dict(module="C17", extra=["C17Shipped", "C17Sem"], suites=["load"], technique=_T, design_ref="DESIGN.md §8 C17",
                note="The model starts at the object PyYAML's FullLoader returns (PyYAML trusted). Address keys are modelled for the documented '(int, int)' spelling only (Python eval of other spellings is outside the model); math.isclose on host values is modelled as equality. LOAD suite: the 9 shipped files + random documents in the documented format (key spelling variants, 'none' OS in any capitalisation, prob 0/1, empty escalation section, host values of any sign, with/without step limit, host firewalls, shuffled host order) - accept + canonical scenario dump compared field by field; one loaded document per batch explored exhaustively through the DYN machinery (end-to-end).",
                text="C17_shipped_files_load (kernel: for each of the 9 shipped files, re-translated on every run, model load + toScenario = the scenario the repository's loader builds), C17_loaded_grants / C17_loaded_histories (every loaded scenario's action space satisfies the hypothesis of the history theorems), C17_exploit_service_semantics / C17_firewall_semantics (the service bit and the subnet-firewall test of the dynamics are exactly the file's name lists); C17_accepts: every document satisfying the documented format DocFormat loads to build(sections); C17_denotes + field theorems (subnets, topology, names, sensitive hosts, exploits/escalations with access and OS normalisation, scan costs, step limit, firewall, hosts with flags/value/deny-lists): whatever is accepted is exactly what the file says."),
    "C18": dict(module="C18", suites=["load"], technique=_T, design_ref="DESIGN.md §8 C18",
                note="Same modelling scope as C17. LOAD suite applies every single-rule mutation of the catalogue (37 rules, several variants each) to every base document (shipped + random) plus a malformed stream: both sides must reject; an exception of any type counts as rejection.",
                text="26 theorems C18_*: for every document, breaking a catalogue rule (missing/unknown/mistyped section, empty or non-positive subnets, wrong-shape or non-0/1 topology, empty/duplicated name lists, invalid/duplicate/non-positive sensitive hosts, defective exploits/escalations, negative scan cost, missing/superfluous/defective host configurations incl. malformed host firewall and contradicting sensitive value, missing/non-list/duplicated/unknown-service firewall rules, non-positive step limit) makes load return an error."),
    "C19": dict(module="C19", suites=["multi"], technique=_T, design_ref="DESIGN.md §8 C19",
                note="Partial: the property is FALSE of the implementation for environments with different vector layouts (known finding, known_findings.json key C19:different-layouts: HostVector keeps its layout in class attributes). Proved: with one shared layout every interleaving behaves like independent environments (World model with a process-wide layout vs a list of solo environments); the different-layout failure is exhibited on the model by kernel evaluation. The MULTI suite decides the runtime part on the implementation: random interleavings of construct/reset/step/generate_initial_state/decoding on two live environments compared, operation by operation, with the same operations applied to each environment alone.",
                text="C19_same_layout / C19_state_decodes (refinement of the class-level-layout world to independent environments, any interleaving, any length) and C19_counterexample (decide +kernel); equal-layout pairs must match their solo runs exactly, different-layout interference is reported as KNOWN-FINDING."),
    "C20": dict(module="C20", suites=["bound"], technique=_T, design_ref="DESIGN.md §8 C20",
                note="Partial: the property is FALSE of the implementation (known finding, key C20:hops-exceed-minimal-subnet-set: the hop count is a shortest Hamiltonian path and overestimates on branching topologies), shown on the model by a kernel-evaluated counterexample. A second defect found by this check (negative discovery values were added to the bound) was repaired in the repository (fix d91438d); C20_negative_discovery_repaired records the failure of the former formula and that the repaired one holds on the same instance. Proved for all inputs: the value gained by a step is exactly the increase of the potential (host values of ROOT-held hosts + discovery values of discovered hosts), hence the total reward of any history is potential gained minus costs paid, and the discovery part of the potential never exceeds the non-negative discovery values the bound counts. 'hops <= smallest set of subnets that must be entered' is evaluated per scenario (brute force in the driver), and on small scenarios of the property's domain the exact optimum over goal-reaching episodes is computed on the real environment by DP over the state graph (acyclic when progress is monotone; a positive-reward cycle is pumped into a concrete episode) and compared with the advertised bound.",
                text="C20_value_is_potential_difference, C20_history_accounting, C20_total_le, C20_discovery_part_le (all histories / states); C20_star_counterexample, C20_negative_discovery_repaired (decide +kernel); model of Floyd-Warshall + permutation hop count tied to get_minimum_hops/get_score_upper_bound."),
}


# ----------------------------------------------------------------------------- source ties (T1, harness/pysrc.py)
# direct: component functions translated from the repository's source whose tie theorem belongs to the property
# (a broken one is a broken obligation of that property);
# shared: the compositions (whole perform_action, the environment wrapper, the assembled refinement) every dynamics
# property rests on - a broken one is charged only when the run found no concrete failing input for any property
# ("explained drift", DESIGN §5).
SRC_DIRECT = {
    "C01": ["SrcHostAccess"],
    "C02": ["SrcPerm", "SrcScan"],
    "C03": ["SrcReach", "SrcScan", "SrcReset"],
    "C04": ["SrcHostAccess", "SrcReset"],
    "C05": ["SrcHostValue", "SrcScan"],
    "C06": ["SrcGoal"],
    "C07": [],
    "C08": ["SrcHost"],
    "C12": [],
    "C13": [],
}
SRC_SHARED = ["SrcBase", "SrcPerform", "SrcEnv", "SrcAll", "SrcScen"]
# which properties a shared tie is charged to when it breaks on its own account (its imports still check) and the run
# finds no concrete failing input: the composition of Network.perform_action (gates, draw, host step, update) and the
# environment wrapper (reward, flags, counter, install) belong to the properties that speak about exactly that
SHARED_OWNERS = {
    "SrcPerform": ["C01", "C02", "C07", "C13"],
    "SrcEnv": ["C05", "C06", "C12", "C13"],
}
for _pid, _mods in SRC_DIRECT.items():
    PROPS[_pid]["src"] = _mods
    PROPS[_pid]["src_shared"] = SRC_SHARED
    PROPS[_pid].setdefault("trusted_extra", []).append(
        "source translator harness/pysrc.py: the vocabulary ATTR/PRIM (how an attribute or primitive method of the "
        "Python objects is spelled over the model's records) and Model/PyRt.lean (forEach, host views, dict stores)")


# raw-array world (harness/pysrc_obs.py -> Generated/SrcObs.lean): layout, getters, vectorize, observe, observations
SRC_RAW = {
    "C01": ["SrcRunning", "SrcRowVocab"],
    "C04": ["SrcRowVocab"],
    "C08": ["SrcObserve", "SrcObs", "SrcObsStep"],
    "C09": ["SrcLayout", "SrcObserve", "SrcObs", "SrcRowVocab"],
    "C10": ["SrcBound"],
    "C11": ["SrcAct"],
    "C12": ["SrcAct"],
    "C15": ["SrcGen", "SrcGenMaps"],            # + the name -> flag dictionaries of a generated host
    "C16": ["SrcGen", "SrcGenTop", "SrcGenMaps"],            # the vulnerability predicate its invariant is stated with
    "C17": ["SrcLoad", "SrcLoadTop", "SrcLoadKeys"],
    "C18": ["SrcLoad", "SrcLoadKeys"],
    "C20": ["SrcBound"],
}
for _pid, _mods in SRC_RAW.items():
    PROPS[_pid]["src"] = PROPS[_pid].get("src", []) + _mods
    PROPS[_pid].setdefault("src_shared", [])
    PROPS[_pid].setdefault("trusted_extra", []).append(
        "source translators harness/pysrc_obs.py (raw-array world: NumPy primitives of Model/PyRtObs.lean - zeros, indexing, "
        "slice read / assignment, argmax, shape, dict lookup and key iteration - and the keyword -> Mask field table KW_FIELD) "
        "and harness/pysrc_act.py (action-space world: Model/PyRtAct.lean - fresh action object, dictionaries as association "
        "lists, keyword dictionaries; names of OS / services / processes are their positions)")


def evaluations(r):
    return int(r.get("evaluations", r.get("transitions", 0) + r.get("walk_ops", 0)))


def distinct(r):
    return int(r.get("distinct_nontrivial", r.get("distinct_outcome_classes", 0) + r.get("states", 0)))
