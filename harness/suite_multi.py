"""MULTI suite: several live environments in one process (C19).

For pairs of scenarios — with equal vector layouts (same address bounds and the same OS / service /
process name lists) and with different ones — run random interleavings of constructions, resets,
steps, `generate_initial_state` and decoding calls on two live environments, and compare what
each environment returns with what it returns when the very same operations are applied to it
alone.  Any difference for an equal-layout pair is a violation; for different layouts it is the
known finding (class-level `HostVector` layout).
"""
import sys, os, json, random, collections, time, traceback
import numpy as np
import common as C
from common import NASimEnv
import scen_gen

DR = C.Draw()
FLAT = {}          # scenario index -> flat action list (to translate indices for parameterised envs)


def flat_list(sc):
    """the documented flat enumeration, built by the harness itself (independent of any cache the
    implementation may keep)"""
    from nasim.envs.action import ServiceScan, OSScan, SubnetScan, ProcessScan, Exploit, PrivilegeEscalation
    out = []
    for address in sc.address_space:
        out += [ServiceScan(address, sc.service_scan_cost), OSScan(address, sc.os_scan_cost),
                SubnetScan(address, sc.subnet_scan_cost), ProcessScan(address, sc.process_scan_cost)]
        out += [Exploit(n, address, **d) for n, d in sc.exploits.items()]
        out += [PrivilegeEscalation(n, address, **d) for n, d in sc.privescs.items()]
    return out


def layout_of(sc):
    return (tuple(sc.address_space_bounds), tuple(sc.os), tuple(sc.services), tuple(sc.processes))


def observe(env):
    """everything a user can see of one environment, decoded through the public API"""
    out = dict(state=env.current_state.tensor.tobytes().hex(),
               shape=tuple(env.current_state.tensor.shape),
               last_obs=env.last_obs.tensor.tobytes().hex(), steps=env.steps)
    out["readable"] = json.dumps(env.current_state.get_readable(), default=str)
    out["obs_readable"] = json.dumps(env.last_obs.get_readable(), default=str)
    out["goal"] = bool(env.goal_reached())
    if env.flat_actions:
        out["mask"] = env.get_action_mask().tolist()
    return out


def apply(envs, scs, op):
    """apply one operation; returns (env index, what it returned)"""
    kind, i = op[0], op[1]
    if kind == "construct":
        envs[i] = NASimEnv(scs[i], fully_obs=op[2], flat_actions=op[3], flat_obs=True)
        return i, dict(op="construct", **observe(envs[i]))
    env = envs[i]
    if kind == "reset":
        o, info = env.reset()
        return i, dict(op="reset", obs=o.tobytes().hex(), **observe(env))
    if kind == "step":
        DR.v = op[3]
        act = op[2]
        if not env.flat_actions:
            # the same semantic action through the parameterised space (when expressible)
            import suite_dyn
            vec = suite_dyn.param_vector(scs[i], FLAT[i][op[2]])
            act = vec if vec is not None else [2, 0, 0, 0, 0, 0]
        o, r, d, t, info = env.step(act)
        return i, dict(op="step", obs=o.tobytes().hex(), reward=float(r), done=bool(d), trunc=bool(t),
                       info=json.dumps({k: str(v) for k, v in info.items()}, sort_keys=True), **observe(env))
    if kind == "geninit":
        s = env.generate_initial_state()
        return i, dict(op="geninit", init=s.tensor.tobytes().hex(), **observe(env))
    if kind == "observe":
        return i, dict(op="observe", **observe(env))
    raise ValueError(kind)


def safe_apply(envs, scs, op):
    try:
        return apply(envs, scs, op)
    except Exception as e:
        return op[1], dict(op=op[0], exception=type(e).__name__)


def gen_ops(rng, scs, length):
    ops = [("construct", 0, rng.random() < 0.5, rng.random() < 0.6)]
    constructed = {0}
    nact = [sc.get_action_space_size() for sc in scs]
    for _ in range(length):
        if 1 not in constructed and rng.random() < 0.35:
            ops.append(("construct", 1, rng.random() < 0.5, rng.random() < 0.6)); constructed.add(1); continue
        i = rng.choice(sorted(constructed))
        r = rng.random()
        if r < 0.6:
            ops.append(("step", i, rng.randrange(nact[i]), rng.choice([0.0, 0.0, 0.99])))
        elif r < 0.7:
            ops.append(("reset", i))
        elif r < 0.8:
            ops.append(("geninit", i))
        elif r < 0.9:
            ops.append(("observe", i))
        else:
            ops.append(("construct", i, rng.random() < 0.5, rng.random() < 0.6))   # re-create an environment
    if 1 not in constructed:
        ops.append(("construct", 1, False, True)); ops.append(("step", 0, 0, 0.0))
    return ops


def build_pair(seed, idx, mode, tier):
    rng = random.Random(f"{seed}-{idx}-{mode}-multi")
    A = scen_gen.rand_scenario(rng)
    if mode == "same-scenario":
        B = A
    elif mode == "same-layout":
        B = scen_gen.rand_scenario(rng, like=A)
    elif mode == "permuted":
        # the same names in another order: the same *set* of columns, a different layout
        B = scen_gen.permute_names(A)
    else:
        for _ in range(50):
            B = scen_gen.rand_scenario(rng)
            if layout_of(B) != layout_of(A):
                break
    scs = [A, B]
    FLAT[0], FLAT[1] = flat_list(A), flat_list(B)
    ops = gen_ops(rng, scs, 14 if tier == "quick" else 40)
    return scs, ops


def solo_main(argv):
    """fresh interpreter: the operations of environment i alone (nothing else ever lived here)"""
    seed, idx, mode, tier, i = int(argv[0]), int(argv[1]), argv[2], argv[3], int(argv[4])
    np.random.rand = DR
    scs, ops = build_pair(seed, idx, mode, tier)
    envs = {}
    print(json.dumps([safe_apply(envs, scs, op)[1] for op in ops if op[1] == i]))


def solo_reference(seed, idx, mode, tier, i):
    import subprocess
    env = dict(os.environ, NASIM_REPO=C.REPO)
    p = subprocess.run([sys.executable, os.path.abspath(__file__), "--solo", str(seed), str(idx), mode, tier, str(i)],
                       capture_output=True, text=True, timeout=300, env=env)
    if p.returncode != 0:
        raise RuntimeError("solo worker failed: " + p.stderr[-500:])
    return json.loads(p.stdout.strip().split("\n")[-1])


def run_pair(args):
    seed, idx, mode, tier = args
    np.random.rand = DR
    res = dict(idx=idx, mode=mode, ops=0, findings=[], error=None, sample=None, interfered=False)
    try:
        scs, ops = build_pair(seed, idx, mode, tier)
        A, B = scs
        equal = layout_of(A) == layout_of(B)
        res["ops"] = len(ops)
        # solo references: the operations of environment i alone, each in a fresh interpreter
        solo = {i: solo_reference(seed, idx, mode, tier, i) for i in (0, 1)}
        envs = {}
        seen = {0: 0, 1: 0}
        for k, op in enumerate(ops):
            i, got = safe_apply(envs, scs, op)
            got = json.loads(json.dumps(got))
            want = solo[i][seen[i]]; seen[i] += 1
            if got != want:
                fields = [f for f in sorted(set(got) | set(want)) if got.get(f) != want.get(f)]
                res["interfered"] = True
                what = (f"operation #{k} {op[0]} on environment {i} differs from its solo run in {fields[:5]} "
                        f"after interleaving with an environment of {'the same' if equal else 'a different'} layout")
                f = dict(property="C19", kind="failing-input", what=what,
                         replay=dict(kind="multi", scenarios=[scen_gen.describe(A), scen_gen.describe(B)],
                                     ops=[list(o) for o in ops], first_difference=k, fields=fields,
                                     equal_layout=equal,
                                     got={f_: str(got.get(f_))[:120] for f_ in fields[:4]},
                                     want={f_: str(want.get(f_))[:120] for f_ in fields[:4]}))
                # the class-level layout of HostVector is the one installed last (by a construction or by
                # generate_initial_state); the known finding explains the *other* environment going wrong,
                # never the one whose layout is installed
                owner = [o[1] for o in ops[:k + 1] if o[0] in ("construct", "geninit")][-1]
                f["replay"]["layout_owner"] = owner
                if not equal and i != owner:
                    f["key"] = "C19:different-layouts"
                elif not equal:
                    f["what"] += " (the environment whose own layout is the installed one)"
                res["findings"].append(f)
                break
        res["sample"] = dict(mode=mode, equal_layout=equal, ops=[list(o) for o in ops[:8]],
                             layouts=[list(map(str, layout_of(A))), list(map(str, layout_of(B)))])
    except C.Untranslatable:
        pass
    except Exception as e:
        res["error"] = "".join(traceback.format_exception(type(e), e, e.__traceback__))[-3000:]
    return res


BUDGET = {"quick": dict(same_scenario=6, same_layout=30, different=10),
          "thorough": dict(same_scenario=100, same_layout=600, different=150)}


def run(tier, seed):
    import runner
    b, tier = runner.budget(BUDGET, tier)
    modes = ["same-scenario"] * b["same_scenario"] + ["same-layout"] * b["same_layout"] + ["different"] * b["different"] \
        + ["permuted"] * max(2, b["different"] // 2)
    tasks = [(seed, i, m, tier) for i, m in enumerate(modes)]
    rs = runner.pmap(run_pair, tasks)
    runner.stamp("multi", "run_pair", tasks, rs)
    errors = [dict(idx=r["idx"], error=r["error"]) for r in rs if r["error"]]
    by_mode = collections.Counter(r["mode"] for r in rs)
    interf = collections.Counter(r["mode"] for r in rs if r["interfered"])
    return dict(suite="multi", tier=tier, seed=seed, scenarios=len(rs), pairs=len(rs),
                evaluations=sum(r["ops"] for r in rs), pairs_by_mode=dict(by_mode),
                interfering_pairs_by_mode=dict(interf),
                distinct_nontrivial=len(rs), traces=len(rs),
                findings=[f for r in rs for f in r["findings"]], errors=errors,
                samples=[r["sample"] for r in rs if r.get("sample")][:3])


if __name__ == "__main__":
    if len(sys.argv) > 1 and sys.argv[1] == "--solo":
        solo_main(sys.argv[2:]); sys.exit(0)
    tier = sys.argv[1] if len(sys.argv) > 1 else "quick"
    seed = int(sys.argv[2]) if len(sys.argv) > 2 else 0
    t = time.time()
    r = run(tier, seed)
    print(json.dumps({k: v for k, v in r.items() if k not in ("findings", "samples")}, indent=1, default=str)[:3000])
    print("findings", len(r["findings"]), collections.Counter((f["property"], f.get("key")) for f in r["findings"]))
    for f in [f for f in r["findings"] if not f.get("key")][:5]:
        print(f["what"][:300]); print("   ", json.dumps(f["replay"], default=str)[:1200])
    print("wall", time.time() - t)
