"""./check <Cxx> --replay <file>: re-run the input of a replay file on the current tree and model."""
import json, os, sys, tempfile
import numpy as np
import common as C
from common import Scenario, Host, u, NASimEnv


def scenario_from_desc(d):
    """rebuild a scen_gen / suite_bound scenario from its canonical description"""
    os_l = [f"os{i}" for i in range(d["os"])]
    svc_names = sorted({s for v in d["firewall"].values() for s in v}
                       | {e["service"] for e in d["exploits"].values()})
    svc_l = [f"s{i}" for i in range(d["services"])]
    proc_l = [f"p{i}" for i in range(d["processes"])]
    H = {}
    for k, h in d["hosts"].items():
        a = eval(k)
        H[a] = Host(address=a, os={n: bool(v) for n, v in zip(os_l, h["os"])},
                    services={n: bool(v) for n, v in zip(svc_l, h["services"])},
                    processes={n: bool(v) for n, v in zip(proc_l, h["processes"])},
                    firewall={eval(s): list(v) for s, v in h["firewall"].items()},
                    value=float(h["value"]), discovery_value=float(h["discovery_value"]))
    sd = {u.SUBNETS: list(d["subnets"]), u.TOPOLOGY: [list(r) for r in d["topology"]], u.OS: os_l,
          u.SERVICES: svc_l, u.PROCESSES: proc_l,
          u.SENSITIVE_HOSTS: {eval(k): v for k, v in d["sensitive"].items()},
          u.EXPLOITS: {k: dict(v) for k, v in d["exploits"].items()},
          u.PRIVESCS: {k: dict(v) for k, v in d["privescs"].items()},
          u.SERVICE_SCAN_COST: d["scan_costs"][0], u.OS_SCAN_COST: d["scan_costs"][1],
          u.SUBNET_SCAN_COST: d["scan_costs"][2], u.PROCESS_SCAN_COST: d["scan_costs"][3],
          u.FIREWALL: {eval(k): list(v) for k, v in d["firewall"].items()}, u.HOSTS: H,
          u.STEP_LIMIT: d["step_limit"], u.ADDRESS_SPACE_BOUNDS: tuple(d["bounds"])}
    return Scenario(sd, name="replay")


def run(pid, path):
    body = json.load(open(path))
    rp = body.get("replay", {})
    kind = rp.get("kind")
    print(f"replay of {path}: property={body.get('property')} kind={body.get('kind')} input-kind={kind}")
    if kind == "dyn-transition":
        import suite_dyn
        np.random.rand = suite_dyn.DR
        sc = scenario_from_desc(rp["scenario"])
        envF = NASimEnv(sc, fully_obs=True, flat_actions=True, flat_obs=False)
        envP = NASimEnv(sc, fully_obs=False, flat_actions=True, flat_obs=True)
        toks = rp["query"].split()[1:]
        H = len(sc.hosts)
        dyn = [int(x) for x in toks[:4 * H]]
        act = toks[4 * H:4 * H + 10]
        uval = toks[4 * H + 10]
        # rebuild the state and the action on the implementation
        st = envF.current_state.copy()
        for i, addr in enumerate(envF.network.address_space):
            h = st.get_host(addr)
            h.compromised, h.reachable, h.discovered, h.access = dyn[4 * i:4 * i + 4]
        acts = list(envF.action_space.actions) + [C.NoOp()]
        a = next(x for x in acts if [str(t) for t in C.act_tokens(sc, x)] == act)
        num, den = uval.split("/") if "/" in uval else (uval, "1")
        rec, ns, info = suite_dyn.impl_record(sc, envF, envP, st, a, int(num) / int(den), [])
        lines = C.scenario_lines(sc)
        out = C.run_driver(lines + [rp["query"], suite_dyn.p_request(rp["query"], rec)])
        model = C.parse_reply(out[0])
        preds = C.parse_reply(out[1])
        fields = suite_dyn.diff_fields(rec, model)
        bad = [suite_dyn.PRED_IDS[i] for i, v in enumerate(preds) if v == 0]
        print("action:", a, " draw:", uval)
        print("differing fields:", fields if rec != model else "none")
        print("predicates false on the implementation's transition:", bad)
        if pid in bad or (rec != model and pid in {o for _, o in fields}):
            print(f"VIOLATION property={pid} replay={path}")
            return 1
        print(f"OK property={pid}: the input no longer violates")
        return 0
    if kind == "load":
        import yaml, suite_load
        d = tempfile.mkdtemp()
        p = os.path.join(d, "doc.yaml")
        with open(p, "w") as fh:
            yaml.safe_dump(suite_load.tuples_to_lists(rp["document"]), fh, sort_keys=False, default_flow_style=None)
        ok, text, sc = suite_load.impl_load(p)
        parsed = u.load_yaml(p)
        reply = C.run_driver(["DOC " + " ".join(suite_load.doc_tokens(parsed))])[0]
        print("rule:", rp.get("rule"), " implementation accepts:", ok, " model:", reply[:80])
        m_ok = reply.startswith("ok ")
        same = (ok == m_ok) and (not ok or text == suite_load.norm(reply[3:]))
        if not same:
            print(f"VIOLATION property={pid} replay={path}")
            return 1
        print(f"OK property={pid}: the input no longer violates")
        return 0
    case = rp.get("case")
    if case:
        # run exactly the case (scenario / pair / parameter set / batch) that produced the finding
        mod = __import__(f"suite_{case['suite']}")
        res = getattr(mod, case["fn"])(tuple(case["task"]))
        if case["suite"] == "dyn":
            found = mod.attribute([res])
        else:
            found = res.get("findings", [])
        if res.get("error"):
            print("the case could not be run again:", str(res["error"])[-1500:])
            return 2
        mine = [f for f in found if f["property"] == pid]
        print(f"case {case['suite']}.{case['fn']}{tuple(case['task'])}: {len(found)} finding(s), {len(mine)} for {pid}")
        for f in mine[:5]:
            print("  -", f["kind"], ":", f["what"][:300])
        if mine:
            print(f"VIOLATION property={pid} replay={path}")
            return 1
        print(f"OK property={pid}: the case no longer violates")
        return 0
    print(json.dumps(rp, indent=1, default=str)[:4000])
    print("(this replay is descriptive: re-run the check with the same VERIF_SEED to reproduce)")
    return 0
