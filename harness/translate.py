"""T1 translators: regenerate Lean sources under Generated/ from $NASIM_REPO's current tree.

Files are rewritten only when their content changes, so an unchanged repository costs no rebuild.
"""
import os, json
import common as C

GEN_DIR = os.path.join(C.LEAN_DIR, "NasimModel", "Generated")


def write_if_changed(path, text):
    if os.path.exists(path) and open(path).read() == text:
        return False
    with open(path, "w") as fh:
        fh.write(text)
    return True


def run():
    """returns a small report dict for the evidence"""
    os.makedirs(GEN_DIR, exist_ok=True)
    report = {}
    import translators
    for name, fn in translators.ALL:
        text = fn()
        report[name] = "rewritten" if write_if_changed(os.path.join(GEN_DIR, name), text) else "unchanged"
    return report
