"""Suite runner with caching keyed by the content of $NASIM_REPO/nasim and of the machinery."""
import os, sys, json, hashlib, time, fcntl, multiprocessing, collections, traceback
import common as C

CACHE = os.path.join(C.VERIF, ".cache")
NPROC = int(os.environ.get("VERIF_NPROC", "14"))


def machinery_digest():
    h = hashlib.sha256()
    roots = [os.path.join(C.VERIF, "harness"), os.path.join(C.LEAN_DIR, "NasimModel", "Model"),
             os.path.join(C.LEAN_DIR, "Main.lean")]
    for root in roots:
        if os.path.isfile(root):
            files = [root]
        else:
            files = []
            for d, dirs, fs in sorted(os.walk(root)):
                dirs.sort()
                if "__pycache__" in d:
                    continue
                files += [os.path.join(d, f) for f in sorted(fs) if f.endswith((".py", ".lean"))]
        for p in files:
            h.update(os.path.relpath(p, C.VERIF).encode())
            with open(p, "rb") as fh:
                h.update(fh.read())
    return h.hexdigest()


def cached(suite, tier, seed, fn):
    """run fn() once per (repo tree, machinery, suite, tier, seed); concurrent callers wait"""
    key = f"{C.repo_digest()[:16]}-{machinery_digest()[:16]}"
    d = os.path.join(CACHE, key)
    os.makedirs(d, exist_ok=True)
    # experiment switches that change what the generators produce get their own cache entries
    exp = "".join(f"-{k[6:].lower()}" for k in ("VERIF_FORCE_BIG",) if os.environ.get(k))
    path = os.path.join(d, f"{suite}-{tier}-{seed}{exp}.json")
    lock = open(path + ".lock", "w")
    fcntl.flock(lock, fcntl.LOCK_EX)
    try:
        if os.path.exists(path) and not os.environ.get("VERIF_NOCACHE"):
            with open(path) as fh:
                r = json.load(fh)
            r["from_cache"] = True
            return r
        t0 = time.time()
        r = fn()
        r["wall_s"] = round(time.time() - t0, 2)
        r["repo_digest"] = C.repo_digest()
        tmp = path + ".tmp"
        with open(tmp, "w") as fh:
            json.dump(r, fh)
        os.replace(tmp, path)
        r["from_cache"] = False
        return r
    finally:
        fcntl.flock(lock, fcntl.LOCK_UN)
        lock.close()


def stamp(suite, fn, tasks, rs):
    """record in every finding's replay the case that produced it (suite, worker function, task
    tuple), so that `./check <Cxx> --replay <file>` can run exactly that case again"""
    for t, r in zip(tasks, rs):
        for f in r.get("findings", []) or []:
            f.setdefault("replay", {})["case"] = dict(suite=suite, fn=fn, task=list(t))


def pmap(fn, tasks):
    if NPROC <= 1 or len(tasks) <= 1:
        return [fn(t) for t in tasks]
    ctx = multiprocessing.get_context("fork")
    with ctx.Pool(min(NPROC, len(tasks))) as pool:
        return pool.map(fn, tasks, chunksize=1)


COUNT_KEYS = ("n_random", "n_negdv", "n_small", "n_big", "batches", "same_scenario", "same_layout", "different")


def budget(B, tier):
    """budget of a suite for a tier. `deep` (used by a quick check whose proof obligations broke: the search for a
    failing input) is three times the quick number of cases, every case as in the quick tier; cases are seeded by
    (seed, index), so the quick cases are among them."""
    if tier != "deep":
        return B[tier], tier
    q = dict(B["quick"])
    for k in COUNT_KEYS:
        if k in q:
            q[k] = 3 * q[k]
    return q, "quick"
