"""T1 source translator: a typed Python-subset -> Lean 4 translator for the dynamics core of NASim.

`translate_dynamics()` reads the *source text* (ast) of

  nasim/envs/action.py       Action.is_* (isinstance tests)
  nasim/scenarios/host.py    Host.traffic_permitted
  nasim/envs/state.py        State.host_* / set_host_* accessors
  nasim/envs/host_vector.py  HostVector.perform_action
  nasim/envs/network.py      Network.reset, perform_action, _perform_subnet_scan, _update, _update_reachable,
                             subnets_connected, subnet_traffic_permitted, host_traffic_permitted,
                             has_required_remote_permission, traffic_permitted, subnet_public,
                             all_sensitive_hosts_compromised
  nasim/envs/environment.py  NASimEnv.reset, step, generative_step, goal_reached

and prints each function as a Lean definition over the data types of the hand-written model
(`Generated/SrcDyn.lean`).  Nothing here knows what the functions *should* do: statements are
translated compositionally (early returns by continuation, mutable locals by shadowing `let`s,
`for` loops by `PyRt.forEach` with the loop-carried variables as state, host views obtained from
`state.get_host(addr)` as aliases that read and write through to the state).  What is fixed by hand
is the *vocabulary*: how an attribute or a primitive method of a known type is spelled over the
model's records (`ATTR`, `PRIM`) — e.g. `action.service` is `a.svc`, `self.topology[i][j]` is
`PyRt.topo n i j`.  `Props/DynSource.lean` then proves that the hand-written model functions
(`hostPerform`, `perform`, `subnetScan`, `reset`, `goal`, `genStep`, `Env.step`, …) are equal to the
translated ones, so an edit of any of these functions in the repository either leaves the proofs
intact (a harmless rewrite the automation sees through) or breaks a proof obligation.

A construct outside the subset raises `Untranslatable`; the generated file then consists of the
theorem `0 = 1` naming the construct.
"""
import ast, inspect, textwrap


class Untranslatable(Exception):
    pass


# ----------------------------------------------------------------------------- vocabulary

# (type of the object, attribute) -> (Lean template over {o}, type of the result)
ATTR = {
    ("Action", "target"): ("{o}.target", "Addr"),
    ("Action", "service"): ("{o}.svc", "Nat"),
    ("Action", "os"): ("{o}.os", "OptNat"),
    ("Action", "process"): ("{o}.proc", "OptNat"),
    ("Action", "access"): ("{o}.grant", "Nat"),
    ("Action", "req_access"): ("{o}.req", "Nat"),
    ("Action", "prob"): ("{o}.prob", "Rat"),
    ("Action", "cost"): ("{o}.cost", "Int"),
    ("Row", "compromised"): ("{o}.comp", "Bool"),
    ("Row", "reachable"): ("{o}.reach", "Bool"),
    ("Row", "discovered"): ("{o}.disc", "Bool"),
    ("Row", "access"): ("{o}.access", "Nat"),
    ("Row", "value"): ("{o}.value", "Int"),
    ("Row", "discovery_value"): ("{o}.dvalue", "Int"),
    ("Row", "services"): ("{o}.svc", "Bools"),
    ("Row", "os"): ("{o}.os", "Bools"),
    ("Row", "processes"): ("{o}.proc", "Bools"),
    ("Net", "address_space"): ("{o}.addrs", "Addrs"),
    ("Net", "sensitive_addresses"): ("(PyRt.sensitiveAddresses {o})", "Addrs"),
    ("Net", "topology"): ("{o}", "Topo"),
    ("Net", "firewall"): ("{o}", "NetFw"),
    ("Net", "hosts"): ("{o}", "Hosts"),
    ("Host", "firewall"): ("{o}", "HostFw"),
    ("Result", "success"): ("{o}.success", "Bool"),
    ("Result", "value"): ("{o}.value", "Int"),
    ("Env", "current_state"): ("{o}.cur", "State"),
    ("Env", "last_obs"): ("{o}.lastObs", "Obs"),
    ("Env", "steps"): ("{o}.steps", "Nat"),
    ("Env", "fully_obs"): ("{o}.fullyObs", "Bool"),
    ("Env", "flat_obs"): ("PyRt.flatObs", "Bool"),
    ("Env", "network"): ("{o}.sc.net", "Net"),
    ("Env", "scenario"): ("{o}.sc", "Scenario"),
    ("Env", "action_space"): ("{o}", "ActionSpace"),
    ("Scenario", "step_limit"): ("{o}.stepLimit", "OptInt"),
}
# record fields a store `obj.attr = e` writes
STORE = {
    ("Row", "compromised"): "comp", ("Row", "reachable"): "reach", ("Row", "discovered"): "disc",
    ("Row", "access"): "access",
    ("Env", "current_state"): "cur", ("Env", "last_obs"): "lastObs", ("Env", "steps"): "steps",
}
# primitive methods: (type, name) -> (template over {o} and positional {0} {1} …, result type)
PRIM = {
    ("State", "copy"): ("{o}", "State"),
    ("Row", "copy"): ("{o}", "Row"),
    ("Row", "is_running_service"): ("(PyRt.isRunningSvc {o} {0})", "Bool"),
    ("Row", "is_running_os"): ("(PyRt.isRunningOs {o} {0})", "Bool"),
    ("Row", "is_running_process"): ("(PyRt.isRunningProc {o} {0})", "Bool"),
    ("HostFw", "get"): ("(PyRt.hostFwGet {o} {0})", "Nats"),           # .get(addr, [])
    ("State", "get_observation"): ("(PyRt.getObservation self {o} {0} {1} {2})", "Obs"),
    ("State", "get_initial_observation"): ("(PyRt.getInitialObservation self {o} {0})", "Obs"),
    ("Obs", "numpy_flat"): ("{o}", "Obs"),
    ("Obs", "numpy"): ("{o}", "Obs"),
    ("Result", "info"): ("{o}", "Result"),
    ("ActionSpace", "get_action"): ("{0}", "Action"),
}
# mutating primitives: statement `obj.m(args)` rebinds obj
MUT_PRIM = {
    ("State", "update_host"): "(PyRt.setHost {o} {0} {1})",
}
RESULT_KW = {"services": ("svcInfo", "opt"), "os": ("osInfo", "opt"), "processes": ("procInfo", "opt"),
             "access": ("accessInfo", "opt"), "discovered": ("discovered", "dict"),
             "newly_discovered": ("newly", "dict"), "connection_error": ("connErr", "bool"),
             "permission_error": ("permErr", "bool"), "undefined_error": ("undefErr", "bool"),
             "success": ("success", "bool"), "value": ("value", "int")}
KIND_OF_CLASS = {"NoOp": "noop", "ServiceScan": "svcScan", "OSScan": "osScan", "SubnetScan": "subnetScan",
                 "ProcessScan": "procScan", "Exploit": "exploit", "PrivilegeEscalation": "privesc"}
LEAN_TYPE = {"Net": "Net", "State": "State", "Row": "Row", "Action": "Action", "Result": "Result", "Addr": "Addr",
             "Nat": "Nat", "Int": "Int", "Bool": "Bool", "Rat": "Rat", "OptNat": "Option Nat", "OptInt": "Option Int",
             "Dict": "List (Addr × Bool)", "Env": "Env", "Obs": "List (List Int)", "Unit": "Unit",
             "Host": "PyRt.Host", "Scenario": "Scenario", "Nats": "List Nat", "Bools": "List Bool",
             "Addrs": "List Addr"}


class Fn:
    """signature of a translated function (types are given by hand; bodies come from the source)"""
    def __init__(self, cls, name, lean, params, ret, mutates=None, random=False, self_ty=None):
        self.cls, self.name, self.lean = cls, name, lean
        self.params = params            # [(python name, type)] without self
        self.ret = ret                  # type name, or tuple of type names, or None (procedure)
        self.mutates = mutates          # name of the parameter (or "self") the function mutates, returned at the end
        self.random = random            # consumes uniform draws: extra parameter u, extra result draws
        self.self_ty = self_ty or cls


# ----------------------------------------------------------------------------- translator

RAISE_EXITS = False      # the action-space world treats `raise` as leaving the function (continuation style)


def _exits(stmts):
    """does a statement list contain return / continue (outside nested loops for continue)?"""
    for st in stmts:
        if isinstance(st, (ast.Return, ast.Continue, ast.Break)) or (RAISE_EXITS and isinstance(st, ast.Raise)):
            return True
        if isinstance(st, ast.If) and (_exits(st.body) or _exits(st.orelse)):
            return True
        if isinstance(st, ast.For) and any(isinstance(x, ast.Return) for x in ast.walk(st)):
            return True
        if RAISE_EXITS and (isinstance(st, ast.Assert) or any(isinstance(x, (ast.Assert, ast.Raise)) for x in ast.walk(st))
                            or isinstance(st, ast.Expr) and isinstance(st.value, ast.Call)
                            and ast.unparse(st.value.func).startswith("self._validate")):
            return True                                       # validators: a failed assert leaves the function
    return False


def _always_exits(stmts):
    for st in stmts:
        if isinstance(st, (ast.Return, ast.Continue, ast.Break)):
            return True
        if isinstance(st, ast.If) and st.orelse and _always_exits(st.body) and _always_exits(st.orelse):
            return True
    return False


def _reads(node, v):
    return any(isinstance(x, ast.Name) and x.id == v and isinstance(x.ctx, ast.Load) for x in ast.walk(node))


def _writes(st, v):
    """does the statement bind the plain name v on every path through it?"""
    if isinstance(st, ast.Assign):
        return any(isinstance(t, ast.Name) and t.id == v for t in st.targets)
    if isinstance(st, ast.If):
        return bool(st.orelse) and any(_writes(x, v) for x in st.body) and any(_writes(x, v) for x in st.orelse)
    return False


def _live(stmts, v):
    """may the value v has at the start of the statement list be read by it? (a read after a definite re-binding
    does not count)"""
    for st in stmts:
        if isinstance(st, ast.If):
            if _reads(st.test, v) or _live(st.body, v) or _live(st.orelse, v):
                return True
        elif isinstance(st, ast.For):
            if _reads(st.iter, v) or _live(st.body, v):
                return True
        elif isinstance(st, ast.Assign):
            if _reads(st.value, v) or any(_reads(t, v) for t in st.targets if not isinstance(t, ast.Name)):
                return True
        elif _reads(st, v):
            return True
        if _writes(st, v):
            return False
    return False


def _has_rand(node):
    return any(isinstance(x, ast.Call) and ast.unparse(x.func) in ("np.random.rand", "numpy.random.rand")
               for x in ast.walk(node))


class Tr:
    """translation of one function body"""

    def __init__(self, world, fn, node):
        self.w, self.fn, self.node = world, fn, node
        self.tmp = 0

    # -- environments: name -> ("val", type) | ("alias", state var name, address lean text)
    def fresh(self):
        self.tmp += 1
        return f"t{self.tmp}"

    def err(self, node, why):
        raise Untranslatable(f"{self.fn.cls}.{self.fn.name}: {why}: `{ast.unparse(node)[:90]}`")

    # ---------------------------------------------------------------- expressions
    def expr(self, e, env):
        """returns (lean text, type)"""
        if isinstance(e, ast.Constant):
            v = e.value
            if v is True or v is False:
                return ("true" if v else "false"), "Bool"
            if v is None:
                return "none", "None"
            if isinstance(v, int):
                return str(v), "Num"
            if isinstance(v, float) and v == int(v):
                return str(int(v)), "Num"
            self.err(e, "constant")
        if isinstance(e, ast.Name):
            if e.id in env:
                b = env[e.id]
                if b[0] == "val":
                    return e.id.replace("self", "self"), b[1]
                if b[0] == "alias":
                    return f"(PyRt.getHost {b[1]} {b[2]})", "Row"
            if e.id in self.w.consts:
                return str(self.w.consts[e.id]), "Num"
            self.err(e, "unbound name")
        if isinstance(e, ast.Attribute):
            if isinstance(e.value, ast.Name) and e.value.id == "AccessLevel":
                return str(self.w.access[e.attr]), "Num"
            o, t = self.expr(e.value, env)
            if (t, e.attr) in ATTR:
                tpl, rt = ATTR[(t, e.attr)]
                return tpl.format(o=o), rt
            self.err(e, f"attribute of {t}")
        if isinstance(e, ast.Subscript):
            o, t = self.expr(e.value, env)
            if t == "Addr" and isinstance(e.slice, ast.Constant) and e.slice.value in (0, 1):
                return f"{o}.{e.slice.value + 1}", "Nat"
            if t == "Topo":
                i, _ = self.expr(e.slice, env)
                return f"{o}|{i}", "TopoRow"
            if t == "TopoRow":
                n, i = o.split("|")
                j, _ = self.expr(e.slice, env)
                return f"(PyRt.topo {n} {i} {j})", "Int"
            if t == "NetFw":
                k, kt = self.expr(e.slice, env)
                return f"(PyRt.fwRule {o} {k})", "Nats"
            if t == "Hosts":
                k, kt = self.expr(e.slice, env)
                return f"(PyRt.hostOf {o} {k})", "Host"
            self.err(e, f"subscript of {t}")
        if isinstance(e, ast.Dict) and not e.keys:
            return "()", "Unit"
        if isinstance(e, ast.Tuple):
            parts = [self.expr(x, env) for x in e.elts]
            return "(" + ", ".join(p for p, _ in parts) + ")", "Tuple"
        if isinstance(e, ast.UnaryOp) and isinstance(e.op, ast.Not):
            o, t = self.expr(e.operand, env)
            return f"(!{self.as_bool(o, t, e)})", "Bool"
        if isinstance(e, ast.BoolOp):
            parts = [self.as_bool(*self.expr(x, env), e) for x in e.values]
            op = " && " if isinstance(e.op, ast.And) else " || "
            return "(" + op.join(parts) + ")", "Bool"
        if isinstance(e, ast.BinOp) and isinstance(e.op, (ast.Add, ast.Sub)):
            a, ta = self.expr(e.left, env)
            b, tb = self.expr(e.right, env)
            ty = ta if ta != "Num" else tb
            return f"({a} {'+' if isinstance(e.op, ast.Add) else '-'} {b})", ty
        if isinstance(e, ast.Compare) and len(e.ops) == 1:
            return self.compare(e, env)
        if isinstance(e, ast.Call):
            return self.call(e, env)
        self.err(e, "expression")

    def as_bool(self, o, t, node):
        if t != "Bool":
            self.err(node, f"{t} used as a truth value")
        return o

    def compare(self, e, env):
        op, l, r = e.ops[0], e.left, e.comparators[0]
        if isinstance(op, (ast.Is, ast.IsNot)):
            o, t = self.expr(l, env)
            if not (isinstance(r, ast.Constant) and r.value is None):
                self.err(e, "is")
            if t not in ("OptNat", "OptInt"):
                # a parameter whose default is None but which the typed model always passes (e.g. `state=None`)
                return ("false" if isinstance(op, ast.Is) else "true"), "Bool"
            return (f"{o}.isNone" if isinstance(op, ast.Is) else f"{o}.isSome"), "Bool"
        if isinstance(op, (ast.In, ast.NotIn)):
            x, _ = self.expr(l, env)
            c, ct = self.expr(r, env)
            if ct != "Nats":
                self.err(e, f"membership in {ct}")
            s = f"({c}.contains {x})"
            return (s if isinstance(op, ast.In) else f"(!{s})"), "Bool"
        a, ta = self.expr(l, env)
        b, tb = self.expr(r, env)
        if _has_rand(l) or _has_rand(r):
            ta = tb = "Rat"
        if isinstance(op, ast.Eq):
            return f"({a} == {b})", "Bool"
        if isinstance(op, ast.NotEq):
            return f"({a} != {b})", "Bool"
        sym = {ast.LtE: "≤", ast.GtE: "≥", ast.Lt: "<", ast.Gt: ">"}.get(type(op))
        if sym is None:
            self.err(e, "comparison")
        ty = ta if ta != "Num" else tb
        if tb == "OptInt":
            return f"(PyRt.geOptInt {a} {b})" if sym == "≥" else self.err(e, "comparison with an optional"), "Bool"
        return f"(decide ({a} {sym} {b}))", "Bool"

    def call(self, e, env):
        f = e.func
        text = ast.unparse(f)
        if text in ("np.random.rand", "numpy.random.rand"):
            if not self.fn.random:
                self.err(e, "random draw in a function not declared random")
            return "u", "Rat"
        if text == "isinstance" and len(e.args) == 2:
            # isinstance(self, Cls | (Cls, …)) inside Action.is_*; isinstance(action, Action) in the environment
            o, t = self.expr(e.args[0], env)
            classes = e.args[1].elts if isinstance(e.args[1], ast.Tuple) else [e.args[1]]
            names = [ast.unparse(c) for c in classes]
            if names == ["Action"] and t == "Action":
                return "true", "Bool"
            try:
                kinds = [KIND_OF_CLASS[n] for n in names]
            except KeyError:
                self.err(e, "isinstance")
            return "(" + " || ".join(f"{o}.kind == .{k}" for k in kinds) + ")", "Bool"
        if text == "ActionResult":
            return self.action_result(e, env), "Result"
        if text == "max" and len(e.args) == 2:
            a, ta = self.expr(e.args[0], env)
            b, tb = self.expr(e.args[1], env)
            return f"(max {a} {b})", (ta if ta != "Num" else tb)
        if not isinstance(f, ast.Attribute):
            self.err(e, "call")
        o, t = self.expr(f.value, env)
        if e.keywords:
            self.err(e, "keyword arguments")
        if (t, f.attr) == ("HostFw", "get"):
            if len(e.args) != 2 or ast.unparse(e.args[1]) != "[]":
                self.err(e, "firewall.get default")
            args = [self.expr(e.args[0], env)]
        else:
            args = [self.expr(a, env) for a in e.args]
        if (t, f.attr) in PRIM:
            tpl, rt = PRIM[(t, f.attr)]
            return tpl.format(*[a for a, _ in args], o=o), rt
        if (t, f.attr) == ("State", "get_host") and len(args) == 1:
            return f"(PyRt.getHost {o} {args[0][0]})", "Row"
        fn = self.w.lookup(t, f.attr)
        if fn is None:
            self.err(e, f"method of {t}")
        if fn.mutates:
            self.err(e, "mutating function used as an expression")
        a = " ".join(x for x, _ in args)
        extra = " u" if fn.random else ""
        return f"({fn.lean} {o} {a}{extra})".replace("  ", " "), fn.ret if not isinstance(fn.ret, tuple) else "Tuple:" + ",".join(fn.ret)

    def action_result(self, e, env):
        sig = self.w.result_params
        given = {}
        for i, a in enumerate(e.args):
            given[sig[i]] = a
        for kw in e.keywords:
            given[kw.arg] = kw.value
        fields = []
        for k, v in given.items():
            if k not in RESULT_KW:
                self.err(e, f"ActionResult argument {k}")
            fld, mode = RESULT_KW[k]
            o, t = self.expr(v, env)
            if mode == "opt":
                o = f"some {o}"
            fields.append(f"{fld} := {o}")
        return "({ " + ", ".join(fields) + " } : Result)"

    # ---------------------------------------------------------------- statements
    def assigned(self, stmts, env):
        """variables (of the enclosing scope) a statement list may rebind, in order of first appearance"""
        out = []
        alias = {k: v[1] for k, v in env.items() if v[0] == "alias"}
        for st in stmts:
            for x in ast.walk(st):
                if isinstance(x, ast.Assign) and isinstance(x.targets[0], ast.Name) and isinstance(x.value, ast.Call) \
                        and isinstance(x.value.func, ast.Attribute) and x.value.func.attr == "get_host" \
                        and isinstance(x.value.func.value, ast.Name):
                    alias[x.targets[0].id] = x.value.func.value.id

        def add(n):
            if n not in out and n not in alias:
                out.append(n)

        def target(n):
            if isinstance(n, ast.Name):
                add(n.id)
            elif isinstance(n, ast.Tuple):
                for y in n.elts:
                    target(y)
            elif isinstance(n, ast.Attribute):
                b = n.value
                if isinstance(b, ast.Name):
                    add(alias.get(b.id, b.id))
                elif isinstance(b, ast.Call) and isinstance(b.func, ast.Attribute) and b.func.attr == "get_host" \
                        and isinstance(b.func.value, ast.Name):
                    add(b.func.value.id)
            elif isinstance(n, ast.Subscript) and isinstance(n.value, ast.Name):
                add(n.value.id)

        def ty_of(name):
            return env[name][1] if name in env and env[name][0] == "val" else None
        for st in stmts:
            for x in ast.walk(st):
                if isinstance(x, ast.Assign):
                    for tg in x.targets:
                        target(tg)
                elif isinstance(x, ast.AugAssign):
                    target(x.target)
                elif isinstance(x, ast.Expr) and isinstance(x.value, ast.Call) and isinstance(x.value.func, ast.Attribute):
                    f = x.value.func
                    if not isinstance(f.value, ast.Name):
                        continue
                    t = ty_of(f.value.id)
                    fn = self.w.lookup(t, f.attr) if t else None
                    if (t, f.attr) in MUT_PRIM or (fn and fn.mutates == "self"):
                        add(f.value.id)
                    elif fn and fn.mutates:
                        a = x.value.args[[p for p, _ in fn.params].index(fn.mutates)]
                        if isinstance(a, ast.Name):
                            add(a.id)
        return out

    def block(self, stmts, env, k, ind):
        """translate a statement list; `k(env, ind)` gives the text for falling off its end"""
        if not stmts:
            return k(env, ind)
        st, rest = stmts[0], stmts[1:]
        pad = "  " * ind
        nxt = lambda env2: self.block(rest, env2, k, ind)
        if isinstance(st, ast.Expr) and isinstance(st.value, ast.Constant):
            return nxt(env)                                          # docstring
        if isinstance(st, (ast.Pass, ast.Assert)):
            return nxt(env)
        if isinstance(st, ast.Return):
            return pad + self.ret_text(st, env) + "\n"
        if isinstance(st, ast.Continue):
            return pad + self.cont_text(env) + "\n"
        if isinstance(st, ast.Assign) and len(st.targets) == 1:
            return self.assign(st.targets[0], st.value, env, nxt, ind)
        if isinstance(st, ast.AugAssign) and isinstance(st.op, (ast.Add, ast.Sub)):
            val = ast.BinOp(left=self._load(st.target), op=st.op, right=st.value)
            return self.assign(st.target, val, env, nxt, ind)
        if isinstance(st, ast.Expr) and isinstance(st.value, ast.Call):
            fn_text = ast.unparse(st.value.func)
            if fn_text == "print" or fn_text.split(".")[0] in ("logging", "logger", "log", "warnings"):
                return nxt(env)                                      # diagnostics: no effect on the values modelled
            return self.call_stmt(st.value, env, nxt, ind)
        if isinstance(st, ast.If):
            return self.if_stmt(st, rest, env, k, ind)
        if isinstance(st, ast.For):
            return self.for_stmt(st, rest, env, k, ind)
        self.err(st, "statement")

    def _load(self, tgt):
        c = ast.parse(ast.unparse(tgt), mode="eval").body
        return c

    def assign(self, tgt, value, env, nxt, ind):
        pad = "  " * ind
        if isinstance(tgt, ast.Name):
            # host view: x = <state>.get_host(addr)
            if isinstance(value, ast.Call) and isinstance(value.func, ast.Attribute) and value.func.attr == "get_host" \
                    and isinstance(value.func.value, ast.Name) and env.get(value.func.value.id, ("", ""))[1] == "State":
                a, _ = self.expr(value.args[0], env)
                env2 = dict(env)
                env2[tgt.id] = ("alias", value.func.value.id, a)
                return nxt(env2)
            if isinstance(value, ast.Dict) and not value.keys:
                o, t = "([] : List (Addr × Bool))", "Dict"
            else:
                o, t = self.expr(value, env)
            if t == "Num":
                t = env[tgt.id][1] if tgt.id in env and env[tgt.id][0] == "val" else self.w.local_types.get((self.fn.name, tgt.id), "Int")
                o = f"({o} : {LEAN_TYPE[t]})"
            env2 = dict(env)
            env2[tgt.id] = ("val", t)
            return f"{pad}let {tgt.id} := {o}\n" + nxt(env2)
        if isinstance(tgt, ast.Tuple) and all(isinstance(x, ast.Name) for x in tgt.elts):
            o, t = self.expr(value, env)
            names = [x.id for x in tgt.elts]
            env2 = dict(env)
            if t == "Addr" and len(names) == 2:
                for i, n in enumerate(names):
                    env2[n] = ("val", "Nat")
                return f"{pad}let {names[0]} := {o}.1\n{pad}let {names[1]} := {o}.2\n" + nxt(env2)
            if t.startswith("Tuple:"):
                tys = t[6:].split(",")
                tmp = self.fresh()
                out = f"{pad}let {tmp} := {o}\n"
                # the callee's result is ((v1, v2, …), draws) when it is random
                callee_random = tys[-1] == "Draws"
                vals = tys[:-1] if callee_random else tys
                if len(vals) != len(names):
                    self.err(tgt, "tuple arity")
                base = f"{tmp}.1" if callee_random else tmp
                for i, (n, ty) in enumerate(zip(names, vals)):
                    proj = base + "".join(".2" for _ in range(i)) + (".1" if i < len(vals) - 1 else "")
                    out += f"{pad}let {n} := {proj}\n"
                    env2[n] = ("val", ty)
                if callee_random:
                    out += f"{pad}let draws := draws + {tmp}.2\n"
                return out + nxt(env2)
            self.err(tgt, f"unpacking a {t}")
        if isinstance(tgt, ast.Attribute):
            o, t = self.expr(value, env)
            base = tgt.value
            # write through a host view
            if isinstance(base, ast.Name) and base.id in env and env[base.id][0] == "alias":
                _, sv, addr = env[base.id]
                fld = STORE.get(("Row", tgt.attr)) or self.err(tgt, "store")
                o = self.num(o, t, "Row", tgt.attr)
                return f"{pad}let {sv} := PyRt.updHost {sv} {addr} (fun r => {{ r with {fld} := {o} }})\n" + nxt(env)
            if isinstance(base, ast.Call) and isinstance(base.func, ast.Attribute) and base.func.attr == "get_host" \
                    and isinstance(base.func.value, ast.Name):
                sv = base.func.value.id
                addr, _ = self.expr(base.args[0], env)
                fld = STORE.get(("Row", tgt.attr)) or self.err(tgt, "store")
                o = self.num(o, t, "Row", tgt.attr)
                return f"{pad}let {sv} := PyRt.updHost {sv} {addr} (fun r => {{ r with {fld} := {o} }})\n" + nxt(env)
            if isinstance(base, ast.Name) and base.id in env and env[base.id][0] == "val":
                bt = env[base.id][1]
                fld = STORE.get((bt, tgt.attr)) or self.err(tgt, f"store into {bt}")
                o = self.num(o, t, bt, tgt.attr)
                return f"{pad}let {base.id} := {{ {base.id} with {fld} := {o} }}\n" + nxt(env)
            self.err(tgt, "attribute store")
        if isinstance(tgt, ast.Subscript) and isinstance(tgt.value, ast.Name) and env.get(tgt.value.id, ("", ""))[1] == "Dict":
            kx, _ = self.expr(tgt.slice, env)
            o, t = self.expr(value, env)
            d = tgt.value.id
            return f"{pad}let {d} := PyRt.dictSet {d} {kx} {o}\n" + nxt(env)
        self.err(tgt, "assignment target")

    def num(self, o, t, bt, attr):
        if t == "Num":
            return f"({o} : {LEAN_TYPE[ATTR[(bt, attr)][1]]})"
        return o

    def call_stmt(self, c, env, nxt, ind):
        pad = "  " * ind
        f = c.func
        if isinstance(f, ast.Attribute) and ast.unparse(f.value) == "super()":
            return nxt(env)                                           # gymnasium bookkeeping (seeding)
        if not isinstance(f, ast.Attribute):
            self.err(c, "call statement")
        o, t = self.expr(f.value, env)
        args = [self.expr(a, env)[0] for a in c.args]
        if (t, f.attr) in MUT_PRIM and isinstance(f.value, ast.Name):
            return f"{pad}let {f.value.id} := {MUT_PRIM[(t, f.attr)].format(*args, o=o)}\n" + nxt(env)
        fn = self.w.lookup(t, f.attr)
        if fn is None or not fn.mutates:
            self.err(c, f"call statement on {t}")
        if fn.mutates == "self":
            if not isinstance(f.value, ast.Name):
                self.err(c, "mutated receiver")
            return f"{pad}let {f.value.id} := {fn.lean} {o} {' '.join(args)}\n" + nxt(env)
        idx = [p for p, _ in fn.params].index(fn.mutates)
        if not isinstance(c.args[idx], ast.Name):
            self.err(c, "mutated argument")
        return f"{pad}let {c.args[idx].id} := {fn.lean} {o} {' '.join(args)}\n" + nxt(env)

    def if_stmt(self, st, rest, env, k, ind):
        pad = "  " * ind
        pre = ""
        if _has_rand(st.test):
            pre = f"{pad}let draws := draws + 1\n"
        c, t = self.expr(st.test, env)
        c = self.as_bool(c, t, st.test)
        if not _exits(st.body) and not _exits(st.orelse):
            # join: the variables either branch rebinds become the value of the conditional
            vs = [v for v in self.assigned(st.body + st.orelse, env) if v in env and env[v][0] == "val"]
            new = [v for v in self.assigned(st.body + st.orelse, env) if v not in env and _live(rest, v)]
            if new:
                # a variable first bound inside both branches (e.g. `obs`): it must be bound in both
                vs = vs + new
            tup = (lambda e2, i2: "  " * i2 + ("(" + ", ".join(vs) + ")" if len(vs) != 1 else vs[0]) + "\n") if vs else (lambda e2, i2: "  " * i2 + "()\n")
            envs = []

            def kk(e2, i2):
                envs.append(e2)
                return tup(e2, i2)
            a = self.block(st.body, env, kk, ind + 2)
            b = self.block(st.orelse, env, kk, ind + 2)
            env2 = dict(env)
            for v in new:
                ty = next((e2[v][1] for e2 in envs if v in e2), None)
                if ty is None or any(v not in e2 for e2 in envs):
                    self.err(st, f"{v} is not bound on every path")
                env2[v] = ("val", ty)
            if not vs:
                return self.block(rest, env, k, ind)
            if len(vs) == 1:
                return (pre + f"{pad}let {vs[0]} :=\n{pad}  if {c} then\n{a}{pad}  else\n{b}"
                        + self.block(rest, env2, k, ind))
            tmp = self.fresh()
            projs = "".join(f"{pad}let {v} := {tmp}" + ".2" * i + (".1" if i < len(vs) - 1 else "") + "\n"
                            for i, v in enumerate(vs))
            return (pre + f"{pad}let {tmp} :=\n{pad}  if {c} then\n{a}{pad}  else\n{b}" + projs
                    + self.block(rest, env2, k, ind))
        cont = lambda e2, i2: self.block(rest, e2, k, i2)
        a = self.block(st.body, env, cont, ind + 1)
        b = self.block(st.orelse, env, cont, ind + 1)
        return pre + f"{pad}if {c} then\n{a}{pad}else\n{b}"

    def for_stmt(self, st, rest, env, k, ind):
        pad = "  " * ind
        if st.orelse or not isinstance(st.target, ast.Name):
            self.err(st, "for")
        it, ity = self.expr(st.iter, env)
        if ity != "Addrs":
            self.err(st.iter, f"iteration over {ity}")
        x = st.target.id
        carried = [v for v in self.assigned(st.body, env) if v in env and env[v][0] == "val"]
        # a state first, then the rest (the tie lemmas expect `State × accumulators`)
        carried.sort(key=lambda v: 0 if env[v][1] == "State" else 1)
        sigma = self.tuple_of(carried)
        env_b = dict(env)
        env_b[x] = ("val", "Addr")
        saved = (getattr(self, "loop", None))
        self.loop = carried
        body = self.block(st.body, env_b, lambda e2, i2: "  " * i2 + self.cont_text(e2) + "\n", ind + 2)
        self.loop = saved
        has_ret = any(isinstance(z, ast.Return) for z in ast.walk(st))
        after = self.block(rest, env, k, ind + 1)
        beta = self.w.lean_ret(self.fn) if has_ret else "Empty"
        out = f"{pad}match PyRt.forEach (β := {beta}) {it} {sigma} (fun {x} {self.tuple_pat(carried)} =>\n{body}{pad}  ) with\n"
        if has_ret:
            out += f"{pad}| .ret v => .ret v\n" if saved is not None else f"{pad}| .ret v => v\n"
        else:
            out += f"{pad}| .ret v => nomatch v\n"
        out += f"{pad}| .next {self.tuple_pat(carried)} =>\n{after}"
        return out

    def tuple_of(self, vs):
        return "()" if not vs else (vs[0] if len(vs) == 1 else "(" + ", ".join(vs) + ")")

    def tuple_pat(self, vs):
        return "_" if not vs else (vs[0] if len(vs) == 1 else "(" + ", ".join(vs) + ")")

    def cont_text(self, env):
        return f".next {self.tuple_of(self.loop)}"

    def ret_text(self, st, env):
        inner = getattr(self, "loop", None) is not None
        if st.value is None:
            v = self.fall_value(env)
        else:
            v, t = self.expr(st.value, env)
            if t == "Num":
                v = f"({v} : {LEAN_TYPE[self.fn.ret]})"
            if self.fn.mutates == "self" and self.fn.cls == "NASimEnv":
                v = f"(self, {v})"
            if self.fn.random:
                v = f"({v}, draws)"
        return f".ret {v}" if inner else v

    def fall_value(self, env):
        if self.fn.mutates:
            return self.fn.mutates
        return "()"

    # ---------------------------------------------------------------- whole function
    def run(self):
        fn = self.fn
        env = {"self": ("val", fn.self_ty)}
        for p, t in fn.params:
            env[p] = ("val", t)
        got = [a.arg for a in self.node.args.args if a.arg != "self"] + [a.arg for a in self.node.args.kwonlyargs]
        want = [p for p, _ in fn.params]
        if [g for g in got if g in want] != want:
            raise Untranslatable(f"{fn.cls}.{fn.name}: parameters are {got}, expected {want}")
        self.loop = None
        pre = "  let draws : Nat := 0\n" if fn.random else ""
        body = self.block(self.node.body, env, lambda e2, i2: "  " * i2 + self.fall_value(e2) + "\n", 1)
        ps = " ".join(f"({p} : {LEAN_TYPE[t]})" for p, t in [("self", fn.self_ty)] + fn.params)
        if fn.random:
            ps += " (u : Rat)"
        return ps, pre + body


class World:
    def __init__(self):
        self.fns = {}
        self.consts = {}
        self.access = {}
        self.result_params = []
        self.local_types = {}

    def add(self, fn):
        self.fns[(fn.self_ty, fn.name)] = fn

    def lookup(self, ty, name):
        return self.fns.get((ty, name))


def _methods(mod, cls):
    tree = ast.parse(textwrap.dedent(inspect.getsource(mod)))
    c = next((n for n in tree.body if isinstance(n, ast.ClassDef) and n.name == cls), None)
    if c is None:
        raise Untranslatable(f"class {cls} not found in {mod.__name__}")
    return {n.name: n for n in c.body if isinstance(n, ast.FunctionDef)
            and not any(ast.unparse(d).endswith(".setter") for d in n.decorator_list)}


RET_LEAN = {
    "perform_action@Row": "Row × Result",
    "perform_action@Net": "(State × Result) × Nat",
    "_perform_subnet_scan@Net": "State × Result",
}


def translate_dynamics():
    """returns the Lean text of Generated/SrcDyn.lean"""
    from nasim.envs import action as action_mod, state as state_mod, host_vector as hv_mod, network as net_mod, \
        environment as env_mod
    from nasim.scenarios import host as host_mod, utils as sutils
    from nasim.envs.utils import AccessLevel
    w = World()
    w.access = {m.name: int(m) for m in AccessLevel}
    w.consts = {"INTERNET": int(sutils.INTERNET)}
    w.result_params = [p for p in inspect.signature(action_mod.ActionResult.__init__).parameters if p != "self"]
    w.local_types = {("perform_action", "value"): "Int", ("_perform_subnet_scan", "discovery_reward"): "Int"}
    F = []

    def reg(mod, pycls, self_ty, name, lean, params, ret, **kw):
        fn = Fn(pycls, name, lean, params, ret, self_ty=self_ty, **kw)
        w.add(fn)
        F.append((mod, fn))
    A, B, N, R = "Action", "Bool", "Net", "Row"
    for nm in ("is_exploit", "is_privilege_escalation", "is_scan", "is_remote", "is_service_scan", "is_os_scan",
               "is_subnet_scan", "is_process_scan", "is_noop"):
        reg(action_mod, "Action", A, nm, f"Src.Action.{nm}", [], B)
    reg(host_mod, "Host", "Host", "traffic_permitted", "Src.Host.traffic_permitted", [("addr", "Addr"), ("service", "Nat")], B)
    for nm in ("host_reachable", "host_compromised", "host_discovered"):
        reg(state_mod, "State", "State", nm, f"Src.State.{nm}", [("host_addr", "Addr")], B)
    reg(state_mod, "State", "State", "host_has_access", "Src.State.host_has_access", [("host_addr", "Addr"), ("access_level", "Nat")], B)
    for nm in ("set_host_compromised", "set_host_reachable", "set_host_discovered"):
        reg(state_mod, "State", "State", nm, f"Src.State.{nm}", [("host_addr", "Addr")], None, mutates="self")
    reg(hv_mod, "HostVector", R, "perform_action", "Src.HostVector.perform_action", [("action", A)], ("Row", "Result"))
    reg(net_mod, "Network", N, "subnets_connected", "Src.Network.subnets_connected", [("subnet_1", "Nat"), ("subnet_2", "Nat")], B)
    reg(net_mod, "Network", N, "subnet_public", "Src.Network.subnet_public", [("subnet", "Nat")], B)
    reg(net_mod, "Network", N, "subnet_traffic_permitted", "Src.Network.subnet_traffic_permitted",
        [("src_subnet", "Nat"), ("dest_subnet", "Nat"), ("service", "Nat")], B)
    reg(net_mod, "Network", N, "host_traffic_permitted", "Src.Network.host_traffic_permitted",
        [("src_addr", "Addr"), ("dest_addr", "Addr"), ("service", "Nat")], B)
    reg(net_mod, "Network", N, "has_required_remote_permission", "Src.Network.has_required_remote_permission",
        [("state", "State"), ("action", A)], B)
    reg(net_mod, "Network", N, "traffic_permitted", "Src.Network.traffic_permitted",
        [("state", "State"), ("host_addr", "Addr"), ("service", "Nat")], B)
    reg(net_mod, "Network", N, "_update_reachable", "Src.Network._update_reachable",
        [("state", "State"), ("compromised_addr", "Addr")], None, mutates="state")
    reg(net_mod, "Network", N, "_update", "Src.Network._update",
        [("state", "State"), ("action", A), ("action_obs", "Result")], None, mutates="state")
    reg(net_mod, "Network", N, "_perform_subnet_scan", "Src.Network._perform_subnet_scan",
        [("next_state", "State"), ("action", A)], ("State", "Result"))
    reg(net_mod, "Network", N, "reset", "Src.Network.reset", [("state", "State")], "State")
    reg(net_mod, "Network", N, "perform_action", "Src.Network.perform_action", [("state", "State"), ("action", A)],
        ("State", "Result", "Draws"), random=True)
    reg(net_mod, "Network", N, "all_sensitive_hosts_compromised", "Src.Network.all_sensitive_hosts_compromised",
        [("state", "State")], B)
    reg(env_mod, "NASimEnv", "Env", "goal_reached", "Src.NASimEnv.goal_reached", [("state", "State")], B)
    reg(env_mod, "NASimEnv", "Env", "generative_step", "Src.NASimEnv.generative_step", [("state", "State"), ("action", A)],
        ("State", "Obs", "Int", "Bool", "Result", "Draws"), random=True)
    reg(env_mod, "NASimEnv", "Env", "step", "Src.NASimEnv.step", [("action", A)],
        ("Obs", "Int", "Bool", "Bool", "Result"), random=True, mutates="self")
    reg(env_mod, "NASimEnv", "Env", "reset", "Src.NASimEnv.reset", [], ("Obs", "Unit"), mutates="self")

    def lean_ret(fn):
        key = f"{fn.name}@{fn.self_ty}"
        if key in RET_LEAN:
            return RET_LEAN[key]
        r = fn.ret
        if r is None:
            return LEAN_TYPE[{"self": fn.self_ty}.get(fn.mutates, dict(fn.params).get(fn.mutates))]
        if isinstance(r, tuple):
            vals = [x for x in r if x != "Draws"]
            t = " × ".join(LEAN_TYPE[x] for x in vals)
            if fn.mutates == "self":
                t = f"{LEAN_TYPE[fn.self_ty]} × ({t})"
            if "Draws" in r or fn.random:
                t = f"({t}) × Nat"
            return t
        return LEAN_TYPE[r]
    w.lean_ret = lean_ret
    cache = {}
    out = []
    for mod, fn in F:
        key = (mod.__name__, fn.cls)
        if key not in cache:
            cache[key] = _methods(mod, fn.cls)
        node = cache[key].get(fn.name)
        try:
            if node is None:
                raise Untranslatable(f"{fn.cls}.{fn.name} not found")
            ps, body = Tr(w, fn, node).run()
            out.append(f"/-- `{mod.__name__.replace('.', '/')}.py`: `{fn.cls}.{fn.name}` -/\n"
                       f"def {fn.lean.replace('Src.', '')} {ps} : {lean_ret(fn)} :=\n{body}")
        except Untranslatable as e:
            # this function left the subset the translator reads: a placeholder keeps the other functions (and the
            # ties that do not depend on this one) checkable; the tie theorems of this function no longer hold
            ps = " ".join(f"({p} : {LEAN_TYPE[t]})" for p, t in [("self", fn.self_ty)] + fn.params) + (" (u : Rat)" if fn.random else "")
            why = str(e).replace("-/", "- /")
            out.append(f"/-- UNTRANSLATABLE `{mod.__name__.replace('.', '/')}.py`: `{fn.cls}.{fn.name}` — {why} -/\n"
                       f"def {fn.lean.replace('Src.', '')} {ps} : {lean_ret(fn)} := default\n")
    return "\n".join(out)
