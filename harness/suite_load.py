"""LOAD suite: the YAML loader against the Lean loader model (C17, C18).

 * the nine shipped files and random documents in the documented format: both sides must accept
   and the canonical dump of the resulting scenario must agree field by field (C17); a sample of
   them is also explored through the DYN machinery (the environment built from the file behaves
   like the model on the model-loaded scenario: every rule written in the file is enforced);
 * every single-rule mutation of the C18 catalogue applied to every base document, plus a
   malformed stream: both sides must reject (C18).
"""
import sys, os, json, random, copy, tempfile, collections, time, traceback, glob
from fractions import Fraction
import numpy as np
import yaml
import common as C
import nasim
import nasim.scenarios.utils as u

BENCH_DIR = os.path.join(C.REPO, "nasim", "scenarios", "benchmark")


# ----------------------------------------------------------------------------- tokens / dumps

def tok(x):
    if x is None:
        return "N"
    if isinstance(x, bool):
        return "T" if x else "F"
    if isinstance(x, (int, np.integer)):
        return f"I{int(x)}"
    if isinstance(x, (float, np.floating)):
        f = Fraction(float(x))
        return f"Q{f.numerator}/{f.denominator}"
    if isinstance(x, str):
        return "S" + x.encode("utf-8").hex()
    raise C.Untranslatable(f"scalar {x!r}")


def doc_tokens(x):
    if isinstance(x, dict):
        out = [f"M{len(x)}"]
        for k, v in x.items():
            out += doc_tokens(k) + doc_tokens(v)
        return out
    if isinstance(x, (list, tuple)):
        out = [f"L{len(x)}"]
        for v in x:
            out += doc_tokens(v)
        return out
    return [tok(x)]


def rat(x):
    f = Fraction(float(x))
    return f"{f.numerator}/{f.denominator}"


def dump_impl(sc):
    """canonical dump of a nasim Scenario, same format as Load.dump (LoaderWire.lean)"""
    def names(l):
        return f"{len(l)} " + " ".join(tok(x) for x in l)

    def fw_entry(k, v):
        return f"{k[0]} {k[1]} {names(list(v))}"

    def bits(d):
        return "".join("1" if v else "0" for v in d.values())
    parts = ["subnets", str(len(sc.subnets)), " ".join(str(int(x)) for x in sc.subnets),
             "topo", " ".join(" ".join(str(int(x)) for x in row) for row in sc.topology),
             "os", names(sc.os), "services", names(sc.services), "processes", names(sc.processes),
             "sens", str(len(sc.sensitive_hosts)),
             " ".join(f"{a[0]} {a[1]} {rat(v)}" for a, v in sc.sensitive_hosts.items()),
             "exploits", str(len(sc.exploits)),
             " ".join(f"{tok(n)} {tok(e['service'])} {tok(e['os'])} {rat(e['prob'])} {rat(e['cost'])} {int(e['access'])}"
                      for n, e in sc.exploits.items()),
             "privescs", str(len(sc.privescs)),
             " ".join(f"{tok(n)} {tok(e['process'])} {tok(e['os'])} {rat(e['prob'])} {rat(e['cost'])} {int(e['access'])}"
                      for n, e in sc.privescs.items()),
             "costs", rat(sc.service_scan_cost), rat(sc.os_scan_cost), rat(sc.subnet_scan_cost),
             rat(sc.process_scan_cost),
             "fw", str(len(sc.firewall)), " ".join(fw_entry(k, v) for k, v in sc.firewall.items()),
             "hosts", str(len(sc.hosts)),
             " ".join(f"{a[0]} {a[1]} {bits(h.os)}. {bits(h.services)}. {bits(h.processes)}. {rat(h.value)} "
                      f"{len(h.firewall)} " + " ".join(fw_entry(k, v) for k, v in h.firewall.items())
                      for a, h in sc.hosts.items()),
             "limit", "N" if sc.step_limit is None else str(int(sc.step_limit))]
    return " ".join(parts)


def norm(s):
    return " ".join(s.split())


# ----------------------------------------------------------------------------- valid documents

def key(s, h, rng=None, canonical=True):
    if canonical or rng is None:
        return f"({s}, {h})"
    return rng.choice([f"({s},{h})", f"( {s} , {h} )", f"({s},  {h})", f" ({s}, {h})"])


def gen_valid_doc(rng):
    nsub = rng.randint(1, 4)
    sizes = [rng.randint(1, 3) for _ in range(nsub)]
    while sum(sizes) > 7:
        sizes[rng.randrange(nsub)] = 1
    n = nsub + 1
    topo = [[0] * n for _ in range(n)]
    for i in range(n):
        topo[i][i] = 1
    for s in ([x for x in range(1, n) if rng.random() < 0.4] or [1]):
        topo[0][s] = topo[s][0] = 1
    for i in range(1, n):
        for j in range(i + 1, n):
            if rng.random() < 0.6:
                topo[i][j] = topo[j][i] = 1
    os_l = rng.sample(["linux", "windows", "bsd", "os_0"], rng.randint(1, 3))
    svc_l = rng.sample(["ssh", "ftp", "http", "samba", "smtp", "80"], rng.randint(1, 4))
    proc_l = rng.sample(["tomcat", "daclsvc", "schtask", "cron"], rng.randint(1, 3))
    if rng.random() < 0.3:
        # the same name may denote a service and a process (e.g. a database daemon)
        shared = rng.choice(["mysql", "ssh"])
        if shared not in svc_l:
            svc_l.append(shared)
        proc_l.append(shared)
    addrs = [(s + 1, h) for s, size in enumerate(sizes) for h in range(size)]
    sens_addrs = rng.sample(addrs, rng.randint(1, min(2, len(addrs))))
    sens_vals = {a: rng.choice([100, 10, 1, 0.5, 37.25, 200.0]) for a in sens_addrs}
    sens = {key(a[0], a[1], rng, canonical=rng.random() < 0.7): v for a, v in sens_vals.items()}

    def none_word():
        return rng.choice(["None", "none", "NONE", "None"])
    exploits = {}
    for i in range(rng.randint(1, 3)):
        exploits[f"e_{i}"] = dict(service=rng.choice(svc_l), os=rng.choice(os_l + [none_word()]),
                                  prob=rng.choice([0.0, 0.5, 0.8, 1.0, 1, 0, 0.9, 0.3]),
                                  cost=rng.choice([1, 2, 0.5, 3.25, 1.0]),
                                  access=rng.choice(["user", "root", 1, 2]))
    privescs = {}
    for i in range(rng.randint(0, 2)):
        privescs[f"pe_{i}"] = dict(process=rng.choice(proc_l), os=rng.choice(os_l + [none_word()]),
                                   prob=rng.choice([1.0, 0.5, 1, 0.0]), cost=rng.choice([1, 1.5, 2]),
                                   access=rng.choice(["root", "root", 2, "user", 1]))
    hc = {}
    order = list(addrs)
    if rng.random() < 0.3:
        rng.shuffle(order)
    for a in order:
        cfg = dict(os=rng.choice(os_l),
                   services=[x for x in svc_l if rng.random() < 0.6],
                   processes=[x for x in proc_l if rng.random() < 0.6])
        if rng.random() < 0.4:
            cfg["firewall"] = {key(b[0], b[1], rng, canonical=rng.random() < 0.7):
                               [x for x in svc_l if rng.random() < 0.5]
                               for b in addrs if rng.random() < 0.4}
        if a in sens_vals:
            if rng.random() < 0.3:
                # the declared value, or one `math.isclose` to it
                cfg["value"] = sens_vals[a] if rng.random() < 0.7 else float(sens_vals[a]) * (1 + 1e-12)
        elif rng.random() < 0.5:
            cfg["value"] = rng.choice([0, 1, -5, 3, 0.25, -100, 2.5])
        hc[key(*a)] = cfg
    ks = list(hc)
    if len(ks) >= 2 and rng.random() < 0.15:
        # two hosts written as one YAML node (anchor + alias): the loader gets the *same* dictionary for both, and
        # whatever it stores into one configuration it stores into the other
        ka, kb = rng.sample(ks, 2)
        if "value" not in hc[ka]:
            hc[kb] = hc[ka]
    fw = {}
    for i in range(n):
        for j in range(n):
            if i != j and (topo[i][j] == 1 or topo[j][i] == 1):
                fw[f"({i}, {j})"] = [x for x in svc_l if rng.random() < 0.6]
    doc = {"subnets": sizes, "topology": topo, "sensitive_hosts": sens, "os": os_l,
           "services": svc_l, "processes": proc_l, "exploits": exploits,
           "privilege_escalation": privescs,
           "service_scan_cost": rng.choice([1, 0, 2, 0.5]), "os_scan_cost": rng.choice([1, 2, 1.5]),
           "subnet_scan_cost": rng.choice([1, 0.5, 3]), "process_scan_cost": rng.choice([1, 0.25]),
           "host_configurations": hc, "firewall": fw}
    if rng.random() < 0.6:
        doc["step_limit"] = rng.choice([1, 5, 1000, 2000])
    return doc


# ----------------------------------------------------------------------------- catalogue of rule violations

def _addrs(doc):
    return [(s + 1, h) for s, size in enumerate(doc["subnets"]) for h in range(size)]


def _some_host(doc, rng):
    return rng.choice(list(doc["host_configurations"].keys()))


POOLS = {"services": ["ssh", "ftp", "http", "samba", "smtp", "80", "mysql"],
         "processes": ["tomcat", "daclsvc", "schtask", "cron", "mysql", "ssh"],
         "os": ["linux", "windows", "bsd", "os_0"]}


def foreign(d, field, r):
    """a name that is not one of this document's `field` names - by preference one that *is* such a name in other documents
    of the same run (whatever the loader remembers from an earlier file must not make it valid here)"""
    own = set(map(str, d[field]))
    cand = [x for x in POOLS[field] if x not in own]
    return r.choice(cand) if cand and r.random() < 0.6 else r.choice(["nonexistent", 7])


def catalogue():
    """(rule name, mutation) — each mutation edits a deep copy and returns False if not applicable"""
    C_ = []

    def rule(name):
        def deco(f):
            C_.append((name, f))
            return f
        return deco

    @rule("missing section")
    def _(d, r):
        k = r.choice([k for k in d if k != "step_limit"]); del d[k]

    @rule("unknown section")
    def _(d, r):
        d[r.choice(["foo", "hosts", "exploit", "Subnets"])] = r.choice([1, [1], {}])

    @rule("mistyped section")
    def _(d, r):
        k, v = r.choice([("subnets", {"a": 1}), ("subnets", 3), ("topology", "x"), ("os", "linux"),
                         ("services", {"ssh": 1}), ("processes", None), ("sensitive_hosts", [1]),
                         ("exploits", []), ("privilege_escalation", "none"), ("service_scan_cost", "1"),
                         ("os_scan_cost", None), ("subnet_scan_cost", [1]), ("process_scan_cost", {}),
                         ("host_configurations", []), ("firewall", []), ("step_limit", 1.5),
                         ("step_limit", "10")])
        d[k] = v

    @rule("empty subnet list")
    def _(d, r):
        d["subnets"] = []

    @rule("non-positive or non-integer subnet size")
    def _(d, r):
        d["subnets"][r.randrange(len(d["subnets"]))] = r.choice([0, -1, 1.0, "2", True, None])

    @rule("topology of the wrong shape")
    def _(d, r):
        t = d["topology"]
        c = r.randrange(4)
        if c == 0:
            t.pop()
        elif c == 1:
            t.append([0] * len(t[0]))
        elif c == 2:
            t[r.randrange(len(t))].pop()
        else:
            t[r.randrange(len(t))] = 1

    @rule("topology entry other than 0/1")
    def _(d, r):
        t = d["topology"]
        t[r.randrange(len(t))][r.randrange(len(t))] = r.choice([2, -1, 0.5, "1", None, 1.0])

    @rule("empty OS/service/process list")
    def _(d, r):
        d[r.choice(["os", "services", "processes"])] = []

    @rule("duplicated OS/service/process")
    def _(d, r):
        k = r.choice(["os", "services", "processes"]); d[k].append(d[k][0])

    @rule("sensitive host with an invalid address")
    def _(d, r):
        n = len(d["subnets"])
        bad = r.choice([(0, 0), (n + 1, 0), (n + 2, 0), (1, d["subnets"][0]), (1, -1), (-1, 0)])
        d["sensitive_hosts"][f"({bad[0]}, {bad[1]})"] = 10

    @rule("duplicated sensitive host")
    def _(d, r):
        k = next(iter(d["sensitive_hosts"]))
        s, h = eval(k)
        alt = f"({s},{h})" if k != f"({s},{h})" else f"( {s}, {h})"
        if len(d["sensitive_hosts"]) + 1 > sum(d["subnets"]):
            return False
        d["sensitive_hosts"][alt] = d["sensitive_hosts"][k]

    @rule("sensitive host with a non-positive or non-numeric value")
    def _(d, r):
        k = r.choice(list(d["sensitive_hosts"])); d["sensitive_hosts"][k] = r.choice([0, -5, 0.0, "10", None])

    @rule("no sensitive host")
    def _(d, r):
        d["sensitive_hosts"] = {}

    def pick_action(d, r):
        sec = r.choice(["exploits", "privilege_escalation"])
        if not d[sec]:
            sec = "exploits"
        return sec, r.choice(list(d[sec]))

    @rule("exploit/escalation with a missing field")
    def _(d, r):
        sec, k = pick_action(d, r); e = d[sec][k]; del e[r.choice(list(e))]

    @rule("exploit/escalation that is not a mapping")
    def _(d, r):
        sec, k = pick_action(d, r); d[sec][k] = r.choice([None, "x", [1, 2], 3])

    @rule("exploit/escalation with an unknown service, process or OS")
    def _(d, r):
        sec, k = pick_action(d, r); e = d[sec][k]
        f = r.choice(["os", "service" if sec == "exploits" else "process"])
        pool = "os" if f == "os" else ("services" if f == "service" else "processes")
        e[f] = r.choice([foreign(d, pool, r), "nonexistent", "SSH ", 5, None])
        if f == "os" and e[f] is None:
            e[f] = "nonexistent"          # `os: null` means "any OS": not a defect

    @rule("exploit/escalation probability outside [0,1]")
    def _(d, r):
        sec, k = pick_action(d, r); d[sec][k]["prob"] = r.choice([-0.1, 1.5, 2, -1, "0.5", None])

    @rule("exploit/escalation with a non-positive cost")
    def _(d, r):
        sec, k = pick_action(d, r); d[sec][k]["cost"] = r.choice([0, -1, 0.0, -2.5, "1", None])

    @rule("exploit/escalation with an invalid access level")
    def _(d, r):
        sec, k = pick_action(d, r); d[sec][k]["access"] = r.choice(["admin", 0, 3, "User", 1.0, None, False])

    @rule("negative scan cost")
    def _(d, r):
        d[r.choice(["service_scan_cost", "os_scan_cost", "subnet_scan_cost", "process_scan_cost"])] = r.choice([-1, -0.5])

    @rule("missing host configuration")
    def _(d, r):
        del d["host_configurations"][_some_host(d, r)]

    @rule("superfluous host configuration")
    def _(d, r):
        n = len(d["subnets"])
        src = d["host_configurations"][_some_host(d, r)]
        k = r.choice([f"({n + 1}, 0)", f"(1, {d['subnets'][0]})", "(1,0)", "extra"])
        d["host_configurations"][k] = copy.deepcopy(src)

    @rule("host configuration replaced by one with a wrong address")
    def _(d, r):
        k = _some_host(d, r); cfg = d["host_configurations"].pop(k)
        s, h = eval(k)
        d["host_configurations"][r.choice([f"({s},{h})", f"({s}, {h + 7})", f"[{s}, {h}]"])] = cfg

    @rule("host configuration with a missing field or of the wrong type")
    def _(d, r):
        k = _some_host(d, r)
        if r.random() < 0.5:
            del d["host_configurations"][k][r.choice(["os", "services", "processes"])]
        else:
            d["host_configurations"][k] = r.choice([None, [1], "x"])

    @rule("host with an unknown service, process or OS")
    def _(d, r):
        cfg = d["host_configurations"][_some_host(d, r)]
        f = r.choice(["os", "services", "processes"])
        if f == "os":
            cfg["os"] = r.choice([foreign(d, "os", r), None, 7])
        else:
            cfg[f] = cfg[f] + [foreign(d, f, r)]

    @rule("host with a duplicated service or process")
    def _(d, r):
        cfg = d["host_configurations"][_some_host(d, r)]
        f = r.choice(["services", "processes"])
        if not cfg[f]:
            cfg[f] = [d[f][0]]
        cfg[f] = cfg[f] + [cfg[f][0]]

    @rule("host services/processes that are not a list")
    def _(d, r):
        cfg = d["host_configurations"][_some_host(d, r)]
        cfg[r.choice(["services", "processes"])] = r.choice([None, 5])

    @rule("malformed host firewall")
    def _(d, r):
        cfg = d["host_configurations"][_some_host(d, r)]
        n = len(d["subnets"])
        svc = d["services"][0]
        cfg["firewall"] = r.choice([[1], "x", 3, [], None, "", 0, False, 0.0,
                                    {"(0, 0)": [svc]}, {f"({n + 1}, 0)": [svc]}, {f"(1, {d['subnets'][0]})": [svc]},
                                    {"(1, 0)": svc}, {"(1, 0)": None}, {"(1, 0)": ["nonexistent"]}, {"(1, 0)": [foreign(d, "services", r)]},
                                    {"(1, 0)": [svc, svc]}, {"notanaddress": [svc]}, {"(1, 0, 0)": [svc]},
                                    {5: [svc]}])

    @rule("non-numeric host value")
    def _(d, r):
        d["host_configurations"][_some_host(d, r)]["value"] = r.choice(["high", None, [1], {}])

    @rule("host value contradicting the sensitive_hosts section")
    def _(d, r):
        k = next(iter(d["sensitive_hosts"]))
        s, h = eval(k)
        v = d["sensitive_hosts"][k]
        d["host_configurations"][f"({s}, {h})"]["value"] = r.choice([v + 1, v * 2, -v, 0, float(v) * (1 + 1e-6)])

    def req_fw_keys(d):
        t = d["topology"]
        return [f"({i}, {j})" for i in range(len(t)) for j in range(len(t))
                if i != j and (t[i][j] == 1 or t[j][i] == 1)]

    @rule("missing subnet firewall rule")
    def _(d, r):
        ks = [k for k in req_fw_keys(d) if k in d["firewall"]]
        if not ks:
            return False
        del d["firewall"][r.choice(ks)]

    @rule("subnet firewall rule that is not a list")
    def _(d, r):
        ks = list(d["firewall"])
        if not ks:
            return False
        d["firewall"][r.choice(ks)] = r.choice([None, "ssh", {"a": 1}, 3, ()])

    @rule("subnet firewall rule with a duplicated service")
    def _(d, r):
        ks = list(d["firewall"])
        if not ks:
            return False
        k = r.choice(ks); d["firewall"][k] = [d["services"][0], d["services"][0]]

    @rule("subnet firewall rule with an unknown service")
    def _(d, r):
        ks = list(d["firewall"])
        if not ks:
            return False
        k = r.choice(ks)
        bad = r.choice([foreign(d, "services", r), 5, None])
        d["firewall"][k] = r.choice([d["firewall"][k] + [bad], [bad]])

    @rule("defective subnet firewall rule for a pair the topology does not connect")
    def _(d, r):
        # every rule of the section must be a list of distinct known services, also one nobody asked for
        t = d["topology"]
        free = [f"({i}, {j})" for i in range(len(t)) for j in range(len(t))
                if i != j and t[i][j] != 1 and t[j][i] != 1 and f"({i}, {j})" not in d["firewall"]]
        if not free:
            return False
        k = r.choice(free)
        d["firewall"][k] = r.choice(["ssh", 3, None, [d["services"][0], d["services"][0]], ["nonexistent"], [5]])

    @rule("subnet firewall key that is not a pair")
    def _(d, r):
        d["firewall"][r.choice(["internet", 7])] = []

    @rule("non-positive step limit")
    def _(d, r):
        d["step_limit"] = r.choice([0, -3, False])

    @rule("document that is not a mapping")
    def _(d, r):
        return "replace", r.choice([None, [1, 2], "scenario", 5])
    return C_


CATALOGUE = catalogue()


def tuples_to_lists(x, memo=None):
    """plain lists / dicts for the YAML dumper; an object that occurs twice in the document stays one object, so that the
    dumper writes it as an anchor and aliases (`&id001` / `*id001`) and the loader sees one shared mapping"""
    memo = {} if memo is None else memo
    if id(x) in memo:
        return memo[id(x)]
    if isinstance(x, dict):
        out = {}
        memo[id(x)] = out
        for k, v in x.items():
            out[k] = tuples_to_lists(v, memo)
        return out
    if isinstance(x, (list, tuple)):
        out = [tuples_to_lists(v, memo) for v in x]
        if isinstance(x, list):
            memo[id(x)] = out
        return out
    return x


# ----------------------------------------------------------------------------- running

def impl_load(path):
    """(accepted?, dump or exception text)"""
    try:
        impl_load.n = getattr(impl_load, "n", 0) + 1
        # alternately through the package's top-level entry point (nasim.load builds the environment around the scenario)
        sc = nasim.load(path).scenario if impl_load.n % 2 else nasim.load_scenario(path)
    except BaseException as e:       # any error is a rejection
        if isinstance(e, (KeyboardInterrupt, SystemExit)):
            raise
        return False, f"{type(e).__name__}: {str(e)[:120]}", None
    try:
        return True, norm(dump_impl(sc)), sc
    except Exception as e:
        # accepted, but what came back cannot even be written down as a scenario (e.g. a rule that is not a list)
        return True, f"undumpable scenario: {type(e).__name__}: {str(e)[:100]}", None


def run_batch(args):
    seed, idx, n_docs, n_mut, tier = args
    rng = random.Random(f"{seed}-{idx}-load")
    res = dict(idx=idx, docs=0, mutants=0, accepted=0, rejected=0, rules=collections.Counter(),
               findings=[], error=None, sample=None, stages=collections.Counter(), dyn=None)
    tmpdir = tempfile.mkdtemp(prefix="nasim-load-")
    try:
        cases = []     # (kind, rule, doc)
        bases = []
        if idx == 0:
            for p in sorted(glob.glob(os.path.join(BENCH_DIR, "*.yaml"))):
                bases.append(("shipped:" + os.path.basename(p), u.load_yaml(p)))
        for i in range(n_docs):
            bases.append((f"random:{idx}:{i}", gen_valid_doc(rng)))
        for name, doc in bases:
            cases.append(("valid", name, doc))
            rules = CATALOGUE if n_mut >= len(CATALOGUE) else rng.sample(CATALOGUE, n_mut)
            for rname, mut in rules:
                d = copy.deepcopy(doc)
                try:
                    out = mut(d, rng)
                except (KeyError, IndexError, TypeError, StopIteration):
                    continue
                if out is False:
                    continue
                if isinstance(out, tuple) and out[0] == "replace":
                    d = out[1]
                cases.append(("mutant", rname, d))
        reqs, impl = [], []
        for i, (kind, rname, doc) in enumerate(cases):
            # a handful of paths, written again and again with other documents: loading a path must reflect what the
            # file says *now*; the harness parses the file itself (PyYAML FullLoader, as nasim.scenarios.utils.load_yaml does)
            path = os.path.join(tmpdir, f"d{i % 3}.yaml")
            with open(path, "w") as fh:
                yaml.safe_dump(tuples_to_lists(doc), fh, sort_keys=False, default_flow_style=None)
            with open(path) as fh:
                parsed = yaml.load(fh, Loader=yaml.FullLoader)
            try:
                reqs.append("DOC " + " ".join(doc_tokens(parsed)))
            except C.Untranslatable:
                reqs.append(None)
            impl.append(impl_load(path))
        out = C.run_driver([r for r in reqs if r is not None])
        it = iter(out)
        first_valid_sc = None
        sc_cases = []
        for (kind, rname, doc), req, (ok, text, sc) in zip(cases, reqs, impl):
            if req is None:
                continue
            reply = next(it)
            m_ok = reply.startswith("ok ")
            m_text = norm(reply[3:]) if m_ok else reply
            if not m_ok:
                res["stages"][reply.split()[-1].split(":")[0]] += 1
            replay = dict(kind="load", case=kind, rule=rname, document=doc, impl_accepts=ok,
                          impl_output=text[:1500], model_accepts=m_ok, model_output=m_text[:1500])
            if kind == "valid":
                res["docs"] += 1
                if not ok and m_ok:
                    res["findings"].append(dict(property="C17", kind="failing-input",
                        what=f"a document in the documented format ({rname}) is rejected: {text}", replay=replay))
                elif ok and not m_ok:
                    res["findings"].append(dict(property="C17", kind="correspondence",
                        what=f"the model loader rejects ({m_text}) a document the implementation accepts ({rname})",
                        replay=replay))
                elif ok and m_ok and text != m_text:
                    fd = next((i for i, (a, b) in enumerate(zip(text.split(), m_text.split())) if a != b), -1)
                    sect = section_of(text.split(), fd)
                    res["findings"].append(dict(property="C17", kind="failing-input",
                        what=f"the loaded scenario does not reproduce the file ({rname}): section '{sect}' differs",
                        replay=replay))
                elif not ok and not m_ok:
                    res["findings"].append(dict(property="C17", kind="correspondence",
                        what=f"generator produced a document both sides reject ({rname}): {text} / {m_text}",
                        replay=replay))
                if ok:
                    res["accepted"] += 1
                    if m_ok:
                        sc_cases.append((rname, doc, req, sc))
                    if rname.startswith("random"):
                        # the document explored end to end: the one with the most host-firewall entries (deny lists are
                        # where "every rule written in the file is enforced" has most to say)
                        nfw = sum(len(c.get("firewall") or {}) for c in doc.get("host_configurations", {}).values())
                        if first_valid_sc is None or nfw > first_valid_sc[2]:
                            first_valid_sc = (doc, sc, nfw)
            else:
                res["mutants"] += 1
                res["rules"][rname] += 1
                if ok and not m_ok:
                    res["findings"].append(dict(property="C18", kind="failing-input",
                        what=f"a file breaking the rule '{rname}' is accepted", replay=replay))
                elif ok and m_ok:
                    # the mutation did not break the rule after all (e.g. value replaced by an equal one)
                    if text != m_text:
                        res["findings"].append(dict(property="C17", kind="failing-input",
                            what=f"accepted variant ({rname}) loads differently from the model", replay=replay))
                    res["accepted"] += 1
                elif not ok and m_ok:
                    res["findings"].append(dict(property="C18", kind="correspondence",
                        what=f"the model loader accepts a document ({rname}) the implementation rejects: {text}",
                        replay=replay))
                else:
                    res["rejected"] += 1
        # document -> scenario the environment runs: load + toScenario (names -> indices, units,
        # host order, default bounds) vs the wire form of the implementation's Scenario object
        want = []
        for rname, doc, req, sc in sc_cases:
            try:
                want.append(" ; ".join(C.scenario_lines(sc)))
            except C.Untranslatable:
                want.append(None)
        todo = [(c, w) for c, w in zip(sc_cases, want) if w is not None]
        if todo:
            got = C.run_driver(["DOCSC" + c[2][3:] for c, _ in todo])
            res["scenario_chain"] = len(todo)
            for ((rname, doc, req, sc), w), g in zip(todo, got):
                if g != "ok ; " + w:
                    gl, wl = g.split(" ; ")[1:], w.split(" ; ")
                    first = next((f"{a!r} vs {b!r}" for a, b in zip(gl, wl) if a != b), f"{len(gl)} vs {len(wl)} lines")
                    res["findings"].append(dict(property="C17", kind="correspondence",
                        what=f"the scenario the environment runs for a loaded file ({rname}) differs from load + toScenario "
                             f"of the model: {first[:200]}",
                        replay=dict(kind="load-scenario", rule=rname, document=doc, impl_output=w[:1500],
                                    model_output=g[:1500])))
        # the top-level entry point hands its mode flags to the environment it builds around the loaded scenario
        if first_valid_sc is not None:
            fpath = os.path.join(tmpdir, "flags.yaml")
            with open(fpath, "w") as fh:
                yaml.safe_dump(tuples_to_lists(first_valid_sc[0]), fh, sort_keys=False)
            for own, what in C.entry_point_flags(lambda **kw: nasim.load(fpath, **kw), "nasim.load"):
                # seen from the loader's side: the environment nasim.load returns is not the one that was asked for
                res["findings"].append(dict(property="C17", kind="failing-input", what=what,
                                            replay=dict(kind="entry-point", document=first_valid_sc[0], what=what)))
        # end-to-end: the environment built from a loaded file behaves like the model on it
        if first_valid_sc is not None:
            import suite_dyn
            doc, sc = first_valid_sc[:2]
            try:
                C.scenario_lines(sc)
                np.random.rand = suite_dyn.DR
                r2 = dict(frame_violations=[], cross_mode=[])
                sc._shape = "loaded-yaml"
                queries, records, meta, nstates, envF = suite_dyn.explore(sc, 60 if tier == "quick" else 150, r2)
                lines = C.scenario_lines(sc)
                outq = C.run_driver(lines + queries)
                bad = [(q, rec, C.parse_reply(l)) for q, rec, l in zip(queries, records, outq)
                       if C.parse_reply(l) != rec]
                res["dyn"] = dict(transitions=len(queries), states=nstates, mismatches=len(bad))
                if bad:
                    # a dynamics disagreement on a loaded scenario is charged to the loader only when
                    # no step predicate is violated (then it belongs to C01..C08, decided by DYN)
                    pl = C.run_driver(lines + [suite_dyn.p_request(q, rec) for q, rec, _ in bad[:50]])
                    replies = [C.parse_reply(l) for l in pl]
                    verdicts = [all(v == 1 for v in rp) for rp in replies]
                    # one violated step predicate anywhere explains every later drift of this exploration
                    unexplained = [] if not all(verdicts) else list(bad[:50])
                    # "the environment built from it enforces every rule written in the file": a transition of the
                    # environment built from this very file on which an exploit / scan goes through although the
                    # file's service / OS / process names (C01) or its firewall rules (C02) forbid it is a failing
                    # input of C17 as well (the step predicates are those of DYN)
                    for (q, rec, got), rp in zip(bad[:50], replies):
                        if len(rp) == len(suite_dyn.PRED_IDS) and all(isinstance(v, int) for v in rp):
                            broken = [suite_dyn.PRED_IDS[i] for i, v in enumerate(rp) if v == 0]
                            rules = [b for b in broken if b in ("C01", "C02")]
                            if rules:
                                res["findings"].append(dict(property="C17", kind="failing-input",
                                    what="the environment built from a loaded file does not enforce a rule written in the "
                                         f"file: step predicate(s) {rules} are false on one of its transitions",
                                    replay=dict(kind="load-dyn-rule", document=doc, query=q, impl_output=rec[:300],
                                                model_output=got[:300], false_predicates=broken)))
                                break
                    for q, rec, got in unexplained[:3]:
                        res["findings"].append(dict(property="C17", kind="correspondence",
                            what="the environment built from a loaded file behaves differently from the model on the "
                                 f"same scenario (fields {suite_dyn.diff_fields(rec, got)[:4]})",
                            replay=dict(kind="load-dyn", document=doc, query=q, impl_output=rec[:300],
                                        model_output=got[:300])))
            except (C.Untranslatable, C.ImplLayout, C.ImplAction):
                pass          # a tensor that cannot be read in the documented layout is C09's (LAYOUT, DYN)
            except Exception as e:
                if not C.raised_by_implementation(e):
                    raise     # the implementation raising while being stepped is C10's (DYN, LAYOUT)
        res["sample"] = dict(rule=cases[1][1] if len(cases) > 1 else None,
                             document=cases[1][2] if len(cases) > 1 else cases[0][2])
    except Exception as e:
        res["error"] = "".join(traceback.format_exception(type(e), e, e.__traceback__))[-3000:]
    finally:
        import shutil
        shutil.rmtree(tmpdir, ignore_errors=True)
    res["rules"] = dict(res["rules"]); res["stages"] = dict(res["stages"])
    return res


SECTIONS = ["subnets", "topo", "os", "services", "processes", "sens", "exploits", "privescs", "costs",
            "fw", "hosts", "limit"]


def section_of(toks, i):
    cur = "?"
    for j, t in enumerate(toks[:i + 1]):
        if t in SECTIONS:
            cur = t
    return cur


BUDGET = {"quick": dict(batches=14, docs=3, muts=len(CATALOGUE)),
          "thorough": dict(batches=56, docs=12, muts=len(CATALOGUE))}


def run(tier, seed):
    import runner
    b, tier = runner.budget(BUDGET, tier)
    tasks = [(seed, i, b["docs"], b["muts"], tier) for i in range(b["batches"])]
    rs = runner.pmap(run_batch, tasks)
    runner.stamp("load", "run_batch", tasks, rs)
    rules, stages = collections.Counter(), collections.Counter()
    for r in rs:
        rules.update(r["rules"]); stages.update(r["stages"])
    errors = [dict(idx=r["idx"], error=r["error"]) for r in rs if r["error"]]
    never = [n for n, _ in CATALOGUE if rules.get(n, 0) == 0]
    return dict(suite="load", tier=tier, seed=seed, scenarios=sum(r["docs"] for r in rs),
                valid_documents=sum(r["docs"] for r in rs), mutants=sum(r["mutants"] for r in rs),
                accepted=sum(r["accepted"] for r in rs), rejected=sum(r["rejected"] for r in rs),
                evaluations=sum(r["docs"] + r["mutants"] for r in rs)
                            + sum((r["dyn"] or {}).get("transitions", 0) for r in rs),
                distinct_nontrivial=len([n for n in rules if rules[n] > 0]) + len(stages),
                rules_exercised=dict(rules), rules_never_exercised=never,
                model_reject_stages=dict(stages),
                scenario_chain_compared=sum(r.get("scenario_chain", 0) for r in rs),
                end_to_end=dict(transitions=sum((r["dyn"] or {}).get("transitions", 0) for r in rs),
                                states=sum((r["dyn"] or {}).get("states", 0) for r in rs)),
                transitions=sum((r["dyn"] or {}).get("transitions", 0) for r in rs),
                states=sum((r["dyn"] or {}).get("states", 0) for r in rs),
                findings=[f for r in rs for f in r["findings"]], errors=errors,
                samples=[r["sample"] for r in rs if r.get("sample")][:2])


if __name__ == "__main__":
    tier = sys.argv[1] if len(sys.argv) > 1 else "quick"
    seed = int(sys.argv[2]) if len(sys.argv) > 2 else 0
    t = time.time()
    r = run(tier, seed)
    print(json.dumps({k: v for k, v in r.items() if k not in ("findings", "samples")}, indent=1, default=str)[:4000])
    print("findings", len(r["findings"]))
    seen = set()
    for f in r["findings"]:
        k = (f["property"], f["kind"], f["what"][:70])
        if k in seen:
            continue
        seen.add(k)
        print(f["property"], f["kind"], f["what"][:200])
        print("    impl :", str(f["replay"].get("impl_output"))[:300])
        print("    model:", str(f["replay"].get("model_output"))[:300])
        if len(seen) > 12:
            break
    print("wall", time.time() - t)
