"""T1 source translator, sixth world: the deterministic skeleton of the scenario generator.

`translate_generator()` reads the source text (ast) of

  nasim/scenarios/generator.py  ScenarioGenerator._generate_subnets, _generate_os, _generate_services, _generate_processes

and prints them as Lean definitions (`Generated/SrcGen.lean`).  Vocabulary: `math.ceil(a / b)` on naturals is the
ceiling division `(a + b - 1) / b` (exact for every size a double represents exactly), `[x] * k` is `List.replicate`,
the generated names `os_i` / `srv_i` / `proc_i` are their indices (as everywhere in the model).  The random parts of
the generator (exploits, escalations, hosts, firewall) are tied by the recorded decision streams only.
`Props/SrcGen.lean` proves the model's `genSubnets` equal to the translated `_generate_subnets`.
"""
import ast
import pysrc, pysrc_act
from pysrc import Fn, World, Untranslatable, _methods
from pysrc_act import TrAct

LEAN_TYPE = pysrc.LEAN_TYPE
LEAN_TYPE.update({"NatL": "List Nat", "Gen": "Unit"})


class TrGen(TrAct):
    def expr(self, e, env):
        if isinstance(e, ast.Name) and e.id in self.w.gconsts and e.id not in env:
            return e.id, "Nat"
        if isinstance(e, ast.List) and len(e.elts) == 1:
            o, t = self.expr(e.elts[0], env)
            return f"[({o} : Nat)]", "NatL"
        if isinstance(e, ast.BinOp) and isinstance(e.op, ast.Mult):
            a, ta = self.expr(e.left, env)
            b, tb = self.expr(e.right, env)
            if ta == "NatL" and a.startswith("[") and tb == "Nat":
                return f"(List.replicate {b} {a[1:-1]})", "NatL"
        if isinstance(e, ast.Attribute) and ast.unparse(e) == "u.INTERNET":
            return "INTERNET", "Nat"
        if isinstance(e, ast.Attribute) and isinstance(e.value, ast.Name) and e.value.id == "self" and e.attr == "subnets" \
                and "subnets" in env:
            return "subnets", "NatL"
        if isinstance(e, ast.BinOp) and isinstance(e.op, ast.FloorDiv):
            a, _ = self.expr(e.left, env)
            b, _ = self.expr(e.right, env)
            return f"({a} / {b})", "Nat"
        if isinstance(e, ast.ListComp) and len(e.generators) == 1 and isinstance(e.elt, ast.JoinedStr):
            g = e.generators[0]
            if ast.unparse(g.iter).startswith("range(") and not g.ifs:
                n, _ = self.expr(g.iter.args[0], env)
                return f"(List.range {n})", "NatL"                       # the i-th generated name is i
        return super().expr(e, env)

    def topo_store(self, tgt, env):
        """topology[row][col]"""
        if isinstance(tgt, ast.Subscript) and isinstance(tgt.value, ast.Subscript) and isinstance(tgt.value.value, ast.Name) \
                and env.get(tgt.value.value.id, ("", ""))[1:] == ("TopoI",):
            i, _ = self.expr(tgt.value.slice, env)
            j, _ = self.expr(tgt.slice, env)
            return tgt.value.value.id, i, j
        return None

    def compare(self, e, env):
        a, ta = self.expr(e.left, env)
        b, tb = self.expr(e.comparators[0], env)
        if ta == "Nat" and tb in ("Nat", "Num") and isinstance(e.ops[0], ast.NotEq):
            return f"({a} != {b})", "Bool"
        return super().compare(e, env)

    def call(self, e, env):
        text = ast.unparse(e.func)
        if text == "len" and len(e.args) == 1:
            o, t = self.expr(e.args[0], env)
            if t == "NatL":
                return f"{o}.length", "Nat"
        if text in ("np.zeros", "numpy.zeros") and isinstance(e.args[0], ast.Tuple) and len(e.args[0].elts) == 2:
            a, _ = self.expr(e.args[0].elts[0], env)
            b, _ = self.expr(e.args[0].elts[1], env)
            return f"(PyRt.zerosI {a} {b})", "TopoI"
        if text == "range" and len(e.args) == 2:
            a, _ = self.expr(e.args[0], env)
            b, _ = self.expr(e.args[1], env)
            return f"(List.range' {a} ({b} - {a}))", "List:Nat"
        if text == "math.ceil" and len(e.args) == 1 and isinstance(e.args[0], ast.BinOp) and isinstance(e.args[0].op, ast.Div):
            a, _ = self.expr(e.args[0].left, env)
            b, _ = self.expr(e.args[0].right, env)
            return f"(PyRt.ceilDiv {a} {b})", "Nat"
        return super().call(e, env)

    def assign(self, tgt, value, env, nxt, ind):
        pad = "  " * ind
        ts = self.topo_store(tgt, env)
        if ts is not None:
            if not (isinstance(value, ast.Constant) and value.value == 1):
                self.err(tgt, "topology entry other than 1")
            t_, i, j = ts
            return f"{pad}let {t_} := PyRt.wr {t_} {i} {j}\n" + nxt(env)
        if isinstance(tgt, ast.Attribute) and isinstance(tgt.value, ast.Name) and tgt.value.id == "self" \
                and getattr(self, "loop", None) is None and self.fn.name == "_generate_topology":
            o, t = self.expr(value, env)
            self.pending = o
            return nxt(env)
        if isinstance(tgt, ast.Attribute) and isinstance(tgt.value, ast.Name) and tgt.value.id == "self":
            o, t = self.expr(value, env)
            env2 = dict(env)
            env2["self." + tgt.attr] = ("val", t)
            self.result = (o, t)
            return f"{pad}{o}\n"                                          # the attribute the method sets is its result
        if isinstance(tgt, ast.Name):
            o, t = self.expr(value, env)
            if t == "Num":
                o, t = f"({o} : Nat)", "Nat"
            env2 = dict(env)
            env2[tgt.id] = ("val", t)
            return f"{pad}let {tgt.id} := {o}\n" + nxt(env2)
        return super().assign(tgt, value, env, nxt, ind)

    def block(self, stmts, env, k, ind):
        if stmts and isinstance(stmts[0], ast.AugAssign) and isinstance(stmts[0].op, ast.Add) \
                and isinstance(stmts[0].target, ast.Name) and env.get(stmts[0].target.id, ("", ""))[1:] == ("NatL",):
            st = stmts[0]
            o, t = self.expr(st.value, env)
            pad = "  " * ind
            return f"{pad}let {st.target.id} := {st.target.id} ++ {o}\n" + self.block(stmts[1:], env, k, ind)
        return super().block(stmts, env, k, ind)

    def call_stmt(self, c, env, nxt, ind):
        pad = "  " * ind
        f = c.func
        if isinstance(f, ast.Attribute) and f.attr == "append" and isinstance(f.value, ast.Name) \
                and env.get(f.value.id, ("", ""))[1:] == ("NatL",):
            a, _ = self.expr(c.args[0], env)
            return f"{pad}let {f.value.id} := {f.value.id} ++ [{a}]\n" + nxt(env)
        return super().call_stmt(c, env, nxt, ind)

    def ret_text(self, st, env):
        if self.fn.name == "_generate_topology" and st.value is None:
            return getattr(self, "pending", "default")
        return super().ret_text(st, env)

    def assigned(self, stmts, env):
        out = super().assigned(stmts, env)
        for st in stmts:
            for x in ast.walk(st):
                if isinstance(x, ast.Assign):
                    for t in x.targets:
                        if isinstance(t, ast.Subscript) and isinstance(t.value, ast.Subscript) \
                                and isinstance(t.value.value, ast.Name) and t.value.value.id not in out:
                            out.append(t.value.value.id)
        for st in stmts:
            for x in ast.walk(st):
                if isinstance(x, ast.Expr) and isinstance(x.value, ast.Call) and isinstance(x.value.func, ast.Attribute) \
                        and x.value.func.attr == "append" and isinstance(x.value.func.value, ast.Name) \
                        and x.value.func.value.id not in out:
                    out.append(x.value.func.value.id)
        return out


VULN_KEYS = {("EDef", "EXPLOIT_SERVICE"): ("{o}.svc", "Nat"), ("EDef", "EXPLOIT_OS"): ("{o}.os", "OptNat"),
             ("EDef", "EXPLOIT_ACCESS"): ("{o}.access", "Nat"),
             ("PDef", "PRIVESC_PROCESS"): ("{o}.proc", "OptNat"), ("PDef", "PRIVESC_OS"): ("{o}.os", "OptNat"),
             ("PDef", "PRIVESC_ACCESS"): ("{o}.access", "Nat")}
HOST_FLAGS = {"services": "svc", "os": "os", "processes": "proc"}


class TrVuln(TrGen):
    """`_host_is_vulnerable`, `_host_is_vulnerable_to_exploit`, `_host_is_vulnerable_to_privesc`: hosts are `HostDef`s
    (name -> flag dictionaries are flag lists, names are indices), definitions are `ExploitDef` / `PrivescDef` records"""
    def expr(self, e, env):
        # exploit_def[u.KEY]
        if isinstance(e, ast.Subscript) and isinstance(e.value, ast.Name) and env.get(e.value.id, ("", ""))[1:] in (("EDef",), ("PDef",)) \
                and isinstance(e.slice, ast.Attribute) and ast.unparse(e.slice.value) == "u":
            ty = env[e.value.id][1]
            r = VULN_KEYS.get((ty, e.slice.attr)) or self.err(e, f"field {e.slice.attr} of a definition")
            return r[0].format(o=e.value.id), r[1]
        # host.services[name]
        if isinstance(e, ast.Subscript) and isinstance(e.value, ast.Attribute) and isinstance(e.value.value, ast.Name) \
                and env.get(e.value.value.id, ("", ""))[1:] == ("HostDef",) and e.value.attr in HOST_FLAGS:
            k, kt = self.expr(e.slice, env)
            fld = HOST_FLAGS[e.value.attr]
            if kt == "Nat":
                return f"({e.value.value.id}.{fld}.getD {k} false)", "Bool"
            if kt == "OptNat":
                # a name that is `None` is not a key of the dictionary (`KeyError`); the generator's own definitions name a
                # process, and the OS lookup sits behind `e_os is None or`
                return f"(PyRt.flagAt {e.value.value.id}.{fld} {k})", "Bool"
            self.err(e, f"flag lookup with a key of type {kt}")
        if isinstance(e, ast.Compare) and len(e.ops) == 1 and isinstance(e.ops[0], ast.Is) \
                and isinstance(e.comparators[0], ast.Constant) and e.comparators[0].value is None:
            o, t = self.expr(e.left, env)
            if t == "OptNat":
                return f"({o}).isNone", "Bool"
        if isinstance(e, ast.Compare) and len(e.ops) == 1 and isinstance(e.ops[0], ast.GtE):
            a, ta = self.expr(e.left, env)
            b, tb = self.expr(e.comparators[0], env)
            if ta == "Nat" and tb == "Nat":
                return f"(decide ({a} ≥ {b}))", "Bool"
        if isinstance(e, ast.Call) and isinstance(e.func, ast.Attribute) and e.func.attr == "values" and not e.args \
                and ast.unparse(e.func.value) in ("self.exploits", "self.privescs"):
            return ("exploits", "List:EDef") if e.func.value.attr == "exploits" else ("privescs", "List:PDef")
        if isinstance(e, ast.Call) and isinstance(e.func, ast.Attribute) and isinstance(e.func.value, ast.Name) \
                and e.func.value.id == "self" and e.func.attr in ("_host_is_vulnerable_to_exploit", "_host_is_vulnerable_to_privesc"):
            a, ta = self.expr(e.args[0], env)
            b, tb = self.expr(e.args[1], env)
            return f"(ScenarioGenerator.{e.func.attr} {a} {b})", "Bool"
        return super().expr(e, env)


def translate_vulnerability(w, meth, out):
    LEAN_TYPE.update({"HostDef": "HostDef", "EDef": "ExploitDef", "PDef": "PrivescDef", "OptNat": "Option Nat",
                      "List:EDef": "List ExploitDef", "List:PDef": "List PrivescDef"})
    for name, params, ctx in (
            ("_host_is_vulnerable_to_exploit", [("host", "HostDef"), ("exploit_def", "EDef")], []),
            ("_host_is_vulnerable_to_privesc", [("host", "HostDef"), ("privesc_def", "PDef")], []),
            ("_host_is_vulnerable", [("host", "HostDef"), ("access_level", "Nat")], [("exploits", "List:EDef"), ("privescs", "List:PDef")])):
        fn = Fn("ScenarioGenerator", name, f"ScenarioGenerator.{name}", params, "Bool", self_ty="Gen")
        fn.kind, fn.prop, fn.classmethod = "function", False, False
        doc = f"`nasim/scenarios/generator.py`: `ScenarioGenerator.{name}`"
        ps = " ".join(f"({p} : {LEAN_TYPE[t]})" for p, t in ctx + params)
        try:
            node = meth.get(name)
            if node is None:
                raise Untranslatable(f"{name} not found")
            got = [a.arg for a in node.args.args if a.arg != "self"]
            if got != [p for p, _ in params]:
                raise Untranslatable(f"{name}: parameters are {got}")
            t = TrVuln(w, fn, node)
            t.loop = None
            env = {p: ("val", ty) for p, ty in ctx + params}
            saved = w.lean_ret
            w.lean_ret = lambda f_: "Bool"
            try:
                body = t.block(node.body, env, lambda e2, i2: t.err(node, "falls off the end"), 1)
            finally:
                w.lean_ret = saved
            out.append(f"/-- {doc} -/\ndef {fn.lean} {ps} : Bool :=\n{body}")
        except Untranslatable as e:
            out.append(f"/-- UNTRANSLATABLE {doc} — {str(e).replace('-/', '- /')} -/\ndef {fn.lean} {ps} : Bool := default\n")


class TrMap(TrGen):
    """`_convert_to_os_map` / `_convert_to_service_map` / `_convert_to_process_map`: the generator's name lists are the
    parameter `names`, the dictionary built is a `List (Nat × Bool)` in insertion order (`PyRt.dictSet`)"""
    def expr(self, e, env):
        if isinstance(e, ast.Attribute) and isinstance(e.value, ast.Name) and e.value.id == "self" \
                and e.attr in ("os", "services", "processes") and "names" in env:
            return "names", "List:Nat"
        if isinstance(e, ast.Call) and isinstance(e.func, ast.Name) and e.func.id == "zip" and len(e.args) == 2 and not e.keywords:
            a, ta = self.expr(e.args[0], env)
            b, tb = self.expr(e.args[1], env)
            if ta == "List:Nat" and tb == "List:Bool":
                return f"(List.zip {a} {b})", "List:Nat*Bool"
            self.err(e, f"zip of {ta} and {tb}")
        return super().expr(e, env)

    def assign(self, tgt, value, env, nxt, ind):
        if isinstance(tgt, ast.Name) and isinstance(value, ast.Dict) and not value.keys:
            env2 = dict(env)
            env2[tgt.id] = ("val", "Dict")
            return "  " * ind + f"let {tgt.id} := ([] : List (Nat × Bool))\n" + nxt(env2)
        if isinstance(tgt, ast.Subscript) and isinstance(tgt.value, ast.Name) and env.get(tgt.value.id, ("", ""))[1:] == ("Dict",):
            kx, kt = self.expr(tgt.slice, env)
            o, t = self.expr(value, env)
            if kt != "Nat" or t != "Bool":
                self.err(tgt, f"store of {t} under a key of type {kt}")
            d = tgt.value.id
            return "  " * ind + f"let {d} := PyRt.dictSet {d} {kx} {o}\n" + nxt(env)
        return super().assign(tgt, value, env, nxt, ind)


def translate_maps(w, meth, out):
    LEAN_TYPE.update({"NatBoolD": "List (Nat × Bool)", "List:Nat": "List Nat", "List:Bool": "List Bool"})
    for name, params in (("_convert_to_os_map", [("os", "Nat")]), ("_convert_to_service_map", [("config", "List:Bool")]),
                         ("_convert_to_process_map", [("config", "List:Bool")])):
        ctx = [("names", "List:Nat")]
        fn = Fn("ScenarioGenerator", name, f"ScenarioGenerator.{name}", params, "NatBoolD", self_ty="Gen")
        fn.kind, fn.prop, fn.classmethod = "function", False, False
        doc = f"`nasim/scenarios/generator.py`: `ScenarioGenerator.{name}` (the name list it reads from `self` is `names`)"
        ps = " ".join(f"({p} : {LEAN_TYPE[t]})" for p, t in ctx + params)
        try:
            node = meth.get(name)
            if node is None:
                raise Untranslatable(f"{name} not found")
            got = [a.arg for a in node.args.args if a.arg != "self"]
            if got != [p for p, _ in params]:
                raise Untranslatable(f"{name}: parameters are {got}")
            t = TrMap(w, fn, node)
            t.loop = None
            env = {p: ("val", ty) for p, ty in ctx + params}
            saved = w.lean_ret
            w.lean_ret = lambda f_: "List (Nat × Bool)"
            try:
                body = t.block(node.body, env, lambda e2, i2: t.err(node, "falls off the end"), 1)
            finally:
                w.lean_ret = saved
            out.append(f"/-- {doc} -/\ndef {fn.lean} {ps} : List (Nat × Bool) :=\n{body}")
        except Untranslatable as e:
            out.append(f"/-- UNTRANSLATABLE {doc} — {str(e).replace('-/', '- /')} -/\ndef {fn.lean} {ps} : List (Nat × Bool) := default\n")


class TrVal(TrGen):
    """`_get_host_value`, `_is_sensitive_host`: `self.sensitive_hosts` is the parameter `sensitive_hosts` (address → value,
    insertion ordered), `self.base_host_value` the parameter `base_host_value`; values are the model's scaled integers, on
    which `float(…)` is the identity"""
    def expr(self, e, env):
        if isinstance(e, ast.Call) and isinstance(e.func, ast.Name) and e.func.id == "float" and len(e.args) == 1 and not e.keywords:
            o, t = self.expr(e.args[0], env)
            if t == "Int":
                return o, "Int"
            self.err(e, f"float of {t}")
        if isinstance(e, ast.Attribute) and ast.unparse(e) == "self.base_host_value" and "base_host_value" in env:
            return "base_host_value", "Int"
        if isinstance(e, ast.Call) and isinstance(e.func, ast.Attribute) and e.func.attr == "get" and len(e.args) == 2 \
                and ast.unparse(e.func.value) == "self.sensitive_hosts" and "sensitive_hosts" in env:
            k, kt = self.expr(e.args[0], env)
            d, dt = self.expr(e.args[1], env)
            if kt == "Addr" and dt == "Int":
                return f"((sensitive_hosts.lookup {k}).getD {d})", "Int"
            self.err(e, f"dict.get with key {kt}, default {dt}")
        if isinstance(e, ast.Compare) and len(e.ops) == 1 and isinstance(e.ops[0], ast.In) \
                and ast.unparse(e.comparators[0]) == "self.sensitive_hosts" and "sensitive_hosts" in env:
            k, kt = self.expr(e.left, env)
            if kt == "Addr":
                return f"((sensitive_hosts.lookup {k}).isSome)", "Bool"
        return super().expr(e, env)


def translate_values(w, meth, out):
    LEAN_TYPE.update({"SensD": "List (Addr × Int)"})
    for name, params, ctx, ret in (
            ("_get_host_value", [("address", "Addr")], [("sensitive_hosts", "SensD"), ("base_host_value", "Int")], "Int"),
            ("_is_sensitive_host", [("addr", "Addr")], [("sensitive_hosts", "SensD")], "Bool")):
        fn = Fn("ScenarioGenerator", name, f"ScenarioGenerator.{name}", params, ret, self_ty="Gen")
        fn.kind, fn.prop, fn.classmethod = "function", False, False
        doc = f"`nasim/scenarios/generator.py`: `ScenarioGenerator.{name}` (the attributes it reads from `self` are parameters)"
        ps = " ".join(f"({p} : {LEAN_TYPE[t]})" for p, t in ctx + params)
        try:
            node = meth.get(name)
            if node is None:
                raise Untranslatable(f"{name} not found")
            got = [a.arg for a in node.args.args if a.arg != "self"]
            if got != [p for p, _ in params]:
                raise Untranslatable(f"{name}: parameters are {got}")
            t = TrVal(w, fn, node)
            t.loop = None
            env = {p: ("val", ty) for p, ty in ctx + params}
            saved = w.lean_ret
            w.lean_ret = lambda f_: ret
            try:
                body = t.block(node.body, env, lambda e2, i2: t.err(node, "falls off the end"), 1)
            finally:
                w.lean_ret = saved
            out.append(f"/-- {doc} -/\ndef {fn.lean} {ps} : {ret} :=\n{body}")
        except Untranslatable as e:
            out.append(f"/-- UNTRANSLATABLE {doc} — {str(e).replace('-/', '- /')} -/\ndef {fn.lean} {ps} : {ret} := default\n")


def translate_generator():
    from nasim.scenarios import generator as gen_mod
    w = World()
    w.idx_locals, w.idx_fields, w.obs_consts = [], [], []
    w.access, w.consts, w.result_params, w.ukeys, w.sigs, w.local_types = {}, {}, [], {}, {}, {}
    w.gconsts = {k: int(getattr(gen_mod, k)) for k in ("USER_SUBNET_SIZE", "HOST_ASSIGNMENT_PERIOD")}
    w.lean_ret = lambda fn: LEAN_TYPE[fn.ret]
    out = [f"/-- `nasim/scenarios/generator.py`: module constant `{k}` -/\ndef {k} : Nat := {v}\n" for k, v in w.gconsts.items()]
    meth = _methods(gen_mod, "ScenarioGenerator")
    for name, param in (("_generate_subnets", "num_hosts"), ("_generate_os", "num_os"), ("_generate_services", "num_services"),
                        ("_generate_processes", "num_processes")):
        fn = Fn("ScenarioGenerator", name, f"ScenarioGenerator.{name}", [(param, "Nat")], "NatL", self_ty="Gen")
        fn.kind, fn.prop, fn.classmethod = "function", False, False
        doc = f"`nasim/scenarios/generator.py`: `ScenarioGenerator.{name}` (the attribute it sets)"
        try:
            node = meth.get(name)
            if node is None:
                raise Untranslatable(f"{name} not found")
            t = TrGen(w, fn, node)
            t.loop = None
            pysrc.RAISE_EXITS = True
            try:
                body = t.block(node.body, {param: ("val", "Nat")}, lambda e2, i2: "  " * i2 + "default\n", 1)
            finally:
                pysrc.RAISE_EXITS = False
            out.append(f"/-- {doc} -/\ndef {fn.lean} ({param} : Nat) : List Nat :=\n{body}")
        except Untranslatable as e:
            out.append(f"/-- UNTRANSLATABLE {doc} — {str(e).replace('-/', '- /')} -/\n"
                       f"def {fn.lean} ({param} : Nat) : List Nat := default\n")
    # --- _generate_topology
    w.gconsts.update({k: int(getattr(gen_mod, k)) for k in ("DMZ", "SENSITIVE", "USER")})
    from nasim.scenarios import utils as sutils
    w.gconsts["INTERNET"] = int(sutils.INTERNET)
    for k in ("DMZ", "SENSITIVE", "USER", "INTERNET"):
        out.append(f"/-- constant `{k}` -/\ndef {k} : Nat := {w.gconsts[k]}\n")
    LEAN_TYPE.update({"TopoI": "List (List Int)"})
    fn = Fn("ScenarioGenerator", "_generate_topology", "ScenarioGenerator._generate_topology", [], "TopoI", self_ty="Gen")
    fn.kind, fn.prop, fn.classmethod = "function", False, False
    doc = "`nasim/scenarios/generator.py`: `ScenarioGenerator._generate_topology` (the attribute it sets)"
    try:
        node = meth.get("_generate_topology")
        if node is None:
            raise Untranslatable("_generate_topology not found")
        t = TrGen(w, fn, node)
        t.loop = None
        pysrc.RAISE_EXITS = True
        try:
            body = t.block(node.body, {"subnets": ("val", "NatL")}, lambda e2, i2: "  " * i2 + getattr(t, "pending", "default") + "\n", 1)
        finally:
            pysrc.RAISE_EXITS = False
        out.append(f"/-- {doc} -/\ndef {fn.lean} (subnets : List Nat) : List (List Int) :=\n{body}")
    except Untranslatable as e:
        out.append(f"/-- UNTRANSLATABLE {doc} — {str(e).replace('-/', '- /')} -/\n"
                   f"def {fn.lean} (subnets : List Nat) : List (List Int) := default\n")
    translate_vulnerability(w, meth, out)
    translate_maps(w, meth, out)
    translate_values(w, meth, out)
    return "\n".join(out)
