"""Random *small* scenarios for exhaustive exploration, deliberately away from the defaults:
asymmetric firewalls, per-host deny lists, several public subnets, empty allow lists, values of
any sign, fractional (dyadic) costs, probabilities 0 / 1, OS-agnostic exploits, user-granting
escalations, step limits, and (rarely) asymmetric or non-reflexive topologies.

Every random choice derives from the `random.Random` passed in.
"""
import os
from common import Scenario, Host, u


def rand_scenario(rng, max_hosts=5, big=False, like=None):
    """like: an earlier scenario whose vector layout (subnet sizes, numbers of OS / services /
    processes, address bounds) the new one must share"""
    # "rich" scenarios are nudged so that the attack can actually progress (deep state graphs);
    # the others keep hostile corner cases (nothing exploitable, everything blocked)
    rich = rng.random() < 0.75
    pfw = 0.85 if rich else 0.5
    nsub = rng.randint(1, 3 if not big else 5)
    while True:
        sizes = [rng.randint(1, 2 if not big else 4) for _ in range(nsub)]
        if sum(sizes) <= max_hosts:
            break
    if like is not None:
        sizes = list(like.subnets[1:])
    subnets = [1] + sizes
    n = len(subnets)
    topo = [[0] * n for _ in range(n)]
    for i in range(n):
        topo[i][i] = 1
    pubs = [s for s in range(1, n) if rng.random() < 0.4] or [rng.randint(1, n - 1)]
    for s in pubs:
        topo[0][s] = topo[s][0] = 1
    for i in range(1, n):
        for j in range(i + 1, n):
            if rng.random() < 0.6:
                topo[i][j] = topo[j][i] = 1
    shape = "symmetric"
    r = rng.random()
    if r < 0.10:
        # asymmetric: drop one direction of some links (the model follows the code's direction)
        shape = "asymmetric"
        for i in range(n):
            for j in range(n):
                if i != j and topo[i][j] == 1 and rng.random() < 0.3:
                    topo[i][j] = 0
        if not any(topo[s][0] == 1 for s in range(1, n)):
            topo[1][0] = 1
    elif r < 0.15:
        shape = "non-reflexive"
        for i in range(1, n):
            if rng.random() < 0.5:
                topo[i][i] = 0
    nos, nsvc, nproc = rng.randint(1, 2), rng.randint(1, 3), rng.randint(1, 2)
    if like is not None:
        nos, nsvc, nproc = len(like.os), len(like.services), len(like.processes)
    os_l = [f"os{i}" for i in range(nos)]
    svc_l = [f"s{i}" for i in range(nsvc)]
    proc_l = [f"p{i}" for i in range(nproc)]
    if like is None and rng.random() < 0.25:
        # the three name lists are separate name spaces: the same word may name an OS, a service and a process
        os_l = [f"n{i}" for i in range(nos)]
        svc_l = [f"n{i}" for i in reversed(range(nsvc))]
        proc_l = [f"n{i}" for i in range(nproc)]
    hosts = {}
    for s in range(1, n):
        for h in range(subnets[s]):
            o = rng.randrange(nos)
            hosts[(s, h)] = dict(os={x: i == o for i, x in enumerate(os_l)},
                                 services={x: rng.random() < 0.65 for x in svc_l},
                                 processes={x: rng.random() < 0.65 for x in proc_l})
    addrs = list(hosts)
    sens = {}
    for a in rng.sample(addrs, rng.randint(1, min(3, len(addrs)))):
        sens[a] = rng.choice([1, 10, 100, 200, 0.5, 37.25]) if rng.random() < 0.8 else rng.choice([1, 2, 0.5])
    big = len(sens) >= 2 and (rng.random() < 0.06 or bool(os.environ.get("VERIF_FORCE_BIG")))
    if big:
        # values that are exact in the float32 tensor one by one but whose sum is not (2^24 + 1): anything that
        # decides by an accumulated float32 total instead of looking at the hosts goes wrong here.  Costs are whole
        # numbers in these scenarios, so that value - cost stays exact in float32 too (the implementation's own
        # arithmetic on such values is float32; a reward of 16777214.5 is not representable - not modelled)
        ks = list(sens)
        sens[ks[0]], sens[ks[1]] = 16777216, 1
    fw = {}
    for i in range(n):
        for j in range(n):
            if i != j and (topo[i][j] == 1 or topo[j][i] == 1):
                mode = rng.random()
                if mode < 0.15:
                    fw[(i, j)] = []
                elif mode < 0.3:
                    fw[(i, j)] = list(svc_l)
                else:
                    fw[(i, j)] = [x for x in svc_l if rng.random() < pfw]
    # now and then the largest number in the tensor is a discovery value (Box bounds, C10)
    dv_choices = [0, 1, 2, -1, 0.5] if rng.random() < 0.8 else [0, 5, 25, -7]
    H = {}
    for a, c in hosts.items():
        hf = {}
        for b in addrs:
            if rng.random() < (0.12 if rich else 0.3):
                hf[b] = [x for x in svc_l if rng.random() < 0.6]
        val = sens.get(a, rng.choice([0, 0, 1, -5, 3, 0.25, -0.5]))
        H[a] = Host(address=a, os=c["os"], services=c["services"], processes=c["processes"],
                    firewall=hf, value=float(val),
                    discovery_value=float(rng.choice(dv_choices)))
    exploits = {}
    for i in range(rng.randint(1, 3)):
        exploits[f"e{i}"] = dict(service=rng.choice(svc_l), os=rng.choice(os_l + [None]),
                                 prob=rng.choice([0.0, 0.25, 0.5, 0.75, 1.0, 0.8, 0.3]),
                                 cost=rng.choice([1, 2, 3] if big else [1, 1.5, 2, 0.5, 3]),
                                 access=rng.choice([1, 2]))
    if rich:
        # make one public host exploitable from the internet, and most exploits likely to work
        e0 = exploits["e0"]
        if e0["prob"] == 0.0:
            e0["prob"] = 0.5
        ps = rng.choice([s for s in range(1, n) if topo[s][0] == 1])
        h0 = H[(ps, 0)]
        h0.services[e0["service"]] = True
        if e0["os"] is not None:
            for k in h0.os:
                h0.os[k] = (k == e0["os"])
        if topo[0][ps] == 1 and e0["service"] not in fw[(0, ps)]:
            fw[(0, ps)].append(e0["service"])
        for a, h in H.items():
            if rng.random() < 0.85:
                h.services[e0["service"]] = True
        if rng.random() < 0.5:
            e0["os"] = None
    privescs = {}
    for i in range(rng.randint(1 if rich else 0, 2)):
        privescs[f"pe{i}"] = dict(process=rng.choice(proc_l), os=rng.choice(os_l + [None]),
                                  prob=rng.choice([0.0, 0.5, 1.0, 1.0, 0.9]),
                                  cost=rng.choice([1, 2] if big else [1, 1.25, 2]),
                                  access=rng.choice([1, 2, 2]))
    if like is None and rng.random() < 0.3:
        # the order of the host configurations (= row order of the state tensor, order of the flat action list) is
        # whatever the scenario lists; nothing requires it to be grouped by subnet or ascending
        order = list(H)
        rng.shuffle(order)
        H = {a_: H[a_] for a_ in order}
    d = {u.SUBNETS: subnets, u.TOPOLOGY: topo, u.OS: os_l, u.SERVICES: svc_l,
         u.PROCESSES: proc_l, u.SENSITIVE_HOSTS: sens, u.EXPLOITS: exploits,
         u.PRIVESCS: privescs,
         u.SERVICE_SCAN_COST: rng.choice([1, 0, 2]), u.OS_SCAN_COST: rng.choice([1, 2, 0.5]),
         u.SUBNET_SCAN_COST: rng.choice([1, 0.5, 3]), u.PROCESS_SCAN_COST: rng.choice([1, 0.25]),
         u.FIREWALL: fw, u.HOSTS: H,
         u.STEP_LIMIT: rng.choice([None, None, 1, 2, 3, 1000])}
    if like is not None:
        d[u.ADDRESS_SPACE_BOUNDS] = tuple(like.address_space_bounds)
    elif rng.random() < 0.3:
        d[u.ADDRESS_SPACE_BOUNDS] = (n + rng.randint(0, 2), max(subnets) + rng.randint(0, 2))
    sc = Scenario(d, name="rnd")
    sc._shape = shape
    return sc


def permute_names(sc):
    """the same scenario with its OS / service / process lists (and every host's flag dictionaries) written in
    reverse order: the same names, another column order"""
    import copy
    d = copy.deepcopy(sc.scenario_dict)
    for key in (u.OS, u.SERVICES, u.PROCESSES):
        d[key] = list(reversed(d[key]))
    H = {}
    for a, h in d[u.HOSTS].items():
        H[a] = Host(address=a, os={k: h.os[k] for k in d[u.OS]}, services={k: h.services[k] for k in d[u.SERVICES]},
                    processes={k: h.processes[k] for k in d[u.PROCESSES]}, firewall=copy.deepcopy(h.firewall),
                    value=h.value, discovery_value=h.discovery_value)
    d[u.HOSTS] = H
    out = Scenario(d, name="rnd")
    out._shape = getattr(sc, "_shape", "?")
    return out


def describe(sc):
    return dict(subnets=list(sc.subnets), topology=[list(map(int, r)) for r in sc.topology],
                os=len(sc.os), services=len(sc.services), processes=len(sc.processes),
                exploits={k: {kk: (vv if not isinstance(vv, float) else vv) for kk, vv in v.items()}
                          for k, v in sc.exploits.items()},
                privescs=dict(sc.privescs),
                sensitive={str(k): v for k, v in sc.sensitive_hosts.items()},
                firewall={str(k): list(v) for k, v in sc.firewall.items()},
                hosts={str(a): dict(os=[int(v) for v in h.os.values()],
                                    services=[int(v) for v in h.services.values()],
                                    processes=[int(v) for v in h.processes.values()],
                                    value=h.value, discovery_value=h.discovery_value,
                                    firewall={str(k): list(v) for k, v in h.firewall.items()})
                       for a, h in sc.hosts.items()},
                step_limit=sc.step_limit, bounds=list(sc.address_space_bounds),
                scan_costs=[sc.service_scan_cost, sc.os_scan_cost, sc.subnet_scan_cost,
                            sc.process_scan_cost],
                shape=getattr(sc, "_shape", "?"))
