"""T1 source translator, second world: host-vector layout and observations at the level of the raw NumPy arrays.

`translate_observation()` reads the source text (ast) of

  nasim/envs/host_vector.py  HostVector._update_vector_idxs, the five `_*_idx_slice`, the three `_get_*_idx`,
                             vectorize, the property getters compromised / reachable / discovered / address /
                             value / discovery_value / access, observe
  nasim/envs/observation.py  the class-level index constants, Observation.__init__, from_state,
                             from_action_result, update_from_host
  nasim/envs/state.py        State.shape, get_host, get_host_idx, get_host_and_idx, hosts,
                             get_initial_observation, get_observation

and prints each as a Lean definition over *raw* data (`Generated/SrcObs.lean`): a host vector is a `List Int`, a state
is its tensor (`List (List Int)`) with the `host_num_map`, an `Observation` object is its three attributes.  The
class-level layout of `HostVector` (address-space bounds, numbers of OS / services / processes) is the parameter `L`
every function takes.  Only NumPy primitives are vocabulary here (`np.zeros`, indexing, slice assignment, `argmax`,
`.shape`, `dict` lookup / iteration): `Model/PyRtObs.lean`.  The hand-written `vectorize`, `decodeRow`, `observeRow`,
`observe`, `initialObs` of the model are proved equal to the translated functions in `Props/SrcLayout.lean`,
`Props/SrcObserve.lean`, `Props/SrcObs.lean`.
"""
import ast, inspect, textwrap
import pysrc
from pysrc import Tr, Fn, World, Untranslatable, _methods

LEAN_TYPE = pysrc.LEAN_TYPE
LEAN_TYPE.update({"HV": "List Int", "Vec": "List Int", "Tensor": "List (List Int)", "Slice": "Nat × Nat",
                  "Shape": "Nat × Nat", "Mask": "Mask", "ObsObj": "PyRt.ObsObj", "RawState": "PyRt.RawState",
                  "HostList": "List (Addr × List Int)", "NumMap": "List (Addr × Nat)", "Idx": "HostVector.Idx",
                  "Bools": "List Bool", "NetRows": "List Row"})
pysrc.LEAN_TYPE.update(LEAN_TYPE)

# keyword of HostVector.observe -> field of the model's `Mask`
KW_FIELD = {"address": "address", "compromised": "comp", "reachable": "reach", "discovered": "disc", "access": "access",
            "value": "value", "discovery_value": "dvalue", "services": "svc", "processes": "proc", "os": "os"}
# class-level parameters of HostVector (set by `_initialize`) -> the layout record
CLS_PARAM = {"num_os": "L.nOs", "num_services": "L.nSvc", "num_processes": "L.nProc"}
ATTR = {
    ("ObsObj", "obs_shape"): ("{o}.obs_shape", "Shape"),
    ("ObsObj", "aux_row"): ("{o}.aux_row", "Nat"),
    ("ObsObj", "tensor"): ("{o}.tensor", "Tensor"),
    ("RawState", "tensor"): ("{o}.tensor", "Tensor"),
    ("RawState", "host_num_map"): ("{o}.host_num_map", "NumMap"),
    ("Tensor", "shape"): ("(PyRt.shape2 {o})", "Shape"),
    ("HV", "vector"): ("{o}", "Vec"),
    # the scenario's `Host` object handed to `vectorize` (the model's configuration row)
    ("Row", "address"): ("{o}.addr", "Addr"),
    ("Result", "discovered"): ("{o}.discovered", "Dict"),
    ("Result", "newly_discovered"): ("{o}.newly", "Dict"),
    ("Result", "connection_error"): ("{o}.connErr", "Bool"),
    ("Result", "permission_error"): ("{o}.permErr", "Bool"),
    ("Result", "undefined_error"): ("{o}.undefErr", "Bool"),
}
STOREF = {("RawState", "tensor"): "tensor", ("ObsObj", "obs_shape"): "obs_shape", ("ObsObj", "aux_row"): "aux_row", ("ObsObj", "tensor"): "tensor"}


class TrRaw(Tr):
    # ---------------------------------------------------------------- expressions
    def expr(self, e, env):
        if isinstance(e, ast.Name) and e.id in env:
            b = env[e.id]
            if b[0] == "expr":
                return b[1], b[2]
            if b[0] == "none":
                return "none", "None"
        if isinstance(e, ast.Constant) and isinstance(e.value, bool):
            return ("true" if e.value else "false"), "Bool"
        if isinstance(e, ast.Attribute):
            if isinstance(e.value, ast.Name) and e.value.id in ("np", "numpy"):
                self.err(e, "numpy attribute")
            o, t = self.expr(e.value, env) if not (isinstance(e.value, ast.Name) and e.value.id == "cls") else ("cls", "HVcls")
            if t in ("HV", "HVcls"):
                if self.fn.name == "_update_vector_idxs" and t == "HVcls":
                    if e.attr in self.w.idx_locals:
                        return e.attr, "Nat"
                    if e.attr in CLS_PARAM:
                        return CLS_PARAM[e.attr], "Nat"
                    if e.attr == "address_space_bounds":
                        return "(L.b0, L.b1)", "Shape"
                    self.err(e, "class attribute read before it is assigned")
                if e.attr in self.w.idx_fields:
                    return f"(HostVector._update_vector_idxs L).{e.attr.lstrip('_')}", "Nat"
                if e.attr in ("service_idx_map", "os_idx_map", "process_idx_map"):
                    # name -> position within its group; names are their positions in the model
                    return e.attr, "IdxMap"
                if e.attr == "address_space_bounds":
                    # `cls.address_space_bounds is None` (first use of the class): the layout is a parameter here
                    return "(L.b0, L.b1)", "Shape"
                fn = self.w.lookup("HV", e.attr)
                if fn is not None and getattr(fn, "prop", False):
                    return f"({fn.lean} L {o})", fn.ret
            if t == "ObsObj" and e.attr in self.w.obs_consts:
                return f"Observation.{e.attr}", "Nat"
            if t == "NetRows":
                if e.attr == "hosts":
                    return o, "HostsDict"
                if e.attr == "host_num_map":
                    return f"(PyRt.numMapOf {o})", "NumMap"
                if e.attr == "address_space_bounds":
                    return "(L.b0, L.b1)", "Shape"
            if t == "RawState":
                fn = self.w.lookup("RawState", e.attr)
                if fn is not None and getattr(fn, "prop", False):
                    return f"({fn.lean} L {o})", fn.ret
            if (t, e.attr) in ATTR:
                tpl, rt = ATTR[(t, e.attr)]
                return tpl.format(o=o), rt
            return super().expr(e, env)
        if isinstance(e, ast.Subscript):
            o, t = self.expr(e.value, env)
            if t in ("Shape", "Slice") and isinstance(e.slice, ast.Constant) and e.slice.value in (0, 1):
                return f"{o}.{e.slice.value + 1}", "Nat"
            if t in ("Vec", "HV") and not isinstance(e.slice, ast.Slice):
                i, it = self.expr(e.slice, env)
                if it == "Slice":
                    return f"(PyRt.slice1 {o} {i})", "Vec"
                if it in ("Nat", "Num"):
                    return f"(PyRt.at1 {o} {i})", "Int"
                self.err(e, f"vector index of type {it}")
            if t == "Tensor" and not isinstance(e.slice, ast.Slice):
                i, it = self.expr(e.slice, env)
                if it in ("Nat", "Num"):
                    return f"(PyRt.row {o} {i})", "Vec"
                self.err(e, f"tensor index of type {it}")
            if t == "IdxMap":
                k, kt = self.expr(e.slice, env)
                if kt != "Nat":
                    self.err(e, f"index map key of type {kt}")
                return k, "Nat"
            if t == "HostsDict":
                k, kt = self.expr(e.slice, env)
                return f"(PyRt.hostAt {o} {k})", "Row"
            if t == "NumMap":
                k, _ = self.expr(e.slice, env)
                return f"(PyRt.numMapGet {o} {k})", "Nat"
            if t == "Dict":
                k, _ = self.expr(e.slice, env)
                return f"(PyRt.dictGet {o} {k})", "Bool"
            return super().expr(e, env)
        if isinstance(e, ast.Tuple):
            parts = [self.expr(x, env) for x in e.elts]
            return "(" + ", ".join(self.coerce(p, t) for p, t in parts) + ")", "Tuple"
        if isinstance(e, ast.BinOp) and isinstance(e.op, (ast.Add, ast.Sub)):
            a, ta = self.expr(e.left, env)
            b, tb = self.expr(e.right, env)
            ty = ta if ta != "Num" else tb
            if ty == "Num":
                ty = "Nat"
            return f"({a} {'+' if isinstance(e.op, ast.Add) else '-'} {b})", ty
        if isinstance(e, ast.List) and not e.elts:
            return "[]", "EmptyList"
        return super().expr(e, env)

    def coerce(self, o, t):
        return o

    def as_bool(self, o, t, node):
        if t == "Int":
            return f"({o} != 0)"           # truth value of a NumPy float
        return super().as_bool(o, t, node)

    def mask_update(self, base, keywords, env, node):
        fields = []
        for kw in keywords:
            if kw.arg is None:
                continue
            if kw.arg not in KW_FIELD:
                self.err(node, f"keyword {kw.arg}")
            v, t = self.expr(kw.value, env)
            fields.append(f"{KW_FIELD[kw.arg]} := {self.as_bool(v, t, node)}")
        if not fields:
            return base
        return "{ " + base + " with " + ", ".join(fields) + " }"

    def call(self, e, env):
        f = e.func
        text = ast.unparse(f)
        if text in ("np.zeros", "numpy.zeros"):
            a, t = self.expr(e.args[0], env)
            if any(kw.arg != "dtype" for kw in e.keywords):
                self.err(e, "np.zeros keyword")
            if t in ("Shape", "Tuple"):
                return f"(PyRt.zeros2 {a})", "Tensor"
            if t in ("Nat", "Num"):
                return f"(PyRt.zeros1 {a})", "Vec"
            self.err(e, f"np.zeros of {t}")
        if text == "slice" and len(e.args) == 2:
            a, _ = self.expr(e.args[0], env)
            b, _ = self.expr(e.args[1], env)
            return f"({a}, {b})", "Slice"
        if text == "int" and len(e.args) == 1:
            a, t = self.expr(e.args[0], env)
            if t == "Bool":
                return f"(bi {a})", "Int"
            if t in ("Int", "Nat"):
                return a, t
            self.err(e, f"int() of {t}")
        if text == "len" and len(e.args) == 1:
            a, t = self.expr(e.args[0], env)
            if t == "HostsDict":
                return f"{a}.length", "Nat"
            if t == "Vec":
                return f"{a}.length", "Nat"
        if text == "cls" and len(e.args) == 2 and self.fn.cls == "State":
            a, ta = self.expr(e.args[0], env)
            b, tb = self.expr(e.args[1], env)
            if ta == "Tensor" and tb == "NumMap":
                return f"({{ tensor := {a}, host_num_map := {b} }} : PyRt.RawState)", "RawState"
        if text == "HostVector.vectorize" and len(e.args) == 2:
            h, ht = self.expr(e.args[0], env)
            return f"(HostVector.vectorize L {h})", "HV"
        if text == "bool" and len(e.args) == 1:
            a, t = self.expr(e.args[0], env)
            return self.as_bool(a, t, e), "Bool"
        if text == "dict" and not e.args:
            return self.mask_update("HostVector.observe_defaults", e.keywords, env, e), "Mask"
        if text == "enumerate" and len(e.args) == 1:
            a, t = self.expr(e.args[0], env)
            if not t.startswith("List:"):
                self.err(e, f"enumerate of {t}")
            return f"(PyRt.enumerate {a})", f"List:Nat*({t[5:]})"
        if text in ("HostVector", "cls") and len(e.args) == 1 and self.fn.cls in ("HostVector", "State"):
            a, t = self.expr(e.args[0], env)
            if t not in ("Vec", "HV"):
                self.err(e, f"HostVector({t})")
            return a, "HV"
        if text == "Observation" and len(e.args) == 1:
            a, t = self.expr(e.args[0], env)
            return f"(Observation.__init__ L {a})", "ObsObj"
        if isinstance(f, ast.Attribute):
            if f.attr == "items" and not e.args:
                o, t = self.expr(f.value, env)
                if t == "Bools":
                    return f"(PyRt.items {o})", "List:Nat*Bool"
                if t == "HostsDict":
                    return f"(PyRt.hostItems {o})", "List:Addr*Row"
                self.err(e, f"items() of {t}")
            if f.attr == "argmax" and not e.args:
                o, t = self.expr(f.value, env)
                if t != "Vec":
                    self.err(e, f"argmax of {t}")
                return f"(argmax {o})", "Nat"
            recv_cls = isinstance(f.value, ast.Name) and f.value.id == "cls"
            o, t = ("cls", "HVcls") if recv_cls else self.expr(f.value, env)
            key = "HV" if t in ("HV", "HVcls") else t
            fn = self.w.lookup(key, f.attr)
            if fn is not None and not fn.mutates:
                if fn.name == "observe":
                    if e.args:
                        self.err(e, "positional arguments of observe")
                    star = [kw for kw in e.keywords if kw.arg is None]
                    base = "HostVector.observe_defaults"
                    if star:
                        if len(star) != 1:
                            self.err(e, "**kwargs")
                        base, bt = self.expr(star[0].value, env)
                        if bt != "Mask":
                            self.err(e, f"**{bt}")
                    return f"({fn.lean} L {o} {self.mask_update(base, e.keywords, env, e)})", fn.ret
                if e.keywords:
                    self.err(e, "keyword arguments")
                args = " ".join(self.expr(a, env)[0] for a in e.args)
                recv = "" if getattr(fn, "classmethod", False) else f" {o}"
                rt = fn.ret if not isinstance(fn.ret, tuple) else "Tuple:" + ",".join(fn.ret)
                lay = "" if fn.self_ty == "Action" else " L"
                return f"({fn.lean}{lay}{recv} {args})".replace(" )", ")"), rt
        return super().call(e, env)

    # ---------------------------------------------------------------- statements
    def lvalue(self, tgt, newval, env):
        """(root variable, its new value) for the store `tgt = newval`"""
        if isinstance(tgt, ast.Name):
            return tgt.id, newval
        if isinstance(tgt, ast.Attribute):
            o, t = self.expr(tgt.value, env)
            if t == "HV" and tgt.attr == "vector":
                return self.lvalue(tgt.value, newval, env)              # a raw host vector *is* its `vector`
            fld = STOREF.get((t, tgt.attr)) or self.err(tgt, f"store into attribute of {t}")
            return self.lvalue(tgt.value, f"{{ {o} with {fld} := {newval} }}", env)
        if isinstance(tgt, ast.Subscript):
            o, t = self.expr(tgt.value, env)
            sl = tgt.slice
            if isinstance(sl, ast.Slice):
                if sl.step is not None:
                    self.err(tgt, "slice step")
                if sl.lower is None and sl.upper is None and t in ("Vec", "HV"):
                    return self.lvalue(tgt.value, newval, env)                      # x[:] = v
                if sl.lower is None and sl.upper is not None and t == "Tensor":
                    k, _ = self.expr(sl.upper, env)
                    return self.lvalue(tgt.value, f"(PyRt.setPrefix {o} {k} {newval})", env)
                self.err(tgt, "slice store")
            i, it = self.expr(sl, env)
            if t in ("Vec", "HV") and it == "Slice":
                return self.lvalue(tgt.value, f"(PyRt.setSlice {o} {i} {newval})", env)
            if t in ("Vec", "HV", "Tensor") and it in ("Nat", "Num"):
                return self.lvalue(tgt.value, f"({o}.set {i} {newval})", env)
            self.err(tgt, f"store into {t}[{it}]")
        self.err(tgt, "assignment target")

    def assign(self, tgt, value, env, nxt, ind):
        pad = "  " * ind
        if isinstance(tgt, ast.Attribute) and isinstance(tgt.value, ast.Name) and tgt.value.id == "cls":
            # class attribute of HostVector inside `_update_vector_idxs`
            if self.fn.name != "_update_vector_idxs":
                self.err(tgt, "class attribute store")
            o, t = self.expr(value, env)
            self.w.idx_locals.append(tgt.attr)
            return f"{pad}let {tgt.attr} : Nat := {o}\n" + nxt(env)
        if isinstance(tgt, ast.Subscript) and isinstance(tgt.value, ast.Name) and env.get(tgt.value.id, ("", ""))[1:] == ("Mask",) \
                and isinstance(tgt.slice, ast.Constant) and isinstance(tgt.slice.value, str):
            # obs_kwargs["services"] = True
            if tgt.slice.value not in KW_FIELD:
                self.err(tgt, "keyword")
            o, t = self.expr(value, env)
            d = tgt.value.id
            return f"{pad}let {d} := {{ {d} with {KW_FIELD[tgt.slice.value]} := {self.as_bool(o, t, value)} }}\n" + nxt(env)
        if isinstance(tgt, (ast.Attribute, ast.Subscript)):
            o, t = self.expr(value, env)
            if t == "Num":
                o = f"({o} : Int)"
            elif t == "Nat" and isinstance(tgt, ast.Subscript) and self.expr(tgt.value, env)[1] in ("Vec", "HV"):
                o = f"(({o} : Nat) : Int)"
            root, new = self.lvalue(tgt, o, env)
            if root not in env:
                self.err(tgt, "store into an unbound name")
            return f"{pad}let {root} := {new}\n" + nxt(env)
        if isinstance(tgt, ast.Name) and isinstance(value, ast.List) and not value.elts:
            t = self.w.local_types.get((self.fn.name, tgt.id)) or self.err(tgt, "type of the empty list")
            env2 = dict(env)
            env2[tgt.id] = ("val", t)
            return f"{pad}let {tgt.id} : {LEAN_TYPE[t]} := []\n" + nxt(env2)
        if isinstance(tgt, ast.Name):
            o, t = self.expr(value, env)
            if t == "Num":
                t = self.w.local_types.get((self.fn.name, tgt.id), "Nat")
                o = f"({o} : {LEAN_TYPE[t]})"
            if t == "Tuple":
                t = self.w.local_types.get((self.fn.name, tgt.id)) or self.err(tgt, "type of the tuple")
            env2 = dict(env)
            env2[tgt.id] = ("val", t)
            return f"{pad}let {tgt.id} := {o}\n" + nxt(env2)
        return super().assign(tgt, value, env, nxt, ind)

    def assigned(self, stmts, env):
        out = super().assigned(stmts, env)
        for st in stmts:
            for x in ast.walk(st):
                if isinstance(x, ast.Expr) and isinstance(x.value, ast.Call) and ast.unparse(x.value.func) == "HostVector.vectorize" \
                        and len(x.value.args) == 3 and isinstance(x.value.args[2], ast.Subscript) \
                        and isinstance(x.value.args[2].value, ast.Name) and x.value.args[2].value.id not in out:
                    out.append(x.value.args[2].value.id)
                if isinstance(x, ast.Expr) and isinstance(x.value, ast.Call) and isinstance(x.value.func, ast.Attribute) \
                        and x.value.func.attr == "append" and isinstance(x.value.func.value, ast.Name) \
                        and x.value.func.value.id not in out:
                    out.append(x.value.func.value.id)              # l.append(v) rebinds l
        return out

    def call_stmt(self, c, env, nxt, ind):
        pad = "  " * ind
        f = c.func
        if ast.unparse(f) == "HostVector.vectorize" and len(c.args) == 3 and isinstance(c.args[2], ast.Subscript) \
                and isinstance(c.args[2].value, ast.Name) and env.get(c.args[2].value.id, ("", ""))[1:] == ("Tensor",):
            # writes through the row view handed in as `vector`
            h, _ = self.expr(c.args[0], env)
            t_ = c.args[2].value.id
            i, _ = self.expr(c.args[2].slice, env)
            return (f"{pad}let {t_} := {t_}.set {i} (HostVector.vectorize_into L {h} (PyRt.row {t_} {i}))\n" + nxt(env))
        if isinstance(f, ast.Attribute) and isinstance(f.value, ast.Name) and f.value.id in env \
                and env[f.value.id][0] == "val":
            v, t = f.value.id, env[f.value.id][1]
            if f.attr == "append" and t == "HostList" and len(c.args) == 1:
                a, _ = self.expr(c.args[0], env)
                return f"{pad}let {v} := {v} ++ [{a}]\n" + nxt(env)
            fn = self.w.lookup(t, f.attr)
            if fn is not None and fn.mutates == "self":
                args = " ".join(self.expr(a, env)[0] for a in c.args)
                return f"{pad}let {v} := {fn.lean} L {v} {args}\n" + nxt(env)
        self.err(c, "call statement")

    def block(self, stmts, env, k, ind):
        if stmts and isinstance(stmts[0], ast.Raise):
            return "  " * ind + ("default" if getattr(self, "loop", None) is None else ".ret default") + "\n"
        return super().block(stmts, env, k, ind)

    def if_stmt(self, st, rest, env, k, ind):
        c, t = self.expr(st.test, env)
        if c in ("true", "false") or (c.startswith("(!") and c[2:-1] in ("true", "false")):
            val = c == "true" or c == "(!false)"
            # a test the typed translation decides (e.g. `vector is None` for an omitted argument): only that branch exists
            return self.block((st.body if val else st.orelse) + rest, env, k, ind)
        return super().if_stmt(st, rest, env, k, ind)

    def pattern(self, tgt, ty, env):
        """bind the names of a (nested) tuple target; returns the Lean pattern"""
        if isinstance(tgt, ast.Name):
            env[tgt.id] = ("val", ty)
            return tgt.id
        if isinstance(tgt, ast.Tuple) and len(tgt.elts) == 2:
            depth, cut = 0, None
            for i, ch in enumerate(ty):
                depth += ch == "("
                depth -= ch == ")"
                if ch == "*" and depth == 0:
                    cut = i
                    break
            if cut is None:
                self.err(tgt, f"unpacking {ty}")
            a, b = ty[:cut], ty[cut + 1:]
            if b.startswith("(") and b.endswith(")"):
                b = b[1:-1]
            return "(" + self.pattern(tgt.elts[0], a, env) + ", " + self.pattern(tgt.elts[1], b, env) + ")"
        self.err(tgt, "loop target")

    def for_stmt(self, st, rest, env, k, ind):
        pad = "  " * ind
        if st.orelse:
            self.err(st, "for-else")
        it, ity = self.expr(st.iter, env)
        if ity == "NumMap":
            it, ity = f"(PyRt.mapKeys {it})", "List:Addr"
        elif ity == "Dict":
            it, ity = f"(PyRt.dictKeys {it})", "List:Addr"
        elif ity == "HostList":
            ity = "List:Addr*HV"
        if not ity.startswith("List:"):
            self.err(st.iter, f"iteration over {ity}")
        env_b = dict(env)
        pat = self.pattern(st.target, ity[5:], env_b)
        carried = [v for v in self.assigned(st.body, env) if v in env and env[v][0] == "val"]
        sigma = self.tuple_of(carried)
        saved = getattr(self, "loop", None)
        self.loop = carried
        body = self.block(st.body, env_b, lambda e2, i2: "  " * i2 + self.cont_text(e2) + "\n", ind + 2)
        self.loop = saved
        has_ret = getattr(self, "assert_exits", False) or any(isinstance(z, (ast.Return, ast.Raise)) for z in ast.walk(st))
        after = self.block(rest, env, k, ind + 1)
        beta = self.w.lean_ret(self.fn) if has_ret else "Empty"
        out = f"{pad}match PyRt.forEach (β := {beta}) {it} {sigma} (fun {pat} {self.tuple_pat(carried)} =>\n{body}{pad}  ) with\n"
        out += (f"{pad}| .ret v => .ret v\n" if saved is not None else f"{pad}| .ret v => v\n") if has_ret \
            else f"{pad}| .ret v => nomatch v\n"
        out += f"{pad}| .next {self.tuple_pat(carried)} =>\n{after}"
        return out

    def ret_text(self, st, env):
        inner = getattr(self, "loop", None) is not None
        if st.value is None:
            v = self.fall_value(env)
        else:
            v, t = self.expr(st.value, env)
            if t == "Num":
                v = f"({v} : {LEAN_TYPE[self.fn.ret]})"
        return f".ret {v}" if inner else v

    # ---------------------------------------------------------------- whole function
    def run(self):
        fn = self.fn
        env = {}
        ps = "(L : Layout)"
        if not fn.classmethod:
            env["self"] = ("val", fn.self_ty)
            ps += f" (self : {LEAN_TYPE[fn.self_ty]})"
        got = [a.arg for a in self.node.args.args if a.arg not in ("self", "cls")]
        if fn.name == "observe":
            if sorted(got) != sorted(KW_FIELD):
                raise Untranslatable(f"HostVector.observe: keywords are {got}")
            for kwname in got:
                env[kwname] = ("expr", f"m.{KW_FIELD[kwname]}", "Bool")
            ps += " (m : Mask)"
        else:
            want = [p for p, _ in fn.params]
            if [g for g in got if g in want] != want:
                raise Untranslatable(f"{fn.cls}.{fn.name}: parameters are {got}, expected {want}")
            for p, t in fn.params:
                env[p] = ("val", t)
                ps += f" ({p} : {LEAN_TYPE[t]})"
            for g in got:
                if g not in want:
                    env[g] = ("none",)                 # an argument the call sites translated here never pass
        self.loop = None
        pre = ""
        if fn.name == "__init__":
            pre = f"  let self : {LEAN_TYPE[fn.self_ty]} := default\n"
            env["self"] = ("val", fn.self_ty)
            ps = ps.replace(f" (self : {LEAN_TYPE[fn.self_ty]})", "")
        body = self.block(self.node.body, env, lambda e2, i2: "  " * i2 + self.fall_value(e2) + "\n", 1)
        return ps, pre + body

    def fall_value(self, env):
        if self.fn.name == "_update_vector_idxs":
            return "{ " + ", ".join(f"{n.lstrip('_')} := {n}" for n in self.w.idx_locals) + " }"
        if self.fn.name == "__init__":
            return "self"
        return super().fall_value(env)

    def compare(self, e, env):
        op, l, r = e.ops[0], e.left, e.comparators[0]
        if isinstance(op, (ast.Is, ast.IsNot)) and isinstance(r, ast.Constant) and r.value is None:
            o, t = self.expr(l, env)
            if t == "None":
                return ("true" if isinstance(op, ast.Is) else "false"), "Bool"
        return super().compare(e, env)


def _class_consts(mod, cls):
    """class-level `name = expression` assignments, in order"""
    tree = ast.parse(textwrap.dedent(inspect.getsource(mod)))
    c = next(n for n in tree.body if isinstance(n, ast.ClassDef) and n.name == cls)
    return [(n.targets[0].id, n.value) for n in c.body
            if isinstance(n, ast.Assign) and len(n.targets) == 1 and isinstance(n.targets[0], ast.Name)]


def _setter_methods(mod, cls):
    """setter nodes of @<name>.setter methods"""
    tree = ast.parse(textwrap.dedent(inspect.getsource(mod)))
    c = next(n for n in tree.body if isinstance(n, ast.ClassDef) and n.name == cls)
    return {n.name: n for n in c.body if isinstance(n, ast.FunctionDef)
            and any(ast.unparse(d).endswith(".setter") for d in n.decorator_list)}


def _prop_methods(mod, cls):
    """getter nodes of @property methods (the setters are skipped)"""
    tree = ast.parse(textwrap.dedent(inspect.getsource(mod)))
    c = next(n for n in tree.body if isinstance(n, ast.ClassDef) and n.name == cls)
    return {n.name: n for n in c.body if isinstance(n, ast.FunctionDef)
            and any(ast.unparse(d) == "property" for d in n.decorator_list)}


def translate_observation():
    """returns the Lean text of the body of Generated/SrcObs.lean"""
    from nasim.envs import host_vector as hv_mod, observation as obs_mod, state as state_mod
    w = World()
    w.idx_locals, w.idx_fields, w.obs_consts = [], [], []
    w.access, w.consts, w.result_params = {}, {}, []
    w.local_types = {("hosts", "hosts"): "HostList"}
    out, F = [], []

    def reg(mod, pycls, self_ty, name, params, ret, mutates=None, classmethod=False, prop=False):
        fn = Fn(pycls, name, f"{pycls}.{name}", params, ret, self_ty=self_ty, mutates=mutates)
        fn.classmethod, fn.prop = classmethod, prop
        w.add(fn)
        F.append((mod, fn))
        return fn

    def lean_ret(fn):
        r = fn.ret
        if fn.name == "_update_vector_idxs":
            return "HostVector.Idx"
        if r is None:
            return LEAN_TYPE[fn.self_ty]
        if isinstance(r, tuple):
            return " × ".join(LEAN_TYPE[x] for x in r)
        return LEAN_TYPE[r]
    w.lean_ret = lean_ret

    # --- HostVector: the index table first (its field names are what the other functions read)
    hv = _methods(hv_mod, "HostVector")
    hvp = _prop_methods(hv_mod, "HostVector")
    f0 = reg(hv_mod, "HostVector", "HV", "_update_vector_idxs", [], "Idx", classmethod=True)
    if "_update_vector_idxs" not in hv:
        raise Untranslatable("HostVector._update_vector_idxs not found")
    ps, body = TrRaw(w, f0, hv["_update_vector_idxs"]).run()
    w.idx_fields = list(w.idx_locals)
    out.append("/-- the class-level index attributes `HostVector._update_vector_idxs` assigns -/\nstructure HostVector.Idx where\n"
               + "".join(f"  {n.lstrip('_')} : Nat\n" for n in w.idx_fields) + "deriving Repr, DecidableEq\n")
    out.append(f"/-- `nasim/envs/host_vector.py`: `HostVector._update_vector_idxs` -/\n"
               f"def HostVector._update_vector_idxs {ps} : HostVector.Idx :=\n{body}")
    F.clear()
    for nm in ("_subnet_address_idx_slice", "_host_address_idx_slice", "_service_idx_slice", "_os_idx_slice",
               "_process_idx_slice"):
        reg(hv_mod, "HostVector", "HV", nm, [], "Slice", classmethod=True)
    for nm, p in (("_get_service_idx", "srv_num"), ("_get_os_idx", "os_num"), ("_get_process_idx", "proc_num")):
        reg(hv_mod, "HostVector", "HV", nm, [(p, "Nat")], "Nat", classmethod=True)
    reg(hv_mod, "HostVector", "HV", "vectorize", [("host", "Row")], "HV", classmethod=True)
    # the same source with the optional `vector` argument passed (as State.tensorize does: a row of the tensor)
    fnv = reg(hv_mod, "HostVector", "HV", "vectorize_into", [("host", "Row"), ("vector", "Vec")], "HV", classmethod=True)
    fnv.source_name = "vectorize"
    for nm, rt in (("compromised", "Int"), ("reachable", "Int"), ("discovered", "Int"), ("address", "Addr"),
                   ("value", "Int"), ("discovery_value", "Int"), ("access", "Int")):
        reg(hv_mod, "HostVector", "HV", nm, [], rt, prop=True)
    for nm, pt in (("compromised", "Bool"), ("reachable", "Bool"), ("discovered", "Bool"), ("access", "Nat")):
        fn = reg(hv_mod, "HostVector", "HV", "set_" + nm, [("val", pt)], None, mutates="self")
        fn.setter = nm
    for nm, p in (("is_running_service", "srv"), ("is_running_os", "os"), ("is_running_process", "proc")):
        reg(hv_mod, "HostVector", "HV", nm, [(p, "Nat")], "Bool")
    # the defaults of observe's keywords
    if "observe" not in hv:
        raise Untranslatable("HostVector.observe not found")
    onode = hv["observe"]
    names = [a.arg for a in onode.args.args if a.arg != "self"]
    defaults = onode.args.defaults
    if len(defaults) != len(names) or not all(isinstance(d, ast.Constant) and isinstance(d.value, bool) for d in defaults) \
            or sorted(names) != sorted(KW_FIELD):
        raise Untranslatable("HostVector.observe: keyword signature")
    out.append("/-- the keyword defaults of `HostVector.observe` -/\ndef HostVector.observe_defaults : Mask :=\n  { "
               + ", ".join(f"{KW_FIELD[n]} := {'true' if d.value else 'false'}" for n, d in zip(names, defaults)) + " }\n")
    reg(hv_mod, "HostVector", "HV", "observe", [], "Vec")
    # --- Observation
    for name, val in _class_consts(obs_mod, "Observation"):
        if not name.endswith("_idx"):
            continue
        class _E(TrRaw):
            pass
        dummy = Fn("Observation", "<class body>", "", [], "Nat", self_ty="ObsObj")
        dummy.classmethod, dummy.prop = True, False
        env = {c: ("expr", f"Observation.{c}", "Nat") for c in w.obs_consts}
        o, t = TrRaw(w, dummy, None).expr(val, env)
        out.append(f"/-- `nasim/envs/observation.py`: class constant `Observation.{name}` -/\ndef Observation.{name} : Nat := {o}\n")
        w.obs_consts.append(name)
    reg(obs_mod, "Observation", "ObsObj", "__init__", [("state_shape", "Shape")], "ObsObj")
    reg(obs_mod, "Observation", "ObsObj", "from_state", [("state", "RawState")], None, mutates="self")
    reg(obs_mod, "Observation", "ObsObj", "from_action_result", [("action_result", "Result")], None, mutates="self")
    reg(obs_mod, "Observation", "ObsObj", "update_from_host", [("host_idx", "Nat"), ("host_obs_vector", "Vec")], None,
        mutates="self")
    # --- State
    reg(state_mod, "State", "RawState", "tensorize", [("network", "NetRows")], "RawState", classmethod=True)
    reg(state_mod, "State", "RawState", "shape", [], "Shape")
    reg(state_mod, "State", "RawState", "get_host", [("host_addr", "Addr")], "HV")
    reg(state_mod, "State", "RawState", "get_host_idx", [("host_addr", "Addr")], "Nat")
    reg(state_mod, "State", "RawState", "update_host", [("host_addr", "Addr"), ("host_vector", "HV")], None, mutates="self")
    reg(state_mod, "State", "RawState", "get_host_and_idx", [("host_addr", "Addr")], ("Nat", "HV"))
    reg(state_mod, "State", "RawState", "hosts", [], "HostList", prop=True)
    reg(state_mod, "State", "RawState", "get_initial_observation", [("fully_obs", "Bool")], "ObsObj")
    reg(state_mod, "State", "RawState", "get_observation", [("action", "Action"), ("action_result", "Result"),
                                                             ("fully_obs", "Bool")], "ObsObj")
    # the Action.is_* predicates come from Generated/SrcDyn.lean
    for nm in ("is_exploit", "is_privilege_escalation", "is_scan", "is_remote", "is_service_scan", "is_os_scan",
               "is_subnet_scan", "is_process_scan", "is_noop"):
        w.add(Fn("Action", nm, f"Src.Action.{nm}", [], "Bool", self_ty="Action"))
    cache = {}
    for mod, fn in F:
        key = (mod.__name__, fn.cls)
        if key not in cache:
            cache[key] = (_methods(mod, fn.cls), _prop_methods(mod, fn.cls))
        if key not in cache or len(cache[key]) < 3:
            cache[key] = cache[key] + (_setter_methods(mod, fn.cls),)
        node = (cache[key][1] if fn.prop else cache[key][0]).get(getattr(fn, "source_name", fn.name))
        if getattr(fn, "setter", None):
            node = cache[key][2].get(fn.setter)
        try:
            if node is None:
                raise Untranslatable(f"{fn.cls}.{fn.name} not found")
            ps, body = TrRaw(w, fn, node).run()
            out.append(f"/-- `{mod.__name__.replace('.', '/')}.py`: `{fn.cls}.{fn.name}` -/\n"
                       f"def {fn.lean} {ps} : {lean_ret(fn)} :=\n{body}")
        except Untranslatable as e:
            ps = "(L : Layout)" + ("" if fn.classmethod or fn.name == "__init__" else f" (self : {LEAN_TYPE[fn.self_ty]})")
            ps += " (m : Mask)" if fn.name == "observe" else "".join(f" ({p} : {LEAN_TYPE[t]})" for p, t in fn.params)
            why = str(e).replace("-/", "- /")
            out.append(f"/-- UNTRANSLATABLE `{mod.__name__.replace('.', '/')}.py`: `{fn.cls}.{fn.name}` — {why} -/\n"
                       f"def {fn.lean} {ps} : {lean_ret(fn)} := default\n")
    return "\n".join(out)
