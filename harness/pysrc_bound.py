"""T1 source translator, fourth world: the advertised score bound.

`translate_bound()` reads the source text (ast) of

  nasim/envs/utils.py        get_minimal_hops_to_goal
  nasim/envs/network.py      Network.get_total_sensitive_host_value, get_total_discovery_value, get_minimal_hops
  nasim/envs/environment.py  NASimEnv.get_score_upper_bound, get_minimum_hops

and prints them as Lean definitions (`Generated/SrcBound.lean`) over the model's `Scenario`.  Vocabulary
(`Model/PyRtBound.lean`): `np.iinfo(np.int16).max`, `np.full`, `d[i][j]` / `d[i][j] = v` on the distance matrix (the
model's `dget` / `dset`), `itertools.permutations` (as a collection: its order is irrelevant to a minimum), and the
unit convention (host values are integers in units of 1/64; a plain count subtracted from a value is scaled by 64).
`Props/SrcBound.lean` proves the model's `hops` and `scoreUpperBound` equal to the translated functions.
"""
import ast, inspect, textwrap
import pysrc, pysrc_obs, pysrc_act
from pysrc import Fn, World, Untranslatable, _methods
from pysrc_act import TrAct

LEAN_TYPE = pysrc.LEAN_TYPE
LEAN_TYPE.update({"TopoM": "List (List Int)", "Dist": "List (List Nat)", "Addrs": "List Addr", "Perm": "List Nat",
                  "Ext": "PyRt.Ext", "ExtPair": "PyRt.Ext × PyRt.Ext"})


class TrBound(TrAct):
    def ext(self, o, t):
        """an argument of min / max among values: plain numbers (counts, access levels, address bounds) are scaled to
        the unit of values (1/64)"""
        if t == "Ext":
            return o
        if t == "Int":
            return f"(PyRt.Ext.fin {o})"
        if t in ("Num", "Nat"):
            return f"(PyRt.Ext.fin (64 * ({o} : Int)))"
        raise Untranslatable(f"{self.fn.cls}.{self.fn.name}: a {t} among values")

    def expr(self, e, env):
        if isinstance(e, ast.Name) and e.id == "INTERNET" and e.id not in env:
            return "(0 : Nat)", "Nat"
        if ast.unparse(e) == "math.inf":
            return "PyRt.Ext.posInf", "Ext"
        if ast.unparse(e) == "-math.inf":
            return "PyRt.Ext.negInf", "Ext"
        if isinstance(e, ast.Attribute) and isinstance(e.value, ast.Name) and e.value.id == "AccessLevel" and self.w.access:
            return f"({self.w.access[e.attr]} : Nat)", "Nat"
        if isinstance(e, ast.Subscript) and isinstance(e.slice, ast.Constant) and e.slice.value in (0, 1):
            o, t = self.expr(e.value, env)
            if t == "ExtPair":
                return f"{o}.{e.slice.value + 1}", "Ext"
            if t == "NatPair":
                return f"{o}.{e.slice.value + 1}", "Nat"
        if isinstance(e, ast.Tuple) and len(e.elts) == 2:
            a, ta = self.expr(e.elts[0], env)
            b, tb = self.expr(e.elts[1], env)
            if ta == "Ext" and tb == "Ext":
                return f"({a}, {b})", "ExtPair"
        if isinstance(e, ast.Attribute):
            if ast.unparse(e) in ("np.iinfo(np.int16).max", "numpy.iinfo(numpy.int16).max"):
                return "PyRt.int16Max", "Nat"
            o, t = self.expr(e.value, env)
            if t == "Net2":
                if e.attr == "topology":
                    return f"{o}.topo", "TopoM"
                if e.attr == "sensitive_addresses":
                    return f"({o}.sens.map (·.1))", "Addrs"
                if e.attr == "sensitive_hosts":
                    return f"{o}.sens", "SensDict"
                if e.attr == "hosts":
                    return f"{o}.hosts", "HostDict"
            if t == "HostDef" and e.attr == "discovery_value":
                return f"{o}.dvalue", "Int"
            if t == "HostDef" and e.attr == "value":
                return f"{o}.value", "Int"
            if t == "Sc2":
                if e.attr == "hosts":
                    return f"{o}.hosts", "HostDict"
                if e.attr == "address_space_bounds":
                    return f"{o}.bounds", "NatPair"
                fn = self.w.lookup("Sc2", e.attr)
                if fn is not None:
                    return f"({fn.lean} {o})", fn.ret
            if t == "Env" and e.attr == "network":
                return f"{o}.sc", "Net2"
            return super().expr(e, env)
        if isinstance(e, ast.Subscript):
            # d[i][j]
            if isinstance(e.value, ast.Subscript):
                o, t = self.expr(e.value.value, env)
                if t == "Dist":
                    i, _ = self.expr(e.value.slice, env)
                    j, _ = self.expr(e.slice, env)
                    return f"(dget {o} {i} {j})", "Nat"
                if t == "TopoM":
                    i, _ = self.expr(e.value.slice, env)
                    j, _ = self.expr(e.slice, env)
                    return f"((({o}.getD {i} []).getD {j} 0) : Int)", "Int"
            o, t = self.expr(e.value, env)
            if t == "Perm":
                i, _ = self.expr(e.slice, env)
                return f"(PyRt.natAt {o} {i})", "Nat"
            return super().expr(e, env)
        if isinstance(e, ast.List) and len(e.elts) == 1:
            o, t = self.expr(e.elts[0], env)
            if t in ("Nat", "Num"):
                return f"[{o}]", "Perm"
        if isinstance(e, ast.BinOp) and isinstance(e.op, (ast.Add, ast.Sub)):
            a, ta = self.expr(e.left, env)
            b, tb = self.expr(e.right, env)
            if ta == "Int" and tb == "Nat":
                # a count subtracted from / added to a value in units of 1/64
                return f"({a} {'+' if isinstance(e.op, ast.Add) else '-'} 64 * ({b} : Int))", "Int"
        return super().expr(e, env)

    def compare(self, e, env):
        op, l, r = e.ops[0], e.left, e.comparators[0]
        if isinstance(op, (ast.In, ast.NotIn)):
            c, ct = self.expr(r, env)
            if ct == "Perm":
                x, _ = self.expr(l, env)
                s = f"({c}.contains {x})"
                return (s if isinstance(op, ast.In) else f"(!{s})"), "Bool"
        if isinstance(op, ast.Eq):
            a, ta = self.expr(l, env)
            b, tb = self.expr(r, env)
            if ta == "Int" and tb == "Num":
                return f"({a} == ({b} : Int))", "Bool"
            if ta == "Nat" and tb == "Nat":
                return f"({a} == {b})", "Bool"
        return super().compare(e, env)

    def call(self, e, env):
        f = e.func
        text = ast.unparse(f)
        if text == "len" and len(e.args) == 1:
            o, t = self.expr(e.args[0], env)
            if t in ("TopoM", "Perm", "Dist"):
                return f"{o}.length", "Nat"
        if text in ("np.full", "numpy.full"):
            sh = e.args[0]
            if not (isinstance(sh, ast.Tuple) and len(sh.elts) == 2):
                self.err(e, "np.full shape")
            a, _ = self.expr(sh.elts[0], env)
            b, _ = self.expr(sh.elts[1], env)
            v, _ = self.expr(e.args[1], env)
            return f"(PyRt.full2 {a} {b} {v})", "Dist"
        if text == "permutations" and len(e.args) == 1:
            o, t = self.expr(e.args[0], env)
            if t != "Perm":
                self.err(e, f"permutations of {t}")
            return f"(PyRt.permutations {o})", "List:Perm"
        if text in ("min", "max") and len(e.args) >= 2:
            parts = [self.expr(a, env) for a in e.args]
            if any(t in ("Ext", ) for _, t in parts) or getattr(self.fn, "ext_ctx", False):
                acc = self.ext(*parts[0])
                for o, t in parts[1:]:
                    acc = f"(PyRt.Ext.{text} {acc} {self.ext(o, t)})"
                return acc, "Ext"
        if text == "min" and len(e.args) == 2:
            a, ta = self.expr(e.args[0], env)
            b, tb = self.expr(e.args[1], env)
            return f"(min {a} {b})", ta
        if text == "max" and len(e.args) == 2:
            a, ta = self.expr(e.args[0], env)
            b, tb = self.expr(e.args[1], env)
            if ta == "Num":
                a = f"({a} : {LEAN_TYPE[tb]})"
            return f"(max {a} {b})", tb
        if text == "get_minimal_hops_to_goal":
            a, _ = self.expr(e.args[0], env)
            b, _ = self.expr(e.args[1], env)
            return f"(get_minimal_hops_to_goal {a} {b})", "Nat"
        if isinstance(f, ast.Attribute) and f.attr == "values" and not e.args:
            o, t = self.expr(f.value, env)
            if t == "SensDict":
                return f"({o}.map (·.2))", "List:Int"
            if t == "HostDict":
                return o, "List:HostDef"
        if isinstance(f, ast.Attribute):
            o, t = self.expr(f.value, env)
            fn = self.w.lookup(t, f.attr)
            if fn is not None and t in ("Net2", "Env") and not e.args:
                return f"({fn.lean} {o})", fn.ret
        return super().call(e, env)

    def assign(self, tgt, value, env, nxt, ind):
        pad = "  " * ind
        # d[i][j] = v
        if isinstance(tgt, ast.Subscript) and isinstance(tgt.value, ast.Subscript) and isinstance(tgt.value.value, ast.Name) \
                and env.get(tgt.value.value.id, ("", ""))[1:] == ("Dist",):
            d = tgt.value.value.id
            i, _ = self.expr(tgt.value.slice, env)
            j, _ = self.expr(tgt.slice, env)
            v, vt = self.expr(value, env)
            if vt == "Num":
                v = f"({v} : Nat)"
            return f"{pad}let {d} := dset {d} {i} {j} {v}\n" + nxt(env)
        return super().assign(tgt, value, env, nxt, ind)

    def assigned(self, stmts, env):
        out = super().assigned(stmts, env)
        for st in stmts:
            for x in ast.walk(st):
                if isinstance(x, ast.Assign):
                    for t in x.targets:
                        if isinstance(t, ast.Subscript) and isinstance(t.value, ast.Subscript) \
                                and isinstance(t.value.value, ast.Name) and t.value.value.id not in out:
                            out.append(t.value.value.id)                 # d[i][j] = v rebinds d
        return out

    def call_stmt(self, c, env, nxt, ind):
        pad = "  " * ind
        f = c.func
        if isinstance(f, ast.Attribute) and f.attr == "append" and isinstance(f.value, ast.Name) \
                and env.get(f.value.id, ("", ""))[1:] == ("Perm",):
            a, _ = self.expr(c.args[0], env)
            return f"{pad}let {f.value.id} := {f.value.id} ++ [{a}]\n" + nxt(env)
        return super().call_stmt(c, env, nxt, ind)

    def for_stmt(self, st, rest, env, k, ind):
        # elements of the iterated lists carry their own types
        it, ity = self.expr(st.iter, env)
        if ity == "Addrs":
            st2 = ast.For(target=st.target, iter=st.iter, body=st.body, orelse=st.orelse)
            saved = self.expr

            def ex(e, env_):
                if e is st.iter:
                    return it, "List:Nat*Nat"
                return saved(e, env_)
            self.expr = ex
            try:
                return super().for_stmt(st2, rest, env, k, ind)
            finally:
                self.expr = saved
        return super().for_stmt(st, rest, env, k, ind)


def translate_bound():
    from nasim.envs import utils as utils_mod, network as net_mod, environment as env_mod
    LEAN_TYPE.update({"Net2": "Scenario", "HostDef": "HostDef"})
    w = World()
    w.idx_locals, w.idx_fields, w.obs_consts = [], [], []
    w.access, w.consts, w.result_params, w.ukeys, w.sigs = {}, {}, [], {}, {}
    w.local_types = {("get_minimal_hops_to_goal", "pm_sum"): "Nat", ("get_total_sensitive_host_value", "total"): "Int",
                     ("get_total_discovery_value", "total"): "Int"}
    w.lean_ret = lambda fn: LEAN_TYPE[fn.ret]
    out = []
    tree = ast.parse(textwrap.dedent(inspect.getsource(utils_mod)))
    funcs = {n.name: n for n in tree.body if isinstance(n, ast.FunctionDef)}

    def mk(cls, name, lean, params, ret, kind, self_ty=None):
        fn = Fn(cls, name, lean, params, ret, self_ty=self_ty or cls)
        fn.kind, fn.prop, fn.classmethod = kind, False, False
        w.add(fn)
        return fn

    def emit(fn, node, doc):
        try:
            if node is None:
                raise Untranslatable(f"{fn.cls}.{fn.name} not found")
            ps, body = TrBound(w, fn, node).run()
            out.append(f"/-- {doc} -/\ndef {fn.lean} {ps} : {LEAN_TYPE[fn.ret]} :=\n{body}")
        except Untranslatable as e:
            ps = ("" if fn.kind == "function" else f"(self : {LEAN_TYPE.get(fn.self_ty, 'Scenario')}) ") \
                + " ".join(f"({p} : {LEAN_TYPE[t]})" for p, t in fn.params)
            why = str(e).replace("-/", "- /")
            out.append(f"/-- UNTRANSLATABLE {doc} — {why} -/\ndef {fn.lean} {ps} : {LEAN_TYPE[fn.ret]} := default\n")

    fn = mk("utils", "get_minimal_hops_to_goal", "get_minimal_hops_to_goal",
            [("topology", "TopoM"), ("sensitive_addresses", "Addrs")], "Nat", "function")
    emit(fn, funcs.get("get_minimal_hops_to_goal"), "`nasim/envs/utils.py`: `get_minimal_hops_to_goal`")
    net = _methods(net_mod, "Network")
    for nm, rt in (("get_total_sensitive_host_value", "Int"), ("get_total_discovery_value", "Int"), ("get_minimal_hops", "Nat")):
        fn = mk("Network", nm, f"Network.{nm}", [], rt, "method", "Net2")
        emit(fn, net.get(nm), f"`nasim/envs/network.py`: `Network.{nm}`")
    # --- the Box bounds of the observation space (C10)
    from nasim.scenarios import scenario as sc_mod
    from nasim.envs import observation as obs_mod
    from nasim.envs.utils import AccessLevel
    w.access = {m.name: int(m) for m in AccessLevel}
    LEAN_TYPE.update({"Sc2": "Scenario"})
    w.local_types.update({("host_value_bounds", "min_value"): "Ext", ("host_value_bounds", "max_value"): "Ext",
                          ("host_discovery_value_bounds", "min_value"): "Ext", ("host_discovery_value_bounds", "max_value"): "Ext"})
    props = pysrc_obs._prop_methods(sc_mod, "Scenario")
    for nm in ("host_value_bounds", "host_discovery_value_bounds"):
        fn = mk("Scenario", nm, f"Scenario.{nm}", [], "ExtPair", "method", "Sc2")
        fn.ext_ctx = True
        emit(fn, props.get(nm), f"`nasim/scenarios/scenario.py`: `Scenario.{nm}`")
    obs_meth = _methods(obs_mod, "Observation")
    fn = mk("Observation", "get_space_bounds", "Observation.get_space_bounds", [("scenario", "Sc2")], "ExtPair", "function")
    fn.ext_ctx = True
    emit(fn, obs_meth.get("get_space_bounds"), "`nasim/envs/observation.py`: `Observation.get_space_bounds`")
    envm = _methods(env_mod, "NASimEnv")
    for nm, rt in (("get_minimum_hops", "Nat"), ("get_score_upper_bound", "Int")):
        fn = mk("NASimEnv", nm, f"NASimEnv.{nm}", [], rt, "method", "Env")
        emit(fn, envm.get(nm), f"`nasim/envs/environment.py`: `NASimEnv.{nm}`")
    return "\n".join(out)
