"""Shared plumbing of the correspondence harness.

The harness imports the *real* NASim from $NASIM_REPO (default /repo), calls it in-process and
talks to the Lean driver through the line protocol of NasimModel/Model/Wire.lean.
"""
import os, sys, subprocess, json, hashlib, time
from fractions import Fraction

VERIF = os.path.dirname(os.path.dirname(os.path.abspath(__file__)))
REPO = os.environ.get("NASIM_REPO", "/repo")
sys.path.insert(0, REPO)
os.environ.setdefault("NASIM_VERIF", "1")

import numpy as np                      # noqa: E402
import nasim                            # noqa: E402
from nasim.scenarios import Scenario    # noqa: E402
from nasim.scenarios.host import Host   # noqa: E402
import nasim.scenarios.utils as u       # noqa: E402
from nasim.envs.environment import NASimEnv  # noqa: E402
from nasim.envs.action import (Action, NoOp, ServiceScan, OSScan, SubnetScan, ProcessScan,   # noqa: E402
                               Exploit, PrivilegeEscalation)

assert os.path.realpath(nasim.__file__).startswith(os.path.realpath(REPO)), \
    f"nasim imported from {nasim.__file__}, expected under {REPO}"

LEAN_DIR = os.path.join(VERIF, "lean", "NasimModel")
DRIVER = os.path.join(LEAN_DIR, ".lake", "build", "bin", "driver")
VS = 64          # values / costs / rewards are sent in units of 1/64
SEP = -7777


class Untranslatable(Exception):
    """an implementation value the integer wire format cannot carry exactly"""


def sv(x):
    """scaled value: exact integer number of 1/64 units"""
    f = Fraction(float(x)) * VS
    if f.denominator != 1:
        raise Untranslatable(f"value {x!r} is not a multiple of 1/{VS}")
    return int(f)


def fr(x):
    f = Fraction(float(x))
    return f"{f.numerator}/{f.denominator}"


def as_int(x):
    f = Fraction(float(x))
    if f.denominator != 1:
        raise Untranslatable(f"{x!r} is not an integer")
    return int(f)


# ----------------------------------------------------------------------------- driver

def run_driver(lines, timeout=600):
    """feed all lines to a fresh driver process, return the list of reply lines"""
    p = subprocess.run([DRIVER], input="\n".join(lines) + "\n", capture_output=True, text=True,
                       timeout=timeout)
    if p.returncode != 0:
        raise RuntimeError(f"driver exit {p.returncode}: {p.stderr[:500]}")
    out = p.stdout.split("\n")
    if out and out[-1] == "":
        out.pop()
    return out


def parse_reply(line):
    return [int(t) if "/" not in t else t for t in line.split()]


def split_sep(xs):
    out = [[]]
    for x in xs:
        if x == SEP:
            out.append([])
        else:
            out[-1].append(x)
    return out


# ----------------------------------------------------------------------------- scenario → wire

def scenario_lines(sc):
    """wire definition of a nasim Scenario (names become indices)"""
    S = {s: i for i, s in enumerate(sc.services)}
    O = {o: i for i, o in enumerate(sc.os)}
    P = {p: i for i, p in enumerate(sc.processes)}
    L = ["new", "subnets " + " ".join(str(int(x)) for x in sc.subnets),
         f"bounds {int(sc.address_space_bounds[0])} {int(sc.address_space_bounds[1])}",
         f"dims {len(sc.os)} {len(sc.services)} {len(sc.processes)}"]
    n = len(sc.topology)
    L.append(f"topo {n} " + " ".join(str(as_int(x)) for row in sc.topology for x in row))
    for (a, b), allowed in sc.firewall.items():
        L.append((f"fw {a} {b} " + " ".join(str(S[x]) for x in sorted(allowed, key=lambda x: S[x]))).rstrip())

    def fl(d):
        return f"{len(d)} " + " ".join(str(int(bool(v))) for v in d.values())
    for addr, h in sc.hosts.items():
        L.append(f"host {addr[0]} {addr[1]} {sv(h.value)} {sv(h.discovery_value)} "
                 f"{fl(h.os)} {fl(h.services)} {fl(h.processes)}")
    for addr, h in sc.hosts.items():
        for src, den in h.firewall.items():
            if not (isinstance(src, tuple) and len(src) == 2):
                raise Untranslatable(f"host firewall key {src!r} is not an address")
            L.append((f"hfw {addr[0]} {addr[1]} {src[0]} {src[1]} " + " ".join(str(S[x]) for x in den)).rstrip())
    for addr, v in sc.sensitive_hosts.items():
        L.append(f"sens {addr[0]} {addr[1]} {sv(v)}")
    for e in sc.exploits.values():
        os_ = -1 if e[u.EXPLOIT_OS] is None else O[e[u.EXPLOIT_OS]]
        L.append(f"expl {S[e[u.EXPLOIT_SERVICE]]} {os_} {fr(e[u.EXPLOIT_PROB])} "
                 f"{sv(e[u.EXPLOIT_COST])} {int(e[u.EXPLOIT_ACCESS])}")
    for e in sc.privescs.values():
        os_ = -1 if e[u.PRIVESC_OS] is None else O[e[u.PRIVESC_OS]]
        pr = -1 if e[u.PRIVESC_PROCESS] is None else P[e[u.PRIVESC_PROCESS]]
        L.append(f"priv {pr} {os_} {fr(e[u.PRIVESC_PROB])} {sv(e[u.PRIVESC_COST])} "
                 f"{int(e[u.PRIVESC_ACCESS])}")
    L.append(f"costs {sv(sc.service_scan_cost)} {sv(sc.os_scan_cost)} "
             f"{sv(sc.subnet_scan_cost)} {sv(sc.process_scan_cost)}")
    if sc.step_limit is not None:
        L.append(f"limit {as_int(sc.step_limit)}")
    return L


KIND = {NoOp: 0, ServiceScan: 1, OSScan: 2, SubnetScan: 3, ProcessScan: 4, Exploit: 5,
        PrivilegeEscalation: 6}


class ImplAction(Exception):
    """an action handed out by the implementation's action space does not belong to the scenario"""


def action_finding(exc, where, replay):
    return dict(property="C11", kind="failing-input", what=f"{where}: {exc}",
                replay=dict(replay, kind="foreign-action"))


def _index(names, x, what, a):
    try:
        return names.index(x)
    except ValueError:
        raise ImplAction(f"the action space holds {a}, whose {what} {x!r} the scenario does not define "
                         f"({what}s: {list(names)})")


def act_tokens(sc, a):
    """kind ts th cost prob req svc proc os grant"""
    svc = _index(sc.services, a.service, "service", a) if isinstance(a, Exploit) else 0
    proc = -1
    if isinstance(a, PrivilegeEscalation) and a.process is not None:
        proc = _index(sc.processes, a.process, "process", a)
    os_ = -1
    if isinstance(a, (Exploit, PrivilegeEscalation)) and a.os is not None:
        os_ = _index(sc.os, a.os, "OS", a)
    if tuple(a.target) not in sc.hosts and not isinstance(a, NoOp):
        raise ImplAction(f"the action space holds {a}, whose target is not a host of the scenario")
    grant = a.access if isinstance(a, (Exploit, PrivilegeEscalation)) else 0
    return [KIND[type(a)], int(a.target[0]), int(a.target[1]), sv(a.cost), fr(a.prob),
            int(a.req_access), svc, proc, os_, int(grant)]


def def_tokens(sc, a):
    """the action as the *scenario* defines it (same token layout as act_tokens): cost / probability / granted access
    of an exploit or escalation come from the scenario's definition of that name, the cost of a scan from the
    scenario's scan costs - so that an action object whose attributes drifted from the definition (C05: "the cost the
    scenario defines", C07: "the action's success probability") makes the implementation's transition differ from the
    model's, not just its entry in the action list (C11)"""
    tk = act_tokens(sc, a)
    try:
        if isinstance(a, Exploit) and a.name in sc.exploits:
            d = sc.exploits[a.name]
            tk[3], tk[4], tk[9] = sv(d["cost"]), fr(d["prob"]), int(d["access"])
        elif isinstance(a, PrivilegeEscalation) and a.name in sc.privescs:
            d = sc.privescs[a.name]
            tk[3], tk[4], tk[9] = sv(d["cost"]), fr(d["prob"]), int(d["access"])
        elif isinstance(a, ServiceScan):
            tk[3], tk[4] = sv(sc.service_scan_cost), fr(1.0)
        elif isinstance(a, OSScan):
            tk[3], tk[4] = sv(sc.os_scan_cost), fr(1.0)
        elif isinstance(a, SubnetScan):
            tk[3], tk[4] = sv(sc.subnet_scan_cost), fr(1.0)
        elif isinstance(a, ProcessScan):
            tk[3], tk[4] = sv(sc.process_scan_cost), fr(1.0)
    except Exception:
        pass
    return tk


def act_key(toks):
    return " ".join(str(t) for t in toks)


# ----------------------------------------------------------------------------- impl → canonical

def dyn_of(env, st):
    out = []
    for addr in env.network.address_space:
        h = st.get_host(addr)
        out += [int(h.compromised), int(h.reachable), int(h.discovered), int(h.access)]
    return out


def row_ints(env, st):
    """full rows through the implementation's own accessors (rowInts of Wire.lean)"""
    out = []
    for addr in env.network.address_space:
        h = st.get_host(addr)
        a = h.address
        out += [int(a[0]), int(a[1]), int(h.compromised), int(h.reachable), int(h.discovered),
                as_int(h.access), sv(h.value), sv(h.discovery_value)]
        for d in (h.os, h.services, h.processes):
            out.append(len(d))
            out += [int(bool(v)) for v in d.values()]
    return out


class ImplLayout(Exception):
    """a tensor produced by the implementation cannot be read in the documented layout"""


def layout_finding(exc, where, replay):
    return dict(property="C09", kind="failing-input",
                what=f"{where}: {exc}", replay=dict(replay, kind="layout-shape"))


def tensor_ints(sc, arr, rows_with_values):
    """raw tensor → ints; the two value columns are scaled by 64.
    rows_with_values: number of leading rows that are host rows (the aux row of an observation
    has no value columns)"""
    arr = np.asarray(arr, dtype=np.float64)
    w = int(sc.address_space_bounds[0]) + int(sc.address_space_bounds[1]) + 6 \
        + len(sc.os) + len(sc.services) + len(sc.processes)      # the documented row width
    if arr.ndim == 1:
        if arr.size % w:
            raise ImplLayout(f"a flat tensor of {arr.size} entries is not a whole number of rows of the "
                             f"documented width {w}")
        arr = arr.reshape(-1, w)
    elif arr.ndim != 2 or arr.shape[1] != w:
        raise ImplLayout(f"a tensor of shape {arr.shape} does not have rows of the documented width {w}")
    vi = int(sc.address_space_bounds[0]) + int(sc.address_space_bounds[1]) + 3
    out = []
    for i, row in enumerate(arr):
        for j, x in enumerate(row):
            if i < rows_with_values and j in (vi, vi + 1):
                out.append(sv(x))
            else:
                out.append(as_int(x))
    return out


def opt_dict(d):
    if not d:
        return [-1]
    return [len(d)] + [int(bool(v)) for v in d.values()]


def result_ints(env, info):
    acc = info["access"]
    acc_i = -1 if (isinstance(acc, dict) and not acc) else as_int(acc)
    disc = info["discovered"]
    newly = info["newly_discovered"]
    order = env.network.address_space

    def bits(d):
        if not d:
            return [0]
        return [len(d)] + [int(bool(d[a])) for a in order]
    return ([int(bool(info["success"])), sv(info["value"]), int(bool(info["connection_error"])),
             int(bool(info["permission_error"])), int(bool(info["undefined_error"]))]
            + opt_dict(info["services"]) + opt_dict(info["os"]) + opt_dict(info["processes"])
            + [acc_i] + bits(disc) + bits(newly))


class Draw:
    """scripted replacement of np.random.rand: returns a fixed value, counts calls"""

    def __init__(self):
        self.v = 0.0
        self.n = 0

    def __call__(self, *a):
        assert not a
        self.n += 1
        return self.v


def entry_point_flags(make, call):
    """the package's top-level entry points hand their mode flags to the environment: `make(fully_obs=, flat_actions=,
    flat_obs=)` must return an environment in exactly the requested modes.  Returns [(property, what)]."""
    out = []
    for fo, fa, fb in ((True, False, False), (False, True, True), (False, False, True), (True, True, False)):
        try:
            env = make(fully_obs=fo, flat_actions=fa, flat_obs=fb)
            obs, _ = env.reset()
            asp = env.action_space
            facts = [("C08", "fully_obs", bool(env.fully_obs), fo), ("C11", "flat_actions", bool(env.flat_actions), fa),
                     ("C09", "flat_obs", bool(env.flat_obs), fb),
                     ("C09", "observation is 1-D", getattr(obs, "ndim", None) == 1, fb),
                     ("C11", "action space is the flat one", hasattr(asp, "n") and not hasattr(asp, "nvec"), fa)]
            for own, name, got, want in facts:
                if got != want:
                    out.append((own, f"{call}(fully_obs={fo}, flat_actions={fa}, flat_obs={fb}) returns an environment "
                                     f"with {name} = {got}"))
        except Exception as e:
            if not raised_by_implementation(e):
                raise
            out.append(("C10", f"{call}(fully_obs={fo}, flat_actions={fa}, flat_obs={fb}) raises {type(e).__name__}"))
    return sorted(set(out))


def gym_registrations(benchmarks=("tiny", "tiny-small", "small-gen")):
    """the registered gymnasium ids `<Name>[PO][2D][VA]-v0`: PO = partially observable, 2D = 2-D observations, VA =
    parameterised actions (the naming scheme of nasim/__init__.py); each id must build the benchmark of that name in
    exactly those modes.  Returns [(property, what)]."""
    import gymnasium as gym
    import nasim  # noqa: F401  (registers the ids)
    out = []
    for b in benchmarks:
        base = "".join(g.capitalize() for g in b.split("-"))
        for fo in (True, False):
            for d2 in (False, True):
                for va in (False, True):
                    gid = base + ("" if fo else "PO") + ("2D" if d2 else "") + ("VA" if va else "") + "-v0"
                    try:
                        env = gym.make(gid).unwrapped
                    except Exception as e:
                        out.append(("C10", f"gymnasium.make('{gid}') raises {type(e).__name__}"))
                        continue
                    facts = [("C08", "fully_obs", bool(env.fully_obs), fo), ("C09", "flat_obs", bool(env.flat_obs), not d2),
                             ("C11", "flat_actions", bool(env.flat_actions), not va)]
                    for own, name, got, want in facts:
                        if got != want:
                            out.append((own, f"gymnasium.make('{gid}') builds an environment with {name} = {got}"))
    return sorted(set(out))


def raised_by_implementation(exc):
    """True when the innermost frame of the exception lies in $NASIM_REPO/nasim (the implementation
    raised on an input the harness considers valid) rather than in the harness itself"""
    import traceback
    tb = traceback.extract_tb(exc.__traceback__)
    root = os.path.realpath(os.path.join(REPO, "nasim"))
    for fr in reversed(tb):
        fn = os.path.realpath(fr.filename)
        if fn.startswith(root):
            return True
        if fn.startswith(os.path.realpath(VERIF)):
            # harness frame reached first only if no implementation frame lies deeper
            return False
    return False


def impl_exception_finding(exc, where, replay):
    import traceback
    tb = "".join(traceback.format_exception(type(exc), exc, exc.__traceback__))[-1500:]
    return dict(property="C10", kind="failing-input",
                what=f"the implementation raised {type(exc).__name__} on a valid input ({where}): {str(exc)[:120]}",
                replay=dict(replay, kind="impl-exception", traceback=tb))


def repo_digest():
    """sha256 over every file under $NASIM_REPO/nasim (content), so caches follow the tree"""
    h = hashlib.sha256()
    root = os.path.join(REPO, "nasim")
    for d, dirs, files in sorted(os.walk(root)):
        dirs.sort()
        if "__pycache__" in d:
            continue
        for f in sorted(files):
            if f.endswith(".pyc"):
                continue
            p = os.path.join(d, f)
            h.update(os.path.relpath(p, root).encode())
            with open(p, "rb") as fh:
                h.update(fh.read())
    return h.hexdigest()
