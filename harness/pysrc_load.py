"""T1 source translator, fifth world: the simple validators of the scenario loader.

`translate_loader()` reads the source text (ast) of

  nasim/scenarios/loader.py  ScenarioLoader._validate_subnets, _validate_topology, _validate_os, _validate_services,
                             _validate_processes, _is_valid_subnet_ID, _is_valid_host_address, _validate_scan_cost,
                             _is_valid_firewall_setting, _contains_all_required_firewalls, _validate_firewall,
                             _validate_sensitive_hosts (with `eval` of an address key as the documented `(int, int)`
                             spelling), and the step-limit test of _parse_step_limit

and prints each as a Lean function into `Bool` over the YAML AST `Y` of the loader model (`Generated/SrcLoad.lean`):
"the validator returns normally" resp. "returns True".  `assert c` is "if not c: reject"; any operation Python would
refuse (ordering a string against a number, `set` of unhashable elements) is a rejection as well, which is sound in
the positions the translator admits it: directly in an `assert`, or behind a `type(x) is int` test on the same
operand in the same Boolean chain.  Vocabulary: `Model/PyRtLoad.lean`.  `Props/SrcLoad.lean` proves the model's
`subnetsOk`, `topologyOk`, `namesOk`, `validSubnetId`, `validHostAddr`, `scanCostOk`, `fwSettingOk` equal to them.
"""
import ast, inspect, textwrap
import pysrc, pysrc_obs, pysrc_act
from pysrc import Fn, World, Untranslatable, _methods
from pysrc_act import TrAct

LEAN_TYPE = pysrc.LEAN_TYPE


def pysrc_str(x):
    return '"' + x.replace("\\", "\\\\").replace('"', '\\"') + '"'


LEAN_TYPE.update({"Y": "Load.Y", "YList": "List Load.Y", "Loader": "Unit", "NatList": "List Nat", "YMap": "List (Load.Y × Load.Y)",
                  "TopoL": "List (List Int)", "IntList": "List Int", "PyInt": "Int", "IntPair": "Int × Int", "TyName": "String",
                  "SensMap": "List ((Nat × Nat) × Rat)", "Rat": "Rat", "FlagDict": "List (Load.Y × Bool)",
                  "FlagDict3": "List (Load.Y × Bool) × List (Load.Y × Bool) × List (Load.Y × Bool)",
                  "FwDict": "List ((Int × Int) × Load.Y)"})


class TrLoad(TrAct):
    def ynum(self, node):
        """an integer literal"""
        if isinstance(node, ast.Constant) and isinstance(node.value, int) and not isinstance(node.value, bool):
            return node.value
        return None

    def expr_compare2(self, e, env):
        return self.compare(e, env)

    def kconst(self, node, env):
        """a dictionary key that is a constant at translation time: a literal, `u.NAME`, or the key variable of an
        unrolled loop over one of the module's key tables"""
        if isinstance(node, ast.Name) and env.get(node.id, ("",))[0] == "strconst":
            return env[node.id][1]
        return self.const_key(node)

    def expr(self, e, env):
        if isinstance(e, ast.Compare) and len(e.ops) == 2:
            return self.compare(e, env)
        if isinstance(e, ast.Subscript) and isinstance(e.slice, ast.Slice) and e.slice.upper is None and e.slice.step is None \
                and self.ynum(e.slice.lower) is not None:
            o, t = self.expr(e.value, env)
            if t == "NatList":
                return f"({o}.drop {self.ynum(e.slice.lower)})", "NatList"
        if isinstance(e, ast.Subscript) and isinstance(e.slice, ast.Constant) and e.slice.value in (0, 1):
            o, t = self.expr(e.value, env)
            if t == "IntPair":
                return f"{o}.{e.slice.value + 1}", "PyInt"
        if isinstance(e, ast.Subscript) and not (isinstance(e.value, ast.Name) and e.value.id in (
                "ACCESS_LEVEL_MAP", "VALID_CONFIG_KEYS", "OPTIONAL_CONFIG_KEYS")) \
                and not (isinstance(e.value, ast.Name) and e.value.id in getattr(self, "known_maps", set())):
            o, t = self.expr(e.value, env)
            if t == "NatList":
                i, it = self.expr(e.slice, env)
                if it == "PyInt":
                    return f"({o}.getD {i}.toNat 0)", "Nat"
        if isinstance(e, ast.Subscript) and isinstance(e.value, ast.Name) and e.value.id in ("VALID_CONFIG_KEYS", "OPTIONAL_CONFIG_KEYS"):
            k, kt = self.expr(e.slice, env)
            if kt != "Y":
                self.err(e, f"table key of type {kt}")
            return f"(PyRt.tableGet {e.value.id} {k})", "TyName"
        if isinstance(e, ast.Call) and ast.unparse(e) == "dict()":
            return "(Load.Y.map [])", "Y"
        if isinstance(e, ast.Name) and e.id == "VALID_ACCESS_VALUES" and e.id not in env:
            return "VALID_ACCESS_VALUES", "YList"
        if isinstance(e, ast.Subscript) and isinstance(e.value, ast.Name) and e.value.id == "ACCESS_LEVEL_MAP":
            o, t = self.expr(e.slice, env)
            return f"(ACCESS_LEVEL_MAP {o})", "Y"
        if isinstance(e, ast.Subscript) and isinstance(e.value, ast.Name) and ast.unparse(e.value) in getattr(self, "known_maps", set()):
            key = self.kconst(e.slice, env)
            if key is not None:
                o, _ = self.expr(e.value, env)
                return f"(PyRt.ymapGet {o} {pysrc_str(key)})", "Y"
        if isinstance(e, ast.Attribute) and isinstance(e.value, ast.Name) and e.value.id == "self":
            if e.attr == "os":
                return "os", "YList"
            if e.attr == "processes":
                return "processes", "YList"
            if e.attr == "subnets":
                return "subnets", "NatList"
            if e.attr == "services":
                return "services", "YList"
            if e.attr == "topology":
                return "topology", "TopoL"
            if e.attr == "num_hosts":
                return "num_hosts", "Nat"
            if e.attr == "yaml_dict":
                return "yaml_dict", "YMap"
            if e.attr == "sensitive_hosts":
                return "sensitive_hosts", "SensMap"
        if isinstance(e, ast.Subscript):
            o, t = self.expr(e.value, env)
            if t == "SensMap":
                i, it = self.expr(e.slice, env)
                if it != "IntPair":
                    self.err(e, f"sensitive-host key of type {it}")
                return f"(PyRt.sensGet {o} {i})", "Rat"
            if t == "NatList":
                i, it = self.expr(e.slice, env)
                if it != "Y":
                    self.err(e, f"index of type {it}")
                return f"({o}.getD (PyRt.yNat {i}) 0)", "Nat"
        return super().expr(e, env)

    def compare(self, e, env):
        op, l, r = e.ops[0], e.left, e.comparators[0]
        # k in TABLE (one of the module's key tables), k a YAML value
        if isinstance(op, (ast.In, ast.NotIn)) and isinstance(r, ast.Name) and r.id in ("VALID_CONFIG_KEYS", "OPTIONAL_CONFIG_KEYS"):
            x, xt = self.expr(l, env)
            if xt == "Y":
                s_ = f"(PyRt.tableHas {r.id} {x})"
                return (s_ if isinstance(op, ast.In) else f"(!{s_})"), "Bool"
        # k in e  (constant key of a known dictionary)
        if isinstance(op, (ast.In, ast.NotIn)) and isinstance(r, ast.Name) and r.id in getattr(self, "known_maps", set()):
            key = self.kconst(l, env)
            if key is not None:
                o, _ = self.expr(r, env)
                s_ = f"(PyRt.ymapHas {o} {pysrc_str(key)})"
                return (s_ if isinstance(op, ast.In) else f"(!{s_})"), "Bool"
        # str(x).lower() == "none"
        if isinstance(op, ast.Eq) and isinstance(r, ast.Constant) and r.value == "none" and isinstance(l, ast.Call) \
                and ast.unparse(l.func).endswith(".lower") and isinstance(l.func.value, ast.Call) \
                and ast.unparse(l.func.value.func) == "str":
            o, t = self.expr(l.func.value.args[0], env)
            if t == "Y":
                return f"(PyRt.lowerIsNone {o})", "Bool"
        # 0 < a < n   /   0 <= b < n   on evaluated address components
        if len(e.ops) == 2 and self.ynum(e.left) == 0 and isinstance(e.ops[1], ast.Lt) and isinstance(e.ops[0], (ast.Lt, ast.LtE)):
            x, xt = self.expr(e.comparators[0], env)
            n, nt = self.expr(e.comparators[1], env)
            if xt == "PyInt" and nt == "Nat":
                lo = "<" if isinstance(e.ops[0], ast.Lt) else "≤"
                return f"(decide ((0 : Int) {lo} {x}) && decide ({x} < ({n} : Int)))", "Bool"
        # isinstance(addr, tuple) and len(addr) == 2 and all([...]) on an evaluated address: true of every parsed pair
        # 0 <= x <= 1.0
        if len(e.ops) == 2 and all(isinstance(o_, ast.LtE) for o_ in e.ops) and self.ynum(e.left) == 0 \
                and isinstance(e.comparators[1], ast.Constant) and e.comparators[1].value in (1, 1.0):
            o, t = self.expr(e.comparators[0], env)
            if t == "Y" and self.guarded(e.comparators[0]):
                return f"((PyRt.yge {o} (0 : Int)) && (PyRt.yle {o} (1 : Int)))", "Bool"
        # type(x) is int / is not int / != list
        if isinstance(l, ast.Call) and ast.unparse(l.func) == "type" and len(l.args) == 1 and isinstance(r, ast.Name):
            x, t = self.expr(l.args[0], env)
            if t != "Y":
                self.err(e, f"type() of {t}")
            test = {"int": f"{x}.exactInt?.isSome", "list": f"{x}.isList"}.get(r.id) or self.err(e, "type test")
            if isinstance(op, (ast.Is, ast.Eq)):
                return f"({test})", "Bool"
            if isinstance(op, (ast.IsNot, ast.NotEq)):
                return f"(!{test})", "Bool"
        a, ta = self.expr(l, env)
        b, tb = self.expr(r, env)
        if ta == "Nat" and tb in ("Nat", "Num"):
            sym = {ast.Gt: ">", ast.GtE: "≥", ast.Lt: "<", ast.LtE: "≤"}.get(type(op))
            if sym:
                return f"(decide ({a} {sym} {b}))", "Bool"
            if isinstance(op, ast.Eq):
                return f"({a} == {b})", "Bool"
            if isinstance(op, ast.NotEq):
                return f"({a} != {b})", "Bool"
        if ta == "OptNat" and tb == "OptNat" and isinstance(op, ast.Eq):
            return f"(PyRt.optEq {a} {b})", "Bool"
        if ta == "IntPair" and tb == "SensMap" and isinstance(op, (ast.In, ast.NotIn)):
            s_ = f"(PyRt.sensHas {b} {a})"
            return (s_ if isinstance(op, ast.In) else f"(!{s_})"), "Bool"
        if ta == "Nat" and tb == "OptNat" and isinstance(op, ast.Eq):
            return f"(some {a} == {b})", "Bool"
        if ta == "Y" and tb in ("Num", "Nat"):
            k = f"({b} : Int)"
            fn = {ast.Gt: "ygt", ast.Lt: "ylt", ast.GtE: "yge", ast.Eq: "yeq"}.get(type(op)) or self.err(e, "comparison of a YAML value")
            if fn != "yeq" and not self.guarded(l):
                self.err(e, "ordering comparison of a YAML value outside an assert and without a type guard")
            return f"(PyRt.{fn} {a} {k})", "Bool"
        if ta == "IntPair" and tb == "IntPair" and isinstance(op, (ast.Eq, ast.NotEq)):
            return (f"({a} == {b})" if isinstance(op, ast.Eq) else f"({a} != {b})"), "Bool"
        if ta == "Nat" and tb == "Nat" and isinstance(op, ast.GtE):
            return f"(decide ({a} ≥ {b}))", "Bool"
        if ta == "Nat" and tb == "Nat" and isinstance(op, ast.LtE):
            return f"(decide ({a} ≤ {b}))", "Bool"
        if ta == "Y" and tb == "Y" and isinstance(op, ast.Eq):
            return f"({a}.pyEq {b})", "Bool"
        if isinstance(op, (ast.Is, ast.IsNot)) and ta == "Y" and isinstance(r, ast.Constant) and r.value is None:
            return (f"{a}.isNull" if isinstance(op, ast.Is) else f"(!{a}.isNull)"), "Bool"
        if isinstance(op, (ast.In, ast.NotIn)) and ta == "Str" and tb == "YList":
            s_ = f"(pyIn (Load.Y.str {a}) {b})"
            return (s_ if isinstance(op, ast.In) else f"(!{s_})"), "Bool"
        if isinstance(op, (ast.In, ast.NotIn)) and ta == "Str" and tb == "YMap":
            s_ = f"(getKey {b} {a}).isSome"
            return (f"({s_})" if isinstance(op, ast.In) else f"(!{s_})"), "Bool"
        if ta == "Int" and tb == "Num" and isinstance(op, ast.Eq):
            return f"({a} == ({b} : Int))", "Bool"
        if isinstance(op, (ast.In, ast.NotIn)) and ta == "Y" and tb == "YList":
            s = f"(pyIn {a} {b})"
            return (s if isinstance(op, ast.In) else f"(!{s})"), "Bool"
        return super().compare(e, env)

    FAIL = "false"

    def ctx_name(self, c, node=None):
        return c

    def fail_text(self):
        """what a raised exception is: `false` in a validator (`none` in a parse step), as the loop's result inside a loop"""
        return f".ret {self.FAIL}" if getattr(self, "loop", None) is not None else self.FAIL

    def guarded(self, operand):
        """is an ordering comparison on this operand admissible here (inside an assert, or behind a type test)?"""
        return getattr(self, "in_assert", False) or ast.unparse(operand) in getattr(self, "typed", set())

    def expr_bool_chain(self, e, env):
        return self.expr(e, env)

    def call(self, e, env):
        f = e.func
        text = ast.unparse(f)
        if text == "len" and len(e.args) == 1:
            a = e.args[0]
            if isinstance(a, ast.Name) and a.id in ("VALID_CONFIG_KEYS", "OPTIONAL_CONFIG_KEYS", "HOST_CONFIG_KEYS"):
                return f"{a.id}.length", "Nat"
            if isinstance(a, ast.Call) and ast.unparse(a.func) == "set" and len(a.args) == 1:
                o, t = self.expr(a.args[0], env)
                if t == "Y" and self.in_assert:
                    return f"(PyRt.ysetLen {o})", "OptNat"    # any iterable; refused for the rest
                if t != "YList":
                    self.err(e, f"set of {t}")
                return f"(PyRt.setLen {o})", "OptNat"
            o, t = self.expr(a, env)
            if t in ("YList", "NatList", "YMap"):
                return f"{o}.length", "Nat"
            if t == "Y":
                if ast.unparse(a) in getattr(self, "known_lists", set()):
                    return f"(listOf {o}).length", "Nat"
                if ast.unparse(a) in getattr(self, "known_maps", set()):
                    return f"(mapOf {o}).length", "Nat"
                if self.in_assert:
                    return f"(PyRt.ylen {o})", "OptNat"       # any sized value; refused for the rest
                self.err(e, "len of a YAML value of unknown type")
        if text == "str" and len(e.args) == 1 and isinstance(e.args[0], ast.Tuple) and len(e.args[0].elts) == 2:
            a, ta = self.expr(e.args[0].elts[0], env)
            b, tb = self.expr(e.args[0].elts[1], env)
            if ta == "Nat" and tb == "Nat":
                return f"(showPair {a} {b})", "Str"                        # Python's str((a, b))
        if text == "enumerate" and len(e.args) == 1:
            o, t = self.expr(e.args[0], env)
            if t == "NatList":
                return f"(PyRt.enumerate {o})", "List:Nat*Nat"
            if t == "TopoL":
                return f"(PyRt.enumerate {o})", "List:Nat*IntList"
            if t == "IntList":
                return f"(PyRt.enumerate {o})", "List:Nat*Int"
        if isinstance(f, ast.Attribute) and f.attr == "keys" and not e.args:
            o, t = self.expr(f.value, env)
            if t == "YMap":
                return f"({o}.map (·.1))", "YList"
        if isinstance(f, ast.Attribute) and f.attr == "items" and not e.args:
            o, t = self.expr(f.value, env)
            if t == "YMap":
                return o, "List:Y*Y"
            if t == "Y" and ast.unparse(f.value) in getattr(self, "known_maps", set()):
                return f"(mapOf {o})", "List:Y*Y"
        if text == "math.isclose" and len(e.args) == 2 and not e.keywords:
            a, ta = self.expr(e.args[0], env)
            b, tb = self.expr(e.args[1], env)
            if ta == "Y" and tb == "Rat" and self.guarded(e.args[0]):
                return f"(PyRt.iscloseY {a} {b})", "Bool"
        if text == "isinstance" and len(e.args) == 2 and isinstance(e.args[1], ast.Tuple) \
                and sorted(ast.unparse(x) for x in e.args[1].elts) == ["float", "int"]:
            o, t = self.expr(e.args[0], env)
            if t == "Y":
                return f"({o}.toRat?.isSome)", "Bool"
        if isinstance(f, ast.Attribute) and f.attr == "values" and not e.args:
            o, t = self.expr(f.value, env)
            if t == "YMap":
                return f"({o}.map (·.2))", "YList"
        if text == "len" and len(e.args) == 1 and isinstance(e.args[0], ast.Name) and e.args[0].id in ("VALID_CONFIG_KEYS", "OPTIONAL_CONFIG_KEYS"):
            return f"{e.args[0].id}.length", "Nat"
        if text == "isinstance" and len(e.args) == 2 and isinstance(e.args[1], ast.Name) \
                and env.get(e.args[1].id, ("", ""))[1:] == ("TyName",):
            o, t = self.expr(e.args[0], env)
            if t == "Y":
                return f"(PyRt.isInstanceOf {o} {e.args[1].id})", "Bool"
        if text == "isinstance" and len(e.args) == 2 and ast.unparse(e.args[1]) == "tuple":
            o, t = self.expr(e.args[0], env)
            if t == "IntPair":
                return "true", "Bool"
        if text == "len" and len(e.args) == 1 and isinstance(e.args[0], ast.Name) and env.get(e.args[0].id, ("", ""))[1:] == ("IntPair",):
            return "(2 : Nat)", "Nat"
        if text == "all" and len(e.args) == 1 and isinstance(e.args[0], ast.ListComp) \
                and ast.unparse(e.args[0].elt).startswith("isinstance(") and ast.unparse(e.args[0].elt).endswith(", int)"):
            o, t = self.expr(e.args[0].generators[0].iter, env)
            if t == "IntPair":
                return "true", "Bool"
        if text == "isinstance" and len(e.args) == 2 and isinstance(e.args[1], ast.Name) \
                and env.get(e.args[1].id, ("",))[0] == "pytype":
            o, t = self.expr(e.args[0], env)
            ty = env[e.args[1].id][1]
            test = {"str": f"{o}.isStr", "number": f"{o}.toRat?.isSome", "strOrInt": f"({o}.isStr || {o}.intLike?.isSome)",
                    "list": f"{o}.isList", "map": f"{o}.isMap", "int": f"{o}.intLike?.isSome"}.get(ty) \
                or self.err(e, f"isinstance with table type {ty}")
            return f"({test})", "Bool"
        if text == "isinstance" and len(e.args) == 2 and isinstance(e.args[1], ast.Name) and e.args[1].id in ("dict", "str"):
            o, t = self.expr(e.args[0], env)
            if t == "Y":
                return (f"({o}.isMap)" if e.args[1].id == "dict" else f"({o}.isStr)"), "Bool"
        if text == "isinstance" and len(e.args) == 2 and isinstance(e.args[1], ast.Name):
            o, t = self.expr(e.args[0], env)
            if t == "Y":
                test = {"list": f"{o}.isList", "int": f"{o}.intLike?.isSome"}.get(e.args[1].id) or self.err(e, "isinstance")
                return f"({test})", "Bool"
        if text == "enumerate" and len(e.args) == 1:
            o, t = self.expr(e.args[0], env)
            if t == "YList":
                return f"(PyRt.enumerate {o})", "List:Nat*Y"
            if t == "Y" and ast.unparse(e.args[0]) in getattr(self, "known_lists", set()):
                return f"(PyRt.enumerate (listOf {o}))", "List:Nat*Y"
        if isinstance(f, ast.Attribute) and isinstance(f.value, ast.Name) and f.value.id == "self":
            fn = self.w.lookup("Loader", f.attr)
            if fn is not None:
                parts = []
                for a, (pn, pt) in zip(e.args, fn.params):
                    if pt == "Unit":
                        parts.append("()")                      # a label used in messages only
                        continue
                    ao, at = self.expr(a, env)
                    if at == "PyInt" and pt == "Y":
                        ao = f"(Load.Y.int {ao})"
                    parts.append(ao)
                args = " ".join(parts)
                ctx = " ".join(self.ctx_name(c_, e) for c_ in fn.ctx)
                return f"({fn.lean} {ctx} {args})".replace("  ", " "), "Bool"
        return super().call(e, env)

    def expr_typed(self, e, env):
        return self.expr(e, env)

    def block(self, stmts, env, k, ind):
        if stmts and isinstance(stmts[0], ast.Try) and len(stmts[0].body) == 1 and isinstance(stmts[0].body[0], ast.Assign) \
                and isinstance(stmts[0].body[0].value, ast.Call) and ast.unparse(stmts[0].body[0].value.func) == "eval" \
                and all(isinstance(h.body[0], ast.Raise) for h in stmts[0].handlers) and not stmts[0].orelse and not stmts[0].finalbody:
            # try: x = eval(key) / except: raise  — the same rejection as an uncaught exception
            return self.block([stmts[0].body[0]] + stmts[1:], env, k, ind)
        if stmts and isinstance(stmts[0], ast.Assert):
            st, rest = stmts[0], stmts[1:]
            pad = "  " * ind
            self.in_assert = True
            try:
                c = self.cond(st.test, env)
            finally:
                self.in_assert = False
            fail = self.fail_text()
            return f"{pad}if !{c} then\n{pad}  {fail}\n{pad}else\n" + self.block(rest, env, k, ind + 1)
        return super().block(stmts, env, k, ind)

    def assign(self, tgt, value, env, nxt, ind):
        pad = "  " * ind
        if isinstance(tgt, ast.Subscript) and isinstance(tgt.value, ast.Name) and tgt.value.id in getattr(self, "known_maps", set()):
            key = self.kconst(tgt.slice, env)
            if key is None:
                self.err(tgt, "store under a key that is not a constant")
            if isinstance(value, ast.Constant) and value.value is None:
                v = "Load.Y.null"
            else:
                v, vt = self.expr(value, env)
                if vt != "Y":
                    self.err(tgt, f"store of {vt} into a YAML dictionary")
            d = tgt.value.id
            return f"{pad}let {d} := PyRt.ymapSet {d} {pysrc_str(key)} {v}\n" + nxt(env)
        if isinstance(tgt, ast.Name) and (isinstance(value, ast.JoinedStr)
                                          or isinstance(value, ast.Constant) and isinstance(value.value, str)):
            return nxt(env)                                   # a label used in messages only
        if isinstance(value, ast.Call) and ast.unparse(value.func) == "eval" and len(value.args) == 1:
            # eval of an address key: the documented `(int, int)` spelling parses, anything else raises (rejection)
            k, kt = self.expr(value.args[0], env)
            if kt != "Y":
                self.err(value, f"eval of {kt}")
            fail = self.fail_text()
            env2 = dict(env)
            if isinstance(tgt, ast.Tuple) and len(tgt.elts) == 2 and all(isinstance(x, ast.Name) for x in tgt.elts):
                a, b = tgt.elts[0].id, tgt.elts[1].id
                env2[a] = ("val", "PyInt"); env2[b] = ("val", "PyInt")
                pat = f"({a}, {b})"
            elif isinstance(tgt, ast.Name):
                env2[tgt.id] = ("val", "IntPair")
                pat = tgt.id
            else:
                self.err(tgt, "target of eval")
            return (f"{pad}match PyRt.evalAddr {k} with\n{pad}| none => {fail}\n{pad}| some {pat} =>\n"
                    + self.block_after(nxt, env2, ind + 1))
        return super().assign(tgt, value, env, nxt, ind)

    def block_after(self, nxt, env2, ind):
        # `nxt` translates the rest at the caller's indentation; re-indent by one level
        text = nxt(env2)
        return "".join("  " + ln + "\n" for ln in text.rstrip("\n").split("\n"))

    def cond(self, e, env):
        """a Boolean chain, left to right; a `type(x) is [not] int` operand admits ordering comparisons on x afterwards"""
        if isinstance(e, ast.BoolOp):
            saved = set(getattr(self, "typed", set()))
            parts = []
            for v in e.values:
                parts.append(self.cond(v, env))
                for x in ast.walk(v):
                    if isinstance(x, ast.Call) and ast.unparse(x.func) in ("type", "isinstance") and x.args:
                        self.typed = set(getattr(self, "typed", set())) | {ast.unparse(x.args[0])}
                    if isinstance(x, ast.Call) and isinstance(x.func, ast.Attribute) and x.func.attr == "_is_valid_subnet_ID":
                        self.typed = set(getattr(self, "typed", set())) | {ast.unparse(x.args[0])}
            self.typed = saved
            op = " && " if isinstance(e.op, ast.And) else " || "
            return "(" + op.join(parts) + ")"
        if isinstance(e, ast.UnaryOp) and isinstance(e.op, ast.Not):
            return f"(!{self.cond(e.operand, env)})"
        o, t = self.expr(e, env)
        return self.as_bool(o, t, e)

    def if_stmt(self, st, rest, env, k, ind):
        # conditions go through `cond` (type guards); everything else as before
        saved = self.expr
        test = st.test
        c = self.cond(test, env)

        def ex(e, env_):
            if e is test:
                return c, "Bool"
            return saved(e, env_)
        self.expr = ex
        try:
            return super().if_stmt(st, rest, env, k, ind)
        finally:
            self.expr = saved

    def ret_text(self, st, env):
        inner = getattr(self, "loop", None) is not None
        if st.value is None:
            v = "true"
        else:
            v, t = self.expr(st.value, env)
        return f".ret {v}" if inner else v

    def fall_value(self, env):
        return "true"

    def call_stmt(self, c, env, nxt, ind):
        pad = "  " * ind
        f = c.func
        if isinstance(f, ast.Attribute) and isinstance(f.value, ast.Name) and f.value.id == "self" \
                and self.w.lookup("Loader", f.attr) is not None:
            # a validator called for its exception: returning normally is the only way on
            o, _ = self.expr(c, env)
            fail = self.fail_text()
            return f"{pad}if !{o} then\n{pad}  {fail}\n{pad}else\n" + self.block_after(nxt, env, ind)
        return super().call_stmt(c, env, nxt, ind)

    def for_stmt(self, st, rest, env, k, ind):
        # a loop over one of the module's key tables (name -> type) is unrolled
        if isinstance(st.iter, ast.Call) and isinstance(st.iter.func, ast.Attribute) and st.iter.func.attr == "items" \
                and isinstance(st.iter.func.value, ast.Name) and st.iter.func.value.id in self.w.tables \
                and isinstance(st.target, ast.Tuple) and len(st.target.elts) == 2:
            kn, tn = st.target.elts[0].id, st.target.elts[1].id
            table = self.w.tables[st.iter.func.value.id]

            def unroll(i, env_, ind_):
                if i == len(table):
                    return self.block(rest, env_, k, ind_)
                env_i = dict(env_)
                env_i[kn] = ("strconst", table[i][0])
                env_i[tn] = ("pytype", table[i][1])
                return self.block(st.body, env_i, lambda e2, i2: unroll(i + 1, e2, i2), ind_)
            return unroll(0, env, ind)
        if isinstance(st.iter, ast.Name) and st.iter.id in getattr(self.w, "key_lists", {}) and isinstance(st.target, ast.Name):
            keys = self.w.key_lists[st.iter.id]

            def unroll_k(i, env_, ind_):
                if i == len(keys):
                    return self.block(rest, env_, k, ind_)
                env_i = dict(env_)
                env_i[st.target.id] = ("strconst", keys[i])
                return self.block(st.body, env_i, lambda e2, i2: unroll_k(i + 1, e2, i2), ind_)
            return unroll_k(0, env, ind)
        it, ity = self.expr(st.iter, env)
        if ity == "Y" and ast.unparse(st.iter) not in getattr(self, "known_lists", set()):
            # iteration over a YAML value of unknown type: lists, strings (their characters) and dictionaries (their
            # keys) are iterable, anything else is a TypeError — a rejection in a validator
            pad = "  " * ind
            self.it_n = getattr(self, "it_n", 0) + 1
            nm = f"it_{self.it_n}"
            fail = self.fail_text()
            saved = self.expr
            node = st.iter

            def ex(e, env_):
                if e is node:
                    return nm, "List:Y"
                return saved(e, env_)
            self.expr = ex
            try:
                inner = super().for_stmt(st, rest, env, k, ind + 1)
            finally:
                self.expr = saved
            return f"{pad}match PyRt.iterY {it} with\n{pad}| none => {fail}\n{pad}| some {nm} =>\n" + inner
        if ity in ("YList", "Y"):
            if ity == "Y":
                it = f"(listOf {it})"
            saved = self.expr
            node = st.iter

            def ex(e, env_):
                if e is node:
                    return it, "List:Y"
                return saved(e, env_)
            self.expr = ex
            try:
                return super().for_stmt(st, rest, env, k, ind)
            finally:
                self.expr = saved
        return super().for_stmt(st, rest, env, k, ind)

    def run1(self):
        fn = self.fn
        env = {}
        ps = " ".join(f"({c} : {LEAN_TYPE[t]})" for c, t in zip(fn.ctx, fn.ctx_ty))
        for c, t in zip(fn.ctx, fn.ctx_ty):
            env[c] = ("val", t)
        got = [a.arg for a in self.node.args.args if a.arg != "self"]
        want = [p for p, _ in fn.params]
        if [g for g in got if not g.startswith("err_")] != want:
            raise Untranslatable(f"{fn.cls}.{fn.name}: parameters are {got}, expected {want}")
        for p, t in fn.params:
            env[p] = ("val", t)
            ps += f" ({p} : {LEAN_TYPE[t]})"
        self.loop = None
        self.known_lists = set()
        self.known_maps = set()
        self.assert_exits = True
        for x in ast.walk(self.node):
            if isinstance(x, ast.Assert) and isinstance(x.test, ast.Call) and ast.unparse(x.test.func) == "isinstance" \
                    and ast.unparse(x.test.args[1]) == "dict":
                self.known_maps.add(ast.unparse(x.test.args[0]))
            if isinstance(x, ast.Assert) and isinstance(x.test, ast.BoolOp) and isinstance(x.test.op, ast.And) \
                    and isinstance(x.test.values[0], ast.Call) and ast.unparse(x.test.values[0].func) == "isinstance" \
                    and ast.unparse(x.test.values[0].args[1]) == "dict":
                self.known_maps.add(ast.unparse(x.test.values[0].args[0]))
        # `if type(f) != list: return False` / `assert isinstance(row, list)` make the value a known list for what follows
        for x in ast.walk(self.node):
            if isinstance(x, ast.If) and isinstance(x.test, ast.Compare) and isinstance(x.test.ops[0], ast.NotEq) \
                    and isinstance(x.test.left, ast.Call) and ast.unparse(x.test.left.func) == "type" \
                    and ast.unparse(x.test.comparators[0]) == "list" and x.body and isinstance(x.body[0], ast.Return):
                self.known_lists.add(ast.unparse(x.test.left.args[0]))
        for x in ast.walk(self.node):
            if isinstance(x, ast.Assert) and isinstance(x.test, ast.Call) and ast.unparse(x.test.func) == "isinstance" \
                    and ast.unparse(x.test.args[1]) == "list":
                self.known_lists.add(ast.unparse(x.test.args[0]))
        body = self.block(self.body_of(), env, lambda e2, i2: "  " * i2 + "true\n", 1)
        return ps.strip(), body

    def body_of(self):
        return self.node.body


class TrLoadData(TrLoad):
    """the data-building helpers of `_parse_hosts`: `_construct_host_config` (three name -> flag dictionaries) and
    `_get_host_value`.  Their `host_cfg` argument is a configuration `_validate_host_config` has accepted (a dict)."""
    def run1(self):
        fn = self.fn
        env = {}
        ps = " ".join(f"({c} : {LEAN_TYPE[t]})" for c, t in zip(fn.ctx, fn.ctx_ty))
        for c, t in zip(fn.ctx, fn.ctx_ty):
            env[c] = ("val", t)
        got = [a.arg for a in self.node.args.args if a.arg != "self"]
        if got != [p for p, _ in fn.params]:
            raise Untranslatable(f"{fn.cls}.{fn.name}: parameters are {got}")
        for p, t in fn.params:
            env[p] = ("val", t)
            ps += f" ({p} : {LEAN_TYPE[t]})"
        self.loop = None
        self.known_lists, self.known_maps, self.assert_exits = set(), {"host_cfg"}, False
        body = self.block(self.node.body, env, lambda e2, i2: self.err(self.node, "falls off the end"), 1)
        return ps.strip(), body

    def expr(self, e, env):
        if isinstance(e, ast.Dict) and not e.keys:
            return "([] : List (Load.Y × Bool))", "FlagDict"
        if isinstance(e, ast.Tuple) and len(e.elts) == 3:
            parts = [self.expr(x, env) for x in e.elts]
            if all(t == "FlagDict" for _, t in parts):
                return "(" + ", ".join(o for o, _ in parts) + ")", "FlagDict3"
        if isinstance(e, ast.Call) and ast.unparse(e.func) == "float" and len(e.args) == 1:
            o, t = self.expr(e.args[0], env)
            if t == "Rat":
                return o, "Rat"
            if t == "Y":
                return f"(PyRt.yfloat {o})", "Rat"
        if isinstance(e, ast.Call) and isinstance(e.func, ast.Attribute) and e.func.attr == "get" and len(e.args) == 2 \
                and isinstance(e.func.value, ast.Name) and e.func.value.id in self.known_maps:
            key = self.kconst(e.args[0], env)
            dflt = e.args[1]
            if key is not None and isinstance(dflt, ast.Attribute) and ast.unparse(dflt) == "u.DEFAULT_HOST_VALUE":
                o, _ = self.expr(e.func.value, env)
                d = self.w.uconsts["DEFAULT_HOST_VALUE"]
                return f"(if PyRt.ymapHas {o} {pysrc_str(key)} then PyRt.ymapGet {o} {pysrc_str(key)} else Load.Y.int {int(d)})", "Y"
        if isinstance(e, ast.Compare) and len(e.ops) == 1 and isinstance(e.ops[0], ast.In):
            a, ta = self.expr(e.left, env)
            b, tb = self.expr(e.comparators[0], env)
            if ta == "Y" and tb == "Y":
                return f"(PyRt.yContains {b} {a})", "Bool"
        return super().expr(e, env)

    def assigned(self, stmts, env):
        out = super().assigned(stmts, env)
        for st in stmts:
            for x in ast.walk(st):
                if isinstance(x, ast.Assign) and isinstance(x.targets[0], ast.Subscript) and isinstance(x.targets[0].value, ast.Name) \
                        and env.get(x.targets[0].value.id, ("", ""))[1:] == ("FlagDict",) and x.targets[0].value.id not in out:
                    out.append(x.targets[0].value.id)
        return out

    def assign(self, tgt, value, env, nxt, ind):
        pad = "  " * ind
        if isinstance(tgt, ast.Subscript) and isinstance(tgt.value, ast.Name) and env.get(tgt.value.id, ("", ""))[1:] == ("FlagDict",):
            k, kt = self.expr(tgt.slice, env)
            v, vt = self.expr(value, env)
            if kt != "Y" or vt != "Bool":
                self.err(tgt, f"store of {vt} under a key of type {kt}")
            d = tgt.value.id
            return f"{pad}let {d} := PyRt.flagSet {d} {k} {v}\n" + nxt(env)
        return super().assign(tgt, value, env, nxt, ind)

    def ret_text(self, st, env):
        v, t = self.expr(st.value, env)
        want = self.fn.ret
        if t != want:
            self.err(st, f"returns {t}, expected {want}")
        return f".ret {v}" if getattr(self, "loop", None) is not None else v


# the loader's attributes: type in the translation, and how a value of another type is stored into it
PARSE_ATTRS = {
    "subnets": ("NatList", {"YList": "(PyRt.natsOf {o})"}), "num_hosts": ("Nat", {}),
    "topology": ("TopoL", {"YList": "(PyRt.topoOf {o})"}),
    "os": ("YList", {}), "services": ("YList", {}), "processes": ("YList", {}),
    "sensitive_hosts": ("SensMap", {}), "exploits": ("YMap", {}), "privescs": ("YMap", {}),
    "os_scan_cost": ("Y", {}), "service_scan_cost": ("Y", {}), "subnet_scan_cost": ("Y", {}), "process_scan_cost": ("Y", {}),
    "host_configs": ("YMap", {}), "firewall": ("FwDict", {}), "step_limit": ("Y", {}),
}
SECTION_COERCE = {"list": ("(listOf {o})", "YList"), "map": ("(mapOf {o})", "YMap"), "number": ("{o}", "Y"), "int": ("{o}", "Y")}


class TrParse(TrLoad):
    """a `_parse_*` step of `ScenarioLoader.load`: reads its section (`self.yaml_dict[KEY]`, a `KeyError` if missing),
    validates it, stores attributes.  Translated into `Option (the attributes it stores)`: `none` = it raised.
    Attributes are the variables `self_<name>`; the ones read before being stored are the function's parameters."""
    FAIL = "none"

    def ctx_name(self, c, node=None):
        if c == "yaml_dict":
            return "yaml_dict"
        self.use_attr(c, node)
        return f"self_{c}"

    def use_attr(self, a, node=None):
        if a not in PARSE_ATTRS:
            self.err(node or self.node, f"attribute self.{a}")
        if a not in self.stored and a not in self.needed:
            self.needed.append(a)

    def expr(self, e, env):
        if isinstance(e, ast.Attribute) and isinstance(e.value, ast.Name) and e.value.id == "self" and e.attr != "yaml_dict":
            self.use_attr(e.attr, e)
            return f"self_{e.attr}", PARSE_ATTRS[e.attr][0]
        if isinstance(e, ast.Call) and ast.unparse(e.func) == "sum" and len(e.args) == 1:
            o, t = self.expr(e.args[0], env)
            if t == "YList":
                return f"(PyRt.sumY {o})", "Nat"
        if isinstance(e, ast.BinOp) and isinstance(e.op, ast.Sub):
            a, ta = self.expr(e.left, env)
            b = self.ynum(e.right)
            if ta == "Nat" and b is not None and b >= 0:
                return f"({a} - {b})", "Nat"                    # natural subtraction; the sum of positive sizes plus one is >= 1
        if isinstance(e, ast.Constant) and e.value is None:
            return "Load.Y.null", "Y"
        if isinstance(e, ast.Compare) and len(e.ops) == 1 and isinstance(e.ops[0], (ast.In, ast.NotIn)) \
                and ast.unparse(e.comparators[0]) == "self.yaml_dict":
            key = self.const_key(e.left)
            if key is not None:
                s_ = f"(getKey yaml_dict {pysrc_str(key)}).isSome"
                return (f"({s_})" if isinstance(e.ops[0], ast.In) else f"(!{s_})"), "Bool"
        return super().expr(e, env)

    def section_read(self, value):
        """`self.yaml_dict[u.KEY]` -> the section's key, or None"""
        if isinstance(value, ast.Subscript) and ast.unparse(value.value) == "self.yaml_dict":
            return self.const_key(value.slice)
        return None

    def store(self, attr, o, t, env, node):
        want, conv = PARSE_ATTRS.get(attr) or self.err(node, f"attribute self.{attr}")
        if t != want:
            if t not in conv:
                self.err(node, f"self.{attr} = a value of type {t}")
            o = conv[t].format(o=o)
        if attr not in self.stored:
            self.stored.append(attr)
        return f"let self_{attr} : {LEAN_TYPE[want]} := {o}\n"

    def assign(self, tgt, value, env, nxt, ind):
        pad = "  " * ind
        key = self.section_read(value)
        is_attr = isinstance(tgt, ast.Attribute) and isinstance(tgt.value, ast.Name) and tgt.value.id == "self"
        if key is not None and (isinstance(tgt, ast.Name) or is_attr):
            ty = dict(self.w.section_types).get(key) or self.err(value, f"section {key} has no declared type")
            co, ct = SECTION_COERCE[ty]
            tmp = "sec_"
            env2 = dict(env)
            if is_attr:
                head = pad + "  " + self.store(tgt.attr, co.format(o=tmp), ct, env, tgt)
            else:
                env2[tgt.id] = ("val", ct)
                head = f"{pad}  let {tgt.id} := {co.format(o=tmp)}\n"
            return (f"{pad}match getKey yaml_dict {pysrc_str(key)} with\n{pad}| none => {self.fail_text()}\n{pad}| some {tmp} =>\n"
                    + head + self.block_after(nxt, env2, ind))
        if is_attr:
            if isinstance(value, ast.Call) and ast.unparse(value) == "dict()" or isinstance(value, ast.Dict) and not value.keys:
                want = PARSE_ATTRS[tgt.attr][0]
                if tgt.attr not in self.stored:
                    self.stored.append(tgt.attr)
                return f"{pad}let self_{tgt.attr} : {LEAN_TYPE[want]} := []\n" + nxt(env)
            o, t = self.expr(value, env)
            return pad + self.store(tgt.attr, o, t, env, tgt) + nxt(env)
        if isinstance(tgt, ast.Subscript) and isinstance(tgt.value, ast.Attribute) and ast.unparse(tgt.value.value) == "self" \
                and isinstance(tgt.slice, ast.Call) and ast.unparse(tgt.slice.func) == "eval" and len(tgt.slice.args) == 1:
            # self.<dict>[eval(key)] = v : a key outside the documented spelling raises
            attr = tgt.value.attr
            want = PARSE_ATTRS[attr][0]
            setter = {"SensMap": "PyRt.sensSet", "FwDict": "PyRt.fwSet"}.get(want) or self.err(tgt, f"store into self.{attr}")
            k, kt = self.expr(tgt.slice.args[0], env)
            v, vt = self.expr(value, env)
            if kt != "Y" or vt != "Y":
                self.err(tgt, f"store of {vt} under eval of {kt}")
            return (f"{pad}match PyRt.evalAddr {k} with\n{pad}| none => {self.fail_text()}\n{pad}| some key_ =>\n"
                    f"{pad}  let self_{attr} := {setter} self_{attr} key_ {v}\n" + self.block_after(nxt, env, ind))
        return super().assign(tgt, value, env, nxt, ind)

    def assigned(self, stmts, env):
        out = [v for v in super().assigned(stmts, env) if v != "self"]
        for st in stmts:
            for x in ast.walk(st):
                if isinstance(x, ast.Assign):
                    t = x.targets[0]
                    if isinstance(t, ast.Subscript):
                        t = t.value
                    if isinstance(t, ast.Attribute) and isinstance(t.value, ast.Name) and t.value.id == "self" \
                            and f"self_{t.attr}" not in out:
                        out.append(f"self_{t.attr}")
        return out

    def call_stmt(self, c, env, nxt, ind):
        pad = "  " * ind
        f = c.func
        if isinstance(f, ast.Attribute) and f.attr == "insert" and isinstance(f.value, ast.Name) and len(c.args) == 2 \
                and self.ynum(c.args[0]) == 0 and self.ynum(c.args[1]) is not None \
                and env.get(f.value.id, ("", ""))[1:] == ("YList",):
            return f"{pad}let {f.value.id} := (Load.Y.int {self.ynum(c.args[1])}) :: {f.value.id}\n" + nxt(env)
        return super().call_stmt(c, env, nxt, ind)

    def for_stmt(self, st, rest, env, k, ind):
        # a loop over a literal list of pairs is unrolled
        if isinstance(st.iter, ast.List) and all(isinstance(x, ast.Tuple) and len(x.elts) == 2 for x in st.iter.elts) \
                and isinstance(st.target, ast.Tuple) and len(st.target.elts) == 2:
            a, b = st.target.elts[0].id, st.target.elts[1].id
            items = st.iter.elts

            def unroll(i, env_, ind_):
                if i == len(items):
                    return self.block(rest, env_, k, ind_)
                env_i = dict(env_)
                lab, val = items[i].elts
                if not (isinstance(lab, ast.Constant) and isinstance(lab.value, str)):
                    self.err(st, "label of a literal pair")
                env_i[a] = ("strconst", lab.value)
                o, t = self.expr(val, env_)
                env_i[b] = ("val", t)
                pad = "  " * ind_
                return f"{pad}let {b} := {o}\n" + self.block(st.body, env_i, lambda e2, i2: unroll(i + 1, e2, i2), ind_)
            return unroll(0, env, ind)
        return super().for_stmt(st, rest, env, k, ind)

    def run1(self):
        self.loop, self.known_lists, self.known_maps, self.assert_exits = None, set(), set(), True
        self.stored, self.needed = [], []
        env = {"yaml_dict": ("val", "YMap")}
        for a, (t, _) in PARSE_ATTRS.items():
            env[f"self_{a}"] = ("val", t)

        def done(e2, i2):
            tys = [PARSE_ATTRS[a][0] for a in self.stored]
            val = "()" if not self.stored else ", ".join(f"self_{a}" for a in self.stored)
            return "  " * i2 + (f"some ({val})" if len(self.stored) != 1 else f"some {val}") + "\n"
        saved = self.w.lean_ret
        self.w.lean_ret = lambda fn_: "Option (%%RET%%)"
        try:
            body = self.block(self.node.body, env, done, 1)
        finally:
            self.w.lean_ret = saved
        ps = " ".join(f"(self_{a} : {LEAN_TYPE[PARSE_ATTRS[a][0]]})" for a in self.needed) + " (yaml_dict : List (Load.Y × Load.Y))"
        ret = " × ".join(LEAN_TYPE[PARSE_ATTRS[a][0]] for a in self.stored) or "Unit"
        return ps.strip(), ret, body.replace("%%RET%%", ret)


class TrStepLimit(TrLoad):
    """the `else` branch of `_parse_step_limit`: `step_limit = yaml_dict[STEP_LIMIT]; assert step_limit > 0`"""
    def body_of(self):
        for st in self.node.body:
            if isinstance(st, ast.If):
                return [s for s in st.orelse if isinstance(s, ast.Assert)]
        raise Untranslatable("_parse_step_limit: no step-limit test found")


def translate_loader():
    from nasim.scenarios import loader as loader_mod
    w = World()
    w.idx_locals, w.idx_fields, w.obs_consts = [], [], []
    w.access, w.consts, w.result_params, w.ukeys, w.sigs, w.local_types = {}, {}, [], {}, {}, {}
    w.lean_ret = lambda fn: "Bool"
    out = []
    meth = _methods(loader_mod, "ScenarioLoader")

    def mk(name, ctx, ctx_ty, params):
        fn = Fn("ScenarioLoader", name, f"ScenarioLoader.{name}", params, "Bool", self_ty="Loader")
        fn.kind, fn.prop, fn.classmethod, fn.ctx, fn.ctx_ty = "method", False, False, ctx, ctx_ty
        w.add(fn)
        return fn

    def emit(fn, cls=TrLoad, node_name=None):
        node = meth.get(node_name or fn.name)
        doc = f"`nasim/scenarios/loader.py`: `ScenarioLoader.{node_name or fn.name}`"
        try:
            if node is None:
                raise Untranslatable(f"{fn.name} not found")
            t = cls(w, fn, node)
            pysrc.RAISE_EXITS = True
            try:
                ps, body = t.run1()
            finally:
                pysrc.RAISE_EXITS = False
            out.append(f"/-- {doc} -/\ndef {fn.lean} {ps} : Bool :=\n{body}")
        except Untranslatable as e:
            ps = " ".join(f"({c} : {LEAN_TYPE[t]})" for c, t in zip(fn.ctx, fn.ctx_ty)) + " " \
                + " ".join(f"({p} : {LEAN_TYPE[t]})" for p, t in fn.params)
            why = str(e).replace("-/", "- /")
            out.append(f"/-- UNTRANSLATABLE {doc} — {why} -/\ndef {fn.lean} {ps.strip()} : Bool := default\n")

    emit(mk("_validate_subnets", [], [], [("subnets", "YList")]))
    emit(mk("_validate_topology", ["subnets"], ["NatList"], [("topology", "YList")]))
    emit(mk("_validate_os", [], [], [("os", "YList")]))
    emit(mk("_validate_services", [], [], [("services", "YList")]))
    emit(mk("_validate_processes", [], [], [("processes", "YList")]))
    emit(mk("_is_valid_subnet_ID", ["subnets"], ["NatList"], [("subnet_ID", "Y")]))
    emit(mk("_is_valid_host_address", ["subnets"], ["NatList"], [("subnet_ID", "Y"), ("host_ID", "Y")]))
    emit(mk("_validate_scan_cost", [], [], [("scan_name", "Unit"), ("scan_cost", "Y")]))
    emit(mk("_is_valid_firewall_setting", ["services"], ["YList"], [("f", "Y")]))
    import translators as T_
    w.tables = {"EXPLOIT_KEYS": [(k, T_.tyname(t)) for k, t in loader_mod.EXPLOIT_KEYS.items()],
                "PRIVESC_KEYS": [(k, T_.tyname(t)) for k, t in loader_mod.PRIVESC_KEYS.items()]}
    w.ukeys = {k: v for k, v in vars(__import__("nasim.scenarios.utils", fromlist=["x"])).items() if k.isupper() and isinstance(v, str)}

    def ylit(v):
        return f'(Load.Y.str "{v}")' if isinstance(v, str) else f"(Load.Y.int {int(v)})"
    out.append("/-- `nasim/scenarios/loader.py`: `VALID_ACCESS_VALUES` -/\ndef VALID_ACCESS_VALUES : List Load.Y := ["
               + ", ".join(ylit(v) for v in loader_mod.VALID_ACCESS_VALUES) + "]\n")
    out.append("/-- `nasim/scenarios/loader.py`: `ACCESS_LEVEL_MAP[x]` (a missing key is a `KeyError`) -/\n"
               "def ACCESS_LEVEL_MAP (x : Load.Y) : Load.Y :=\n"
               + "".join(f"  if x.pyEq {ylit(k)} then {ylit(v)} else\n" for k, v in loader_mod.ACCESS_LEVEL_MAP.items())
               + "  Load.Y.null\n")
    def table(name, d):
        out.append(f"/-- `nasim/scenarios/loader.py`: `{name}` (key -> expected type) -/\ndef {name} : List (String × String) := ["
                   + ", ".join(f'("{k}", "{T_.tyname(t)}")' for k, t in d.items()) + "]\n")
    table("VALID_CONFIG_KEYS", loader_mod.VALID_CONFIG_KEYS)
    table("OPTIONAL_CONFIG_KEYS", loader_mod.OPTIONAL_CONFIG_KEYS)
    emit(mk("_check_scenario_sections_valid", ["yaml_dict"], ["YMap"], []))
    emit(mk("_validate_single_exploit", ["services", "os"], ["YList", "YList"], [("e_name", "Y"), ("e", "Y")]))
    emit(mk("_validate_exploits", ["services", "os"], ["YList", "YList"], [("exploits", "YMap")]))
    emit(mk("_validate_single_privesc", ["processes", "os"], ["YList", "YList"], [("pe_name", "Y"), ("pe", "Y")]))
    emit(mk("_validate_privescs", ["processes", "os"], ["YList", "YList"], [("privescs", "YMap")]))
    emit(mk("_has_all_host_addresses", ["subnets"], ["NatList"], [("addresses", "YList")]))
    emit(mk("_validate_host_address", ["subnets"], ["NatList"], [("addr", "Y")]))
    w.key_lists = {"HOST_CONFIG_KEYS": list(loader_mod.HOST_CONFIG_KEYS)}
    out.append("/-- `nasim/scenarios/loader.py`: the keys of `HOST_CONFIG_KEYS` -/\ndef HOST_CONFIG_KEYS : List String := ["
               + ", ".join(f'"{k}"' for k in loader_mod.HOST_CONFIG_KEYS) + "]\n")
    emit(mk("_validate_sensitive_hosts", ["subnets", "num_hosts"], ["NatList", "Nat"], [("sensitive_hosts", "YMap")]))
    emit(mk("_contains_all_required_firewalls", ["topology"], ["TopoL"], [("firewall", "YMap")]))
    emit(mk("_validate_firewall", ["topology", "services"], ["TopoL", "YList"], [("firewall", "YMap")]))
    emit(mk("_validate_host_config", ["subnets", "os", "services", "processes", "sensitive_hosts"],
            ["NatList", "YList", "YList", "YList", "SensMap"], [("addr", "Y"), ("cfg", "Y")]))
    emit(mk("_validate_host_configs", ["subnets", "os", "services", "processes", "sensitive_hosts", "num_hosts"],
            ["NatList", "YList", "YList", "YList", "SensMap", "Nat"], [("host_configs", "YMap")]))
    w.uconsts = {"DEFAULT_HOST_VALUE": __import__("nasim.scenarios.utils", fromlist=["x"]).DEFAULT_HOST_VALUE}

    def emit_data(fn, ret):
        fn.ret = ret
        node = meth.get(fn.name)
        doc = f"`nasim/scenarios/loader.py`: `ScenarioLoader.{fn.name}`"
        ps0 = (" ".join(f"({c} : {LEAN_TYPE[t]})" for c, t in zip(fn.ctx, fn.ctx_ty)) + " "
               + " ".join(f"({p} : {LEAN_TYPE[t]})" for p, t in fn.params)).strip()
        try:
            if node is None:
                raise Untranslatable(f"{fn.name} not found")
            saved = w.lean_ret
            w.lean_ret = lambda f_: LEAN_TYPE[ret]
            try:
                ps, body = TrLoadData(w, fn, node).run1()
            finally:
                w.lean_ret = saved
            out.append(f"/-- {doc} -/\ndef {fn.lean} {ps} : {LEAN_TYPE[ret]} :=\n{body}")
        except Untranslatable as e:
            why = str(e).replace("-/", "- /")
            out.append(f"/-- UNTRANSLATABLE {doc} — {why} -/\ndef {fn.lean} {ps0} : {LEAN_TYPE[ret]} := default\n")
    for v_ in ("os_cfg", "services_cfg", "processes_cfg"):
        w.local_types[("_construct_host_config", v_)] = "FlagDict"
    emit_data(mk("_construct_host_config", ["os", "services", "processes"], ["YList", "YList", "YList"], [("host_cfg", "Y")]), "FlagDict3")
    emit_data(mk("_get_host_value", ["sensitive_hosts"], ["SensMap"], [("address", "IntPair"), ("host_cfg", "Y")]), "Rat")
    w.section_types = [(k, T_.tyname(t)) for k, t in list(loader_mod.VALID_CONFIG_KEYS.items()) + list(loader_mod.OPTIONAL_CONFIG_KEYS.items())]
    parse_sig = {}

    def emit_parse(name):
        node = meth.get(name)
        doc = f"`nasim/scenarios/loader.py`: `ScenarioLoader.{name}`"
        fn = Fn("ScenarioLoader", name, f"ScenarioLoader.{name}", [], "Bool", self_ty="Loader")
        fn.kind, fn.prop, fn.classmethod, fn.ctx, fn.ctx_ty = "method", False, False, [], []
        try:
            if node is None:
                raise Untranslatable(f"{name} not found")
            t = TrParse(w, fn, node)
            pysrc.RAISE_EXITS = True
            try:
                ps, ret, body = t.run1()
            finally:
                pysrc.RAISE_EXITS = False
            parse_sig[name] = (list(t.needed), list(t.stored))
            out.append(f"/-- {doc} (`none`: it raised) -/\ndef {fn.lean} {ps} : Option ({ret}) :=\n{body}")
        except Untranslatable as e:
            parse_sig[name] = None
            out.append(f"/-- UNTRANSLATABLE {doc} — {str(e).replace('-/', '- /')} -/\ndef {fn.lean} : Bool := default\n")

    load_node = meth.get("load")
    steps = []
    try:
        if load_node is None:
            raise Untranslatable("load not found")
        for st in load_node.body:
            if isinstance(st, ast.Expr) and isinstance(st.value, ast.Constant):
                continue                                                   # docstring
            if isinstance(st, ast.Assign) and ast.unparse(st.targets[0]) in ("self.yaml_dict", "self.name"):
                continue                                                   # reading the file, the scenario's name
            if isinstance(st, ast.If) and ast.unparse(st.test) == "name is None" and not st.orelse \
                    and all(isinstance(x, ast.Assign) and ast.unparse(x.targets[0]) == "name" for x in st.body):
                continue
            if isinstance(st, ast.Expr) and isinstance(st.value, ast.Call) and ast.unparse(st.value.func).startswith("self._") \
                    and not st.value.args and not st.value.keywords:
                steps.append(st.value.func.attr)
                continue
            if isinstance(st, ast.Return) and ast.unparse(st.value) == "self._construct_scenario()":
                steps.append("RETURN")
                continue
            raise Untranslatable(f"load: statement `{ast.unparse(st)[:60]}`")
        if not steps or steps[-1] != "RETURN" or "RETURN" in steps[:-1]:
            raise Untranslatable("load: does not end in `return self._construct_scenario()`")
        NOT_TRANSLATED = {"_parse_hosts"}
        for name in steps[:-1]:
            if name.startswith("_parse_") and name not in NOT_TRANSLATED:
                emit_parse(name)
        have = []
        lines = []
        ind = 1
        for name in steps[:-1]:
            pad = "  " * ind
            if name == "_check_scenario_sections_valid":
                lines.append(f"{pad}if !(ScenarioLoader._check_scenario_sections_valid yaml_dict) then false else")
            elif name in NOT_TRANSLATED:
                lines.append(f"{pad}-- self.{name}(): builds the Host objects from the validated configurations (not translated, raises nothing: DESIGN.md)")
            elif name.startswith("_parse_"):
                sig = parse_sig.get(name)
                if sig is None:
                    raise Untranslatable(f"load: step {name} is untranslatable")
                needed, stored = sig
                for a in needed:
                    if a not in have:
                        raise Untranslatable(f"load: {name} reads self.{a} before any step stores it")
                args = " ".join(f"self_{a}" for a in needed)
                pat = "_" if not stored else ("(" + ", ".join(f"self_{a}" for a in stored) + ")" if len(stored) > 1 else f"self_{stored[0]}")
                lines.append(f"{pad}match ScenarioLoader.{name} {args} yaml_dict with".replace("  yaml_dict", " yaml_dict"))
                lines.append(f"{pad}| none => false")
                lines.append(f"{pad}| some {pat} =>")
                have += stored
                ind += 1
            else:
                raise Untranslatable(f"load: step {name}")
        lines.append("  " * ind + "true")
        out.append("/-- `nasim/scenarios/loader.py`: `ScenarioLoader.load` after the file has been read: does it return a scenario? -/\n"
                   "def ScenarioLoader.load (yaml_dict : List (Load.Y × Load.Y)) : Bool :=\n" + "\n".join(lines) + "\n")
    except Untranslatable as e:
        out.append(f"/-- UNTRANSLATABLE `ScenarioLoader.load` — {str(e).replace('-/', '- /')} -/\n"
                   "def ScenarioLoader.load (yaml_dict : List (Load.Y × Load.Y)) : Bool := default\n")
    fn = mk("step_limit_ok", [], [], [("step_limit", "Y")])
    # the test sits inside _parse_step_limit; its only variable is the value read from the file
    node = meth.get("_parse_step_limit")
    try:
        if node is None:
            raise Untranslatable("_parse_step_limit not found")
        t = TrStepLimit(w, fn, node)
        env_body = t.body_of()
        t.loop, t.known_lists, t.assert_exits = None, set(), True
        pysrc.RAISE_EXITS = True
        try:
            body = t.block(env_body, {"step_limit": ("val", "Y")}, lambda e2, i2: "  " * i2 + "true\n", 1)
        finally:
            pysrc.RAISE_EXITS = False
        out.append("/-- `nasim/scenarios/loader.py`: the step-limit test of `ScenarioLoader._parse_step_limit` -/\n"
                   f"def ScenarioLoader.step_limit_ok (step_limit : Load.Y) : Bool :=\n{body}")
    except Untranslatable as e:
        out.append(f"/-- UNTRANSLATABLE step-limit test — {str(e).replace('-/', '- /')} -/\n"
                   "def ScenarioLoader.step_limit_ok (step_limit : Load.Y) : Bool := default\n")
    return "\n".join(out)
