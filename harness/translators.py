"""The individual T1 translators (name of generated file, function returning its Lean text)."""
ALL = []
