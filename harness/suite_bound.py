"""BOUND suite: the advertised score upper bound (C20).

 * `get_minimum_hops` / `get_score_upper_bound` of the implementation against the model
   (`hops`, `scoreUpperBound`) on shipped, generated and random scenarios incl. branching
   topologies;
 * the property's second sentence, checked directly: advertised hops <= smallest number of subnets
   that must be entered (brute force over subnet subsets in the Lean driver, `minSubnets`);
 * the property's first sentence on small scenarios of its domain (every action costs >= 1, no
   non-sensitive host worth more than 1): the exact optimum over goal-reaching episodes is computed
   by dynamic programming over the monotone state graph of the *real* environment and compared with
   the advertised bound; the optimal episode is the replay.
"""
import sys, os, json, random, collections, time, traceback
import numpy as np
import common as C
from common import NASimEnv, NoOp, Scenario, Host, u
import scen_gen

DR = C.Draw()


def bound_scenario(rng, negative_dvalue=False):
    """small scenario in the cost/value domain of C20, with branching topologies"""
    nsub = rng.randint(2, 5)
    sizes = [rng.randint(1, 2) for _ in range(nsub)]
    while sum(sizes) > 6:
        sizes[rng.randrange(nsub)] = 1
    subnets = [1] + sizes
    n = len(subnets)
    topo = [[0] * n for _ in range(n)]
    for i in range(n):
        topo[i][i] = 1
    shape = rng.choice(["tree", "tree", "star", "line", "random", "two-sites"])
    if shape == "two-sites" and n < 3:
        shape = "line"
    topo[0][1] = topo[1][0] = 1
    site2 = rng.randint(2, n - 1) if shape == "two-sites" else None
    for i in range(2, n):
        if shape == "two-sites":
            # two lines of subnets, each entered from the internet through its own public subnet, not linked to each other
            if i == site2:
                topo[0][i] = topo[i][0] = 1
                continue
            p = i - 1
        elif shape == "star":
            p = 1
        elif shape == "line":
            p = i - 1
        elif shape == "tree":
            p = rng.randint(1, i - 1)
        else:
            p = rng.randint(1, i - 1)
        topo[i][p] = topo[p][i] = 1
    if shape == "random":
        for i in range(1, n):
            for j in range(i + 1, n):
                if rng.random() < 0.3:
                    topo[i][j] = topo[j][i] = 1
        if rng.random() < 0.3:
            s = rng.randint(2, n - 1); topo[0][s] = topo[s][0] = 1
    svc_l = ["s0", "s1"][:rng.randint(1, 2)]
    os_l = ["os0"]
    proc_l = ["p0"]
    addrs = [(s, h) for s in range(1, n) for h in range(subnets[s])]
    leaves = [a for a in addrs if a[0] >= 2] or addrs
    sens = {a: rng.choice([10, 100, 20]) for a in rng.sample(leaves, rng.randint(1, min(3, len(leaves))))}
    if shape == "two-sites":
        # a sensitive host at the far end of each site
        sens = {(site2 - 1, 0): rng.choice([10, 100, 20]), (n - 1, 0): rng.choice([10, 100, 20])}
    fw = {}
    for i in range(n):
        for j in range(n):
            if i != j and topo[i][j] == 1:
                fw[(i, j)] = list(svc_l) if rng.random() < 0.8 else [x for x in svc_l if rng.random() < 0.5]
    H = {}
    for a in addrs:
        val = sens.get(a, rng.choice([0, 1, 1, 0.5, -5]))
        dv = rng.choice([0, 1, 1, 2]) if not negative_dvalue else rng.choice([-1, -2, 0, 1])
        H[a] = Host(address=a, os={"os0": True}, services={x: rng.random() < 0.85 for x in svc_l},
                    processes={"p0": True}, firewall={}, value=float(val), discovery_value=float(dv))
    exploits = {f"e{i}": dict(service=x, os=None, prob=rng.choice([1.0, 0.8]), cost=rng.choice([1, 1, 2, 1.5]),
                              access=rng.choice([2, 2, 1])) for i, x in enumerate(svc_l)}
    privescs = {"pe0": dict(process="p0", os=None, prob=1.0, cost=rng.choice([1, 2]), access=2)}
    if rng.random() < 0.4:
        # an escalation that grants user access only (the documented format allows it)
        privescs["pe1"] = dict(process="p0", os=None, prob=1.0, cost=1, access=1)
    d = {u.SUBNETS: subnets, u.TOPOLOGY: topo, u.OS: os_l, u.SERVICES: svc_l, u.PROCESSES: proc_l,
         u.SENSITIVE_HOSTS: sens, u.EXPLOITS: exploits, u.PRIVESCS: privescs,
         u.SERVICE_SCAN_COST: 1, u.OS_SCAN_COST: 1, u.SUBNET_SCAN_COST: rng.choice([1, 2]),
         u.PROCESS_SCAN_COST: 1, u.FIREWALL: fw, u.HOSTS: H, u.STEP_LIMIT: None}
    sc = Scenario(d, name="bound")
    sc._shape = shape + ("/negdv" if negative_dvalue else "")
    return sc


def mutually_reachable(sc):
    """every ordered pair among internet + sensitive subnets is connected by a directed path
    (otherwise some permutation sums two int16 infinities and wraps around: not modelled)"""
    n = len(sc.topology)
    visit = [0] + sorted({a[0] for a in sc.sensitive_hosts})
    for src in visit:
        seen = {src}; todo = [src]
        while todo:
            x = todo.pop()
            for y in range(n):
                if sc.topology[x][y] == 1 and y not in seen:
                    seen.add(y); todo.append(y)
        if any(v not in seen for v in visit):
            return False
    return True


def in_domain(sc, env):
    acts = env.action_space.actions
    if any(a.cost < 1 for a in acts):
        return False
    return all(h.value <= 1 for a, h in sc.hosts.items() if a not in sc.sensitive_hosts)


class PositiveCycle(Exception):
    """the state graph of the real environment has a cycle with positive total reward"""

    def __init__(self, prefix, cycle, gain):
        self.prefix, self.cycle, self.gain = prefix, cycle, gain


def optimum(env, max_states=4000):
    """exact maximum total reward over goal-reaching episodes (every draw succeeding), by DP over
    the state graph, which is acyclic when progress is monotone; returns (value, plan) or
    (None, None) when too large / unreachable. A cycle with positive total reward (possible only
    when some step undoes progress) raises PositiveCycle: episodes can then earn arbitrarily much."""
    acts = env.action_space.actions
    s0 = env.current_state
    key = lambda st: st.tensor.tobytes()
    memo = {}
    count = [0]
    stack_keys, stack_edges = [], []          # DFS path: states and (action index, reward) edges

    def best(st):
        k = key(st)
        if k in memo:
            return memo[k]
        count[0] += 1
        if count[0] > max_states:
            raise OverflowError
        if env.goal_reached(st):
            memo[k] = (0.0, [])
            return memo[k]
        stack_keys.append(k)
        res = (None, None)
        for i, a in enumerate(acts):
            DR.v = 0.0
            ns, obs, rew, done, info = env.generative_step(st, a)
            kn = key(ns)
            if kn == k:
                continue
            if kn in stack_keys:
                j = stack_keys.index(kn)
                cyc = stack_edges[j:] + [(i, float(rew))]
                gain = sum(r for _, r in cyc)
                if gain > 1e-9:
                    raise PositiveCycle([e[0] for e in stack_edges[:j]], [e[0] for e in cyc], gain)
                continue                      # a cycle that earns nothing cannot improve an episode
            stack_edges.append((i, float(rew)))
            v, plan = best(ns)
            stack_edges.pop()
            if v is None:
                continue
            tot = float(rew) + v
            if res[0] is None or tot > res[0]:
                res = (tot, [i] + plan)
        stack_keys.pop()
        memo[k] = res
        return res
    sys.setrecursionlimit(10000)
    try:
        return best(s0)
    except OverflowError:
        return None, None


def pumped_episode(env, prefix, cycle, gain, bound):
    """a concrete goal-reaching episode through a positive cycle that beats `bound`:
    prefix, the cycle often enough, then a shortest completion to the goal (BFS). Returns
    (plan, total) or (None, None) when the goal is not reachable from the cycle."""
    acts = env.action_space.actions
    key = lambda st: st.tensor.tobytes()

    def run(st, plan):
        tot = 0.0
        for i in plan:
            DR.v = 0.0
            st, _, rew, _, _ = env.generative_step(st, acts[i])
            tot += float(rew)
        return st, tot
    st, tot = run(env.current_state, prefix)
    # completion from the cycle's state, by BFS
    frontier, seen = [(st, [])], {key(st)}
    completion = None
    while frontier and completion is None and len(seen) < 5000:
        nxt = []
        for s, pl in frontier:
            if env.goal_reached(s):
                completion = pl
                break
            for i, a in enumerate(acts):
                DR.v = 0.0
                ns = env.generative_step(s, a)[0]
                if key(ns) not in seen:
                    seen.add(key(ns)); nxt.append((ns, pl + [i]))
        frontier = nxt
    if completion is None:
        return None, None
    _, ctot = run(st, completion)
    rounds = int(max(0.0, bound - tot - ctot) // gain) + 2
    plan = prefix + cycle * rounds + completion
    end, total = run(env.current_state, plan)
    return (plan, total) if env.goal_reached(end) else (None, None)


def run_case(args):
    seed, idx, kind, tier = args
    np.random.rand = DR
    rng = random.Random(f"{seed}-{idx}-{kind}-bound")
    res = dict(idx=idx, kind=kind, findings=[], error=None, sample=None, dp=False, hops=None, shape=None,
               out_of_model=False)
    try:
        import nasim
        if kind == "random":
            sc = bound_scenario(rng)
        elif kind == "negdv":
            sc = bound_scenario(rng, negative_dvalue=True)
        elif kind == "small":
            sc = scen_gen.rand_scenario(rng)
        elif kind.startswith("bench:"):
            sc = nasim.make_benchmark_scenario(kind.split(":")[1], rng.randint(0, 100)); sc._shape = kind
        else:
            raise ValueError(kind)
        res["shape"] = getattr(sc, "_shape", kind)
        lines = C.scenario_lines(sc)
        env = NASimEnv(sc, fully_obs=True, flat_actions=True, flat_obs=True)
        hops_i = int(env.get_minimum_hops())
        ub_i = C.sv(env.get_score_upper_bound())
        nsub = len(sc.subnets)
        reqs = ["HOPS"] + (["MINSUB"] if nsub <= 13 else [])
        out = C.run_driver(lines + reqs)
        hops_m, ub_m = [int(x) for x in out[0].split()]
        res["hops"] = hops_i
        desc = scen_gen.describe(sc) if len(sc.hosts) <= 12 else dict(kind=kind, hosts=len(sc.hosts))
        if hops_m >= 32767 or not mutually_reachable(sc):
            # a sensitive subnet that cannot be reached at all: the implementation's int16 arithmetic
            # wraps around; outside the model (and outside the property: no episode reaches the goal)
            res["out_of_model"] = True
            return res
        if (hops_i, ub_i) != (hops_m, ub_m):
            res["findings"].append(dict(property="C20", kind="correspondence",
                what=f"get_minimum_hops/get_score_upper_bound ({hops_i}, {ub_i}/64) differ from the model ({hops_m}, {ub_m}/64)",
                replay=dict(kind="bound", scenario=desc, impl=[hops_i, ub_i], model=[hops_m, ub_m])))
        if len(out) > 1:
            minsub = int(out[1])
            if hops_i > minsub:
                # the known finding is what the *pinned* algorithm (the model, `Src_minimum_hops`) computes on branching
                # topologies; an excess the pinned algorithm does not produce is a new failing input
                f = dict(property="C20", kind="failing-input",
                    what=f"advertised minimum hops {hops_i} exceeds the smallest number of subnets that must be "
                         f"entered ({minsub}) when firewalls are ignored"
                         + ("" if hops_i == hops_m else f" (the pinned algorithm gives {hops_m})"),
                    replay=dict(kind="bound-hops", scenario=desc, hops=hops_i, minimal_subnets=minsub, pinned_hops=hops_m))
                if hops_i == hops_m:
                    f["key"] = "C20:hops-exceed-minimal-subnet-set"
                res["findings"].append(f)
        # exact optimum on small instances of the property's domain
        if len(sc.hosts) <= 6 and in_domain(sc, env):
            try:
                opt, plan = optimum(env, 3000 if tier == "quick" else 20000)
            except PositiveCycle as pc:
                opt, plan = None, None
                bound = float(env.get_score_upper_bound())
                ep, total = pumped_episode(env, pc.prefix, pc.cycle, pc.gain, bound)
                if ep is not None and total > bound + 1e-6:
                    res["findings"].append(dict(property="C20", kind="failing-input",
                        what=f"progress can be undone and collected again: a cycle of {len(pc.cycle)} actions earns "
                             f"+{pc.gain} per round, so a goal-reaching episode earns {total} > advertised upper bound {bound}",
                        replay=dict(kind="bound-episode", scenario=desc, plan=ep, total=total, bound=bound,
                                    prefix=pc.prefix, cycle=pc.cycle, gain=pc.gain, hops=hops_i)))
            if opt is not None:
                res["dp"] = True
                bound = float(env.get_score_upper_bound())
                if opt > bound + 1e-6:
                    over = hops_i > (int(out[1]) if len(out) > 1 else hops_i)
                    key = "C20:hops-exceed-minimal-subnet-set" if over and hops_i == hops_m else None
                    f = dict(property="C20", kind="failing-input",
                             what=f"a goal-reaching episode earns {opt} > advertised upper bound {bound}",
                             replay=dict(kind="bound-episode", scenario=desc, plan=plan, total=opt, bound=bound,
                                         hops=hops_i))
                    if key:
                        f["key"] = key
                    res["findings"].append(f)
                res["sample"] = dict(shape=res["shape"], hops=hops_i, bound=bound, optimum=opt, plan=plan)
    except (C.Untranslatable, C.ImplLayout, C.ImplAction):
        pass
    except Exception as e:
        if C.raised_by_implementation(e):
            # the environment itself raises while being stepped: C10's business (DYN, LAYOUT report it)
            res["impl_raised"] = f"{type(e).__name__}: {str(e)[:100]}"
        else:
            res["error"] = "".join(traceback.format_exception(type(e), e, e.__traceback__))[-3000:]
    return res


BENCH = ["tiny", "tiny-hard", "tiny-small", "small", "small-honeypot", "small-linear", "medium",
         "medium-single-site", "medium-multi-site", "tiny-gen", "small-gen", "medium-gen", "large-gen", "huge-gen"]
BUDGET = {"quick": dict(n_random=60, n_negdv=8, n_small=20), "thorough": dict(n_random=1200, n_negdv=100, n_small=300)}


def run(tier, seed):
    import runner
    b, tier = runner.budget(BUDGET, tier)
    kinds = ["random"] * b["n_random"] + ["negdv"] * b["n_negdv"] + ["small"] * b["n_small"] \
        + [f"bench:{n}" for n in BENCH]
    tasks = [(seed, i, k, tier) for i, k in enumerate(kinds)]
    rs = runner.pmap(run_case, tasks)
    runner.stamp("bound", "run_case", tasks, rs)
    errors = [dict(idx=r["idx"], kind=r["kind"], error=r["error"]) for r in rs if r["error"]]
    shapes = collections.Counter(str(r["shape"]) for r in rs)
    return dict(suite="bound", tier=tier, seed=seed, scenarios=len(rs), evaluations=len(rs),
                exact_optima=sum(1 for r in rs if r["dp"]), shapes=dict(shapes),
                out_of_model=sum(1 for r in rs if r.get("out_of_model")),
                implementation_raised=sum(1 for r in rs if r.get("impl_raised")),
                hops_hist=dict(collections.Counter(str(r["hops"]) for r in rs)),
                distinct_nontrivial=len(shapes) + sum(1 for r in rs if r["dp"]),
                traces=sum(1 for r in rs if r["dp"]),
                findings=[f for r in rs for f in r["findings"]], errors=errors,
                samples=[r["sample"] for r in rs if r.get("sample")][:3])


if __name__ == "__main__":
    tier = sys.argv[1] if len(sys.argv) > 1 else "quick"
    seed = int(sys.argv[2]) if len(sys.argv) > 2 else 0
    t = time.time()
    r = run(tier, seed)
    print(json.dumps({k: v for k, v in r.items() if k not in ("findings", "samples")}, indent=1, default=str)[:3000])
    print("findings", len(r["findings"]), collections.Counter((f["kind"], f.get("key")) for f in r["findings"]))
    for f in [f for f in r["findings"] if not f.get("key")][:5]:
        print(f["what"][:300]); print("   ", json.dumps(f["replay"], default=str)[:1500])
    print("wall", time.time() - t)
