"""Subprocess worker of the GEN suite: runs the real generator once with NumPy's global random
functions wrapped by a recorder, prints one JSON object.

usage: gen_worker.py '<json params>'   (stdin unused)
Run under a kill-timeout by the parent: a spinning generator is not interrupted reliably by
signals, so termination is watched from outside.
"""
import sys, os, json, hashlib
sys.path.insert(0, os.path.dirname(os.path.abspath(__file__)))
import common as C
import numpy as np
import nasim
from fractions import Fraction

orig = {k: getattr(np.random, k) for k in ["choice", "randint", "rand", "random_sample", "poisson"]}
LOG = []


def fr(x):
    f = Fraction(float(x))
    return f"{f.numerator}/{f.denominator}"


def index_of(pop, x):
    for i, y in enumerate(pop):
        if y is x:
            return i
    for i, y in enumerate(pop):
        if (y is None) != (x is None):
            continue
        if y is None:
            return i
        try:
            if bool(y == x):
                return i
        except Exception:
            pass
    raise ValueError((pop, x))


def w_choice(a, size=None, replace=True, p=None):
    r = orig["choice"](a, size=size, replace=replace, p=p)
    pop = list(range(int(a))) if isinstance(a, (int, np.integer)) else list(a)
    if size is None:
        LOG.append(f"ch {len(pop)} 1 {index_of(pop, r)}")
    else:
        LOG.append(f"ch {len(pop)} {len(r)} " + " ".join(str(index_of(pop, x)) for x in r))
    return r


def w_randint(low, high=None, size=None, dtype=int):
    r = orig["randint"](low, high, size)
    lo, hi = (0, low) if high is None else (low, high)
    LOG.append(f"ri {int(lo)} {int(hi)} {int(r)}")
    return r


def w_rand(*a):
    r = orig["rand"](*a)
    LOG.append("r " + fr(r))
    return r


def w_rs(n=None):
    r = orig["random_sample"](n)
    LOG.append(f"rs {len(r)} " + " ".join(fr(x) for x in r))
    return r


def w_poisson(lam=1.0, size=None):
    r = orig["poisson"](lam, size)
    LOG.append(f"po {int(r)}")
    return r


def fingerprint(sc):
    """order-insensitive for sets, order-sensitive for everything the user can observe as ordered"""
    d = dict(subnets=list(sc.subnets), topology=[[int(x) for x in r] for r in sc.topology],
             os=list(sc.os), services=list(sc.services), processes=list(sc.processes),
             sensitive=[[list(k), float(v)] for k, v in sc.sensitive_hosts.items()],
             exploits=[[k, {a: (b if not isinstance(b, (np.floating, float)) else float(b)) for a, b in v.items()}]
                       for k, v in sc.exploits.items()],
             privescs=[[k, {a: (b if not isinstance(b, (np.floating, float)) else float(b)) for a, b in v.items()}]
                       for k, v in sc.privescs.items()],
             firewall=[[list(k), sorted(v)] for k, v in sc.firewall.items()],
             hosts=[[list(a), [int(bool(x)) for x in h.os.values()], [int(bool(x)) for x in h.services.values()],
                     [int(bool(x)) for x in h.processes.values()], float(h.value), float(h.discovery_value)]
                    for a, h in sc.hosts.items()],
             bounds=list(sc.address_space_bounds), step_limit=sc.step_limit)
    return hashlib.sha256(json.dumps(d, sort_keys=True, default=str).encode()).hexdigest()


def trajectory_hash(sc, seed, steps, pool=None, collect=None):
    """seeded run of a fixed pseudo-random action sequence: hash of every observable.  With `pool` (states of an
    earlier run of the same trajectory), generative_step is called on stored states before every step, the global
    generator being restored afterwards: a look-ahead must not change what the episode does."""
    h = hashlib.sha256()
    env = nasim.NASimEnv(sc, fully_obs=False, flat_actions=True, flat_obs=True)
    np.random.seed(seed)
    o, _ = env.reset()
    h.update(o.tobytes())
    n = env.action_space.n
    for i in range(steps):
        a = (i * 7919 + seed * 31) % n
        if pool:
            rs = np.random.get_state()
            for j in range(3):
                st = pool[(i * 5 + j * 11) % len(pool)]
                env.generative_step(st, (a + j) % n)
                env.generative_step(st, ((i + j) * 104729) % n)
            np.random.set_state(rs)
        if collect is not None:
            collect.append(env.current_state.copy())
        o, r, d, t, info = env.step(a)
        h.update(o.tobytes()); h.update(np.float64(r).tobytes()); h.update(bytes([int(d), int(t)]))
        h.update(json.dumps({k: str(v) for k, v in info.items()}, sort_keys=True).encode())
        if d:
            o, _ = env.reset(); h.update(o.tobytes())
    return h.hexdigest()


def benchmark_history(name, prior):
    """C14 across histories of one process: np.random.seed(123); make_benchmark_scenario(name) must
    give the same scenario whether or not other (seeded) calls happened before in this process"""
    import nasim.scenarios as S
    for i, (n2, sd) in enumerate(prior):
        if i % 2:
            nasim.make_benchmark(n2, sd)                   # the top-level entry point
        else:
            S.make_benchmark_scenario(n2, sd)
    np.random.seed(123)
    return fingerprint(S.make_benchmark_scenario(name))


def main():
    params = json.loads(sys.argv[1])
    if "_api_seeded" in params:
        # the top-level entry points with a seed: the scenario inside the environment is the seeded scenario
        import nasim.scenarios as S
        q = params["_api_seeded"]
        name, sd = q["name"], q["seed"]
        out = dict(ok=True,
                   env=fingerprint(nasim.make_benchmark(name, sd).scenario),
                   env_again=fingerprint(nasim.make_benchmark(name, sd, fully_obs=True).scenario),
                   scenario=fingerprint(S.make_benchmark_scenario(name, sd)),
                   gen_env=fingerprint(nasim.generate(6, 2, seed=sd, num_os=2).scenario),
                   gen_scenario=fingerprint(nasim.generate_scenario(6, 2, seed=sd, num_os=2)))
        print(json.dumps(out))
        return
    if "_benchmark_history" in params:
        h = params["_benchmark_history"]
        print(json.dumps(dict(ok=True, fingerprint=benchmark_history(h["name"], h["prior"]))))
        return
    record = params.pop("_record", True)
    traj = params.pop("_trajectory", 0)
    if record:
        (np.random.choice, np.random.randint, np.random.rand, np.random.random_sample,
         np.random.poisson) = w_choice, w_randint, w_rand, w_rs, w_poisson
    prior = params.pop("_prior", None)
    out = dict(ok=False)
    try:
        if prior:
            # one ScenarioGenerator object used several times: earlier calls must not leak into the last one
            from nasim.scenarios.generator import ScenarioGenerator
            g = ScenarioGenerator()
            for q in prior:
                if q.get("address_space_bounds") is not None:
                    q["address_space_bounds"] = tuple(q["address_space_bounds"])
                g.generate(**q)
                del LOG[:]
            sc = g.generate(**params)
        elif (params.get("seed") or 0) % 2 == 0:
            # through the package's top-level entry point (nasim.generate builds the environment around the scenario)
            sc = nasim.generate(**params).scenario
        else:
            sc = nasim.generate_scenario(**params)
        out.update(ok=True, log=list(LOG), fingerprint=fingerprint(sc), hashseed=os.environ.get("PYTHONHASHSEED"))
        try:
            out["lines"] = C.scenario_lines(sc)
        except C.Untranslatable as e:
            out["untranslatable"] = str(e)
        if traj:
            for k, v in orig.items():
                setattr(np.random, k, v)
            seen = []
            out["trajectory"] = trajectory_hash(sc, params.get("seed") or 0, traj, collect=seen)
            late = seen[len(seen) // 2:] + seen[-3:]
            out["trajectory_lookahead"] = trajectory_hash(sc, params.get("seed") or 0, traj, pool=late)
    except AssertionError as e:
        out.update(error="AssertionError", message=str(e)[:200], log=list(LOG))
    except Exception as e:
        out.update(error=type(e).__name__, message=str(e)[:200], log=list(LOG))
    print(json.dumps(out))


if __name__ == "__main__":
    main()
