import NasimModel.Model.Core
import NasimModel.Model.Obs
import NasimModel.Model.Env
import NasimModel.Model.Pred
import NasimModel.Model.Wire
import NasimModel.Proofs.Step
import NasimModel.Proofs.Inv
import NasimModel.Proofs.Flags
