import NasimModel.Model.Pred
import NasimModel.Proofs.Inv
/-!
# C02 — actions respect discovery, reachability, pivot access and both firewall layers
-/
namespace NASim

theorem gate_fail_not_success {n s a r} (h : gate n s a = .fail r) : r.success = false := by
  unfold gate at h
  repeat' split at h
  all_goals simp_all
  all_goals (subst h; rfl)

/-- a successful action other than the no-op passed every gate and survived the draw -/
theorem success_pass {n : Net} {s : State} {a : Action} {u : Rat}
    (hk : a.kind ≠ .noop) (h : (perform n s a u).2.1.success = true) :
    gate n s a = .pass ∧ (perform n s a u).2.1 = (effect n s a).2
      ∧ (perform n s a u).1 = (effect n s a).1 := by
  unfold perform at *
  cases hg : gate n s a with
  | noop => unfold gate at hg; repeat' split at hg
            all_goals simp_all
  | fail r => simp [hg, gate_fail_not_success hg] at h
  | pass =>
    simp only [hg] at h ⊢
    split at h
    · simp [chanceFail] at h
    · rename_i hc; simp [hc]

/-- C02: an action aimed at a host that is not both discovered and reachable fails and changes
nothing -/
theorem C02_unreachable (n : Net) (s : State) (a : Action) (u : Rat) (hk : a.kind ≠ .noop)
    (h : ¬ ((s.get a.target).reach = true ∧ (s.get a.target).disc = true)) :
    (perform n s a u).2.1.success = false ∧ (perform n s a u).1 = s
      ∧ (perform n s a u).2.1.connErr = true := by
  have hg : gate n s a = .fail { success := false, connErr := true } := by
    unfold gate
    have : (a.kind == Kind.noop) = false := by simpa using hk
    simp only [this]
    by_cases h1 : (s.get a.target).reach = true <;> by_cases h2 : (s.get a.target).disc = true
      <;> simp_all
  unfold perform; simp [hg]

theorem effect_snd (n : Net) (s : State) (a : Action) :
    (effect n s a).2 = if a.kind == .subnetScan then (subnetScan n s a).2
                       else (hostPerform (s.get a.target) a).2 := by
  unfold effect; split <;> rfl

theorem hostPerform_fail_id (r : Row) (a : Action) (h : (hostPerform r a).2.success = false) :
    (hostPerform r a).1 = r := by
  revert h; unfold hostPerform; repeat' split
  all_goals simp_all

theorem subnetScan_fail (n : Net) (s : State) (a : Action)
    (h : (subnetScan n s a).2.success = false) :
    ((s.get a.target).comp && hasAccess (s.get a.target) a.req) = false := by
  revert h; unfold subnetScan; simp only []
  repeat' split
  all_goals simp_all

/-- C02: a failed action changes nothing (rows with distinct addresses) -/
theorem C02_fail_changes_nothing (n : Net) (s : State) (a : Action) (u : Rat) (hwf : WF s)
    (h : (perform n s a u).2.1.success = false) : (perform n s a u).1 = s := by
  rw [perform_eq_map]
  conv => rhs; rw [← List.map_id s]
  apply List.map_congr_left
  intro r hr
  unfold stepRow
  cases hg : gate n s a with
  | noop => rfl
  | fail _ => rfl
  | pass =>
    simp only [id]
    split
    · rfl
    · rename_i hc
      have hres : (effect n s a).2.success = false := by
        unfold perform at h; simpa [hg, hc] using h
      rw [effect_snd] at hres
      unfold effRow
      by_cases hs : a.kind == .subnetScan
      · simp only [hs, if_true] at hres ⊢
        simp [subnetScan_fail n s a hres]
      · simp only [hs] at hres ⊢
        have hres' : (hostPerform (s.get a.target) a).2.success = false := by simpa using hres
        simp only [Bool.false_eq_true, if_false, hres', Bool.and_false]
        by_cases hra : r.addr == a.target
        · have : s.get a.target = r := target_row hwf hr (by simpa using hra)
          rw [this] at hres'
          simp [hra, hostRow, hostPerform_fail_id r a hres']
        · simp [hra]

/-- C02: a successful service scan, OS scan or exploit against a non-public subnet has a pivot:
a compromised host with the required access whose subnet is connected to the target's (scans),
resp. whose subnet firewall rule towards the target's subnet allows the service (exploits) -/
theorem C02_remote_pivot (n : Net) (s : State) (a : Action) (u : Rat)
    (hrem : a.isRemote = true) (hpub : n.pub a.target.1 = false)
    (h : (perform n s a u).2.1.success = true) :
    ∃ p ∈ s, p.comp = true ∧ a.req ≤ p.access ∧
      (a.kind = .exploit → n.subnetTraffic p.addr.1 a.target.1 a.svc = true) ∧
      (a.isScan = true → n.conn p.addr.1 a.target.1 = true) := by
  have hk : a.kind ≠ .noop := by intro hk; simp [Action.isRemote, hk] at hrem
  obtain ⟨hg, _, _⟩ := success_pass hk h
  have hperm : hasRemotePerm n s a = true := by
    unfold gate at hg
    repeat' split at hg
    all_goals simp_all
  unfold hasRemotePerm at hperm
  simp only [hpub] at hperm
  simp only [Bool.false_eq_true, if_false, List.any_eq_true] at hperm
  obtain ⟨p, hp, hpp⟩ := hperm
  refine ⟨p, hp, ?_⟩
  simp only [Bool.and_eq_true, Bool.not_eq_true', hasAccess, decide_eq_true_eq] at hpp
  obtain ⟨⟨⟨hc, hscan⟩, hex⟩, hacc⟩ := hpp
  refine ⟨hc, hacc, ?_, ?_⟩
  · intro hke; simp [hke] at hex; simpa using hex
  · intro hsc; simp [hsc] at hscan; simpa using hscan

/-- C02: a successful exploit had a permitted path through both firewall layers from an
attacker-controlled position: the internet (public target subnet, rule `(0, subnet)`) or a
compromised host whose subnet rule allows the service and whom the target's host firewall does
not deny (traffic inside one subnet is always allowed: `subnetTraffic s s _ = true`) -/
theorem C02_exploit_firewalls (n : Net) (s : State) (a : Action) (u : Rat)
    (hk : a.kind = .exploit) (h : (perform n s a u).2.1.success = true) :
    (n.pub a.target.1 = true ∧ n.subnetTraffic 0 a.target.1 a.svc = true) ∨
    ∃ c ∈ s, c.comp = true ∧ n.subnetTraffic c.addr.1 a.target.1 a.svc = true
      ∧ n.hostTraffic c.addr a.target a.svc = true := by
  have hk' : a.kind ≠ .noop := by simp [hk]
  obtain ⟨hg, _, _⟩ := success_pass hk' h
  have ht : trafficPermitted n s a.target a.svc = true := by
    unfold gate at hg
    repeat' split at hg
    all_goals simp_all
  unfold trafficPermitted at ht
  simp only [Bool.or_eq_true, Bool.and_eq_true, List.any_eq_true] at ht
  rcases ht with h1 | ⟨c, hc, ⟨h2, h3⟩, h4⟩
  · exact Or.inl h1
  · exact Or.inr ⟨c, hc, h2, h3, h4⟩

theorem subnetTraffic_same (n : Net) (x svc : Nat) : n.subnetTraffic x x svc = true := by
  simp [Net.subnetTraffic]

/-- C02: subnet scans, process scans and escalations succeed only on hosts the attacker has
already compromised with the required access -/
theorem C02_on_host (n : Net) (s : State) (a : Action) (u : Rat)
    (hk : a.kind = .subnetScan ∨ a.kind = .procScan ∨ a.kind = .privesc)
    (h : (perform n s a u).2.1.success = true) :
    (s.get a.target).comp = true ∧ a.req ≤ (s.get a.target).access := by
  have hk' : a.kind ≠ .noop := by rcases hk with h | h | h <;> simp [h]
  obtain ⟨_, he, _⟩ := success_pass hk' h
  rw [he] at h
  unfold effect at h
  rcases hk with hk | hk | hk
  · simp only [hk, beq_self_eq_true, if_true] at h
    unfold subnetScan at h
    simp only [] at h
    repeat' split at h
    all_goals simp_all [hasAccess]
  · simp [hk] at h
    revert h; unfold hostPerform onHostOk; simp [hk]
    repeat' split
    all_goals simp_all
  · simp [hk] at h
    revert h; unfold hostPerform onHostOk; simp [hk]
    repeat' split
    all_goals simp_all

end NASim
