import NasimModel.Props.SrcBase
/-!
# Source tie: `Network.perform_action` as a whole

The translated body of `Network.perform_action` (early returns in source order, the draw inside the
`elif`, the call of `_perform_subnet_scan` or of the host's `perform_action` + `update_host` +
`_update`) equals the model's `perform` (= `gate` / `drawsNeeded` / `effect`), **given** the ties
of the functions it calls.  Those are hypotheses here and theorems of their own modules
(`SrcHost`, `SrcPerm`, `SrcScan`, `SrcReach`), so that an edit of one callee breaks only the
obligation of that callee; `SrcAll` discharges the hypotheses.
-/
open NASim
namespace NASim

theorem Src_perform (n : Net) (s : State) (a : Action) (u : Rat) (hwf : WF s) (hs : Sync n s)
    (hHost : ∀ r a, Src.HostVector.perform_action r a = hostPerform r a)
    (hPerm : Src.Network.has_required_remote_permission n s a = hasRemotePerm n s a)
    (hTraffic : Src.Network.traffic_permitted n s a.target a.svc = trafficPermitted n s a.target a.svc)
    (hScan : Src.Network._perform_subnet_scan n s a = subnetScan n s a)
    (hUpdate : ∀ res, Src.Network._update n (hostStep s a) a res =
      if a.kind == .exploit && res.success then (hostStep s a).map (reachRow n a.target.1) else hostStep s a) :
    Src.Network.perform_action n s a u = (((perform n s a u).1, (perform n s a u).2.1), (perform n s a u).2.2) := by
  unfold Src.Network.perform_action
  dsimp only
  simp only [Src.Action.is_noop, Src.Action.is_exploit, Src.Action.is_privilege_escalation, Src.Action.is_subnet_scan,
    src_is_remote, Src.State.host_reachable, Src.State.host_discovered, Src.State.host_compromised, PyRt.getHost,
    hPerm, hTraffic, hScan, hHost, setHost_eq s a hwf, hUpdate]
  unfold perform gate drawsNeeded effect hostStep chanceFail
  by_cases hr : (s.get a.target).reach = true <;> by_cases hd : (s.get a.target).disc = true <;>
    by_cases hp : hasRemotePerm n s a = true <;> by_cases ht : trafficPermitted n s a.target a.svc = true <;>
    by_cases hc : (s.get a.target).comp = true <;> by_cases hu : u > a.prob <;>
    cases hk : a.kind <;> simp [hr, hd, hp, ht, hc, hu, hk, Action.isRemote]

end NASim
