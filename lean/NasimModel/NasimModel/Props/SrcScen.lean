import NasimModel.Props.SrcAll
import NasimModel.Props.C15
import NasimModel.Generated.ShippedScen
/-!
# The refinement applies to every shipped and every generated scenario

`Src_run_refines` asks for distinct host addresses.  The nine shipped scenarios (re-translated from
the repository on every run) have them (kernel-checked), and so does every scenario the model
generator returns, for all parameters and decision streams (`allAddrs` enumerates `(subnet, host)`
pairs without repetition).
-/
open NASim NASim.Gen
namespace NASim

theorem allAddrs_nodup (subnets : List Nat) : (allAddrs subnets).Nodup := by
  unfold allAddrs
  rw [List.nodup_iff_pairwise_ne, List.pairwise_flatMap]
  refine ⟨?_, ?_⟩
  · intro x _
    rw [List.pairwise_map]
    exact List.nodup_range.imp (fun hab h => hab (by simpa using h))
  · have hz : (subnets.zipIdx.drop 1).Pairwise (fun a b => a.2 ≠ b.2) := by
      refine List.Pairwise.sublist (List.drop_sublist 1 _) ?_
      rw [List.pairwise_iff_getElem]
      intro i j hi hj hij
      simp only [List.getElem_zipIdx]
      omega
    refine hz.imp ?_
    intro a b hab x hx1 y hx2 hxy
    simp only [List.mem_map, List.mem_range] at hx1 hx2
    obtain ⟨_, _, rfl⟩ := hx1
    obtain ⟨_, _, rfl⟩ := hx2
    exact hab (by simpa using congrArg Prod.fst hxy)

/-- every generated scenario: the translated environment and the model agree on every history -/
theorem Src_generated_refine {p : Params} {s s' : List Tok} {sc : Scenario}
    (h : generate p s = .ok (sc, s')) (hconst : p.period = 40 ∧ p.userSize = 5) (fo : Bool) (ops : List Op) :
    Src.run (Env.make sc fo) ops = (Env.make sc fo).run ops := by
  refine Src_run_refines sc fo ?_ ops
  rw [(C15_hosts_addresses h hconst).1]
  exact allAddrs_nodup _

/-- every shipped scenario likewise -/
theorem Src_shipped_refine :
    ∀ sc ∈ [Generated.sc_tiny, Generated.sc_tiny_hard, Generated.sc_tiny_small, Generated.sc_small,
            Generated.sc_small_honeypot, Generated.sc_small_linear, Generated.sc_medium,
            Generated.sc_medium_single_site, Generated.sc_medium_multi_site],
      ∀ fo ops, Src.run (Env.make sc fo) ops = (Env.make sc fo).run ops := by
  intro sc hsc fo ops
  refine Src_run_refines sc fo ?_ ops
  simp only [List.mem_cons, List.not_mem_nil, or_false] at hsc
  rcases hsc with rfl | rfl | rfl | rfl | rfl | rfl | rfl | rfl | rfl <;> decide +kernel

end NASim
