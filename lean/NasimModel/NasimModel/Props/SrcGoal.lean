import NasimModel.Props.SrcBase
/-!
# Source tie: `Network.all_sensitive_hosts_compromised`
-/
open NASim
namespace NASim

/-- `Network.all_sensitive_hosts_compromised` -/
theorem Src_goal (n : Net) (s : State) : Src.Network.all_sensitive_hosts_compromised n s = goal n s := by
  unfold Src.Network.all_sensitive_hosts_compromised goal
  rw [forEach_all' (p := fun x => hasAccess (s.get x) 2)]
  · unfold PyRt.sensitiveAddresses
    rw [List.all_map]
    have : ((fun x => hasAccess (s.get x) 2) ∘ fun (x : Addr × Int) => x.1) = fun x => hasAccess (s.get x.1) 2 := rfl
    rw [this]
    cases n.sens.all (fun x => hasAccess (s.get x.1) 2) <;> rfl
  · intro x _
    simp only [Src.State.host_has_access, PyRt.getHost, hasAccess]
    rfl

end NASim
