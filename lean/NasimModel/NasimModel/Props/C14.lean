import NasimModel.Generated.GeneratorOk
import NasimModel.Model.Gen
import NasimModel.Model.Env
import NasimModel.Proofs.GenFirewall
/-!
# C14 — seeded runs and seeded generation are reproducible

In the model a trajectory is a function of (scenario, operations, draws) and a generated scenario
a function of (parameters, decision stream): there is no other input — in particular no wall
clock, no second random source, and (after the repair of `_generate_firewall`) no dependence on
the iteration order of a Python set.  The one place where a set reaches NumPy is
`np.random.choice(sorted(services))`; `C14_sorted_choice_order_independent` shows that the list
handed to `choice` is the same for every iteration order of the set.

Process boundaries and `PYTHONHASHSEED` are runtime facts: the GEN suite runs the real generator
and a seeded episode in separate processes under different hash seeds and compares fingerprints.
-/
namespace NASim.Gen

/-- sortedness w.r.t. a Boolean order -/
def SortedBy (le : Nat → Nat → Bool) (l : List Nat) : Prop := l.Pairwise (fun a b => le a b = true)

theorem insertBy_sorted (le : Nat → Nat → Bool)
    (htot : ∀ a b, le a b = true ∨ le b a = true) (htr : ∀ a b c, le a b = true → le b c = true → le a c = true)
    (x : Nat) (l : List Nat) (h : SortedBy le l) : SortedBy le (insertBy le x l) := by
  induction l with
  | nil => simp [insertBy, SortedBy]
  | cons y ys ih =>
    simp only [insertBy]
    have hy := List.pairwise_cons.mp h
    split
    · rename_i hxy
      refine List.pairwise_cons.mpr ⟨?_, h⟩
      intro z hz
      rcases List.mem_cons.mp hz with rfl | hz
      · exact hxy
      · exact htr _ _ _ hxy (hy.1 z hz)
    · rename_i hxy
      have hyx : le y x = true := by rcases htot x y with h1 | h1 <;> simp_all
      refine List.pairwise_cons.mpr ⟨?_, ih hy.2⟩
      intro z hz
      rcases (insertBy_perm le x ys).mem_iff.mp hz |> List.mem_cons.mp with rfl | hz
      · exact hyx
      · exact hy.1 z hz

theorem sortBy_sorted (le : Nat → Nat → Bool)
    (htot : ∀ a b, le a b = true ∨ le b a = true) (htr : ∀ a b c, le a b = true → le b c = true → le a c = true)
    (l : List Nat) : SortedBy le (sortBy le l) := by
  induction l with
  | nil => simp [sortBy, SortedBy]
  | cons y ys ih => simp only [sortBy, List.foldr_cons]; exact insertBy_sorted le htot htr y _ ih

/-- two sorted permutations of each other are equal (antisymmetric order) -/
theorem sorted_perm_unique (le : Nat → Nat → Bool)
    (hanti : ∀ a b, le a b = true → le b a = true → a = b) :
    ∀ (l1 l2 : List Nat), SortedBy le l1 → SortedBy le l2 → l1.Perm l2 → l1 = l2 := by
  intro l1
  induction l1 with
  | nil => intro l2 _ _ hp; exact (List.Perm.nil_eq hp)
  | cons a as ih =>
    intro l2 h1 h2 hp
    cases l2 with
    | nil => exact absurd hp.symm (by simp)
    | cons b bs =>
      have s1 := List.pairwise_cons.mp h1
      have s2 := List.pairwise_cons.mp h2
      have hab : a = b := by
        have ha : a ∈ b :: bs := hp.mem_iff.mp (List.mem_cons_self ..)
        have hb : b ∈ a :: as := hp.mem_iff.mpr (List.mem_cons_self ..)
        rcases List.mem_cons.mp ha with h | h
        · exact h
        · rcases List.mem_cons.mp hb with h' | h'
          · exact h'.symm
          · exact hanti _ _ (s1.1 b h') (s2.1 a h)
      subst hab
      rw [ih bs s1.2 s2.2 (List.Perm.cons_inv hp)]

/-- C14: whatever order a set of services is iterated in (any permutation `l2` of `l1`),
`sorted(...)` hands the same list to `np.random.choice` — so, for the same draw, the same
service is chosen: generated firewalls do not depend on Python's hash randomisation -/
theorem C14_sorted_choice_order_independent (le : Nat → Nat → Bool)
    (htot : ∀ a b, le a b = true ∨ le b a = true)
    (htr : ∀ a b c, le a b = true → le b c = true → le a c = true)
    (hanti : ∀ a b, le a b = true → le b a = true → a = b)
    (l1 l2 : List Nat) (hp : l1.Perm l2) : sortBy le l1 = sortBy le l2 :=
  sorted_perm_unique le hanti _ _ (sortBy_sorted le htot htr l1) (sortBy_sorted le htot htr l2)
    (((sortBy_perm le l1).trans hp).trans (sortBy_perm le l2).symm)

/-- the numeric order (used for the stored rules) is such an order -/
theorem C14_natLe_order :
    (∀ a b, natLe a b = true ∨ natLe b a = true) ∧
    (∀ a b c, natLe a b = true → natLe b c = true → natLe a c = true) ∧
    (∀ a b, natLe a b = true → natLe b a = true → a = b) := by
  refine ⟨?_, ?_, ?_⟩ <;> intros <;> simp_all [natLe] <;> omega

/-- C14: the set of services a firewall rule may draw from depends only on *which* exploits hosts
are vulnerable to, not on any order: membership characterisation -/
theorem C14_subnet_services_mem (es : List ExploitDef) (hosts : List HostDef) (d x : Nat) :
    x ∈ subnetServices es hosts d ↔
      ∃ e ∈ es, e.svc = x ∧ ∃ h ∈ hosts, h.addr.1 = d ∧ vulnE h e = true := by
  unfold subnetServices
  rw [mem_dedup]
  simp only [List.mem_map, List.mem_filter, List.any_eq_true, Bool.and_eq_true, beq_iff_eq]
  constructor
  · rintro ⟨e, ⟨he, h, hh, hd, hv⟩, rfl⟩; exact ⟨e, he, rfl, h, hh, hd, hv⟩
  · rintro ⟨e, he, rfl, h, hh, hd, hv⟩; exact ⟨e, ⟨he, h, hh, hd, hv⟩, rfl⟩

/-- C14: generation is a function of parameters and decision stream — the same seed (hence the
same stream) gives the same scenario, in any process -/
theorem C14_generation_deterministic (p : Params) (s1 s2 : List Tok) (h : s1 = s2) :
    generate p s1 = generate p s2 := by rw [h]

/-- C14: an episode is a function of scenario, mode, operations and draws -/
theorem C14_trajectory_deterministic (sc : Scenario) (fo : Bool) (ops1 ops2 : List Op) (h : ops1 = ops2) :
    (Env.make sc fo).run ops1 = (Env.make sc fo).run ops2 := by rw [h]

end NASim.Gen
