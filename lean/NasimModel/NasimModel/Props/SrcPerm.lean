import NasimModel.Props.SrcBase
/-!
# Source tie: pivot permission and the two firewall layers

`subnet_traffic_permitted`, `host_traffic_permitted`, `has_required_remote_permission`,
`traffic_permitted` of `nasim/envs/network.py` (and `Host.traffic_permitted`), translated from the
source text, equal the model's `Net.subnetTraffic`, `Net.hostTraffic`, `hasRemotePerm`,
`trafficPermitted` on every state whose rows are the address space.
-/
open NASim
namespace NASim

/-- `Network.subnet_traffic_permitted` -/
theorem Src_subnet_traffic (n : Net) (a b svc : Nat) :
    Src.Network.subnet_traffic_permitted n a b svc = n.subnetTraffic a b svc := by
  unfold Src.Network.subnet_traffic_permitted Net.subnetTraffic PyRt.fwRule
  rw [src_conn]
  cases n.fw.lookup (a, b) <;> simp

/-- `Network.host_traffic_permitted` / `Host.traffic_permitted` -/
theorem Src_host_traffic (n : Net) (src dst : Addr) (svc : Nat) :
    Src.Network.host_traffic_permitted n src dst svc = n.hostTraffic src dst svc := by
  unfold Src.Network.host_traffic_permitted Src.Host.traffic_permitted Net.hostTraffic PyRt.hostOf PyRt.hostFwGet
  cases h : n.hostFw.lookup dst with
  | none => simp
  | some m => cases h2 : m.lookup src <;> simp [h2]

/-- `Network.has_required_remote_permission`: the loop over the address space is the model's `any` over the rows -/
theorem Src_remote_permission (n : Net) (s : State) (a : Action) (hwf : WF s) (hs : Sync n s) :
    Src.Network.has_required_remote_permission n s a = hasRemotePerm n s a := by
  unfold Src.Network.has_required_remote_permission hasRemotePerm
  rw [src_pub]
  split
  · rfl
  · rw [forEach_any' (p := fun x => remoteSrcOk n a (s.get x))]
    · rw [hs, any_addrs hwf (remoteSrcOk n a)]
      show _ = s.any (remoteSrcOk n a)
      cases s.any (remoteSrcOk n a) <;> rfl
    · intro x hx
      rw [hs] at hx
      simp only [Src.State.host_compromised, Src.State.host_has_access, PyRt.getHost, src_is_scan, src_conn, Src_subnet_traffic,
        Src.Action.is_exploit, hasAccess, remoteSrcOk, get_addr_of_mem hx]
      by_cases h1 : (s.get x).comp = true <;> by_cases h2 : a.isScan = true <;>
        by_cases h3 : n.conn x.1 a.target.1 = true <;> by_cases h4 : a.kind = Kind.exploit <;>
        by_cases h5 : n.subnetTraffic x.1 a.target.1 a.svc = true <;> by_cases h6 : a.req ≤ (s.get x).access <;>
        simp [h1, h2, h3, h4, h5, h6]

/-- `Network.traffic_permitted` -/
theorem Src_traffic_permitted (n : Net) (s : State) (t : Addr) (svc : Nat) (hwf : WF s) (hs : Sync n s) :
    Src.Network.traffic_permitted n s t svc = trafficPermitted n s t svc := by
  unfold Src.Network.traffic_permitted trafficPermitted
  rw [src_pub, Src_subnet_traffic]
  split
  · simp_all
  · rw [forEach_any' (p := fun x => trafficSrcOk n t svc (s.get x))]
    · rw [hs, any_addrs hwf (trafficSrcOk n t svc)]
      rename_i h
      have : (n.pub t.1 && n.subnetTraffic 0 t.1 svc) = false := by simpa using h
      rw [this, Bool.false_or]
      show _ = s.any (trafficSrcOk n t svc)
      cases s.any (trafficSrcOk n t svc) <;> rfl
    · intro x hx
      rw [hs] at hx
      simp only [Src.State.host_compromised, PyRt.getHost, Src_subnet_traffic, Src_host_traffic, trafficSrcOk, get_addr_of_mem hx]
      repeat' split
      all_goals simp_all

end NASim
