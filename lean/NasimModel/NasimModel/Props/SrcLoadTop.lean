import NasimModel.Props.SrcLoad
import NasimModel.Props.C17
/-!
# The loader tie, composed with C17

`Props/SrcLoad.lean` proves `ScenarioLoader.load`, as translated from the source, accepts exactly the documents the
model's `load` accepts (`Src_load`), hence rejects what the C18 theorems reject (`Src_load_rejects`).  Here the
acceptance half: every document in the documented format (`DocFormat`) is accepted by the translated `load`.
-/
open NASim NASim.Load
namespace NASim

/-- C17's "every file that follows the documented format is accepted", about the translated source -/
theorem Src_load_accepts_format (m : List (Y × Y)) (S : Sect) (h : DocFormat m S) (hit : HostCfgIter m) :
    SrcLoad.ScenarioLoader.load m = true := by
  rw [Src_load m hit, C17_accepts m S h]

end NASim
