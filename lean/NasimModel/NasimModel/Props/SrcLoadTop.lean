import NasimModel.Props.SrcLoad
import NasimModel.Props.C17
/-!
# The loader tie, composed with C17

`Props/SrcLoad.lean` proves `ScenarioLoader.load`, as translated from the source, accepts exactly the documents the
model's `load` accepts (`Src_load`), hence rejects what the C18 theorems reject (`Src_load_rejects`).  Here the
acceptance half: every document in the documented format (`DocFormat`) is accepted by the translated `load`.
-/
open NASim NASim.Load
namespace NASim

/-- C17's "every file that follows the documented format is accepted", about the translated source -/
theorem Src_load_accepts_format (m : List (Y × Y)) (S : Sect) (h : DocFormat m S) (hit : HostCfgIter m) :
    SrcLoad.ScenarioLoader.load m = true := by
  rw [Src_load m hit, C17_accepts m S h]


/-- a configuration the model accepts has list-valued `services` / `processes` -/
theorem iterList_of_ok (subnets : List Nat) (osl svl prl : List Y) (sens : List ((Nat × Nat) × Rat)) (key cfg : Y)
    (h : hostConfigOk subnets osl svl prl sens key cfg = true) : IterListCfg cfg := by
  intro m hm
  subst hm
  unfold hostConfigOk at h
  simp only [Bool.and_eq_true] at h
  have hn := h.1.1.2
  cases hs : getKey m "services" with
  | none => rw [hs] at hn; cases getKey m "os" <;> simp at hn
  | some sv =>
    cases hp : getKey m "processes" with
    | none => rw [hs, hp] at hn; cases getKey m "os" <;> cases sv <;> simp at hn
    | some pr =>
      rw [hs, hp] at hn
      constructor
      · intro x hx
        injection hx with hx; subst hx
        cases sv <;> cases getKey m "os" <;> cases pr <;> simp_all [NotStrMap, Y.isStr, Y.isMap]
      · intro x hx
        injection hx with hx; subst hx
        cases pr <;> cases getKey m "os" <;> cases sv <;> simp_all [NotStrMap, Y.isStr, Y.isMap]

theorem hostCfgIter_of_format (m : List (Y × Y)) (S : Sect) (h : DocFormat m S) : HostCfgIter m := by
  intro v hv kv hkv
  have hh := h.hHostConfigs
  rw [hv] at hh
  injection hh with hh
  have hok := h.hostsValid
  rw [← hh] at hok
  unfold hostConfigsOk at hok
  simp only [Bool.and_eq_true, List.all_eq_true] at hok
  exact iterList_of_ok _ _ _ _ _ _ _ (hok.2 kv hkv)

/-- C17's acceptance half about the translated source, without further hypothesis -/
theorem Src_load_accepts_documented (m : List (Y × Y)) (S : Sect) (h : DocFormat m S) :
    SrcLoad.ScenarioLoader.load m = true :=
  Src_load_accepts_format m S h (hostCfgIter_of_format m S h)
end NASim
