import NasimModel.Model.Pred
import NasimModel.Props.C01
import NasimModel.Props.C02
import NasimModel.Props.C03
import NasimModel.Props.C04
import NasimModel.Props.C05
import NasimModel.Props.C07
/-!
# The step predicates hold of the model's own transition

`Model/Pred.lean` states C01–C08 as Boolean predicates on one observed transition; the driver
evaluates them on what the *implementation* did.  Here: for every scenario, state with distinct
addresses and access levels ≤ ROOT, action of the action space and draw, the model's transition
satisfies each predicate — so a predicate that is false on an observed transition really
separates the implementation from the proven behaviour.
-/
namespace NASim

theorem zip_map_all (s : State) (f : Row → Row) (p : Row × Row → Bool) :
    (s.zip (s.map f)).all p = s.all (fun r => p (r, f r)) := by
  induction s with
  | nil => rfl
  | cons x xs ih => simp [ih]

/-- C06 predicate on the model -/
theorem predC06_model (sc : Scenario) (s : State) (a : Action) (u : Rat) :
    predC06 sc (modelTrans sc s a u) = true := by
  simp [predC06, modelTrans, goal, hasAccess, Scenario.net]
  rfl

/-- C08 predicate on the model -/
theorem predC08_model (sc : Scenario) (s : State) (a : Action) (u : Rat) :
    predC08 sc (modelTrans sc s a u) = true := by
  simp [predC08, modelTrans]

/-- C04 predicate on the model -/
theorem predC04_model (sc : Scenario) (s : State) (a : Action) (u : Rat) (hg : ActOk a) (hacc : AccOk s) :
    predC04 sc (modelTrans sc s a u) = true := by
  simp only [predC04, modelTrans, Bool.and_eq_true]
  rw [perform_eq_map]
  refine ⟨?_, ?_⟩
  · simp only [rowsAligned, Bool.and_eq_true, List.length_map, beq_self_eq_true, true_and]
    rw [zip_map_all]
    simp [stepRow_addr]
  · rw [zip_map_all, List.all_eq_true]
    intro r hr
    have hc := stepRow_cfg sc.net s a u r
    have hle := stepRow_le sc.net s a u r hg (hacc r hr)
    simp only [cfg] at hc
    simp only [cfgOf, hc, beq_self_eq_true, Bool.true_and, Bool.and_eq_true, Bool.or_eq_true,
      Bool.not_eq_true', decide_eq_true_eq]
    refine ⟨⟨⟨?_, ?_⟩, ?_⟩, hle.2.2.2⟩
    · cases h : r.comp <;> simp [hle.1, h]
    · cases h : r.reach <;> simp [hle.2.1, h]
    · cases h : r.disc <;> simp [hle.2.2.1, h]

theorem gatePasses_iff (n : Net) (s : State) (a : Action) : gatePasses n s a = true ↔ gate n s a = .pass := by
  unfold gatePasses; cases gate n s a <;> simp

theorem chanceFails_iff (s : State) (a : Action) (u : Rat) :
    chanceFails s a u = true ↔ (drawsNeeded s a = 1 ∧ u > a.prob) := by
  simp [chanceFails]

/-- C01 predicate on the model -/
theorem predC01_model (sc : Scenario) (s : State) (a : Action) (u : Rat) (hg : ActOk a) (hacc : AccOk s) :
    predC01 sc (modelTrans sc s a u) = true := by
  simp only [predC01, modelTrans, Bool.and_eq_true]
  refine ⟨?_, ?_⟩
  · rw [perform_eq_map, zip_map_all, List.all_eq_true]
    intro r _
    by_cases hch : (stepRow sc.net s a u r).comp ≠ r.comp ∨ (stepRow sc.net s a u r).access ≠ r.access
    · obtain ⟨hk, ht, hp⟩ := C01_only_if sc.net s a u r hch
      simp only [Bool.or_eq_true, Bool.and_eq_true, beq_iff_eq]
      right
      exact ⟨⟨by rcases hk with h | h <;> simp [h], ht⟩, hp⟩
    · simp only [not_or, Decidable.not_not] at hch
      simp [hch.1, hch.2]
  · by_cases hpre : (gatePasses sc.net s a && hostPre (s.get a.target) a && !chanceFails s a u) = true
    · simp only [Bool.and_eq_true, Bool.not_eq_true'] at hpre
      obtain ⟨⟨h1, h2⟩, h3⟩ := hpre
      have hgate := (gatePasses_iff _ _ _).mp h1
      have hnc : ¬ (drawsNeeded s a = 1 ∧ u > a.prob) := by
        intro hc; have := (chanceFails_iff s a u).mpr hc; simp [h3] at this
      obtain ⟨htreach, _⟩ := gate_pass_target hgate
      have hmem := get_mem_of_reach htreach
      obtain ⟨r1, r2, r3⟩ := C01_if sc.net s a u hgate h2 hnc hg (hacc _ hmem.1)
      simp [h1, h2, h3, r1, r2, r3]
    · have : (gatePasses sc.net s a && hostPre (s.get a.target) a && !chanceFails s a u) = false := by
        simpa using hpre
      simp [this]

/-- C07 predicate on the model -/
theorem predC07_model (sc : Scenario) (s : State) (a : Action) (u : Rat) :
    predC07 sc (modelTrans sc s a u) = true := by
  have hflags := C07_flags sc.net s a u
  simp only [predC07, modelTrans, Bool.and_eq_true]
  have hfc : flagCount (perform sc.net s a u).2.1 = (perform sc.net s a u).2.1.flagCount := rfl
  cases hg : gate sc.net s a with
  | noop =>
    have hp : gatePasses sc.net s a = false := by simp [gatePasses, hg]
    have hperf : perform sc.net s a u = (s, { success := true }, 0) := by simp [perform, hg]
    simp [hp, hperf, flagCount]
  | fail r =>
    have hp : gatePasses sc.net s a = false := by simp [gatePasses, hg]
    have hperf : perform sc.net s a u = (s, r, 0) := by simp [perform, hg]
    have hu : r.undefErr = false := by
      cases hr : r.undefErr
      · rfl
      · have := (C07_undef_only_by_chance sc.net s a u (by rw [hperf]; exact hr)).1
        rw [hg] at this; cases this
    rw [hperf] at hflags
    simp only [hp, hperf, Bool.false_and, Bool.false_eq_true, if_false, Bool.not_false, Bool.true_or,
      hu, Bool.not_false, Bool.or_true, true_and, beq_self_eq_true, Bool.true_and]
    refine ⟨?_, ?_⟩
    · cases hs : r.success
      · simp
      · simp only [Bool.not_true, Bool.false_or, beq_iff_eq]; exact hflags.1 hs
    · simp only [decide_eq_true_eq]; exact hflags.2
  | pass =>
    have hp : gatePasses sc.net s a = true := by simp [gatePasses, hg]
    by_cases hc : drawsNeeded s a = 1 ∧ u > a.prob
    · have hcf : chanceFails s a u = true := (chanceFails_iff s a u).mpr hc
      have hperf : perform sc.net s a u = (s, chanceFail, 1) := by simp [perform, hg, hc]
      simp [hp, hcf, hperf, hc.1, chanceFail, flagCount]
    · have hcf : chanceFails s a u = false := by
        cases h : chanceFails s a u
        · rfl
        · exact absurd ((chanceFails_iff s a u).mp h) hc
      have hperf : perform sc.net s a u = ((effect sc.net s a).1, (effect sc.net s a).2, drawsNeeded s a) := by
        simp [perform, hg, hc]
      have hu : (effect sc.net s a).2.undefErr = false := by
        cases hr : (effect sc.net s a).2.undefErr
        · rfl
        · have := C07_undef_only_by_chance sc.net s a u (by rw [hperf]; exact hr)
          exact absurd ⟨this.2.1, this.2.2⟩ hc
      rw [hperf] at hflags
      simp only [hp, hcf, hperf, if_true, beq_self_eq_true, Bool.and_false, Bool.false_eq_true,
        Bool.not_false, Bool.true_or, hu, Bool.or_true, true_and, Bool.true_and]
      refine ⟨?_, ?_⟩
      · cases hs : (effect sc.net s a).2.success
        · simp
        · simp only [Bool.not_true, Bool.false_or, beq_iff_eq]; exact hflags.1 hs
      · simp only [decide_eq_true_eq]; exact hflags.2

/-- C02 predicate on the model -/
theorem predC02_model (sc : Scenario) (s : State) (a : Action) (u : Rat) (hwf : WF s) :
    predC02 sc (modelTrans sc s a u) = true := by
  simp only [predC02, modelTrans, Bool.and_eq_true]
  refine ⟨⟨⟨⟨?_, ?_⟩, ?_⟩, ?_⟩, ?_⟩
  · by_cases h : (a.kind != .noop && !((s.get a.target).reach && (s.get a.target).disc)) = true
    · simp only [Bool.and_eq_true, bne_iff_ne, ne_eq, Bool.not_eq_true', Bool.and_eq_false_iff] at h
      have hnot : ¬ ((s.get a.target).reach = true ∧ (s.get a.target).disc = true) := by
        rintro ⟨h1, h2⟩; rcases h.2 with h3 | h3 <;> simp_all
      obtain ⟨r1, r2, _⟩ := C02_unreachable sc.net s a u h.1 hnot
      simp [r1, r2]
    · have : (a.kind != .noop && !((s.get a.target).reach && (s.get a.target).disc)) = false := by simpa using h
      rw [this]; simp
  · cases hs : (perform sc.net s a u).2.1.success
    · simp [C02_fail_changes_nothing sc.net s a u hwf hs]
    · simp
  · by_cases h : ((perform sc.net s a u).2.1.success && a.isRemote && !sc.net.pub a.target.1) = true
    · simp only [Bool.and_eq_true, Bool.not_eq_true'] at h
      obtain ⟨p, hp, h1, h2, h3, h4⟩ := C02_remote_pivot sc.net s a u h.1.2 h.2 h.1.1
      simp only [h.1.1, h.1.2, h.2, Bool.and_self, Bool.not_false, Bool.not_true, Bool.false_or,
        List.any_eq_true, Bool.and_eq_true, decide_eq_true_eq]
      refine ⟨p, hp, ⟨h1, decide_eq_true h2⟩, ?_⟩
      by_cases hk : a.kind = .exploit
      · simp [hk, h3 hk]
      · have hsc : a.isScan = true := by
          have := h.1.2; unfold Action.isRemote at this; unfold Action.isScan
          cases hkk : a.kind <;> simp_all
        simp [hk, h4 hsc]
    · have : ((perform sc.net s a u).2.1.success && a.isRemote && !sc.net.pub a.target.1) = false := by simpa using h
      simp [this]
  · by_cases h : ((perform sc.net s a u).2.1.success && a.kind == .exploit) = true
    · simp only [Bool.and_eq_true, beq_iff_eq] at h
      rcases C02_exploit_firewalls sc.net s a u h.2 h.1 with ⟨h1, h2⟩ | ⟨c, hc, h1, h2, h3⟩
      · simp [h1, h2]
      · simp only [Bool.or_eq_true, List.any_eq_true, Bool.and_eq_true]
        exact Or.inr ⟨c, hc, ⟨h1, h2⟩, h3⟩
    · have : ((perform sc.net s a u).2.1.success && a.kind == .exploit) = false := by simpa using h
      simp [this]
  · by_cases h : ((perform sc.net s a u).2.1.success &&
        (a.kind == .subnetScan || a.kind == .procScan || a.kind == .privesc)) = true
    · simp only [Bool.and_eq_true, Bool.or_eq_true, beq_iff_eq] at h
      have hk : a.kind = .subnetScan ∨ a.kind = .procScan ∨ a.kind = .privesc := by
        rcases h.2 with (h1 | h1) | h1
        · exact Or.inl h1
        · exact Or.inr (Or.inl h1)
        · exact Or.inr (Or.inr h1)
      obtain ⟨r1, r2⟩ := C02_on_host sc.net s a u hk h.1
      simp [r1, r2]
    · have : ((perform sc.net s a u).2.1.success &&
          (a.kind == .subnetScan || a.kind == .procScan || a.kind == .privesc)) = false := by simpa using h
      simp [this]

theorem inv3_iff (n : Net) (s : State) : inv3 n s = true ↔ Inv3 n s := by
  unfold inv3 Inv3
  simp only [List.all_eq_true, Bool.and_eq_true, Bool.or_eq_true, Bool.not_eq_true', beq_iff_eq]
  constructor
  · intro h r hr
    obtain ⟨⟨h1, h2⟩, h3⟩ := h r hr
    refine ⟨?_, ?_, ?_⟩
    · rw [h1]; simp only [Bool.or_eq_true, List.any_eq_true, Bool.and_eq_true]
    · intro hc; rcases h2 with h2 | h2 <;> simp_all
    · intro hd; rcases h3 with h3 | h3 <;> simp_all
  · intro h r hr
    obtain ⟨h1, h2, h3⟩ := h r hr
    refine ⟨⟨?_, ?_⟩, ?_⟩
    · apply Bool.eq_iff_iff.mpr
      rw [h1]; simp only [Bool.or_eq_true, List.any_eq_true, Bool.and_eq_true]
    · cases hc : r.comp
      · exact Or.inl rfl
      · exact Or.inr (h2 hc)
    · cases hd : r.disc
      · exact Or.inl rfl
      · exact Or.inr (h3 hd)

theorem subnetScan_success_fields (n : Net) (s : State) (a : Action)
    (h : (subnetScan n s a).2.success = true) :
    (subnetScan n s a).2.discovered = s.map (fun r => (r.addr, n.conn a.target.1 r.addr.1)) ∧
    (subnetScan n s a).2.newly = s.map (fun r => (r.addr, n.conn a.target.1 r.addr.1 && !r.disc)) := by
  revert h; unfold subnetScan; simp only []
  repeat' split
  all_goals simp

/-- C03 predicate on the model -/
theorem predC03_model (sc : Scenario) (s : State) (a : Action) (u : Rat) (hwf : WF s) :
    predC03 sc (modelTrans sc s a u) = true := by
  simp only [predC03, modelTrans, Bool.and_eq_true]
  refine ⟨⟨?_, ?_⟩, ?_⟩
  · cases hi : inv3 sc.net s
    · simp
    · have := inv3_perform sc.net s a u hwf ((inv3_iff _ _).mp hi)
      simp [(inv3_iff _ _).mpr this]
  · rw [perform_eq_map, zip_map_all, List.all_eq_true]
    intro r _
    cases hd : r.disc
    · cases hd' : (stepRow sc.net s a u r).disc
      · simp
      · obtain ⟨h1, h2, h3, _, h5⟩ := C03_discovery_only_by_scan sc.net s a u r hd hd'
        simp [h1, h2, h3, h5]
    · simp
  · by_cases h : (a.kind == .subnetScan && (perform sc.net s a u).2.1.success) = true
    · simp only [Bool.and_eq_true, beq_iff_eq] at h
      obtain ⟨hk, hs⟩ := h
      have hk' : a.kind ≠ .noop := by simp [hk]
      obtain ⟨_, he, _⟩ := success_pass hk' hs
      have hres : (perform sc.net s a u).2.1 = (subnetScan sc.net s a).2 := by
        rw [he, effect_snd]; simp [hk]
      have hsucc : (subnetScan sc.net s a).2.success = true := by rw [← hres]; exact hs
      obtain ⟨f1, f2⟩ := subnetScan_success_fields sc.net s a hsucc
      simp only [hk, hs, beq_self_eq_true, Bool.and_self, Bool.not_true, Bool.false_or, Bool.and_eq_true,
        beq_iff_eq]
      refine ⟨⟨?_, by rw [hres]; exact f1⟩, by rw [hres]; exact f2⟩
      rw [perform_eq_map, List.all_map, List.all_eq_true]
      intro r _
      simp only [Function.comp, stepRow_addr, C03_scan_discovers sc.net s a u hk hs r]
      cases sc.net.conn a.target.1 r.addr.1 <;> cases r.disc <;> simp
    · have : (a.kind == .subnetScan && (perform sc.net s a u).2.1.success) = false := by simpa using h
      rw [this]; simp

theorem zip_map_filter_foldl (s : State) (f : Row → Row) (g : Row → Row → Bool) (acc : Int) :
    ((s.zip (s.map f)).filter (fun p => g p.1 p.2)).foldl (fun a p => a + p.1.dvalue) acc
      = (s.filter (fun r => g r (f r))).foldl (fun a r => a + r.dvalue) acc := by
  induction s generalizing acc with
  | nil => rfl
  | cons x xs ih =>
    simp only [List.map_cons, List.zip_cons_cons, List.filter_cons]
    split <;> simp [ih]

theorem disc_unchanged_unless_scan (n : Net) (s : State) (a : Action) (u : Rat) (r : Row)
    (hg : ActOk a) (hr : r.access ≤ 2) (hk : a.kind ≠ .subnetScan) : (stepRow n s a u r).disc = r.disc := by
  cases hd : r.disc
  · cases hd' : (stepRow n s a u r).disc
    · rfl
    · exact absurd (C03_discovery_only_by_scan n s a u r hd hd').1 hk
  · exact (stepRow_le n s a u r hg hr).2.2.1 hd

/-- C05 predicate on the model -/
theorem predC05_model (sc : Scenario) (s : State) (a : Action) (u : Rat) (hwf : WF s) (hacc : AccOk s)
    (hg : ActOk a) (hnoop : a.kind = .noop → a.cost = 0) :
    predC05 sc (modelTrans sc s a u) = true := by
  simp only [predC05, modelTrans, Bool.and_eq_true, beq_iff_eq]
  refine ⟨⟨⟨trivial, ?_⟩, ?_⟩, ?_⟩
  · -- the value gained
    have hdisc : ∀ (hk : a.kind ≠ .subnetScan),
        (((s.zip (perform sc.net s a u).1).filter fun p => !p.1.disc && p.2.disc).foldl
          (fun acc p => acc + p.1.dvalue) 0) = 0 := by
      intro hk
      rw [perform_eq_map, zip_map_filter_foldl s (stepRow sc.net s a u) (fun r r' => !r.disc && r'.disc) 0]
      have : s.filter (fun r => !r.disc && (stepRow sc.net s a u r).disc) = [] := by
        apply List.filter_eq_nil_iff.mpr
        intro r hr
        rw [disc_unchanged_unless_scan sc.net s a u r hg (hacc r hr) hk]
        cases r.disc <;> simp
      rw [this]; rfl
    by_cases hscan : a.kind = .subnetScan
    · have h0 : ((a.kind == Kind.exploit || a.kind == Kind.privesc) = false) := by simp [hscan]
      simp only [h0, Bool.false_and, Bool.false_eq_true, if_false, Int.zero_add]
      rw [C05_discovery_value sc.net s a u hscan]
      rw [perform_eq_map, zip_map_filter_foldl s (stepRow sc.net s a u) (fun r r' => !r.disc && r'.disc) 0]
      simp
    · rw [hdisc hscan]
      simp only [Int.add_zero]
      by_cases hk : a.kind = .exploit ∨ a.kind = .privesc
      · have hk1 : (a.kind == Kind.exploit || a.kind == Kind.privesc) = true := by
          rcases hk with h | h <;> simp [h]
        by_cases hs : (perform sc.net s a u).2.1.success = true
        · have hk' : a.kind ≠ .noop := by rcases hk with h | h <;> simp [h]
          obtain ⟨hgate, _, _⟩ := success_pass hk' hs
          obtain ⟨htreach, _⟩ := gate_pass_target hgate
          have hmem := get_mem_of_reach htreach
          rw [C05_host_value sc.net s a u hwf hk hg (hacc _ hmem.1)]
          simp only [hk1, Bool.true_and, bne_iff_ne, ne_eq, Bool.and_eq_true, decide_eq_true_eq,
            Bool.not_eq_true', beq_iff_eq]
          by_cases h2 : (s.get a.target).access = 2 <;>
            by_cases h3 : (State.get (perform sc.net s a u).1 a.target).access = 2 <;> simp [h2, h3]
        · have hs' : (perform sc.net s a u).2.1.success = false := by simpa using hs
          rw [C05_fail_gains_nothing sc.net s a u hs', C02_fail_changes_nothing sc.net s a u hwf hs']
          by_cases h2 : (s.get a.target).access = 2 <;> simp [h2]
      · have hk0 : (a.kind == Kind.exploit || a.kind == Kind.privesc) = false := by
          cases hkk : a.kind <;> simp_all
        simp only [hk0, Bool.false_and, Bool.false_eq_true, if_false]
        by_cases hno : a.kind = .noop
        · exact (C05_noop sc.net s a u hno).1
        · apply C05_scans_gain_nothing
          cases hkk : a.kind <;> simp_all
  · cases hs : (perform sc.net s a u).2.1.success
    · simp [C05_fail_gains_nothing sc.net s a u hs]
    · simp
  · by_cases hno : a.kind = .noop
    · simp [hnoop hno]
    · simp [hno]


/-! ### C09: observation rows are masked views in the documented layout -/

theorem mem_allMasks (m : Mask) : m ∈ allMasks := by
  obtain ⟨a, b, c, d, e, f, g, h, i, j⟩ := m
  simp only [allMasks, List.mem_flatMap, List.mem_map, List.mem_cons, List.not_mem_nil, or_false]
  refine ⟨a, ?_, b, ?_, c, ?_, d, ?_, e, ?_, f, ?_, g, ?_, h, ?_, i, ?_, j, ?_, rfl⟩
  all_goals (first | (cases a <;> simp) | (cases b <;> simp) | (cases c <;> simp) | (cases d <;> simp)
                   | (cases e <;> simp) | (cases f <;> simp) | (cases g <;> simp) | (cases h <;> simp)
                   | (cases i <;> simp) | (cases j <;> simp))

theorem rowConforms_observeRow (L : Layout) (r : Row) (m : Mask) : rowConforms L r (observeRow L r m) = true := by
  unfold rowConforms
  rw [List.any_eq_true]
  exact ⟨m, mem_allMasks m, by simp⟩

def fullMask : Mask :=
  { address := true, comp := true, reach := true, disc := true, access := true, value := true, dvalue := true, svc := true, proc := true, os := true }

theorem encodeRow_eq_observeRow (L : Layout) (r : Row) : encodeRow L r = observeRow L r fullMask := by
  simp [encodeRow, observeRow, fullMask]

theorem zip_map_append_all {α β} (l : List α) (f : α → β) (ys : List β) (p : α × β → Bool) :
    ((l.zip (l.map f ++ ys)).all p) = l.all (fun x => p (x, f x)) := by
  induction l with
  | nil => simp
  | cons x xs ih => simp [ih]

/-- C09 predicate on the model -/
theorem predC09_model (sc : Scenario) (s : State) (a : Action) (u : Rat) :
    predC09 sc (modelTrans sc s a u) = true := by
  simp only [predC09, modelTrans, observe, Bool.and_eq_true, if_true, Bool.false_eq_true, if_false]
  refine ⟨⟨⟨by simp, ?_⟩, by simp⟩, ⟨⟨by simp, ?_⟩, by simp⟩⟩
  · rw [zip_map_append_all, List.all_eq_true]
    intro r _
    rw [encodeRow_eq_observeRow]; exact rowConforms_observeRow _ _ _
  · rw [zip_map_append_all, List.all_eq_true]
    intro r _
    exact rowConforms_observeRow _ _ _

end NASim
