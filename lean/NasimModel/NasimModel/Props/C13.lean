import NasimModel.Model.Env
/-!
# C13 — the generative step is pure and agrees with step

In the model states are immutable values, so purity is by construction; what the theorems record
is the *shape* of `step` (generative step from the current state, then install) and that a
generative step is a function of scenario, mode, state, action and draw only. Aliasing of NumPy
buffers is a runtime fact: it is checked on the implementation by the DYN suite for every
explored transition (argument bytes, current state, last observation, step counter before/after,
`np.shares_memory`).
-/
namespace NASim

/-- C13: `step` is the generative step from the current state with exactly that next state and
observation installed, the counter incremented -/
theorem C13_step_is_install (e : Env) (a : Action) (u : Rat) :
    e.step a u =
      ({ e with cur := (genStep e.sc e.fullyObs e.cur a u).next,
                lastObs := (genStep e.sc e.fullyObs e.cur a u).obs, steps := e.steps + 1 },
       genStep e.sc e.fullyObs e.cur a u, truncated e.sc (e.steps + 1)) := rfl

/-- C13: given the same draw, `step` from the current state yields the same next state,
observation, reward, terminal flag and info as the generative step -/
theorem C13_step_agrees (e : Env) (a : Action) (u : Rat) :
    (e.step a u).2.1 = genStep e.sc e.fullyObs e.cur a u ∧
    (e.step a u).1.cur = (genStep e.sc e.fullyObs e.cur a u).next ∧
    (e.step a u).1.lastObs = (genStep e.sc e.fullyObs e.cur a u).obs := ⟨rfl, rfl, rfl⟩

/-- C13: a generative step on any state (current or not) leaves the environment — current state,
last observation, step counter — untouched -/
theorem C13_genstep_pure (e : Env) (s : State) (a : Action) (u : Rat) :
    e.apply (.genStep s a u) = e := rfl

/-- the result of a generative step does not depend on the environment's mutable part -/
theorem C13_genstep_env_indep (e1 e2 : Env) (s : State) (a : Action) (u : Rat)
    (h1 : e1.sc = e2.sc) (h2 : e1.fullyObs = e2.fullyObs) :
    genStep e1.sc e1.fullyObs s a u = genStep e2.sc e2.fullyObs s a u := by rw [h1, h2]

/-- interleaving generative steps anywhere in a history changes nothing -/
theorem C13_genstep_transparent (e : Env) (ops1 ops2 : List Op) (s : State) (a : Action) (u : Rat) :
    e.run (ops1 ++ [.genStep s a u] ++ ops2) = e.run (ops1 ++ ops2) := by
  simp [Env.run, List.foldl_append, Env.apply]

end NASim
