import NasimModel.Model.Pred
import NasimModel.Proofs.Inv
import NasimModel.Proofs.Flags
/-!
# C07 — stochastic actions succeed with exactly their stated probability

In the model the uniform draw `u` is an argument; "with probability p" is `u ≤ p` for `u`
uniform on [0,1) — the distribution itself is NumPy's, outside the model.
-/
namespace NASim

/-- C07: actions whose (network-level) preconditions do not hold are unaffected by chance: the
outcome does not depend on the draw, no draw is consumed, nothing changes -/
theorem C07_gate_indep (n : Net) (s : State) (a : Action) (u v : Rat) (h : gate n s a ≠ .pass) :
    perform n s a u = perform n s a v ∧ (perform n s a u).2.2 = 0 ∧ (perform n s a u).1 = s :=
  perform_gate_indep n s a u v h

/-- C07: re-exploiting an already compromised host never fails by chance (no draw at all) -/
theorem C07_reexploit_no_chance (n : Net) (s : State) (a : Action) (u v : Rat)
    (hk : a.kind = .exploit) (hc : (s.get a.target).comp = true) :
    perform n s a u = perform n s a v ∧ (perform n s a u).2.2 = 0 := by
  have hd : drawsNeeded s a = 0 := by simp [drawsNeeded, hk, hc]
  unfold perform
  cases hg : gate n s a <;> simp [hd]

/-- C07: every other gate-passing action consumes exactly one draw (scans included) -/
theorem C07_one_draw (n : Net) (s : State) (a : Action) (u : Rat) (hg : gate n s a = .pass)
    (h : ¬ (a.kind = .exploit ∧ (s.get a.target).comp = true)) : (perform n s a u).2.2 = 1 := by
  have hd : drawsNeeded s a = 1 := by
    unfold drawsNeeded
    by_cases h1 : a.kind = .exploit <;> by_cases h2 : (s.get a.target).comp = true <;> simp_all
  unfold perform; simp only [hg, hd]
  split <;> rfl

/-- C07: a chance failure changes nothing, gains nothing and is reported as an undefined error
(and as nothing else) -/
theorem C07_chance_fail (n : Net) (s : State) (a : Action) (u : Rat) (hg : gate n s a = .pass)
    (hd : drawsNeeded s a = 1) (hu : u > a.prob) :
    (perform n s a u).1 = s ∧ (perform n s a u).2.1 = chanceFail
      ∧ chanceFail.value = 0 ∧ chanceFail.success = false ∧ chanceFail.undefErr = true
      ∧ chanceFail.connErr = false ∧ chanceFail.permErr = false := by
  unfold perform; simp [hg, hd, hu, chanceFail]

/-- C07: when the draw does not exceed the probability the outcome is the deterministic effect -/
theorem C07_chance_pass (n : Net) (s : State) (a : Action) (u : Rat) (hg : gate n s a = .pass)
    (hu : ¬ u > a.prob) :
    (perform n s a u).1 = (effect n s a).1 ∧ (perform n s a u).2.1 = (effect n s a).2 := by
  unfold perform; simp [hg, hu]

/-- C07: probability-1 actions never fail by chance (draws lie in [0,1)) -/
theorem C07_prob_one (n : Net) (s : State) (a : Action) (u : Rat) (hg : gate n s a = .pass)
    (hp : a.prob = 1) (hu : u < 1) :
    (perform n s a u).2.1 = (effect n s a).2 := by
  have : ¬ u > a.prob := by rw [hp]; exact Rat.not_lt.mpr (Rat.le_of_lt hu)
  exact (C07_chance_pass n s a u hg this).2

/-- C07: probability-0 actions never succeed by chance (for draws in (0,1)) -/
theorem C07_prob_zero (n : Net) (s : State) (a : Action) (u : Rat) (hg : gate n s a = .pass)
    (hd : drawsNeeded s a = 1) (hp : a.prob = 0) (hu : 0 < u) :
    (perform n s a u).2.1.success = false ∧ (perform n s a u).1 = s := by
  have hu' : u > a.prob := by rw [hp]; exact hu
  obtain ⟨h1, h2, _, h4, _⟩ := C07_chance_fail n s a u hg hd hu'
  exact ⟨by rw [h2]; exact h4, h1⟩

/-- C07: an undefined error is reported only for a chance failure -/
theorem C07_undef_only_by_chance (n : Net) (s : State) (a : Action) (u : Rat)
    (h : (perform n s a u).2.1.undefErr = true) :
    gate n s a = .pass ∧ drawsNeeded s a = 1 ∧ u > a.prob := by
  unfold perform at h
  cases hg : gate n s a with
  | noop => simp [hg] at h
  | fail r =>
    simp only [hg] at h
    unfold gate at hg; repeat' split at hg
    all_goals simp_all
    all_goals (subst hg; simp at h)
  | pass =>
    simp only [hg] at h
    split at h
    · rename_i hc; exact ⟨rfl, hc.1, hc.2⟩
    · exfalso
      unfold effect at h
      split at h
      · revert h; unfold subnetScan; simp only []
        repeat' split
        all_goals simp
      · revert h; simp only []; unfold hostPerform; repeat' split
        all_goals simp

/-- C07: no result reports success together with an error flag, or more than one error flag -/
theorem C07_flags (n : Net) (s : State) (a : Action) (u : Rat) :
    ((perform n s a u).2.1.success = true → (perform n s a u).2.1.flagCount = 0)
      ∧ (perform n s a u).2.1.flagCount ≤ 1 := perform_flags n s a u

end NASim
