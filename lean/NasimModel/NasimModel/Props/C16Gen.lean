import NasimModel.Proofs.GenVuln
import NasimModel.Proofs.GenFirewall
/-!
# C16 (generator side): the three structural clauses of solvability, for every generated scenario

For every parameter set and every stream on which the model generator returns a scenario:

* every sensitive host is ROOT-vulnerable: some exploit applies to it and either grants ROOT or
  some escalation applies as well (`_host_is_vulnerable(host, ROOT)`),
* every network subnet contains a host some exploit applies to,
* every firewall rule into a network subnet admits at least one service for which a host *of that
  subnet* is vulnerable to an exploit.

This is what `_ensure_host_vulnerability` and `_generate_firewall` are there to guarantee; the
plan itself (an action sequence reaching the goal) is still extracted and checked per scenario
(`C16_plan_sound`).
-/
namespace NASim.Gen

theorem mem_zipIdx_drop_one (l : List Nat) (sz sb : Nat) (h : (sz, sb) ∈ l.zipIdx) (h0 : sb ≠ 0) :
    (sz, sb) ∈ l.zipIdx.drop 1 := by
  cases l with
  | nil => simp at h
  | cons x xs =>
    simp only [List.zipIdx_cons, List.mem_cons, Prod.mk.injEq] at h
    rcases h with ⟨_, rfl⟩ | h
    · exact absurd rfl h0
    · simpa using h

theorem allAddrs_cover (subnets : List Nat) (sz sb : Nat) (h : (sz, sb) ∈ subnets.zipIdx) (h0 : sb ≠ 0)
    (k : Nat) (hk : k < sz) : (sb, k) ∈ allAddrs subnets := by
  unfold allAddrs
  rw [List.mem_flatMap]
  exact ⟨(sz, sb), mem_zipIdx_drop_one _ _ _ h h0, by simp [hk]⟩

/-- what `_ensure_host_vulnerability` establishes -/
theorem ensureVulnerable_spec (p : Params) (es : List ExploitDef) (ps : List PrivescDef)
    (sens : List (Addr × Int)) (subnets : List Nat)
    (hes : ∀ e ∈ es, e.svc < p.numServices ∧ ∀ o, e.os = some o → o < p.numOs)
    (hps : ∀ e ∈ ps, ∀ pr, e.proc = some pr → pr < p.numProcesses)
    {hosts0 hosts : List HostDef} {s s' : List Tok}
    (h : ensureVulnerable es ps sens p.vulRetries subnets hosts0 s = .ok (hosts, s'))
    (hw : ∀ h ∈ hosts0, HostWF p h) (haddr : hosts0.map (·.addr) = allAddrs subnets) :
    (∀ hd ∈ hosts, (sens.lookup hd.addr).isSome = true → hostVulnerable es ps hd 2 = true) ∧
    (∀ x, 1 ≤ x → x < subnets.length → Wit es hosts x) := by
  unfold ensureVulnerable at h
  obtain ⟨r, s1, hp1, hp2⟩ := bind_ok h
  obtain ⟨i1, i2, i3⟩ := ensurePass1_vuln p es ps sens _ hes hps _ _ _ _ _ hp1 hw
  have hw1 := ensurePass1_wf p es ps sens _ hes hps _ _ _ _ _ hp1 hw
  have hinv : PInv es ps sens r.2 r.1 := by
    constructor
    · intro x hx; rcases i2 x hx with hh | hh
      · simp at hh
      · exact hh
    · exact i3
  have hcov : ∀ sz sb, (sz, sb) ∈ subnets.zipIdx → sb ≠ 0 → ∀ k, k < sz → (sb, k) ∈ r.1.map (·.addr) := by
    intro sz sb hm h0 k hk
    rw [ensurePass1_addrs _ _ _ _ _ _ _ _ _ hp1, haddr]
    exact allAddrs_cover subnets sz sb hm h0 k hk
  obtain ⟨vul', a, _, c⟩ := ensurePass2_vuln p es ps sens _ hes hps _ _ _ _ _ _ hp2 hw1 hinv hcov
  refine ⟨fun hd hhd hs => (a.2 hd hhd hs).1, ?_⟩
  intro x hx1 hx2
  have hm : (subnets[x], x) ∈ subnets.zipIdx := by
    rw [List.mem_zipIdx_iff_getElem?]; simp [hx2]
  rcases c _ _ hm with h0 | hv
  · omega
  · exact a.1 x hv

/-- services listed by a generated rule that is not between two user subnets come from
`subnetServices`, and the rule is non-empty when that set is -/
theorem genFirewall_allowed (numServices restr : Nat) (topo : List (List Int)) (es : List ExploitDef)
    (hosts : List HostDef) (hr : 0 < restr) :
    ∀ (pairs : List (Nat × Nat)) (s s' : List Tok) (fw : List ((Nat × Nat) × List Nat)),
    genFirewall numServices restr topo es hosts pairs s = .ok (fw, s') →
    ∀ e ∈ fw, (2 < e.1.1 ∧ 2 < e.1.2 ∧ e.2 = List.range numServices) ∨
      ((∀ x ∈ e.2, x ∈ subnetServices es hosts e.1.2) ∧ (subnetServices es hosts e.1.2 ≠ [] → e.2 ≠ [])) := by
  intro pairs
  induction pairs with
  | nil => intro s s' fw h; simp only [genFirewall] at h; obtain ⟨rfl, _⟩ := pure_ok h; simp
  | cons x xs ih =>
    intro s s' fw h
    obtain ⟨a, b⟩ := x
    simp only [genFirewall] at h
    split at h
    · exact ih _ _ _ h
    · split at h
      · rename_i huu
        obtain ⟨r, s1, h1, h⟩ := bind_ok h
        obtain ⟨rfl, _⟩ := pure_ok h
        intro e he
        rcases List.mem_cons.mp he with rfl | he
        · simp only [Bool.and_eq_true, decide_eq_true_eq] at huu
          exact Or.inl ⟨huu.1, huu.2, rfl⟩
        · exact ih _ _ _ h1 e he
      · obtain ⟨allowed, s1, ha, h⟩ := bind_ok h
        obtain ⟨r, s2, h1, h⟩ := bind_ok h
        obtain ⟨rfl, _⟩ := pure_ok h
        intro e he
        rcases List.mem_cons.mp he with rfl | he
        · obtain ⟨_, n2, _, n4⟩ := allowedFor_inv ha (nodup_dedup _)
          have hp := sortBy_perm natLe allowed
          right
          refine ⟨fun x hx => n2 x (hp.mem_iff.mp hx), ?_⟩
          intro hne hnil
          have hnil' : sortBy natLe allowed = [] := hnil
          have : allowed = [] := by
            have := hp.length_eq; rw [hnil'] at this; simpa using this.symm
          exact n4 hne hr this
        · exact ih _ _ _ h1 e he

theorem mem_subnetServices {es : List ExploitDef} {hosts : List HostDef} {d x : Nat} :
    x ∈ subnetServices es hosts d ↔
      ∃ e ∈ es, e.svc = x ∧ ∃ h ∈ hosts, h.addr.1 = d ∧ vulnE h e = true := by
  unfold subnetServices
  rw [mem_dedup, List.mem_map]
  constructor
  · rintro ⟨e, he, rfl⟩
    obtain ⟨he1, he2⟩ := List.mem_filter.mp he
    rw [List.any_eq_true] at he2
    obtain ⟨h, hh, hv⟩ := he2
    simp only [Bool.and_eq_true, beq_iff_eq] at hv
    exact ⟨e, he1, rfl, h, hh, hv.1, hv.2⟩
  · rintro ⟨e, he, rfl, h, hh, hd, hv⟩
    refine ⟨e, List.mem_filter.mpr ⟨he, ?_⟩, rfl⟩
    rw [List.any_eq_true]
    exact ⟨h, hh, by simp [hd, hv]⟩

theorem subnetServices_ne_nil {es : List ExploitDef} {hosts : List HostDef} {d : Nat}
    (w : Wit es hosts d) : subnetServices es hosts d ≠ [] := by
  obtain ⟨h, hh, hd, e, he, hv⟩ := w
  have : e.svc ∈ subnetServices es hosts d := mem_subnetServices.mpr ⟨e, he, rfl, h, hh, hd, hv⟩
  intro hnil; rw [hnil] at this; simp at this

/-- C16, generator side: the three structural clauses, for every generated scenario -/
theorem C16_generated_structure {p : Params} {s s' : List Tok} {sc : Scenario}
    (h : generate p s = .ok (sc, s')) :
    -- (1) each sensitive host is ROOT-vulnerable
    (∀ hd ∈ sc.hosts, (sc.sens.lookup hd.addr).isSome = true →
        hostVulnerable sc.exploits sc.privescs hd 2 = true) ∧
    -- (2) every network subnet contains a host some exploit applies to
    (∀ x, 1 ≤ x → x < sc.subnets.length → Wit sc.exploits sc.hosts x) ∧
    -- (3) every rule into a network subnet admits a service that an exploit can use on a host there
    (∀ r ∈ sc.fw, r.1.2 ≠ 0 → ∃ svc ∈ r.2, ∃ e ∈ sc.exploits, e.svc = svc ∧
        ∃ hd ∈ sc.hosts, hd.addr.1 = r.1.2 ∧ vulnE hd e = true) := by
  have T := generate_trace h
  obtain ⟨hs1, hp1, _, hrestr⟩ := valid_pos T.valid
  obtain ⟨hosts0, s1, s2, s3, s4, h0, h1, hf⟩ := T.hosts
  have w0 : ∀ hd ∈ hosts0, HostWF p hd := by
    unfold initialHosts at h0
    split at h0
    · exact uniformHosts_wf p _ hs1 hp1 _ _ _ _ h0
    · exact correlatedHosts_wf p _ _ _ _ _ _ _ h0 ⟨by simp, by simp, by simp, by simp⟩
  have a0 : hosts0.map (·.addr) = allAddrs sc.subnets := by
    unfold initialHosts at h0
    split at h0
    · exact uniformHosts_addrs _ _ _ _ _ _ _ _ h0
    · exact correlatedHosts_addrs _ _ _ _ _ _ _ _ h0
  have hes : ∀ e ∈ sc.exploits, e.svc < p.numServices ∧ ∀ o, e.os = some o → o < p.numOs := by
    intro e he; have := (C15_exploits h).1 e he; exact ⟨this.1, this.2.1⟩
  have hps : ∀ e ∈ sc.privescs, ∀ pr, e.proc = some pr → pr < p.numProcesses := by
    intro e he pr hpr
    obtain ⟨⟨pr', h1', h2'⟩, _⟩ := (C15_privescs h).1 e he
    rw [h1'] at hpr; injection hpr with hpr; omega
  obtain ⟨c1, c2⟩ := ensureVulnerable_spec p _ _ _ _ hes hps h1 w0 a0
  refine ⟨c1, c2, ?_⟩
  intro r hr hd0
  have hkeys := C15_firewall_keys h
  have hrk : r.1 ∈ (fwPairs sc.subnets.length).filter fun (a, b) => a != b && connB sc a b := by
    rw [← hkeys]; exact List.mem_map_of_mem hr
  have hlt : r.1.2 < sc.subnets.length := by
    have := (List.mem_filter.mp hrk).1
    simp only [fwPairs, List.mem_flatMap, List.mem_map, List.mem_range] at this
    obtain ⟨a', _, b', hb, heq⟩ := this
    rw [← heq]; exact hb
  have hw := c2 r.1.2 (by omega) hlt
  rcases genFirewall_allowed _ _ _ _ _ hrestr _ _ _ _ hf r hr with ⟨_, _, hall⟩ | ⟨hsub, hne⟩
  · obtain ⟨hd, hhd, hda, e, he, hv⟩ := hw
    exact ⟨e.svc, by rw [hall]; exact List.mem_range.mpr (hes e he).1, e, he, rfl, hd, hhd, hda, hv⟩
  · have hne' := hne (subnetServices_ne_nil hw)
    obtain ⟨x, hx⟩ := List.exists_mem_of_ne_nil _ hne'
    obtain ⟨e, he, hsvc, hd, hhd, hda, hv⟩ := mem_subnetServices.mp (hsub x hx)
    exact ⟨x, hx, e, he, hsvc, hd, hhd, hda, hv⟩

/-- C15: every cross-zone rule into a network subnet allows at least one service -/
theorem C15_firewall_lower_bound {p : Params} {s s' : List Tok} {sc : Scenario}
    (h : generate p s = .ok (sc, s')) : ∀ r ∈ sc.fw, r.1.2 ≠ 0 → 1 ≤ r.2.length := by
  intro r hr h0
  obtain ⟨svc, hsvc, _⟩ := (C16_generated_structure h).2.2 r hr h0
  exact List.length_pos_of_mem hsvc

end NASim.Gen
