import NasimModel.Proofs.Solve
import NasimModel.Props.C16Gen
import NasimModel.Props.C15Post
import NasimModel.Props.C15Replay
/-!
# C16 — every scenario the generator returns is solvable

`C16_generated_solvable`: for every parameter set and every stream on which the model generator
returns a scenario, there is an action history over the scenario's flat action space, from the
initial state, every draw 0, that ends with ROOT on all sensitive hosts.  The history is
constructed from the structure the generator guarantees (`C16_generated_structure`), along the
generated topology: internet → DMZ → sensitive / first user subnet → the binary tree of user
subnets.

Nothing is assumed about the stream; the draws of the *history* are 0 ("provided its stochastic
actions succeed"), which beats every probability ≥ 0.
-/
namespace NASim.Gen
open NASim

/-- the subnet from which a generated subnet is entered -/
def genParent (x : Nat) : Nat := if x = 1 then 0 else if x ≤ 3 then 1 else (x - 4) / 2 + 3

theorem genParent_lt (x : Nat) (h : 1 ≤ x) : genParent x < x := by
  unfold genParent
  split
  · omega
  · split <;> omega

theorem adj_genParent (x : Nat) (h : 1 ≤ x) : adj (genParent x) x = true := by
  unfold genParent
  split
  · rename_i h1; subst h1; decide
  · split
    · have : x = 2 ∨ x = 3 := by omega
      rcases this with rfl | rfl <;> decide
    · unfold adj
      have h1 : ¬ ((x - 4) / 2 + 3 < 4 ∧ x < 4) := by omega
      have h2 : ¬ ((x - 4) / 2 + 3 < 3 ∨ x < 3) := by omega
      simp only [h1, h2, if_false, decide_eq_true_eq]
      omega

/-- addresses of a generated network are pairwise different -/
theorem flatMap_zipIdx_nodup : ∀ (l : List Nat) (k : Nat),
    ((l.zipIdx k).flatMap fun (p : Nat × Nat) => (List.range p.1).map fun h => (p.2, h)).Nodup ∧
    ∀ a ∈ ((l.zipIdx k).flatMap fun (p : Nat × Nat) => (List.range p.1).map fun h => (p.2, h)), k ≤ a.1
  | [], k => by simp
  | x :: xs, k => by
    obtain ⟨ih1, ih2⟩ := flatMap_zipIdx_nodup xs (k + 1)
    simp only [List.zipIdx_cons, List.flatMap_cons]
    constructor
    · rw [List.nodup_append]
      refine ⟨?_, ih1, ?_⟩
      · have hr : (List.range x).Nodup := List.nodup_range
        exact List.Pairwise.map (fun h => (k, h)) (fun a b hab heq => hab (by injection heq)) hr
      · intro a ha b hb hab
        obtain ⟨i, _, rfl⟩ := List.mem_map.mp ha
        have := ih2 b hb
        rw [← hab] at this; simp only at this; omega
    · intro a ha
      rcases List.mem_append.mp ha with ha | ha
      · obtain ⟨i, _, rfl⟩ := List.mem_map.mp ha; exact Nat.le_refl _
      · have := ih2 a ha; omega

theorem allAddrs_nodup (l : List Nat) : (allAddrs l).Nodup := by
  unfold allAddrs
  cases l with
  | nil => simp
  | cons x xs =>
    simp only [List.zipIdx_cons, List.drop_succ_cons, List.drop_zero]
    exact (flatMap_zipIdx_nodup xs (0 + 1)).1

theorem mem_fwPairs {ns a b : Nat} (ha : a < ns) (hb : b < ns) : (a, b) ∈ fwPairs ns := by
  unfold fwPairs
  rw [List.mem_flatMap]
  exact ⟨a, List.mem_range.mpr ha, List.mem_map.mpr ⟨b, List.mem_range.mpr hb, rfl⟩⟩

theorem host_of_addr {sc : Scenario} (haddrs : sc.hosts.map (·.addr) = allAddrs sc.subnets)
    {a : Addr} (ha : a ∈ allAddrs sc.subnets) : ∃ hd ∈ sc.hosts, hd.addr = a := by
  rw [← haddrs] at ha
  obtain ⟨hd, hhd, h⟩ := List.mem_map.mp ha
  exact ⟨hd, hhd, h⟩

theorem addr_mem {subnets : List Nat} {a : Addr} (h1 : 1 ≤ a.1) (h2 : a.1 < subnets.length)
    (h3 : a.2 < subnets.getD a.1 0) : a ∈ allAddrs subnets := by
  have hm : (subnets[a.1], a.1) ∈ subnets.zipIdx := by
    rw [List.mem_zipIdx_iff_getElem?]; simp [h2]
  have : subnets.getD a.1 0 = subnets[a.1] := by
    rw [List.getD_eq_getElem?_getD, List.getElem?_eq_getElem h2]; rfl
  rw [this] at h3
  exact allAddrs_cover subnets _ _ hm (by omega) a.2 h3

/-- the structure `solvable_of_structure` needs holds of every generated scenario -/
theorem generated_structure {p : Params} {s s' : List Tok} {sc : Scenario}
    (h : generate p s = .ok (sc, s')) (hconst : p.period = 40 ∧ p.userSize = 5) :
    Structure sc genParent := by
  have T := generate_trace h
  have hn := valid_numHosts T.valid
  have hsub : sc.subnets = genSubnets 40 5 p.numHosts := by rw [T.subnets, hconst.1, hconst.2]
  obtain ⟨_, hpos, hlen, _⟩ := C15_subnets_partition p.numHosts hn
  rw [← hsub] at hpos hlen
  obtain ⟨haddrs, _⟩ := C15_hosts_addresses h hconst
  obtain ⟨_, _, hconn, hrefl, _⟩ := C15_network h
  obtain ⟨a2, hsens, s1, s2, s3, _⟩ := C15_sensitive h hconst
  obtain ⟨g1, g2, g3⟩ := C16_generated_structure h
  have hkeys := C15_firewall_keys h
  have hE := (C15_exploits h).1
  have hP := (C15_privescs h).1
  have hconn' : ∀ a b, sc.net.conn a b = connB sc a b := fun _ _ => rfl
  refine
    { nodup := by rw [haddrs]; exact allAddrs_nodup _
      nofw := fun hd hhd => (C15_host_values h hd hhd).2.2
      eacc := fun e he => by
        have := (hE e he).2.2.2.1; rcases this with h1 | h1 <;> omega
      pacc := fun e he => (hP e he).2.2.2.1
      eprob := fun e he => (hE e he).2.2.2.2.1
      pprob := fun e he => (hP e he).2.2.2.2.1
      par_lt := fun x hx _ => genParent_lt x hx
      par_conn := fun x hx1 hx2 => by
        have hlt := genParent_lt x hx1
        rw [hconn', (hconn _ _ (by omega) hx2).1]; exact adj_genParent x hx1
      par_pub := fun x hx1 hx2 hp0 => by
        have : x = 1 := by
          unfold genParent at hp0
          split at hp0
          · assumption
          · split at hp0 <;> omega
        show sc.net.conn x 0 = true
        rw [hconn', (hrefl x hx2).2, this]; rfl
      self_conn := fun x _ hx2 => by rw [hconn']; exact (hrefl x hx2).1
      entry := ?_
      sens := ?_ }
  · intro x hx1 hx2
    have hlt := genParent_lt x hx1
    have hkey : (genParent x, x) ∈ sc.fw.map (·.1) := by
      rw [hkeys, List.mem_filter]
      refine ⟨mem_fwPairs (by omega) hx2, ?_⟩
      simp only [Bool.and_eq_true, bne_iff_ne, ne_eq]
      refine ⟨by omega, ?_⟩
      rw [(hconn _ _ (by omega) hx2).1]; exact adj_genParent x hx1
    obtain ⟨l, hl, hm⟩ := lookup_of_key_mem sc.fw _ hkey
    obtain ⟨svc, hsvc, e, he, hes, hd, hhd, hdx, hv⟩ := g3 _ hm (by simp only; omega)
    refine ⟨l, hl, e, he, ?_, hd, hhd, hdx, hv⟩
    rw [hes]; simpa using hsvc
  · intro a ha
    rw [hsens] at ha
    simp only [List.mem_cons, List.not_mem_nil, or_false] at ha
    have key : ∀ b : Addr, 1 ≤ b.1 → b.1 < sc.subnets.length → b.2 < sc.subnets.getD b.1 0 →
        (sc.sens.lookup b).isSome = true →
        1 ≤ b.1 ∧ b.1 < sc.subnets.length ∧
          ∃ hd ∈ sc.hosts, hd.addr = b ∧ hostVulnerable sc.exploits sc.privescs hd 2 = true := by
      intro b b1 b2 b3 b4
      obtain ⟨hd, hhd, hda⟩ := host_of_addr haddrs (addr_mem b1 b2 b3)
      exact ⟨b1, b2, hd, hhd, hda, g1 hd hhd (by rw [hda]; exact b4)⟩
    rcases ha with rfl | rfl
    · apply key (2, 0) (by simp) (by simp only; omega)
      · have h2 : 2 < sc.subnets.length := by omega
        have hm : sc.subnets.getD 2 0 ∈ sc.subnets := by
          rw [List.getD_eq_getElem?_getD, List.getElem?_eq_getElem h2]; simp
        exact hpos _ hm
      · rw [hsens]; simp [List.lookup]
    · apply key a2 (by omega) s2 s3
      rw [hsens]
      simp only [List.lookup]
      split <;> simp

/-- **C16, generator side**: every scenario the generator returns is solvable — some action
sequence over its action space gains ROOT on all sensitive hosts from the initial state, provided
its stochastic actions succeed (every draw 0) -/
theorem C16_generated_solvable {p : Params} {s s' : List Tok} {sc : Scenario}
    (h : generate p s = .ok (sc, s')) (hconst : p.period = 40 ∧ p.userSize = 5) :
    ∃ st, ReachFlat sc st ∧ goal sc.net st = true :=
  solvable_of_structure (generated_structure h hconst)


/-- non-vacuity: the hypotheses are met by the recorded decision stream of a benchmark parameter
set (regenerated from the repository on every run), so the theorem yields an actual history -/
theorem C16_generated_solvable_instance :
    ∃ sc st, (∃ s', generate Generated.tiny_gen_params Generated.tiny_gen_stream = .ok (sc, s')) ∧
      ReachFlat sc st ∧ goal sc.net st = true := by
  obtain ⟨sc, s', h⟩ := C15_hypotheses_satisfiable.1
  obtain ⟨st, h1, h2⟩ := C16_generated_solvable h ⟨rfl, rfl⟩
  exact ⟨sc, st, ⟨s', h⟩, h1, h2⟩

end NASim.Gen

namespace NASim.Gen
open NASim

/-- the theorem applied to the nine generated benchmarks of the repository (recorded decision
streams, regenerated on every run): each has a goal-reaching history -/
theorem C16_generated_benchmarks_solvable :
    ∀ r ∈ Generated.gen_benchmark_runs, ∃ sc st, (∃ s', generate r.1 r.2 = .ok (sc, s')) ∧
      ReachFlat sc st ∧ goal sc.net st = true := by
  intro r hr
  obtain ⟨sc, s', h⟩ := Generated.gen_benchmark_runs_return r hr
  obtain ⟨st, h1, h2⟩ := C16_generated_solvable h (Generated.gen_benchmark_runs_constants r hr)
  exact ⟨sc, st, ⟨s', h⟩, h1, h2⟩

/-- C15/C16: the definitions of every generated scenario grant USER or ROOT, so the history
theorems (C01–C05) hold of every history over a generated scenario's action space with no further
hypothesis; instance: C04 (configuration immutable, progress monotone) -/
theorem C16_generated_histories {p : Params} {s s' : List Tok} {sc : Scenario}
    (h : generate p s = .ok (sc, s')) (hconst : p.period = 40 ∧ p.userSize = 5) {st : State}
    (hr : ReachFlat sc st) :
    Reach sc.net sc.init st ∧ st.map cfg = sc.init.map cfg ∧ StateLe sc.init st := by
  have hg := (generated_structure h hconst).grants
  have hreach := reach_of_reachFlat hg hr
  have h0 : AccOk sc.init := accOk_init sc
  exact ⟨hreach, C04_history sc.net sc.init st h0 hreach⟩

end NASim.Gen
