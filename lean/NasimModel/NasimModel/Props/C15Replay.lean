import NasimModel.Generated.GenExamples
import NasimModel.Props.C15
/-!
# C15 on what the code really does: the recorded decision streams

The theorems of `Props/C15.lean` quantify over every parameter set and every decision stream.  This module holds the
two that speak about *recorded* runs of the repository's generator (`Generated/GenExamples.lean`, regenerated on every
run): kept apart so that a change of the generator which breaks a recorded replay breaks this module only, not the
general theorems (and not the source ties that import them).
-/
namespace NASim.Gen

/-- non-vacuity: the hypothesis `generate p s = .ok (sc, s')` of the theorems above is met by what
the repository's generator really does — the recorded decision streams of two benchmark
parameter sets (regenerated on every run) replay through the model in the kernel -/
theorem C15_hypotheses_satisfiable :
    (∃ sc s', generate Generated.tiny_gen_params Generated.tiny_gen_stream = .ok (sc, s')) ∧
    (∃ sc s', generate Generated.small_gen_params Generated.small_gen_stream = .ok (sc, s')) := by
  constructor
  · have h := Generated.tiny_gen_replays
    cases hg : generate Generated.tiny_gen_params Generated.tiny_gen_stream with
    | error e => simp [hg] at h
    | ok r => exact ⟨r.1, r.2, rfl⟩
  · have h := Generated.small_gen_replays
    cases hg : generate Generated.small_gen_params Generated.small_gen_stream with
    | error e => simp [hg] at h
    | ok r => exact ⟨r.1, r.2, rfl⟩


/-- C15 on what the code really does: the NumPy decisions recorded in `generate_scenario` for each of
the repository's nine generated benchmarks (parameters and streams regenerated on every run) replay
through the model generator in the kernel — no decision left over, all fifteen postconditions hold,
and the model's scenario *is* the scenario the repository's generator returned -/
theorem C15_benchmarks_replay :
    ∀ r ∈ Generated.gen_benchmark_runs, ∃ sc s', generate r.1 r.2 = .ok (sc, s') :=
  Generated.gen_benchmark_runs_return


end NASim.Gen
