import NasimModel.Generated.LayoutOk
import NasimModel.Model.Env
/-!
# C08 — observations are truthful, minimal and complete for the action taken
-/
namespace NASim

/-- `l` shows nothing that is not in `l'`: same length and every entry is 0 or the true entry -/
def Sub (l l' : List Int) : Prop :=
  l.length = l'.length ∧ ∀ i, l.getD i 0 = 0 ∨ l.getD i 0 = l'.getD i 0

theorem Sub.refl (l : List Int) : Sub l l := ⟨rfl, fun _ => Or.inr rfl⟩

theorem Sub.ofZeros (l : List Int) : Sub (zeros l.length) l := by
  refine ⟨by simp [zeros], fun i => Or.inl ?_⟩
  unfold zeros
  by_cases h : i < l.length
  · simp [List.getD_eq_getElem?_getD, h]
  · simp [List.getD_eq_getElem?_getD, h]

theorem Sub.append {a a' b b' : List Int} (h1 : Sub a a') (h2 : Sub b b') : Sub (a ++ b) (a' ++ b') := by
  refine ⟨by simp [h1.1, h2.1], fun i => ?_⟩
  by_cases hi : i < a.length
  · have hi' : i < a'.length := h1.1 ▸ hi
    simp only [List.getD_eq_getElem?_getD, List.getElem?_append_left hi, List.getElem?_append_left hi']
    simpa [List.getD_eq_getElem?_getD] using h1.2 i
  · have hi1 : a.length ≤ i := Nat.le_of_not_lt hi
    have hi2 : a'.length ≤ i := h1.1 ▸ hi1
    simp only [List.getD_eq_getElem?_getD, List.getElem?_append_right hi1,
      List.getElem?_append_right hi2, h1.1]
    simpa [List.getD_eq_getElem?_getD] using h2.2 (i - a'.length)

theorem Sub.ite (c : Bool) (l : List Int) : Sub (if c then l else zeros l.length) l := by
  cases c
  · exact Sub.ofZeros l
  · exact Sub.refl l

theorem sub_scalars (m : Mask) (r : Row) :
    Sub [if m.comp then bi r.comp else 0, if m.reach then bi r.reach else 0,
         if m.disc then bi r.disc else 0, if m.value then r.value else 0,
         if m.dvalue then r.dvalue else 0, if m.access then (r.access : Int) else 0]
        [bi r.comp, bi r.reach, bi r.disc, r.value, r.dvalue, (r.access : Int)] := by
  refine ⟨rfl, fun i => ?_⟩
  match i with
  | 0 => cases m.comp <;> simp
  | 1 => cases m.reach <;> simp
  | 2 => cases m.disc <;> simp
  | 3 => cases m.value <;> simp
  | 4 => cases m.dvalue <;> simp
  | 5 => cases m.access <;> simp
  | _ + 6 => simp

theorem onehot_length (n i : Nat) : (onehot n i).length = n := by simp [onehot]

/-- C08 (truthful): whatever mask is applied, every entry of an observed host row is 0 or equals
the corresponding entry of the true row -/
theorem C08_truthful_row (L : Layout) (r : Row) (m : Mask) : Sub (observeRow L r m) (encodeRow L r) := by
  unfold observeRow encodeRow
  have hm : ∀ l : List Bool, (l.map bi).length = l.length := fun l => by simp
  refine Sub.append (Sub.append (Sub.append (Sub.append ?_ (sub_scalars m r)) ?_) ?_) ?_
  · have := Sub.ite m.address (onehot L.b0 r.addr.1 ++ onehot L.b1 r.addr.2)
    simpa [onehot_length] using this
  · have := Sub.ite m.os (r.os.map bi); simpa using this
  · have := Sub.ite m.svc (r.svc.map bi); simpa using this
  · have := Sub.ite m.proc (r.proc.map bi); simpa using this

/-- C08 (truthful): in partially observable mode every non-zero host entry of an observation
equals that entry of the true resulting state -/
theorem C08_truthful (L : Layout) (s' : State) (a : Action) (r : Result) (i : Nat) (hi : i < s'.length) :
    Sub ((observe L s' a r false).getD i []) (encodeRow L (s'.getD i default)) := by
  unfold observe
  simp only [Bool.false_eq_true, if_false]
  have : ((s'.map fun x => observeRow L x (rowMask a r x)) ++ [auxRow L.stateSize r]).getD i []
      = observeRow L (s'.getD i default) (rowMask a r (s'.getD i default)) := by
    simp [List.getD_eq_getElem?_getD, List.getElem?_append_left, hi]
  rw [this]
  exact C08_truthful_row L _ _

/-- an empty mask reveals nothing -/
theorem observeRow_empty (L : Layout) (r : Row) :
    observeRow L r {} = zeros (L.b0 + L.b1) ++ [0, 0, 0, 0, 0, 0] ++ zeros r.os.length
      ++ zeros r.svc.length ++ zeros r.proc.length := by
  simp [observeRow]

/-- C08 (minimal): failed actions and no-ops reveal no host information -/
theorem C08_fail_noop (a : Action) (r : Result) (x : Row)
    (h : a.kind = .noop ∨ r.success = false) : rowMask a r x = {} := by
  unfold rowMask
  rcases h with h | h <;> simp [h]

/-- C08 (minimal): entries appear only in the row of the target and, for a subnet scan, in the
rows the scan reports as discovered -/
theorem C08_minimal_rows (a : Action) (r : Result) (x : Row) (ht : x.addr ≠ a.target)
    (hd : ¬ (a.kind = .subnetScan ∧ (r.discovered.lookup x.addr).getD false = true)) :
    rowMask a r x = {} := by
  unfold rowMask
  have : (x.addr == a.target) = false := by simpa using ht
  simp only [this]
  by_cases hk : a.kind = .subnetScan
  · have : (r.discovered.lookup x.addr).getD false = false := by
      cases h : (r.discovered.lookup x.addr).getD false
      · rfl
      · exact absurd ⟨hk, h⟩ hd
    simp [this]
  · simp [hk]

/-- rows discovered by a subnet scan show address, reachable, discovered and — when newly
discovered — the discovery value; nothing else -/
theorem C08_scan_rows (a : Action) (r : Result) (x : Row) (hs : r.success = true)
    (hk : a.kind = .subnetScan) (ht : x.addr ≠ a.target)
    (hd : (r.discovered.lookup x.addr).getD false = true) :
    rowMask a r x = { baseMask with dvalue := (r.newly.lookup x.addr).getD false } := by
  unfold rowMask
  have : (x.addr == a.target) = false := by simpa using ht
  simp [hk, hs, this, hd]

/-- C08 (complete): a successful action reveals, in the target's row, the feature groups its type
entitles — in full, since `observeRow` copies whole groups -/
theorem C08_complete (a : Action) (r : Result) (x : Row) (hs : r.success = true)
    (hk : a.kind ≠ .noop) (ht : x.addr = a.target) : rowMask a r x = targetMask a.kind := by
  unfold rowMask
  have : (a.kind == Kind.noop) = false := by simpa using hk
  simp [this, hs, ht]

/-- the entitlement table: services for a service scan, OS for an OS scan, processes and access
for a process scan, everything but processes for an exploit, compromised and access for an
escalation, compromised for the host a subnet scan ran on (address, reachable, discovered always) -/
theorem C08_entitlement :
    targetMask .svcScan = { address := true, reach := true, disc := true, svc := true } ∧
    targetMask .osScan = { address := true, reach := true, disc := true, os := true } ∧
    targetMask .procScan = { address := true, reach := true, disc := true, proc := true, access := true } ∧
    targetMask .exploit = { address := true, reach := true, disc := true, comp := true, svc := true,
                            os := true, access := true, value := true } ∧
    targetMask .privesc = { address := true, reach := true, disc := true, comp := true, access := true } ∧
    targetMask .subnetScan = { address := true, reach := true, disc := true, comp := true } :=
  ⟨rfl, rfl, rfl, rfl, rfl, rfl⟩

/-- a revealed group is revealed in full -/
theorem C08_groups_full (L : Layout) (r : Row) (m : Mask) :
    (m.svc = true → ((observeRow L r m).drop (L.b0 + L.b1 + 6 + r.os.length)).take r.svc.length = r.svc.map bi) := by
  intro h
  unfold observeRow
  have h1 : ((if m.address then onehot L.b0 r.addr.1 ++ onehot L.b1 r.addr.2 else zeros (L.b0 + L.b1)) ++
      [if m.comp then bi r.comp else 0, if m.reach then bi r.reach else 0,
       if m.disc then bi r.disc else 0, if m.value then r.value else 0,
       if m.dvalue then r.dvalue else 0, if m.access then (r.access : Int) else 0] ++
      (if m.os then r.os.map bi else zeros r.os.length)).length = L.b0 + L.b1 + 6 + r.os.length := by
    cases m.address <;> cases m.os <;> simp [onehot_length, zeros] <;> omega
  simp only [h, if_true]
  rw [List.append_assoc _ (r.svc.map bi), List.drop_left' h1]
  simp

/-- C08: in fully observable mode the host rows equal the true resulting state -/
theorem C08_full (L : Layout) (s' : State) (a : Action) (r : Result) :
    observe L s' a r true = s'.map (encodeRow L) ++ [auxRow L.stateSize r] := by
  simp [observe]

/-- C08: in both modes the auxiliary (last) row carries exactly the success and error flags -/
theorem C08_aux (L : Layout) (s' : State) (a : Action) (r : Result) (fo : Bool) :
    (observe L s' a r fo).getLast? = some (auxRow L.stateSize r) ∧
    (auxRow L.stateSize r).take 4 = [bi r.success, bi r.connErr, bi r.permErr, bi r.undefErr] ∧
    (auxRow L.stateSize r).drop 4 = zeros (L.stateSize - 4) := by
  refine ⟨?_, by simp [auxRow], by simp [auxRow]⟩
  unfold observe; cases fo <;> simp

/-- C08: the initial observation reveals the full state (fully observable) or only address,
reachable and discovered of the initially reachable hosts -/
theorem C08_initial (L : Layout) (s : State) :
    initialObs L s true = s.map (encodeRow L) ++ [zeros L.stateSize] ∧
    initialObs L s false =
      s.map (fun x => observeRow L x (if x.reach then baseMask else {})) ++ [zeros L.stateSize] := by
  refine ⟨by simp [initialObs], ?_⟩
  simp only [initialObs, Bool.false_eq_true, if_false]
  congr 1
  apply List.map_congr_left
  intro x _; cases x.reach <;> simp

end NASim
