import NasimModel.Generated.Gates
import NasimModel.Props.C07
/-! # C07 — where the draw sits, read off the source text (T1) -/
namespace NASim

/-- C07: the draw is taken after all gates (`C02_gates_from_source`), not at all for an exploit on
an already compromised host, once otherwise; a lost draw is reported as an undefined error -/
theorem C07_chance_from_source (s : State) (a : Action) :
    drawsNeeded s a = (if NoDrawCond.exploitOnCompromised.holds s a then 0 else 1) ∧
    Gate.fail chanceFail = Generated.srcChanceOut.gate ∧ Generated.srcChanceOut = .undef :=
  ⟨(Generated.chance_matches_source s a).1, (Generated.chance_matches_source s a).2, by decide⟩

end NASim
