import NasimModel.Props.SrcBase
/-!
# Source tie: `HostVector.perform_action`, the part C05 rests on

The value an action gains at host level (the host's value exactly when ROOT is obtained and was
not held), as the repository's source computes it, equals the model's — proved from the
translated source directly, independently of the next row and of the information payload.
-/
open NASim
namespace NASim

theorem Src_host_value (r : Row) (a : Action) :
    (Src.HostVector.perform_action r a).2.value = (hostPerform r a).2.value := by
  unfold Src.HostVector.perform_action hostPerform
  simp only [Src.Action.is_service_scan, Src.Action.is_os_scan, Src.Action.is_exploit, Src.Action.is_process_scan,
    Src.Action.is_privilege_escalation, isNone_or_runningOs, isNone_or_runningProc, PyRt.isRunningSvc,
    exploitApplies, privescApplies, onHostOk, raiseAccess, gain]
  cases hk : a.kind <;> simp <;> (repeat' split) <;> simp_all

end NASim
