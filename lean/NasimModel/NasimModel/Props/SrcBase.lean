import NasimModel.Generated.SrcDyn
import NasimModel.Proofs.SrcTie
/-!
# Source tie, base: the one-line accessors

`Action.is_*` (isinstance tests), `Network.subnets_connected / subnet_public` (topology reads) and the
`State.host_*` accessors of the repository, translated from their source text, are the model's
`Action.isRemote / isScan`, `Net.conn / pub` and row reads.
-/
open NASim
namespace NASim


theorem src_is_remote (a : Action) : Src.Action.is_remote a = a.isRemote := rfl
theorem src_is_scan (a : Action) : Src.Action.is_scan a = a.isScan := rfl
theorem src_conn (n : Net) (a b : Nat) : Src.Network.subnets_connected n a b = n.conn a b := rfl
theorem src_pub (n : Net) (a : Nat) : Src.Network.subnet_public n a = n.pub a := rfl

/-- the class tests of `nasim/envs/action.py` are the model's action kinds -/
theorem Src_action_predicates (a : Action) :
    Src.Action.is_remote a = a.isRemote ∧ Src.Action.is_scan a = a.isScan ∧
    Src.Action.is_noop a = (a.kind == .noop) ∧ Src.Action.is_exploit a = (a.kind == .exploit) ∧
    Src.Action.is_privilege_escalation a = (a.kind == .privesc) ∧ Src.Action.is_service_scan a = (a.kind == .svcScan) ∧
    Src.Action.is_os_scan a = (a.kind == .osScan) ∧ Src.Action.is_subnet_scan a = (a.kind == .subnetScan) ∧
    Src.Action.is_process_scan a = (a.kind == .procScan) := ⟨rfl, rfl, rfl, rfl, rfl, rfl, rfl, rfl, rfl⟩

/-- `subnets_connected` / `subnet_public` read the topology matrix as the model does -/
theorem Src_topology (n : Net) (a b : Nat) :
    Src.Network.subnets_connected n a b = n.conn a b ∧ Src.Network.subnet_public n a = n.pub a := ⟨rfl, rfl⟩

/-- the `State.host_*` accessors read the row of that address -/
theorem Src_state_accessors (s : State) (x : Addr) (lvl : Nat) :
    Src.State.host_reachable s x = (s.get x).reach ∧ Src.State.host_compromised s x = (s.get x).comp ∧
    Src.State.host_discovered s x = (s.get x).disc ∧ Src.State.host_has_access s x lvl = hasAccess (s.get x) lvl :=
  ⟨rfl, rfl, rfl, rfl⟩

end NASim
