import NasimModel.Generated.GeneratorOk
import NasimModel.Proofs.GenInv
import NasimModel.Proofs.GenHosts
import NasimModel.Proofs.GenFirewall
/-!
# C15 — the generator returns a well-formed scenario for every valid parameter set

Statements are for *every* decision stream on which the model generator returns
(`generate p s = .ok (sc, s')`): whatever NumPy draws, the result has the stated shape.
Termination of the real retry loops is the separate progress part at the end.
-/
namespace NASim.Gen

/-! ### subnets -/

theorem sum_replicate (k v : Nat) : (List.replicate k v).foldl (· + ·) 0 = k * v := by
  have : ∀ acc, (List.replicate k v).foldl (· + ·) acc = acc + k * v := by
    induction k with
    | zero => simp
    | succ k ih => intro acc; simp [List.replicate_succ, ih, Nat.succ_mul]; omega
  simpa using this 0

theorem foldl_add_append (a b : List Nat) (x : Nat) :
    (a ++ b).foldl (· + ·) x = b.foldl (· + ·) (a.foldl (· + ·) x) := List.foldl_append

theorem foldl_add_acc (l : List Nat) (x : Nat) : l.foldl (· + ·) x = x + l.foldl (· + ·) 0 := by
  induction l generalizing x with
  | nil => simp
  | cons y ys ih => simp only [List.foldl_cons]; rw [ih, ih (0 + y)]; omega

/-- C15: the subnets partition the requested hosts: sizes are positive, they sum to `num_hosts`
(the internet subnet excluded), and there is at least one user subnet — for the generator's
constants HOST_ASSIGNMENT_PERIOD = 40, USER_SUBNET_SIZE = 5 and every `num_hosts > 2` -/
theorem C15_subnets_partition (n : Nat) (h : 2 < n) :
    ((genSubnets 40 5 n).drop 1).foldl (· + ·) 0 = n ∧ (∀ x ∈ genSubnets 40 5 n, 0 < x)
      ∧ 4 ≤ (genSubnets 40 5 n).length ∧ (genSubnets 40 5 n).head? = some 1 := by
  unfold genSubnets
  simp only []
  generalize hu : n - (n + 40 - 1) / 40 - (n + 40) / (40 + 1) = user
  have hrem : (if (user % 5 != 0) = true then [user % 5] else []) = if user % 5 = 0 then [] else [user % 5] := by
    by_cases h0 : user % 5 = 0 <;> simp [h0]
  rw [hrem]
  refine ⟨?_, ?_, ?_, ?_⟩
  · simp only [List.cons_append, List.nil_append, List.drop_succ_cons, List.drop_zero,
      List.foldl_cons, foldl_add_append]
    rw [foldl_add_acc, foldl_add_acc (List.replicate _ _), sum_replicate]
    split
    · simp only [List.foldl_nil]; omega
    · simp only [List.foldl_cons, List.foldl_nil]; omega
  · intro x hx
    simp only [List.cons_append, List.nil_append, List.mem_cons, List.mem_append,
      List.mem_replicate] at hx
    rcases hx with rfl | rfl | rfl | hx | hx
    · omega
    · omega
    · omega
    · obtain ⟨_, rfl⟩ := hx; omega
    · split at hx
      · simp at hx
      · simp at hx; omega
  · simp only [List.cons_append, List.nil_append, List.length_cons, List.length_append,
      List.length_replicate]
    split
    · simp only [List.length_nil]; omega
    · simp only [List.length_cons, List.length_nil]; omega
  · simp

/-! ### topology -/

/-- C15: the topology is symmetric -/
theorem C15_topology_symmetric (r c : Nat) : adj r c = adj c r := by
  unfold adj
  by_cases h1 : r < 4 ∧ c < 4
  · have h2 : c < 4 ∧ r < 4 := ⟨h1.2, h1.1⟩
    simp only [h1, h2, and_self, if_true]
    rcases h1 with ⟨hr, hc⟩
    have : r = 0 ∨ r = 1 ∨ r = 2 ∨ r = 3 := by omega
    have : c = 0 ∨ c = 1 ∨ c = 2 ∨ c = 3 := by omega
    rcases ‹r = 0 ∨ _› with rfl | rfl | rfl | rfl <;> rcases ‹c = 0 ∨ _› with rfl | rfl | rfl | rfl <;> simp
  · have h2 : ¬ (c < 4 ∧ r < 4) := fun h => h1 ⟨h.2, h.1⟩
    simp only [h1, h2, if_false]
    by_cases h3 : r < 3 ∨ c < 3
    · have h4 : c < 3 ∨ r < 3 := h3.symm
      simp [h3, h4]
    · have h4 : ¬ (c < 3 ∨ r < 3) := fun h => h3 h.symm
      simp only [h3, h4, if_false]
      apply Bool.eq_iff_iff.mpr
      simp only [decide_eq_true_eq, Bool.or_eq_true, Bool.and_eq_true]
      constructor <;> intro h <;> omega

/-- C15: every subnet is connected to itself -/
theorem C15_topology_reflexive (r : Nat) : adj r r = true := by
  unfold adj
  by_cases h1 : r < 4
  · have : r = 0 ∨ r = 1 ∨ r = 2 ∨ r = 3 := by omega
    rcases this with rfl | rfl | rfl | rfl <;> simp
  · simp [h1]; omega

/-- C15: only the DMZ subnet (and the internet itself) is public -/
theorem C15_only_dmz_public (s : Nat) : adj s 0 = (s == 0 || s == 1) := by
  unfold adj
  by_cases h1 : s < 4
  · have : s = 0 ∨ s = 1 ∨ s = 2 ∨ s = 3 := by omega
    rcases this with rfl | rfl | rfl | rfl <;> simp
  · have : ¬ (s = 0) := by omega
    have : ¬ (s = 1) := by omega
    simp [h1, *]

/-- the generated matrix is the closed form -/
theorem genTopo_entry (ns a b : Nat) (ha : a < ns) (hb : b < ns) :
    ((genTopo ns).getD a []).getD b 0 = if adj a b then 1 else 0 := by
  simp [genTopo, List.getD_eq_getElem?_getD, ha, hb]

theorem genTopo_shape (ns : Nat) :
    (genTopo ns).length = ns ∧ ∀ row ∈ genTopo ns, row.length = ns ∧ ∀ x ∈ row, x = 0 ∨ x = 1 := by
  refine ⟨by simp [genTopo], ?_⟩
  intro row hrow
  simp only [genTopo, List.mem_map, List.mem_range] at hrow
  obtain ⟨r, _, rfl⟩ := hrow
  refine ⟨by simp, ?_⟩
  intro x hx
  simp only [List.mem_map, List.mem_range] at hx
  obtain ⟨c, _, rfl⟩ := hx
  split <;> simp

/-! ### probabilities -/

theorem levels_ok : (0 < lv3 ∧ lv3 ≤ 1) ∧ (0 < lv6 ∧ lv6 ≤ 1) ∧ (0 < lv9 ∧ lv9 ≤ 1) := by
  decide +kernel

/-- `_get_action_probs` returns one probability per action, each in [0, 1]; in (0, 1] unless the
probabilities are drawn uniformly (`None`), where NumPy's `random_sample` may return 0.0 -/
theorem actionProbs_ok {n : Nat} {spec : ProbSpec} {s s' : List Tok} {probs : List Rat}
    (h : actionProbs n spec s = .ok (probs, s')) :
    probs.length = n ∧ (∀ q ∈ probs, 0 ≤ q ∧ q ≤ 1) ∧
    (spec ≠ .none → ∀ q ∈ probs, 0 < q) := by
  cases spec with
  | none =>
    obtain ⟨h1, h2⟩ := randomSample_ok h
    exact ⟨h1, fun q hq => ⟨(h2 q hq).1, Rat.le_of_lt (h2 q hq).2⟩, fun hne => absurd rfl hne⟩
  | mixed =>
    simp only [actionProbs] at h
    obtain ⟨idx, s1, h1, h2⟩ := bind_ok h
    obtain ⟨rfl, _⟩ := pure_ok h2
    obtain ⟨hl, hi⟩ := choiceN_ok h1
    obtain ⟨⟨a1, a2⟩, ⟨b1, b2⟩, ⟨c1, c2⟩⟩ := levels_ok
    have key : ∀ i ∈ idx, 0 < (if n = 1 then [lv6, lv9] else [lv3, lv6, lv9]).getD i 0 ∧
        (if n = 1 then [lv6, lv9] else [lv3, lv6, lv9]).getD i 0 ≤ 1 := by
      intro i hi'
      have := hi i hi'
      by_cases hn : n = 1
      · simp only [hn, if_true, List.length_cons, List.length_nil] at this ⊢
        have : i = 0 ∨ i = 1 := by omega
        rcases this with rfl | rfl <;> simp [*]
      · simp only [hn, if_false, List.length_cons, List.length_nil] at this ⊢
        have : i = 0 ∨ i = 1 ∨ i = 2 := by omega
        rcases this with rfl | rfl | rfl <;> simp [*]
    refine ⟨by simp [hl], ?_, ?_⟩
    · intro q hq
      obtain ⟨i, hi', rfl⟩ := List.mem_map.mp hq
      exact ⟨Rat.le_of_lt (key i hi').1, (key i hi').2⟩
    · intro _ q hq
      obtain ⟨i, hi', rfl⟩ := List.mem_map.mp hq
      exact (key i hi').1
  | const q =>
    simp only [actionProbs] at h
    split at h
    · rename_i hq
      obtain ⟨rfl, _⟩ := pure_ok h
      refine ⟨by simp, ?_, ?_⟩
      · intro x hx; rw [List.eq_of_mem_replicate hx]; exact ⟨Rat.le_of_lt hq.1, hq.2⟩
      · intro _ x hx; rw [List.eq_of_mem_replicate hx]; exact hq.1
    · exact (fail_ok h).elim
  | list ps =>
    simp only [actionProbs] at h
    split at h
    · rename_i hq
      obtain ⟨rfl, _⟩ := pure_ok h
      have hall := List.all_eq_true.mp hq.2
      refine ⟨hq.1, ?_, ?_⟩
      · intro x hx; have := hall x hx; simp at this; exact ⟨Rat.le_of_lt this.1, this.2⟩
      · intro _ x hx; have := hall x hx; simp at this; exact this.1
    · exact (fail_ok h).elim

theorem pairwiseDistinct_snoc {α} [BEq α] [LawfulBEq α] (l : List α) (x : α)
    (h : pairwiseDistinct l = true) (hx : l.contains x = false) : pairwiseDistinct (l ++ [x]) = true := by
  induction l with
  | nil => simp [pairwiseDistinct]
  | cons y ys ih =>
    simp only [pairwiseDistinct, Bool.and_eq_true, Bool.not_eq_true'] at h
    simp only [List.contains_cons, Bool.or_eq_false_iff] at hx
    simp only [List.cons_append, pairwiseDistinct, Bool.and_eq_true, Bool.not_eq_true']
    refine ⟨?_, ih h.2 hx.2⟩
    have h1 : ¬ y ∈ ys := by
      intro hm
      have hc : ys.contains y = true := List.contains_iff_mem.mpr hm
      rw [h.1] at hc; cases hc
    have h2 : x ≠ y := by
      intro heq; have := hx.1; simp [heq] at this
    cases hc : (ys ++ [x]).contains y with
    | false => rfl
    | true =>
      exfalso
      have := List.contains_iff_mem.mp hc
      rcases List.mem_append.mp this with hm | hm
      · exact h1 hm
      · simp at hm; exact h2 hm.symm

/-! ### exploits -/

/-- what every generated exploit definition satisfies -/
def ExplInv (numServices numOs : Nat) (cost : Int) (e : ExploitDef) : Prop :=
  e.svc < numServices ∧ (∀ o, e.os = some o → o < numOs) ∧ e.cost = cost ∧ (e.access = 1 ∨ e.access = 2)

theorem osOfIdx_lt {numOs i o : Nat} (h : osOfIdx numOs i = some o) : o < numOs := by
  unfold osOfIdx at h; split at h <;> simp_all

theorem genExploits_inv (numServices numOs n : Nat) (cost : Int) (probs : List Rat) :
    ∀ (fuel : Nat) (acc : List ExploitDef) (s s' : List Tok) (r : List ExploitDef),
    genExploits numServices numOs n cost probs fuel acc s = .ok (r, s') →
    acc.length ≤ n →
    (∀ e ∈ acc, ExplInv numServices numOs cost e ∧ e.prob ∈ probs) →
    pairwiseDistinct (acc.map fun e => (e.svc, e.os)) = true →
    probs.length = n →
    r.length = n ∧ (∀ e ∈ r, ExplInv numServices numOs cost e ∧ e.prob ∈ probs) ∧
      pairwiseDistinct (r.map fun e => (e.svc, e.os)) = true := by
  intro fuel
  induction fuel with
  | zero => intro acc s s' r h; simp [genExploits] at h; exact (fail_ok h).elim
  | succ fuel ih =>
    intro acc s s' r h hlen hinv hdist hp
    simp only [genExploits] at h
    split at h
    · rename_i hge
      obtain ⟨rfl, _⟩ := pure_ok h
      exact ⟨by omega, hinv, hdist⟩
    · rename_i hlt
      obtain ⟨srv, s1, h1, h⟩ := bind_ok h
      obtain ⟨osi, s2, h2, h⟩ := bind_ok h
      obtain ⟨al, s3, h3, h⟩ := bind_ok h
      have hsrv := choice1_ok h1
      have hal := randint_ok h3
      by_cases hdup : acc.any (fun e => e.svc == srv && e.os == osOfIdx numOs osi) = true
      · simp only [hdup, if_true] at h
        exact ih acc s3 s' r h hlen hinv hdist hp
      · have hd' : acc.any (fun e => e.svc == srv && e.os == osOfIdx numOs osi) = false := by
          simpa using hdup
        simp only [hd', Bool.false_eq_true, if_false] at h
        apply ih _ s3 s' r h
        · simp; omega
        · intro e he
          rcases List.mem_append.mp he with he | he
          · exact hinv e he
          · simp only [List.mem_cons, List.not_mem_nil, or_false] at he
            subst he
            refine ⟨⟨hsrv, fun o ho => osOfIdx_lt ho, rfl, ?_⟩, ?_⟩
            · have : al = 1 ∨ al = 2 := by omega
              rcases this with rfl | rfl <;> simp
            · simp only
              have : acc.length < probs.length := by omega
              rw [List.getD_eq_getElem?_getD, List.getElem?_eq_getElem this]
              simp
        · -- distinctness is preserved: the new pair is not among the old ones
          rw [List.map_append]
          apply pairwiseDistinct_snoc _ _ hdist
          cases hc : (acc.map fun e => (e.svc, e.os)).contains (srv, osOfIdx numOs osi) with
          | false => rfl
          | true =>
            exfalso; apply hdup
            simp only [List.contains_eq_any_beq, List.any_map, List.any_eq_true] at hc ⊢
            obtain ⟨e, he, heq⟩ := hc
            refine ⟨e, he, ?_⟩
            simp only [Function.comp, beq_iff_eq, Prod.mk.injEq] at heq
            simp [heq.1, heq.2]
        · exact hp

/-! ### privilege escalations -/

def PrivInv (numProcesses numOs : Nat) (cost : Int) (e : PrivescDef) : Prop :=
  (∃ pr, e.proc = some pr ∧ pr < numProcesses) ∧ (∀ o, e.os = some o → o < numOs) ∧ e.cost = cost
    ∧ e.access = 2

theorem drawOsChoices_ok (numOs numProcesses n : Nat) :
    ∀ (fuel : Nat) (s s' : List Tok) (cs : List (Option Nat)),
    drawOsChoices numOs numProcesses n fuel s = .ok (cs, s') →
    (∀ c ∈ cs, ∀ o, c = some o → o < numOs) ∧ osChoicesOk numOs numProcesses cs = true := by
  intro fuel
  induction fuel with
  | zero => intro s s' cs h; simp [drawOsChoices] at h; exact (fail_ok h).elim
  | succ fuel ih =>
    intro s s' cs h
    simp only [drawOsChoices] at h
    obtain ⟨cs0, s1, h1, h⟩ := bind_ok h
    have hcs0 : ∀ c ∈ cs0, ∀ o, c = some o → o < numOs := by
      unfold drawOnce at h1
      split at h1
      · obtain ⟨idx, s2, h2, h3⟩ := bind_ok h1
        obtain ⟨rfl, _⟩ := pure_ok h3
        intro c hc o ho
        rcases List.mem_cons.mp hc with rfl | hc
        · cases ho
        · obtain ⟨i, _, rfl⟩ := List.mem_map.mp hc; exact osOfIdx_lt ho
      · obtain ⟨idx, s2, h2, h3⟩ := bind_ok h1
        obtain ⟨rfl, _⟩ := pure_ok h3
        intro c hc o ho
        obtain ⟨i, _, rfl⟩ := List.mem_map.mp hc; exact osOfIdx_lt ho
    split at h
    · rename_i hok
      obtain ⟨rfl, _⟩ := pure_ok h
      exact ⟨hcs0, hok⟩
    · exact ih s1 s' cs h

theorem genPrivescLoop_inv (numProcesses numOs n : Nat) (cost : Int) (probs : List Rat)
    (osChoices : List (Option Nat)) (hos : ∀ c ∈ osChoices, ∀ o, c = some o → o < numOs) :
    ∀ (fuel : Nat) (acc : List PrivescDef) (s s' : List Tok) (r : List PrivescDef),
    genPrivescLoop numProcesses n cost probs osChoices fuel acc s = .ok (r, s') →
    acc.length ≤ n →
    (∀ e ∈ acc, PrivInv numProcesses numOs cost e ∧ e.prob ∈ probs) →
    pairwiseDistinct (acc.map fun e => (e.proc, e.os)) = true →
    probs.length = n →
    r.length = n ∧ (∀ e ∈ r, PrivInv numProcesses numOs cost e ∧ e.prob ∈ probs) ∧
      pairwiseDistinct (r.map fun e => (e.proc, e.os)) = true := by
  intro fuel
  induction fuel with
  | zero => intro acc s s' r h; simp [genPrivescLoop] at h; exact (fail_ok h).elim
  | succ fuel ih =>
    intro acc s s' r h hlen hinv hdist hp
    simp only [genPrivescLoop] at h
    split at h
    · obtain ⟨rfl, _⟩ := pure_ok h
      exact ⟨by omega, hinv, hdist⟩
    · rename_i hlt
      obtain ⟨proc, s1, h1, h⟩ := bind_ok h
      have hproc := choice1_ok h1
      by_cases hdup : acc.any (fun e => e.proc == some proc && e.os == osChoices.getD acc.length none) = true
      · simp only [hdup, if_true] at h
        exact ih acc s1 s' r h hlen hinv hdist hp
      · have hd' : acc.any (fun e => e.proc == some proc && e.os == osChoices.getD acc.length none) = false := by
          simpa using hdup
        simp only [hd', Bool.false_eq_true, if_false] at h
        apply ih _ s1 s' r h
        · simp; omega
        · intro e he
          rcases List.mem_append.mp he with he | he
          · exact hinv e he
          · simp only [List.mem_cons, List.not_mem_nil, or_false] at he
            subst he
            refine ⟨⟨⟨proc, rfl, hproc⟩, ?_, rfl, rfl⟩, ?_⟩
            · intro o ho
              simp only at ho
              by_cases hl : acc.length < osChoices.length
              · rw [List.getD_eq_getElem?_getD, List.getElem?_eq_getElem hl] at ho
                exact hos _ (List.getElem_mem hl) o (by simpa using ho)
              · rw [List.getD_eq_getElem?_getD, List.getElem?_eq_none (by omega)] at ho
                simp at ho
            · simp only
              have : acc.length < probs.length := by omega
              rw [List.getD_eq_getElem?_getD, List.getElem?_eq_getElem this]
              simp
        · rw [List.map_append]
          apply pairwiseDistinct_snoc _ _ hdist
          cases hc : (acc.map fun e => (e.proc, e.os)).contains (some proc, osChoices.getD acc.length none) with
          | false => rfl
          | true =>
            exfalso; apply hdup
            simp only [List.contains_eq_any_beq, List.any_map, List.any_eq_true] at hc ⊢
            obtain ⟨e, he, heq⟩ := hc
            refine ⟨e, he, ?_⟩
            simp only [Function.comp, beq_iff_eq, Prod.mk.injEq] at heq
            simp only [Bool.and_eq_true, beq_iff_eq]
            exact ⟨heq.1.symm, heq.2.symm⟩
        · exact hp

theorem genPrivescs_inv {numOs numProcesses n : Nat} {cost : Int} {probs : List Rat} {fuel : Nat}
    {s s' : List Tok} {r : List PrivescDef}
    (h : genPrivescs numOs numProcesses n cost probs fuel s = .ok (r, s')) (hp : probs.length = n) :
    r.length = n ∧ (∀ e ∈ r, PrivInv numProcesses numOs cost e ∧ e.prob ∈ probs) ∧
      pairwiseDistinct (r.map fun e => (e.proc, e.os)) = true ∧ n ≤ numProcesses * (numOs + 1) := by
  unfold genPrivescs at h
  split at h
  · exact (fail_ok h).elim
  · rename_i hle
    obtain ⟨cs, s1, h1, h2⟩ := bind_ok h
    obtain ⟨hcs, _⟩ := drawOsChoices_ok numOs numProcesses n fuel s s1 cs h1
    obtain ⟨a, b, c⟩ := genPrivescLoop_inv numProcesses numOs n cost probs cs hcs fuel [] s1 s' r h2
      (by simp) (by simp) (by simp [pairwiseDistinct]) hp
    exact ⟨a, b, c, by omega⟩

/-! ### the whole generator: what a successful run consists of -/

/-- the intermediate results of a successful generation -/
structure Trace (p : Params) (sc : Scenario) : Prop where
  valid : p.valid = true
  bounds : genBounds (genSubnets p.period p.userSize p.numHosts) p.bounds = some sc.bounds
  subnets : sc.subnets = genSubnets p.period p.userSize p.numHosts
  topo : sc.topo = genTopo sc.subnets.length
  dims : sc.nOs = p.numOs ∧ sc.nSvc = p.numServices ∧ sc.nProc = p.numProcesses
  costs : sc.svcScanCost = p.svcScanCost ∧ sc.osScanCost = p.osScanCost
    ∧ sc.subnetScanCost = p.subnetScanCost ∧ sc.procScanCost = p.procScanCost
    ∧ sc.stepLimit = p.stepLimit
  exploits : ∃ probs fuel s1 s2, actionProbs p.nExploits p.exploitProbs s1 = .ok (probs, s2) ∧
    ∃ s3, genExploits p.numServices p.numOs p.nExploits p.exploitCost probs fuel [] s2 = .ok (sc.exploits, s3)
  privescs : ∃ probs fuel s1 s2, actionProbs p.nPrivescs p.privescProbs s1 = .ok (probs, s2) ∧
    ∃ s3, genPrivescs p.numOs p.numProcesses p.nPrivescs p.privescCost probs fuel s2 = .ok (sc.privescs, s3)
  sens : ∃ s1 s2, genSensitive p sc.subnets s1 = .ok (sc.sens, s2)
  hosts : ∃ hosts0 s1 s2 s3 s4,
    initialHosts p sc.sens (allAddrs sc.subnets) s1 = .ok (hosts0, s2) ∧
    ensureVulnerable sc.exploits sc.privescs sc.sens p.vulRetries sc.subnets hosts0 s2 = .ok (sc.hosts, s3) ∧
    genFirewall p.numServices p.restrictiveness sc.topo sc.exploits sc.hosts (fwPairs sc.subnets.length) s3
      = .ok (sc.fw, s4)

theorem generate_trace {p : Params} {s s' : List Tok} {sc : Scenario}
    (h : generate p s = .ok (sc, s')) : Trace p sc := by
  unfold generate at h
  split at h
  · exact (fail_ok h).elim
  · rename_i hv
    have hv' : p.valid = true := by simpa using hv
    simp only [] at h
    obtain ⟨bounds, s1, hb, h⟩ := bind_ok h
    have hb' : genBounds (genSubnets p.period p.userSize p.numHosts) p.bounds = some bounds := by
      unfold boundsG at hb
      cases hg : genBounds (genSubnets p.period p.userSize p.numHosts) p.bounds with
      | none => simp only [hg] at hb; exact (fail_ok hb).elim
      | some b => simp only [hg] at hb; obtain ⟨rfl, _⟩ := pure_ok hb; rfl
    obtain ⟨n0, s2, _, h⟩ := bind_ok h
    obtain ⟨eprobs, s3, he1, h⟩ := bind_ok h
    obtain ⟨es, s4, he2, h⟩ := bind_ok h
    obtain ⟨pprobs, s5, hp1, h⟩ := bind_ok h
    obtain ⟨ps, s6, hp2, h⟩ := bind_ok h
    obtain ⟨sens, s7, hs, h⟩ := bind_ok h
    obtain ⟨hosts0, s8, hh0, h⟩ := bind_ok h
    obtain ⟨hosts, s9, hh1, h⟩ := bind_ok h
    obtain ⟨fw, s10, hf, h⟩ := bind_ok h
    obtain ⟨rfl, _⟩ := pure_ok h
    exact
      { valid := hv', bounds := hb', subnets := rfl, topo := rfl, dims := ⟨rfl, rfl, rfl⟩,
        costs := ⟨rfl, rfl, rfl, rfl, rfl⟩,
        exploits := ⟨eprobs, _, _, _, he1, _, he2⟩,
        privescs := ⟨pprobs, _, _, _, hp1, _, hp2⟩,
        sens := ⟨_, _, hs⟩,
        hosts := ⟨hosts0, _, _, _, _, hh0, hh1, hf⟩ }

/-- C15: exactly the requested numbers of OSs, services, processes, exploits and escalations -/
theorem C15_counts {p : Params} {s s' : List Tok} {sc : Scenario} (h : generate p s = .ok (sc, s')) :
    sc.nOs = p.numOs ∧ sc.nSvc = p.numServices ∧ sc.nProc = p.numProcesses ∧
    sc.exploits.length = p.nExploits ∧ sc.privescs.length = p.nPrivescs := by
  have T := generate_trace h
  obtain ⟨probs, fuel, s1, s2, hp, s3, he⟩ := T.exploits
  obtain ⟨probs', fuel', s1', s2', hp', s3', he'⟩ := T.privescs
  have l1 := (actionProbs_ok hp).1
  have l2 := (actionProbs_ok hp').1
  refine ⟨T.dims.1, T.dims.2.1, T.dims.2.2, ?_, (genPrivescs_inv he' l2).1⟩
  exact (genExploits_inv _ _ _ _ _ fuel [] s2 s3 _ he (by simp) (by simp) (by simp [pairwiseDistinct]) l1).1

/-- C15: exploit definitions reference defined services and OSs, carry the requested cost, grant
USER or ROOT, have pairwise different (service, OS) keys and probabilities in [0, 1] — in (0, 1]
whenever the probabilities are specified (`'mixed'`, a float, a list) -/
theorem C15_exploits {p : Params} {s s' : List Tok} {sc : Scenario} (h : generate p s = .ok (sc, s')) :
    (∀ e ∈ sc.exploits, e.svc < p.numServices ∧ (∀ o, e.os = some o → o < p.numOs)
        ∧ e.cost = p.exploitCost ∧ (e.access = 1 ∨ e.access = 2) ∧ 0 ≤ e.prob ∧ e.prob ≤ 1
        ∧ (p.exploitProbs ≠ .none → 0 < e.prob))
    ∧ pairwiseDistinct (sc.exploits.map fun e => (e.svc, e.os)) = true := by
  have T := generate_trace h
  obtain ⟨probs, fuel, s1, s2, hp, s3, he⟩ := T.exploits
  obtain ⟨l1, l2, l3⟩ := actionProbs_ok hp
  obtain ⟨_, hinv, hd⟩ := genExploits_inv _ _ _ _ _ fuel [] s2 s3 _ he (by simp) (by simp)
    (by simp [pairwiseDistinct]) l1
  refine ⟨fun e he' => ?_, hd⟩
  obtain ⟨⟨a, b, c, d⟩, hq⟩ := hinv e he'
  exact ⟨a, b, c, d, (l2 _ hq).1, (l2 _ hq).2, fun hne => l3 hne _ hq⟩

/-- C15: escalation definitions reference defined processes and OSs, carry the requested cost,
grant ROOT, have pairwise different (process, OS) keys and probabilities in [0, 1] / (0, 1];
the request is satisfiable: at most `num_processes * (num_os + 1)` escalations -/
theorem C15_privescs {p : Params} {s s' : List Tok} {sc : Scenario} (h : generate p s = .ok (sc, s')) :
    (∀ e ∈ sc.privescs, (∃ pr, e.proc = some pr ∧ pr < p.numProcesses) ∧ (∀ o, e.os = some o → o < p.numOs)
        ∧ e.cost = p.privescCost ∧ e.access = 2 ∧ 0 ≤ e.prob ∧ e.prob ≤ 1
        ∧ (p.privescProbs ≠ .none → 0 < e.prob))
    ∧ pairwiseDistinct (sc.privescs.map fun e => (e.proc, e.os)) = true := by
  have T := generate_trace h
  obtain ⟨probs, fuel, s1, s2, hp, s3, he⟩ := T.privescs
  obtain ⟨l1, l2, l3⟩ := actionProbs_ok hp
  obtain ⟨_, hinv, hd, _⟩ := genPrivescs_inv he l1
  refine ⟨fun e he' => ?_, hd⟩
  obtain ⟨⟨a, b, c, d⟩, hq⟩ := hinv e he'
  exact ⟨a, b, c, d, (l2 _ hq).1, (l2 _ hq).2, fun hne => l3 hne _ hq⟩

/-- C15: subnets, symmetric self-connected topology with only the DMZ public, scan costs, step
limit and address-space bounds as requested -/
theorem C15_network {p : Params} {s s' : List Tok} {sc : Scenario} (h : generate p s = .ok (sc, s')) :
    sc.subnets = genSubnets p.period p.userSize p.numHosts ∧
    sc.topo = genTopo sc.subnets.length ∧
    (∀ a b, a < sc.subnets.length → b < sc.subnets.length →
      connB sc a b = adj a b ∧ connB sc a b = connB sc b a) ∧
    (∀ a, a < sc.subnets.length → connB sc a a = true ∧ connB sc a 0 = (a == 0 || a == 1)) ∧
    sc.svcScanCost = p.svcScanCost ∧ sc.osScanCost = p.osScanCost ∧
    sc.subnetScanCost = p.subnetScanCost ∧ sc.procScanCost = p.procScanCost ∧
    sc.stepLimit = p.stepLimit ∧
    sc.subnets.length ≤ sc.bounds.1 ∧ sc.subnets.foldl max 0 ≤ sc.bounds.2 ∧
    (∀ b, p.bounds = some b → sc.bounds = b) := by
  have T := generate_trace h
  have hconn : ∀ a b, a < sc.subnets.length → b < sc.subnets.length → connB sc a b = adj a b := by
    intro a b ha hb
    unfold connB
    rw [T.topo, genTopo_entry _ a b ha hb]
    cases adj a b <;> simp
  have hpos : 0 < sc.subnets.length := by rw [T.subnets]; simp [genSubnets]
  refine ⟨T.subnets, T.topo, ?_, ?_, T.costs.1, T.costs.2.1, T.costs.2.2.1, T.costs.2.2.2.1,
    T.costs.2.2.2.2, ?_, ?_, ?_⟩
  · intro a b ha hb
    exact ⟨hconn a b ha hb, by rw [hconn a b ha hb, hconn b a hb ha, C15_topology_symmetric]⟩
  · intro a ha
    exact ⟨by rw [hconn a a ha ha, C15_topology_reflexive], by rw [hconn a 0 ha hpos, C15_only_dmz_public]⟩
  all_goals
    have hb := T.bounds
    rw [← T.subnets] at hb
    unfold genBounds at hb
    cases hpb : p.bounds with
    | none => simp [hpb] at hb; simp [← hb]
    | some b =>
      obtain ⟨x, y⟩ := b
      simp only [hpb] at hb
      split at hb
      · rename_i hc; injection hb with hb; simp [← hb]; first | omega | exact hc.2.2.1 | exact hc.2.2.2 | skip
      · cases hb

/-! ### sensitive hosts -/

theorem getLastD_eq_getD (l : List Nat) : l.getLastD 0 = l.getD (l.length - 1) 0 := by
  induction l with
  | nil => rfl
  | cons x xs ih =>
    cases xs with
    | nil => rfl
    | cons y ys =>
      simp only [List.getLastD_cons, List.length_cons] at ih ⊢
      simp only [List.getD_eq_getElem?_getD] at ih ⊢
      rw [show ys.length + 1 + 1 - 1 = (ys.length + 1 - 1) + 1 by omega, List.getElem?_cons_succ]
      rw [← ih]

theorem valid_numHosts {p : Params} (hv : p.valid = true) : 2 < p.numHosts := by
  unfold Params.valid at hv
  simp only [Bool.and_eq_true, decide_eq_true_eq] at hv
  exact hv.1.1.1.1.1.1.1.1.1.1.2

/-- C15: the sensitive hosts are the first host of the sensitive subnet and one host of a user
subnet (the last host of the last subnet unless `random_goal`), with the requested values -/
theorem C15_sensitive {p : Params} {s s' : List Tok} {sc : Scenario} (h : generate p s = .ok (sc, s'))
    (hconst : p.period = 40 ∧ p.userSize = 5) :
    ∃ a2 : Addr, sc.sens = [((2, 0), p.rSensitive), (a2, p.rUser)] ∧ 3 ≤ a2.1 ∧ a2.1 < sc.subnets.length
      ∧ a2.2 < sc.subnets.getD a2.1 0
      ∧ (p.randomGoal = false → a2 = (sc.subnets.length - 1, sc.subnets.getLastD 0 - 1)) := by
  have T := generate_trace h
  obtain ⟨s1, s2, hs⟩ := T.sens
  have hn := valid_numHosts T.valid
  obtain ⟨_, hpos, hlen, _⟩ := C15_subnets_partition p.numHosts hn
  have hsub : sc.subnets = genSubnets 40 5 p.numHosts := by rw [T.subnets, hconst.1, hconst.2]
  rw [← hsub] at hpos hlen
  unfold genSensitive at hs
  split at hs
  · rename_i hc
    obtain ⟨sv, s3, h1, hs⟩ := bind_ok hs
    obtain ⟨hv', s4, h2, hs⟩ := bind_ok hs
    obtain ⟨hsens, _⟩ := pure_ok hs
    have r1 := randint_ok h1
    have r2 := randint_ok h2
    refine ⟨(sv.toNat, hv'.toNat), hsens, ?_, ?_, ?_, ?_⟩
    · simp only; omega
    · simp only; omega
    · simp only; omega
    · intro hr; simp [hr] at hc
  · rename_i hc
    obtain ⟨hsens, _⟩ := pure_ok hs
    refine ⟨_, hsens, ?_, ?_, ?_, fun _ => rfl⟩
    · simp only; omega
    · simp only; omega
    · simp only
      rw [getLastD_eq_getD]
      have hmem : sc.subnets.getD (sc.subnets.length - 1) 0 ∈ sc.subnets := by
        rw [List.getD_eq_getElem?_getD, List.getElem?_eq_getElem (by omega)]
        simp
      have := hpos _ hmem
      omega

/-! ### hosts: addresses -/

theorem correlatedHosts_addrs (p : Params) (sens : List (Addr × Int)) :
    ∀ (as : List Addr) (n : Nat) (prev : Prev) (s s' : List Tok) (hs : List HostDef),
    correlatedHosts p sens as n prev s = .ok (hs, s') → hs.map (·.addr) = as := by
  intro as
  induction as with
  | nil => intro n prev s s' hs h; simp only [correlatedHosts] at h; obtain ⟨rfl, _⟩ := pure_ok h; rfl
  | cons a as ih =>
    intro n prev s s' hs h
    simp only [correlatedHosts] at h
    obtain ⟨⟨cfg, prev'⟩, s1, _, h⟩ := bind_ok h
    obtain ⟨rest, s2, h2, h⟩ := bind_ok h
    obtain ⟨rfl, _⟩ := pure_ok h
    simp [mkHost, ih _ _ _ _ _ h2]

theorem uniformHosts_addrs (p : Params) (sens : List (Addr × Int)) (sc pc : List (List Bool)) :
    ∀ (as : List Addr) (s s' : List Tok) (hs : List HostDef),
    uniformHosts p sens sc pc as s = .ok (hs, s') → hs.map (·.addr) = as := by
  intro as
  induction as with
  | nil => intro s s' hs h; simp only [uniformHosts] at h; obtain ⟨rfl, _⟩ := pure_ok h; rfl
  | cons a as ih =>
    intro s s' hs h
    simp only [uniformHosts] at h
    obtain ⟨si, s1, _, h⟩ := bind_ok h
    obtain ⟨pi, s2, _, h⟩ := bind_ok h
    obtain ⟨os, s3, _, h⟩ := bind_ok h
    obtain ⟨rest, s4, h4, h⟩ := bind_ok h
    obtain ⟨rfl, _⟩ := pure_ok h
    simp [mkHost, ih _ _ _ h4]

theorem setOs_addr (h : HostDef) (o : Option Nat) : (setOs h o).addr = h.addr := by
  cases o <;> rfl

theorem updateVulnerable_addr (es : List ExploitDef) (ps : List PrivescDef) (lvl : Nat) :
    ∀ (tries : Nat) (h h' : HostDef) (s s' : List Tok),
    updateVulnerable es ps lvl tries h s = .ok (h', s') → h'.addr = h.addr := by
  intro tries
  induction tries with
  | zero => intro h h' s s' hh; simp only [updateVulnerable] at hh; exact (fail_ok hh).elim
  | succ tries ih =>
    intro h h' s s' hh
    simp only [updateVulnerable] at hh
    obtain ⟨ei, s1, _, hh⟩ := bind_ok hh
    split at hh
    · obtain ⟨rfl, _⟩ := pure_ok hh; simp [setOs_addr]
    · split at hh
      · have := ih _ _ _ _ hh; simpa [setOs_addr] using this
      · obtain ⟨pi, s2, _, hh⟩ := bind_ok hh
        obtain ⟨rfl, _⟩ := pure_ok hh
        simp [setOs_addr]

theorem ensurePass1_addrs (es : List ExploitDef) (ps : List PrivescDef) (sens : List (Addr × Int))
    (retries : Nat) :
    ∀ (hs : List HostDef) (vul : List Nat) (s s' : List Tok) (r : List HostDef × List Nat),
    ensurePass1 es ps sens retries hs vul s = .ok (r, s') → r.1.map (·.addr) = hs.map (·.addr) := by
  intro hs
  induction hs with
  | nil => intro vul s s' r h; simp only [ensurePass1] at h; obtain ⟨rfl, _⟩ := pure_ok h; rfl
  | cons x xs ih =>
    intro vul s s' r h
    simp only [ensurePass1] at h
    split at h
    · obtain ⟨⟨rest, vul'⟩, s1, h1, h⟩ := bind_ok h
      obtain ⟨rfl, _⟩ := pure_ok h
      simp [ih _ _ _ _ h1]
    · split at h
      · obtain ⟨x', s1, hx, h⟩ := bind_ok h
        obtain ⟨⟨rest, vul'⟩, s2, h1, h⟩ := bind_ok h
        obtain ⟨rfl, _⟩ := pure_ok h
        have hx' : x'.addr = x.addr := by
          unfold fixSensitive at hx
          split at hx
          · exact updateVulnerable_addr _ _ _ _ _ _ _ _ hx
          · obtain ⟨rfl, _⟩ := pure_ok hx; rfl
        simp [ih _ _ _ _ h1, hx']
      · obtain ⟨⟨rest, vul'⟩, s1, h1, h⟩ := bind_ok h
        obtain ⟨rfl, _⟩ := pure_ok h
        simp [ih _ _ _ _ h1]

theorem updateAt_addrs (es : List ExploitDef) (ps : List PrivescDef) (retries : Nat) (a : Addr) :
    ∀ (hs hs' : List HostDef) (s s' : List Tok),
    updateAt es ps retries a hs s = .ok (hs', s') → hs'.map (·.addr) = hs.map (·.addr) := by
  intro hs
  induction hs with
  | nil => intro hs' s s' h; simp only [updateAt] at h; obtain ⟨rfl, _⟩ := pure_ok h; rfl
  | cons x xs ih =>
    intro hs' s s' h
    simp only [updateAt] at h
    split at h
    · obtain ⟨x', s1, hx, h⟩ := bind_ok h
      obtain ⟨rfl, _⟩ := pure_ok h
      simp [updateVulnerable_addr _ _ _ _ _ _ _ _ hx]
    · obtain ⟨rest, s1, h1, h⟩ := bind_ok h
      obtain ⟨rfl, _⟩ := pure_ok h
      simp [ih _ _ _ h1]

theorem ensurePass2_addrs (es : List ExploitDef) (ps : List PrivescDef) (retries : Nat) :
    ∀ (subs : List (Nat × Nat)) (vul : List Nat) (hs hs' : List HostDef) (s s' : List Tok),
    ensurePass2 es ps retries subs vul hs s = .ok (hs', s') → hs'.map (·.addr) = hs.map (·.addr) := by
  intro subs
  induction subs with
  | nil => intro vul hs hs' s s' h; simp only [ensurePass2] at h; obtain ⟨rfl, _⟩ := pure_ok h; rfl
  | cons x xs ih =>
    intro vul hs hs' s s' h
    obtain ⟨size, subnet⟩ := x
    simp only [ensurePass2] at h
    split at h
    · exact ih _ _ _ _ _ h
    · obtain ⟨k, s1, _, h⟩ := bind_ok h
      obtain ⟨hs1, s2, h1, h⟩ := bind_ok h
      rw [ih _ _ _ _ _ h, updateAt_addrs _ _ _ _ _ _ _ _ h1]

theorem flatMap_zipIdx_length (l : List Nat) (k : Nat) :
    ((l.zipIdx k).flatMap fun (p : Nat × Nat) => (List.range p.1).map fun h => (p.2, h)).length
      = l.foldl (· + ·) 0 := by
  induction l generalizing k with
  | nil => simp
  | cons x xs ih =>
    simp only [List.zipIdx_cons, List.flatMap_cons, List.length_append, List.length_map,
      List.length_range, List.foldl_cons, ih]
    rw [foldl_add_acc xs (0 + x)]; omega

theorem allAddrs_length (l : List Nat) : (allAddrs l).length = (l.drop 1).foldl (· + ·) 0 := by
  unfold allAddrs
  cases l with
  | nil => simp
  | cons x xs =>
    simp only [List.zipIdx_cons, List.drop_succ_cons, List.drop_zero]
    exact flatMap_zipIdx_length xs (0 + 1)

/-- C15: the hosts are exactly the addresses of the generated subnets, in order — `num_hosts` of
them — each with the sensitive value or the base value, and the requested discovery value -/
theorem C15_hosts_addresses {p : Params} {s s' : List Tok} {sc : Scenario}
    (h : generate p s = .ok (sc, s')) (hconst : p.period = 40 ∧ p.userSize = 5) :
    sc.hosts.map (·.addr) = allAddrs sc.subnets ∧ sc.hosts.length = p.numHosts := by
  have T := generate_trace h
  obtain ⟨hosts0, s1, s2, s3, s4, h0, h1, _⟩ := T.hosts
  have a0 : hosts0.map (·.addr) = allAddrs sc.subnets := by
    unfold initialHosts at h0
    split at h0
    · exact uniformHosts_addrs _ _ _ _ _ _ _ _ h0
    · exact correlatedHosts_addrs _ _ _ _ _ _ _ _ h0
  have a1 : sc.hosts.map (·.addr) = hosts0.map (·.addr) := by
    unfold ensureVulnerable at h1
    obtain ⟨r, s5, hp1, hp2⟩ := bind_ok h1
    rw [ensurePass2_addrs _ _ _ _ _ _ _ _ _ hp2, ensurePass1_addrs _ _ _ _ _ _ _ _ _ hp1]
  have hn := valid_numHosts T.valid
  refine ⟨a1.trans a0, ?_⟩
  have : sc.hosts.length = (allAddrs sc.subnets).length := by rw [← a1.trans a0]; simp
  rw [this, allAddrs_length, T.subnets, hconst.1, hconst.2]
  exact (C15_subnets_partition p.numHosts hn).1

/-! ### hosts: exactly one OS, at least one service and one process -/

theorem valid_pos {p : Params} (hv : p.valid = true) :
    0 < p.numServices ∧ 0 < p.numProcesses ∧ 0 < p.numOs ∧ 0 < p.restrictiveness := by
  unfold Params.valid at hv
  simp only [Bool.and_eq_true, decide_eq_true_eq] at hv
  exact ⟨hv.1.1.1.1.1.1.1.1.1.1.1, hv.1.1.1.1.1.1.1.1.1.2, hv.1.1.1.1.1.1.2, hv.2⟩

/-- C15: every host runs exactly one OS and at least one service and one process — also after
`_ensure_host_vulnerability` rewrote some hosts -/
theorem C15_hosts_wf {p : Params} {s s' : List Tok} {sc : Scenario} (h : generate p s = .ok (sc, s')) :
    ∀ hd ∈ sc.hosts, HostWF p hd ∧ hostOk p hd = true := by
  have T := generate_trace h
  obtain ⟨hs1, hp1, _, _⟩ := valid_pos T.valid
  obtain ⟨hosts0, s1, s2, s3, s4, h0, h1, _⟩ := T.hosts
  have w0 : ∀ hd ∈ hosts0, HostWF p hd := by
    unfold initialHosts at h0
    split at h0
    · exact uniformHosts_wf p _ hs1 hp1 _ _ _ _ h0
    · exact correlatedHosts_wf p _ _ _ _ _ _ _ h0 ⟨by simp, by simp, by simp, by simp⟩
  have hes : ∀ e ∈ sc.exploits, e.svc < p.numServices ∧ ∀ o, e.os = some o → o < p.numOs := by
    intro e he; have := (C15_exploits h).1 e he; exact ⟨this.1, this.2.1⟩
  have hps : ∀ e ∈ sc.privescs, ∀ pr, e.proc = some pr → pr < p.numProcesses := by
    intro e he pr hpr
    obtain ⟨⟨pr', h1', h2'⟩, _⟩ := (C15_privescs h).1 e he
    rw [h1'] at hpr; injection hpr with hpr; omega
  unfold ensureVulnerable at h1
  obtain ⟨r, s5, hp1', hp2'⟩ := bind_ok h1
  have w1 := ensurePass1_wf p _ _ _ _ hes hps _ _ _ _ _ hp1' w0
  have w2 := ensurePass2_wf p _ _ _ hes hps _ _ _ _ _ _ hp2' w1
  intro hd hhd
  exact ⟨w2 hd hhd, hostOk_of_wf (w2 hd hhd)⟩

/-! ### firewall -/

theorem genFirewall_keys (numServices restr : Nat) (topo : List (List Int)) (es : List ExploitDef)
    (hosts : List HostDef) :
    ∀ (pairs : List (Nat × Nat)) (s s' : List Tok) (fw : List ((Nat × Nat) × List Nat)),
    genFirewall numServices restr topo es hosts pairs s = .ok (fw, s') →
    fw.map (·.1) = pairs.filter fun (a, b) => a != b && (topo.getD a []).getD b 0 != 0 := by
  intro pairs
  induction pairs with
  | nil => intro s s' fw h; simp only [genFirewall] at h; obtain ⟨rfl, _⟩ := pure_ok h; rfl
  | cons x xs ih =>
    intro s s' fw h
    obtain ⟨a, b⟩ := x
    simp only [genFirewall] at h
    generalize ht : (topo.getD a []).getD b 0 = t at h
    have hfil : ∀ (c : Bool), (a != b && t != 0) = c →
        List.filter (fun (x : Nat × Nat) => x.1 != x.2 && (topo.getD x.1 []).getD x.2 0 != 0) ((a, b) :: xs)
        = if c then (a, b) :: List.filter (fun (x : Nat × Nat) => x.1 != x.2 && (topo.getD x.1 []).getD x.2 0 != 0) xs
          else List.filter (fun (x : Nat × Nat) => x.1 != x.2 && (topo.getD x.1 []).getD x.2 0 != 0) xs := by
      intro c hc
      rw [List.filter_cons]
      simp only [ht, hc]
    split at h
    · rename_i hc
      have : (a != b && t != 0) = false := by
        simp only [Bool.or_eq_true, beq_iff_eq] at hc
        rcases hc with hc | hc <;> simp [hc]
      have := hfil false this
      simp only [Bool.false_eq_true, if_false] at this
      rw [ih _ _ _ h]; exact this.symm
    · rename_i hc
      have hk : (a != b && t != 0) = true := by
        simp only [Bool.or_eq_true, beq_iff_eq, not_or] at hc
        simp [hc.1, hc.2]
      have := hfil true hk
      simp only [if_true] at this
      split at h
      · obtain ⟨r, s1, h1, h⟩ := bind_ok h
        obtain ⟨rfl, _⟩ := pure_ok h
        rw [List.map_cons, ih _ _ _ h1]; exact this.symm
      · obtain ⟨allowed, s1, _, h⟩ := bind_ok h
        obtain ⟨r, s2, h1, h⟩ := bind_ok h
        obtain ⟨rfl, _⟩ := pure_ok h
        rw [List.map_cons, ih _ _ _ h1]; exact this.symm

/-- C15: the firewall has a rule for exactly the ordered pairs of distinct connected subnets — in
particular one in each direction, since the topology is symmetric -/
theorem C15_firewall_keys {p : Params} {s s' : List Tok} {sc : Scenario}
    (h : generate p s = .ok (sc, s')) :
    sc.fw.map (·.1) = (fwPairs sc.subnets.length).filter fun (a, b) => a != b && connB sc a b := by
  have T := generate_trace h
  obtain ⟨hosts0, s1, s2, s3, s4, _, _, hf⟩ := T.hosts
  rw [genFirewall_keys _ _ _ _ _ _ _ _ _ hf]
  apply List.filter_congr
  intro ⟨a, b⟩ hab
  simp only [fwPairs, List.mem_flatMap, List.mem_map, List.mem_range, Prod.mk.injEq] at hab
  obtain ⟨a', ha, b', hb, rfl, rfl⟩ := hab
  unfold connB
  simp only [T.topo]
  rw [genTopo_entry _ _ _ ha hb]
  cases adj a' b' <;> simp

/-- C15: every firewall rule lists only defined services, each once; rules between user subnets
allow every service; every other rule allows at most `restrictiveness` services -/
theorem C15_firewall_rules {p : Params} {s s' : List Tok} {sc : Scenario}
    (h : generate p s = .ok (sc, s')) : ∀ e ∈ sc.fw, RuleShape p.numServices p.restrictiveness e := by
  have T := generate_trace h
  obtain ⟨hosts0, s1, s2, s3, s4, _, _, hf⟩ := T.hosts
  exact genFirewall_shape _ _ _ _ _ (fun e he => ((C15_exploits h).1 e he).1) _ _ _ _ hf

/-! ### termination: the retry loops can always make progress -/

theorem osOfIdx_inj (O a b : Nat) (ha : a ≤ O) (hb : b ≤ O) (h : osOfIdx O a = osOfIdx O b) : a = b := by
  unfold osOfIdx at h
  split at h <;> split at h <;> simp_all <;> omega

/-- C15 (termination of `_generate_exploits`): as long as fewer exploits than requested exist and
the request does not exceed the number of distinct (service, OS) keys, some draw of service and OS
is new — the loop cannot be stuck -/
theorem C15_exploit_loop_progress (S O n : Nat) (acc : List ExploitDef) (h1 : acc.length < n)
    (h2 : n ≤ S * (O + 1)) :
    ∃ srv osi, srv < S ∧ osi < O + 1 ∧
      acc.any (fun e => e.svc == srv && e.os == osOfIdx O osi) = false := by
  let f : Nat → Nat × Option Nat := fun i => (i / (O + 1), osOfIdx O (i % (O + 1)))
  have hinj : ∀ a b, a ≠ b → f a ≠ f b := by
    intro a b hab heq
    simp only [f, Prod.mk.injEq] at heq
    have hm := osOfIdx_inj O _ _ (Nat.lt_succ_iff.mp (Nat.mod_lt a (by omega)))
      (Nat.lt_succ_iff.mp (Nat.mod_lt b (by omega))) heq.2
    apply hab
    rw [← Nat.div_add_mod a (O + 1), ← Nat.div_add_mod b (O + 1), heq.1, hm]
  have hnd : ((List.range (S * (O + 1))).map f).Nodup :=
    List.Pairwise.map f hinj List.nodup_range
  by_cases hall : ∀ i < S * (O + 1), f i ∈ acc.map (fun e => (e.svc, e.os))
  · exfalso
    have hsub : (List.range (S * (O + 1))).map f ⊆ acc.map (fun e => (e.svc, e.os)) := by
      intro x hx
      obtain ⟨i, hi, rfl⟩ := List.mem_map.mp hx
      exact hall i (List.mem_range.mp hi)
    have := hnd.length_le_of_subset hsub
    simp at this; omega
  · obtain ⟨i, hi'⟩ := Classical.not_forall.mp hall
    obtain ⟨hi, hni⟩ := Classical.not_imp.mp hi'
    refine ⟨i / (O + 1), i % (O + 1), ?_, Nat.mod_lt i (by omega), ?_⟩
    · exact Nat.div_lt_of_lt_mul (by rw [Nat.mul_comm]; exact hi)
    · cases hc : acc.any (fun e => e.svc == i / (O + 1) && e.os == osOfIdx O (i % (O + 1))) with
      | false => rfl
      | true =>
        exfalso; apply hni
        simp only [List.any_eq_true, Bool.and_eq_true, beq_iff_eq] at hc
        obtain ⟨e, he, h3, h4⟩ := hc
        exact List.mem_map.mpr ⟨e, he, by simp [f, h3, h4]⟩

/-- C15 (termination): the weights used by the host-configuration sampler have positive
denominators for every valid `alpha` — no division by zero (`alpha_V = 1.0` included) -/
theorem C15_no_division_by_zero (alpha : Rat) (n : Nat) (ha : 0 < alpha) (hn : 1 ≤ n) :
    0 < alpha + (n : Rat) - 1 := by
  have h1 : (1 : Rat) ≤ (n : Rat) := by exact_mod_cast hn
  grind

end NASim.Gen
