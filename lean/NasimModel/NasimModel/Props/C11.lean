import NasimModel.Generated.ActionsOk
import NasimModel.Model.Env
/-!
# C11 — action spaces enumerate exactly the scenario's actions
-/
namespace NASim

/-- actions per host: four scans, one per exploit, one per escalation -/
def Scenario.perHost (sc : Scenario) : Nat := 4 + sc.exploits.length + sc.privescs.length

theorem hostActions_length (sc : Scenario) (t : Addr) : (hostActions sc t).length = sc.perHost := by
  simp [hostActions, Scenario.perHost]; omega

theorem flatMap_const_length {α β} (l : List α) (f : α → List β) (k : Nat)
    (h : ∀ x, (f x).length = k) : (l.flatMap f).length = l.length * k := by
  induction l with
  | nil => simp
  | cons x xs ih => simp [List.flatMap_cons, h, ih, Nat.add_mul]; omega

/-- C11: the flat space has exactly `hosts × (4 + #exploits + #escalations)` actions — the
scenario's advertised action count -/
theorem C11_flat_length (sc : Scenario) : (flatActions sc).length = sc.actionSpaceSize := by
  unfold flatActions Scenario.actionSpaceSize
  rw [flatMap_const_length _ _ sc.perHost (hostActions_length sc)]
  simp only [Scenario.perHost, List.length_map]
  congr 1; omega

theorem flatMap_index {α β} [Inhabited β] (l : List α) (f : α → List β) (k : Nat) (hk : 0 < k)
    (h : ∀ x, (f x).length = k) (i : Nat) (hi : i < l.length * k) :
    (l.flatMap f)[i]? = (l[i / k]?).bind (fun x => (f x)[i % k]?) := by
  induction l generalizing i with
  | nil => simp at hi
  | cons x xs ih =>
    simp only [List.flatMap_cons]
    by_cases hlt : i < k
    · rw [List.getElem?_append_left (by rw [h]; exact hlt)]
      simp [Nat.div_eq_of_lt hlt, Nat.mod_eq_of_lt hlt]
    · have hge : k ≤ i := Nat.le_of_not_lt hlt
      rw [List.getElem?_append_right (by rw [h]; exact hge), h]
      have hi' : i - k < xs.length * k := by
        simp only [List.length_cons, Nat.add_mul, Nat.one_mul] at hi; omega
      rw [ih (i - k) hi']
      have h1 : i / k = (i - k) / k + 1 := by
        conv => lhs; rw [← Nat.sub_add_cancel hge]
        exact Nat.add_div_right _ hk
      have h2 : i % k = (i - k) % k := by
        conv => lhs; rw [← Nat.sub_add_cancel hge]
        exact Nat.add_mod_right _ _
      rw [h1, h2]; simp

/-- C11: index `i` of the flat space is slot `i mod k` of host `i div k` — exactly one action per
host and scan type, per host and exploit, per host and escalation, in scenario order: nothing is
missing or duplicated, and the mapping is a function of the scenario alone -/
theorem C11_flat_index (sc : Scenario) (i : Nat) (hi : i < sc.hosts.length * sc.perHost) :
    (flatActions sc)[i]? =
      (sc.hosts[i / sc.perHost]?).bind (fun h => (hostActions sc h.addr)[i % sc.perHost]?) := by
  unfold flatActions
  have hk : 0 < sc.perHost := by simp [Scenario.perHost]; omega
  have := flatMap_index (sc.hosts.map (·.addr)) (hostActions sc) sc.perHost hk
    (hostActions_length sc) i (by simpa using hi)
  rw [this]
  simp [List.getElem?_map]
  cases sc.hosts[i / sc.perHost]? <;> simp

/-- C11: the slots of one host, with cost, probability, service / process, OS and granted access
as the scenario defines them -/
theorem C11_host_slots (sc : Scenario) (t : Addr) :
    hostActions sc t =
      [{ kind := .svcScan, target := t, cost := sc.svcScanCost, prob := 1, req := 1 },
       { kind := .osScan, target := t, cost := sc.osScanCost, prob := 1, req := 1 },
       { kind := .subnetScan, target := t, cost := sc.subnetScanCost, prob := 1, req := 1 },
       { kind := .procScan, target := t, cost := sc.procScanCost, prob := 1, req := 1 }]
      ++ sc.exploits.map (fun e => { kind := .exploit, target := t, cost := e.cost, prob := e.prob,
                                     req := 1, svc := e.svc, os := e.os, grant := e.access })
      ++ sc.privescs.map (fun p => { kind := .privesc, target := t, cost := p.cost, prob := p.prob,
                                     req := 1, proc := p.proc, os := p.os, grant := p.access }) := by
  rfl

theorem mem_flat (sc : Scenario) (a : Action) :
    a ∈ flatActions sc ↔ ∃ h ∈ sc.hosts, a ∈ hostActions sc h.addr := by
  simp only [flatActions, List.mem_flatMap, List.mem_map]
  constructor
  · rintro ⟨t, ⟨h, hm, rfl⟩, ha⟩; exact ⟨h, hm, ha⟩
  · rintro ⟨h, hm, ha⟩; exact ⟨h.addr, ⟨h, hm, rfl⟩, ha⟩

/-- the addresses of the network all have a host (what loader and generator guarantee) -/
def AddrComplete (sc : Scenario) : Prop :=
  ∀ s h, 1 ≤ s → s < sc.subnets.length → h < sc.subnets.getD s 1 → ∃ hd ∈ sc.hosts, hd.addr = (s, h)

/-- C11: the target of a decoded vector is `(v1 + 1, v2 mod size of that subnet)` -/
theorem C11_param_target (sc : Scenario) (v : List Nat) :
    decodeParam sc v = noopAction ∨
    (decodeParam sc v).target = (v.getD 1 0 + 1, v.getD 2 0 % sc.subnets.getD (v.getD 1 0 + 1) 1) := by
  unfold decodeParam
  simp only []
  split
  · split <;> simp [exploitAction]
  · split <;> simp [privescAction]
  all_goals simp [scanAction]

/-- C11: every vector of the parameterised space decodes (the function is total) to the no-op or
to a member of the flat set -/
theorem C11_param_in_flat (sc : Scenario) (v : List Nat) (hc : AddrComplete sc)
    (h1 : v.getD 1 0 + 1 < sc.subnets.length) (hpos : 0 < sc.subnets.getD (v.getD 1 0 + 1) 1) :
    decodeParam sc v = noopAction ∨ decodeParam sc v ∈ flatActions sc := by
  obtain ⟨hd, hmem, haddr⟩ := hc (v.getD 1 0 + 1) (v.getD 2 0 % sc.subnets.getD (v.getD 1 0 + 1) 1)
    (by omega) h1 (Nat.mod_lt _ hpos)
  unfold decodeParam
  simp only []
  split
  · split
    · rename_i e he
      right; rw [mem_flat]; refine ⟨hd, hmem, ?_⟩
      rw [haddr]; simp only [hostActions]
      have : e ∈ sc.exploits := List.mem_of_find?_eq_some he
      simp only [List.mem_append, List.mem_map]
      exact Or.inl (Or.inr ⟨e, this, rfl⟩)
    · left; rfl
  · split
    · rename_i p hp
      right; rw [mem_flat]; refine ⟨hd, hmem, ?_⟩
      rw [haddr]; simp only [hostActions]
      have : p ∈ sc.privescs := List.mem_of_find?_eq_some hp
      simp only [List.mem_append, List.mem_map]
      exact Or.inr ⟨p, this, rfl⟩
    · left; rfl
  all_goals (right; rw [mem_flat]; refine ⟨hd, hmem, ?_⟩; rw [haddr]; simp [hostActions])

/-- C11: an undefined service/OS (process/OS) combination decodes to the zero-cost no-op, a
defined one to the *first* definition with that key -/
theorem C11_param_exploit (sc : Scenario) (v : List Nat) (h0 : v.getD 0 0 = 0) :
    let os := if v.getD 3 0 == 0 then none else some (v.getD 3 0 - 1)
    (exploitFor sc (v.getD 4 0) os = none → decodeParam sc v = noopAction ∧ noopAction.cost = 0) ∧
    (∀ e, exploitFor sc (v.getD 4 0) os = some e →
        decodeParam sc v = exploitAction (v.getD 1 0 + 1, v.getD 2 0 % sc.subnets.getD (v.getD 1 0 + 1) 1) e
        ∧ e ∈ sc.exploits ∧ e.svc = v.getD 4 0 ∧ e.os = os) := by
  intro os
  unfold decodeParam
  simp only [h0]
  refine ⟨fun h => ?_, fun e h => ?_⟩
  · simp [os] at h; simp [h, noopAction]
  · have hm := List.mem_of_find?_eq_some h
    have hp := List.find?_some h
    simp only [Bool.and_eq_true, beq_iff_eq] at hp
    simp [os] at h
    simp [h, hm, hp.1, hp.2, os]

/-- C11: the action mask has one entry per flat action, set exactly for the actions whose target
host is currently discovered -/
theorem C11_mask (sc : Scenario) (s : State) :
    (actionMask sc s).length = sc.actionSpaceSize ∧
    ∀ i : Nat, (actionMask sc s)[i]? = ((flatActions sc)[i]?).map (fun (a : Action) => (s.get a.target).disc) := by
  refine ⟨by simp [actionMask, C11_flat_length], fun (i : Nat) => by simp [actionMask]⟩

end NASim
