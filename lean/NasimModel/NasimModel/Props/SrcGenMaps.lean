import NasimModel.Generated.SrcGen
import NasimModel.Model.Gen
import NasimModel.Proofs.SrcTie
/-!
# Source tie: the name → flag dictionaries of a generated host

`ScenarioGenerator._convert_to_os_map`, `_convert_to_service_map` and `_convert_to_process_map` translated from their
source text (`Generated/SrcGen.lean`) build a Python `dict` by one store per name (`PyRt.dictSet`, insertion ordered,
a present key is overwritten in place).  The model represents these dictionaries by flag lists indexed by the name
(`HostDef.os = onehotB numOs os`, `HostDef.svc = cfg.2.1`, `HostDef.proc = cfg.2.2`, `mkHost`).  The ties say that this
is the same thing: over the generator's own name lists (`List.range n`, `Src_generate_names`) the dictionary the loop
builds has exactly the keys `0 … n-1` once each, in order, and the value under `i` is the model's flag `i`
(`dictSetNat_fresh`: a loop over pairwise different keys never overwrites).
-/
namespace NASim
open NASim.Gen

theorem dictSetNat_fresh (d : List (Nat × Bool)) (k : Nat) (v : Bool) (h : k ∉ d.map Prod.fst) :
    PyRt.dictSet d k v = d ++ [(k, v)] := by
  unfold PyRt.dictSet
  have : d.any (fun e => e.1 == k) = false := by
    rw [Bool.eq_false_iff]
    intro hc
    rw [List.any_eq_true] at hc
    obtain ⟨e, he, hk⟩ := hc
    exact h (List.mem_map.mpr ⟨e, he, by simpa using hk⟩)
  simp [this]

/-- a loop of dictionary stores over pairwise different fresh keys appends the pairs in order -/
theorem fold_dictSet (l d : List (Nat × Bool)) (h : (d.map Prod.fst ++ l.map Prod.fst).Nodup) :
    l.foldl (fun s x => PyRt.dictSet s x.1 x.2) d = d ++ l := by
  induction l generalizing d with
  | nil => simp
  | cons x xs ih =>
    have hx : x.1 ∉ d.map Prod.fst := by
      intro hc
      rw [List.nodup_append] at h
      exact h.2.2 _ hc _ (by simp) rfl
    rw [List.foldl_cons, dictSetNat_fresh d x.1 x.2 hx, ih]
    · simp
    · have : (d ++ [(x.1, x.2)]).map Prod.fst ++ xs.map Prod.fst = d.map Prod.fst ++ (x :: xs).map Prod.fst := by simp
      rw [this]; exact h

theorem zip_keys_nodup (l1 : List Nat) (l2 : List Bool) (h : l1.Nodup) : ((l1.zip l2).map Prod.fst).Nodup := by
  induction l1 generalizing l2 with
  | nil => simp
  | cons a as ih =>
    cases l2 with
    | nil => simp
    | cons b bs =>
      rw [List.nodup_cons] at h
      simp only [List.zip_cons_cons, List.map_cons, List.nodup_cons]
      refine ⟨?_, ih bs h.2⟩
      intro hc
      obtain ⟨e, he, hk⟩ := List.mem_map.mp hc
      have := (List.of_mem_zip (a := e.1) (b := e.2) he).1
      rw [hk] at this
      exact h.1 this

theorem range_zip_keys (n : Nat) (c : List Bool) : (((List.range n).zip c).map Prod.fst).Nodup :=
  zip_keys_nodup _ _ List.nodup_range

/-- `_convert_to_service_map` over the generated service names: entry `i` of the dictionary is `(i, config[i])` -/
theorem Src_convert_service_map (n : Nat) (config : List Bool) :
    SrcGen.ScenarioGenerator._convert_to_service_map (List.range n) config = (List.range n).zip config := by
  unfold SrcGen.ScenarioGenerator._convert_to_service_map
  simp only []
  rw [forEach_next ((List.range n).zip config) [] (fun x s => PyRt.dictSet s x.1 x.2)]
  simp only []
  rw [fold_dictSet _ [] (by simpa using range_zip_keys n config)]
  simp

theorem Src_convert_process_map (n : Nat) (config : List Bool) :
    SrcGen.ScenarioGenerator._convert_to_process_map (List.range n) config = (List.range n).zip config := by
  unfold SrcGen.ScenarioGenerator._convert_to_process_map
  simp only []
  rw [forEach_next ((List.range n).zip config) [] (fun x s => PyRt.dictSet s x.1 x.2)]
  simp only []
  rw [fold_dictSet _ [] (by simpa using range_zip_keys n config)]
  simp

/-- `_convert_to_os_map` over the generated OS names: the dictionary is the model's one-hot flag list, key by key -/
theorem Src_convert_os_map (n os : Nat) :
    SrcGen.ScenarioGenerator._convert_to_os_map (List.range n) os = (List.range n).zip (onehotB n os) := by
  unfold SrcGen.ScenarioGenerator._convert_to_os_map
  simp only []
  rw [forEach_next (List.range n) [] (fun x s => PyRt.dictSet s x (x == os))]
  simp only []
  have h := fold_dictSet ((List.range n).map fun i => (i, i == os)) []
    (by simp [List.map_map, Function.comp_def, List.nodup_range])
  rw [List.foldl_map] at h
  rw [h]
  unfold onehotB
  rw [List.zip_map_right]
  simp [List.zip_eq_zipWith, List.zipWith_self]

/-- reading the dictionary back: the flag stored under name `i` is the flag list's entry `i` (what `mkHost` keeps) -/
theorem lookup_range'_zip (c : List Bool) (s i : Nat) :
    (((List.range' s c.length).zip c).lookup i).getD false = (if s ≤ i then c.getD (i - s) false else false) := by
  induction c generalizing s with
  | nil => simp
  | cons b bs ih =>
    simp only [List.length_cons, List.range'_succ, List.zip_cons_cons, List.lookup_cons]
    by_cases he : i = s
    · subst he; simp
    · have hne : (i == s) = false := by simpa using he
      simp only [hne, ih (s + 1)]
      by_cases hle : s ≤ i
      · have h1 : s + 1 ≤ i := by omega
        have h2 : i - s = (i - (s + 1)) + 1 := by omega
        simp only [h1, hle, if_true, h2, List.getD_cons_succ]
      · have h1 : ¬ s + 1 ≤ i := by omega
        simp only [h1, hle, if_false]

theorem lookup_range_zip (n : Nat) (c : List Bool) (i : Nat) (hn : c.length = n) :
    (((List.range n).zip c).lookup i).getD false = c.getD i false := by
  subst hn
  rw [List.range_eq_range', lookup_range'_zip c 0 i]
  simp


/-- `_get_host_value` is the value `mkHost` gives a generated host: the sensitive value when the address is a key of
`sensitive_hosts`, the base value otherwise -/
theorem Src_gen_host_value (p : Params) (sens : List (Addr × Int)) (addr : Addr) (cfg : Cfg) :
    SrcGen.ScenarioGenerator._get_host_value sens p.baseHostValue addr = (mkHost p sens addr cfg).value := rfl

/-- `_is_sensitive_host` is the membership test the model's repair loop (`ensureVulnerable`) uses, and a sensitive host is
exactly one whose value is looked up rather than defaulted -/
theorem Src_is_sensitive_host (sens : List (Addr × Int)) (addr : Addr) :
    SrcGen.ScenarioGenerator._is_sensitive_host sens addr = (sens.lookup addr).isSome := rfl

theorem Src_value_of_sensitive (p : Params) (sens : List (Addr × Int)) (addr : Addr) (cfg : Cfg) (v : Int)
    (h : sens.lookup addr = some v) :
    SrcGen.ScenarioGenerator._is_sensitive_host sens addr = true ∧ (mkHost p sens addr cfg).value = v := by
  simp [SrcGen.ScenarioGenerator._is_sensitive_host, mkHost, h]

theorem Src_value_of_ordinary (p : Params) (sens : List (Addr × Int)) (addr : Addr) (cfg : Cfg)
    (h : SrcGen.ScenarioGenerator._is_sensitive_host sens addr = false) :
    (mkHost p sens addr cfg).value = p.baseHostValue := by
  unfold SrcGen.ScenarioGenerator._is_sensitive_host at h
  cases hl : sens.lookup addr with
  | none => simp [mkHost, hl]
  | some v => simp [hl] at h


theorem onehotB_length (n i : Nat) : (onehotB n i).length = n := by simp [onehotB]

/-- **Capstone of this module.**  The three dictionaries the source builds for a host from a sampled configuration
`cfg = (os, service flags, process flags)` — over the name lists the source itself generates (`_generate_os` …) — read
back, name by name, as the flag lists the model's `mkHost` keeps; and the host's value is the translated
`_get_host_value`.  Hypotheses: the configuration has one flag per generated service / process (what
`_possible_host_configs` / `_sample_config` produce). -/
theorem Src_mkHost_maps (p : Params) (sens : List (Addr × Int)) (addr : Addr) (cfg : Cfg)
    (hs : cfg.2.1.length = p.numServices) (hp : cfg.2.2.length = p.numProcesses) (i : Nat) :
    ((SrcGen.ScenarioGenerator._convert_to_os_map (SrcGen.ScenarioGenerator._generate_os p.numOs) cfg.1).lookup i).getD false
        = (mkHost p sens addr cfg).os.getD i false ∧
    ((SrcGen.ScenarioGenerator._convert_to_service_map (SrcGen.ScenarioGenerator._generate_services p.numServices) cfg.2.1).lookup i).getD false
        = (mkHost p sens addr cfg).svc.getD i false ∧
    ((SrcGen.ScenarioGenerator._convert_to_process_map (SrcGen.ScenarioGenerator._generate_processes p.numProcesses) cfg.2.2).lookup i).getD false
        = (mkHost p sens addr cfg).proc.getD i false ∧
    SrcGen.ScenarioGenerator._get_host_value sens p.baseHostValue addr = (mkHost p sens addr cfg).value := by
  have hos : SrcGen.ScenarioGenerator._generate_os p.numOs = List.range p.numOs := rfl
  have hsv : SrcGen.ScenarioGenerator._generate_services p.numServices = List.range p.numServices := rfl
  have hpr : SrcGen.ScenarioGenerator._generate_processes p.numProcesses = List.range p.numProcesses := rfl
  rw [hos, hsv, hpr, Src_convert_os_map, Src_convert_service_map, Src_convert_process_map]
  refine ⟨?_, ?_, ?_, rfl⟩
  · exact lookup_range_zip _ _ i (onehotB_length _ _)
  · exact lookup_range_zip _ _ i hs
  · exact lookup_range_zip _ _ i hp

example : SrcGen.ScenarioGenerator._convert_to_os_map [0, 1, 2] 1 = [(0, false), (1, true), (2, false)] := by decide
example : SrcGen.ScenarioGenerator._convert_to_service_map [0, 1] [true, false] = [(0, true), (1, false)] := by decide
end NASim
