import NasimModel.Props.SrcObs
import NasimModel.Props.SrcAll
/-!
# Source tie, assembled: the observation of every model step is what the translated source computes

`Src_get_observation` needs the action result to name hosts of the state and a successful action to have its
target in the state; every result of the model's `perform` does (`perform_result_ok`).  Hence the observation
component of `genStep` — the object of the C08 / C09 theorems — is the translated `State.get_observation` run on the
raw arrays of the next state, for every scenario, state, action and draw.
-/
open NASim
namespace NASim

theorem get_not_mem (s : State) (a : Addr) (h : a ∉ s.map (·.addr)) : s.get a = default := by
  unfold State.get
  rw [List.find?_eq_none.2]
  · rfl
  · intro r hr
    simp only [beq_iff_eq]
    intro he
    exact h (List.mem_map.2 ⟨r, hr, he⟩)

theorem hostPerform_no_dict (r : Row) (a : Action) : (hostPerform r a).2.discovered = [] := by
  unfold hostPerform
  repeat' split
  all_goals rfl

theorem subnetScan_keys (n : Net) (s : State) (a : Action) :
    ∀ k ∈ (subnetScan n s a).2.discovered.map (·.1), k ∈ s.map (·.addr) := by
  unfold subnetScan
  by_cases h1 : (s.get a.target).comp = true
  · by_cases h2 : hasAccess (s.get a.target) a.req = true
    · simp [h1, h2]
    · simp [h1, h2]
  · simp [h1]

theorem perform_result_ok (n : Net) (s : State) (a : Action) (u : Rat) :
    ResOk (perform n s a u).1 (perform n s a u).2.1 ∧
    (a.kind ≠ .noop → (perform n s a u).2.1.success = true → a.target ∈ (perform n s a u).1.map (·.addr)) := by
  have haddr := perform_addrs n s a u
  constructor
  · unfold ResOk
    rw [haddr]
    unfold perform
    split
    · simp
    · rename_i r hg
      unfold gate at hg
      repeat' split at hg
      all_goals first | (cases hg; done) | (cases hg; simp)
    · split
      · simp [chanceFail]
      · unfold effect
        split
        · exact subnetScan_keys n s a
        · simp [hostPerform_no_dict]
  · intro hn hs
    rw [haddr]
    apply Classical.byContradiction
    intro hmem
    have hd := get_not_mem s a.target hmem
    have hg : gate n s a = .fail { success := false, connErr := true } := by
      unfold gate
      have : (a.kind == Kind.noop) = false := by simpa using hn
      simp only [this, hd, Bool.false_eq_true, if_false]
      rfl
    unfold perform at hs
    rw [hg] at hs
    simp at hs

/-- the observation of every model step is the translated `State.get_observation` on the raw arrays of the next state -/
theorem Src_step_observation (sc : Scenario) (fo : Bool) (s : State) (a : Action) (u : Rat)
    (h : StateOk sc.layout (perform sc.net s a u).1) :
    (SrcObs.State.get_observation sc.layout (rawOf sc.layout (genStep sc fo s a u).next) a (genStep sc fo s a u).res fo).tensor =
      (genStep sc fo s a u).obs := by
  obtain ⟨h1, h2⟩ := perform_result_ok sc.net s a u
  exact Src_get_observation sc.layout _ a _ fo h h1 h2

end NASim
