import NasimModel.Generated.Gates
import NasimModel.Props.C02
/-!
# C02 — the gates, read off the source text (T1)

`Generated/Gates.lean` is produced on every run by abstractly interpreting the source of
`Network.perform_action` and `Network._perform_subnet_scan`: the early returns before the draw, in
source order, each as a (condition, outcome) pair over a fixed vocabulary.  An edit that reorders,
drops, adds or rewrites a gate changes the table (or makes the text untranslatable) and breaks the
obligation below; the correspondence suite then looks for a failing input.
-/
namespace NASim

/-- C02: the model's precondition gates are the early returns the source spells out, in the
source's order and with the source's outcomes (connection / permission error) -/
theorem C02_gates_from_source (n : Net) (s : State) (a : Action) :
    gate n s a = runGates n s a Generated.srcGates :=
  Generated.gates_match_source n s a

/-- C02: so are the two checks of the subnet scan (target compromised, then required access) -/
theorem C02_scan_gates_from_source (n : Net) (s : State) (a : Action) :
    (∀ r, runScanGates s a Generated.srcScanGates = some r → subnetScan n s a = (s, r)) ∧
    (runScanGates s a Generated.srcScanGates = none → (subnetScan n s a).2.success = true) :=
  Generated.scan_gates_match_source n s a

/-- the table the current source yields (fails to check if the source's gates change) -/
theorem C02_gate_table :
    Generated.srcGates = [(.noop, .success), (.notReachOrDisc, .conn), (.remoteNoPerm, .perm),
      (.exploitNoTraffic, .conn), (.privescNotComp, .conn)] ∧
    Generated.srcScanGates = [(.notCompromised, .conn), (.noAccess, .perm)] := by decide

end NASim
