import NasimModel.Generated.LayoutOk
import NasimModel.Model.Env
import NasimModel.Props.C10
import NasimModel.Props.C08
/-!
# C09 — state and observation vectors follow the documented layout
-/
namespace NASim

/-- a row whose address lies inside the address-space bounds and which carries one flag per OS,
service and process (what `vectorize` is given for every host of a valid scenario) -/
def RowWF (L : Layout) (r : Row) : Prop :=
  r.addr.1 < L.b0 ∧ r.addr.2 < L.b1 ∧ RowFits L r

theorem set_app_right (A B : List Int) (i j : Nat) (x : Int) (h : i = A.length + j) :
    (A ++ B).set i x = A ++ B.set j x := by
  subst h; rw [List.set_append_right _ _ (by omega)]; simp

theorem set_app_left (A B : List Int) (i : Nat) (x : Int) (h : i < A.length) :
    (A ++ B).set i x = A.set i x ++ B := List.set_append_left _ _ h

theorem zeros_add (a b : Nat) : zeros (a + b) = zeros a ++ zeros b := by
  simp [zeros, List.replicate_append_replicate]

theorem zeros_set (n i : Nat) (h : i < n) : (zeros n).set i 1 = onehot n i := by
  apply List.ext_getElem
  · simp [zeros, onehot]
  · intro j h1 h2
    simp only [zeros, onehot, List.getElem_set, List.getElem_replicate, List.getElem_map,
      List.getElem_range]
    by_cases hij : i = j
    · simp [hij]
    · have : ¬ j = i := fun h => hij h.symm
      simp [hij, this]

theorem writeFrom_block (A C xs : List Int) (k st : Nat) (hst : st = A.length) (hk : xs.length = k) :
    writeFrom (A ++ zeros k ++ C) st xs = A ++ xs ++ C := by
  induction xs generalizing A k st with
  | nil => subst hk; simp [writeFrom, zeros]
  | cons x xs ih =>
    subst hk
    simp only [writeFrom, List.length_cons]
    have h1 : (A ++ zeros (xs.length + 1) ++ C).set st x = (A ++ [x]) ++ zeros xs.length ++ C := by
      rw [List.append_assoc, set_app_right A _ st 0 x (by omega)]
      simp [zeros, List.replicate_succ]
    rw [h1, ih (A ++ [x]) xs.length (st + 1) (by simp [hst]) rfl]
    simp

/-- C09: writing a host through the index arithmetic of `_update_vector_idxs` (`vectorize`)
produces exactly the documented row — subnet one-hot, host one-hot, compromised, reachable,
discovered, value, discovery value, access, OS flags, service flags, process flags — for every
choice of address-space bounds and numbers of OS / services / processes -/
theorem C09_layout_concat (L : Layout) (r : Row) (h : RowWF L r) : vectorize L r = encodeRow L r := by
  obtain ⟨hs, hh, ho, hv, hp⟩ := h
  unfold vectorize encodeRow
  simp only [Layout.compIdx, Layout.reachIdx, Layout.discIdx, Layout.valueIdx, Layout.dvalueIdx,
    Layout.accessIdx, Layout.osStart, Layout.svcStart, Layout.procStart, Layout.hostIdx,
    Nat.zero_add]
  have h0 : zeros L.stateSize =
      zeros L.b0 ++ (zeros L.b1 ++ ([0, 0, 0, 0, 0, 0] ++ (zeros L.nOs ++ (zeros L.nSvc ++ zeros L.nProc)))) := by
    rw [stateSize_eq, ← zeros_add, ← zeros_add]
    have : ([0, 0, 0, 0, 0, 0] : List Int) = zeros 6 := rfl
    rw [this, ← zeros_add, ← zeros_add, ← zeros_add]
    congr 1; omega
  rw [h0]
  rw [set_app_left _ _ r.addr.1 1 (by simpa [zeros] using hs), zeros_set _ _ hs]
  have l1 : (onehot L.b0 r.addr.1).length = L.b0 := onehot_length _ _
  rw [set_app_right _ _ (L.b0 + r.addr.2) r.addr.2 1 (by rw [l1]),
      set_app_left _ _ r.addr.2 1 (by simpa [zeros] using hh), zeros_set _ _ hh]
  have l2 : (onehot L.b1 r.addr.2).length = L.b1 := onehot_length _ _
  -- the six scalar columns
  rw [← List.append_assoc]
  have l12 : (onehot L.b0 r.addr.1 ++ onehot L.b1 r.addr.2).length = L.b0 + L.b1 := by simp [l1, l2]
  rw [set_app_right _ _ (L.b0 + L.b1) 0 (bi r.comp) (by rw [l12]; try omega), set_app_left _ _ 0 (bi r.comp) (by simp)]
  rw [set_app_right _ _ (L.b0 + L.b1 + 1) 1 (bi r.reach) (by rw [l12]; try omega), set_app_left _ _ 1 (bi r.reach) (by simp)]
  rw [set_app_right _ _ (L.b0 + L.b1 + 1 + 1) 2 (bi r.disc) (by rw [l12]; try omega), set_app_left _ _ 2 (bi r.disc) (by simp)]
  rw [set_app_right _ _ (L.b0 + L.b1 + 1 + 1 + 1) 3 r.value (by rw [l12]; try omega), set_app_left _ _ 3 r.value (by simp)]
  rw [set_app_right _ _ (L.b0 + L.b1 + 1 + 1 + 1 + 1) 4 r.dvalue (by rw [l12]; try omega), set_app_left _ _ 4 r.dvalue (by simp)]
  rw [set_app_right _ _ (L.b0 + L.b1 + 1 + 1 + 1 + 1 + 1) 5 (r.access : Int) (by rw [l12]; try omega),
      set_app_left _ _ 5 (r.access : Int) (by simp)]
  simp only [List.set_cons_zero, List.set_cons_succ]
  -- the three flag blocks
  have e1 : ∀ (X : List Int) (P Q R : List Int), X ++ ([bi r.comp, bi r.reach, bi r.disc, r.value, r.dvalue, (r.access : Int)] ++ (P ++ (Q ++ R)))
      = (X ++ [bi r.comp, bi r.reach, bi r.disc, r.value, r.dvalue, (r.access : Int)]) ++ P ++ (Q ++ R) := by
    intro X P Q R; simp
  rw [e1]
  rw [writeFrom_block _ _ (r.os.map bi) L.nOs _ (by simp [l1, l2]; omega) (by simpa using ho)]
  have e2 : ∀ (X P Q R : List Int), X ++ P ++ (Q ++ R) = (X ++ P) ++ Q ++ R := by intro X P Q R; simp
  rw [e2]
  rw [writeFrom_block _ _ (r.svc.map bi) L.nSvc _ (by simp [l1, l2, ho]; omega) (by simpa using hv)]
  have e4 : ∀ (X : List Int), X ++ zeros L.nProc = X ++ zeros L.nProc ++ [] := by intro X; simp
  rw [e4]
  rw [writeFrom_block _ _ (r.proc.map bi) L.nProc _ (by simp [l1, l2, ho, hv]; omega) (by simpa using hp)]
  simp

/-- C09: the row width is `#subnets-bound + #hosts-bound + 6 + #OS + #services + #processes` -/
theorem C09_row_length (L : Layout) (r : Row) (h : RowFits L r) :
    (encodeRow L r).length = L.b0 + L.b1 + 6 + L.nOs + L.nSvc + L.nProc := by
  rw [encodeRow_length L r h, stateSize_eq]

theorem argmaxAux_zeros (k : Nat) (b : Int) (best i : Nat) (hb : 0 ≤ b) :
    argmaxAux (zeros k) b best i = best := by
  induction k generalizing i with
  | zero => rfl
  | succ k ih =>
    simp only [zeros, List.replicate_succ, argmaxAux]
    have : ¬ (0 : Int) > b := by omega
    simp only [this, if_false]
    exact ih (i + 1)

theorem argmaxAux_hit (k m : Nat) (best i : Nat) :
    argmaxAux (zeros k ++ 1 :: zeros m) 0 best i = i + k := by
  induction k generalizing i with
  | zero =>
    simp only [zeros, List.replicate_zero, List.nil_append, argmaxAux]
    simp only [show (1 : Int) > 0 by omega, if_true]
    exact argmaxAux_zeros m 1 i (i + 1) (by omega)
  | succ k ih =>
    simp only [zeros, List.replicate_succ, List.cons_append, argmaxAux]
    simp only [show ¬ (0 : Int) > 0 by omega, if_false]
    have := ih (i + 1)
    simp only [zeros] at this
    rw [this]; omega

theorem onehot_split (n i : Nat) (h : i < n) : onehot n i = zeros i ++ 1 :: zeros (n - i - 1) := by
  apply List.ext_getElem
  · simp [onehot, zeros]; omega
  · intro j h1 h2
    simp only [onehot, List.getElem_map, List.getElem_range]
    by_cases hji : j < i
    · rw [List.getElem_append_left (by simpa [zeros] using hji)]
      simp [zeros]; omega
    · by_cases hje : j = i
      · subst hje
        rw [List.getElem_append_right (by simp [zeros])]
        simp [zeros]
      · rw [List.getElem_append_right (by simp [zeros]; omega)]
        have : j - (zeros i).length = (j - i - 1) + 1 := by simp [zeros]; omega
        simp only [this, List.getElem_cons_succ]
        simp [zeros, hje]

/-- the address one-hots decode to the address (`argmax` of a one-hot is its index) -/
theorem argmax_onehot (n i : Nat) (h : i < n) : argmax (onehot n i) = i := by
  rw [onehot_split n i h]
  cases i with
  | zero =>
    simp only [zeros, List.replicate_zero, List.nil_append, argmax]
    exact argmaxAux_zeros _ 1 0 1 (by omega)
  | succ k =>
    simp only [zeros, List.replicate_succ, List.cons_append, argmax]
    have := argmaxAux_hit k (n - (k + 1) - 1) 0 1
    simp only [zeros] at this
    rw [this]; omega

theorem map_bi_ne (l : List Bool) : (l.map bi).map (· != 0) = l := by
  induction l with
  | nil => rfl
  | cons b bs ih => cases b <;> simp [bi, ih]

theorem slice_append_mid (A B C : List Int) (a b : Nat) (ha : a = A.length) (hb : b = A.length + B.length) :
    slice (A ++ B ++ C) a b = B := by
  subst ha hb
  simp [slice]

/-- C09: decoding a documented row gives back the host — address (argmax of the one-hots), the
three status flags, value, discovery value, access, and every OS / service / process flag -/
theorem C09_decode_encode (L : Layout) (r : Row) (h : RowWF L r) : decodeRow L (encodeRow L r) = r := by
  obtain ⟨hs, hh, ho, hv, hp⟩ := h
  have l1 : (onehot L.b0 r.addr.1).length = L.b0 := onehot_length _ _
  have l2 : (onehot L.b1 r.addr.2).length = L.b1 := onehot_length _ _
  have hb : ∀ b : Bool, (bi b != 0) = b := by intro b; cases b <;> rfl
  -- name the blocks
  have e : encodeRow L r =
      onehot L.b0 r.addr.1 ++ onehot L.b1 r.addr.2 ++
      [bi r.comp, bi r.reach, bi r.disc, r.value, r.dvalue, (r.access : Int)] ++
      r.os.map bi ++ r.svc.map bi ++ r.proc.map bi := rfl
  have g : ∀ k (hk : k < 6), (encodeRow L r).getD (L.b0 + L.b1 + k) 0 =
      ([bi r.comp, bi r.reach, bi r.disc, r.value, r.dvalue, (r.access : Int)] : List Int).getD k 0 := by
    intro k hk
    rw [e]
    simp only [List.getD_eq_getElem?_getD, List.append_assoc]
    rw [List.getElem?_append_right (by rw [l1]; omega), l1,
        List.getElem?_append_right (by rw [l2]; omega), l2,
        List.getElem?_append_left (by simp; omega)]
    congr 2; omega
  have s1 : slice (encodeRow L r) 0 L.hostIdx = onehot L.b0 r.addr.1 := by
    rw [e]; simp only [slice, Layout.hostIdx, List.drop_zero, Nat.sub_zero, List.append_assoc]
    rw [List.take_append_of_le_length (by rw [l1]; omega), List.take_of_length_le (by rw [l1]; omega)]
  have s2 : slice (encodeRow L r) L.hostIdx L.compIdx = onehot L.b1 r.addr.2 := by
    have := slice_append_mid (onehot L.b0 r.addr.1) (onehot L.b1 r.addr.2)
      ([bi r.comp, bi r.reach, bi r.disc, r.value, r.dvalue, (r.access : Int)] ++
        r.os.map bi ++ r.svc.map bi ++ r.proc.map bi) L.hostIdx L.compIdx
      (by simp [Layout.hostIdx, l1] <;> omega) (by simp [Layout.compIdx, Layout.hostIdx, l1, l2] <;> omega)
    rw [← this, e]; simp
  have s3 : slice (encodeRow L r) L.osStart L.svcStart = r.os.map bi := by
    have := slice_append_mid (onehot L.b0 r.addr.1 ++ onehot L.b1 r.addr.2 ++
        [bi r.comp, bi r.reach, bi r.disc, r.value, r.dvalue, (r.access : Int)]) (r.os.map bi)
      (r.svc.map bi ++ r.proc.map bi) L.osStart L.svcStart
      (by simp [Layout.osStart, Layout.accessIdx, Layout.dvalueIdx, Layout.valueIdx, Layout.discIdx,
            Layout.reachIdx, Layout.compIdx, Layout.hostIdx, l1, l2] <;> omega)
      (by simp [Layout.svcStart, Layout.osStart, Layout.accessIdx, Layout.dvalueIdx, Layout.valueIdx,
            Layout.discIdx, Layout.reachIdx, Layout.compIdx, Layout.hostIdx, l1, l2, ho] <;> omega)
    rw [← this, e]; simp
  have s4 : slice (encodeRow L r) L.svcStart L.procStart = r.svc.map bi := by
    have := slice_append_mid (onehot L.b0 r.addr.1 ++ onehot L.b1 r.addr.2 ++
        [bi r.comp, bi r.reach, bi r.disc, r.value, r.dvalue, (r.access : Int)] ++ r.os.map bi)
      (r.svc.map bi) (r.proc.map bi) L.svcStart L.procStart
      (by simp [Layout.svcStart, Layout.osStart, Layout.accessIdx, Layout.dvalueIdx, Layout.valueIdx,
            Layout.discIdx, Layout.reachIdx, Layout.compIdx, Layout.hostIdx, l1, l2, ho] <;> omega)
      (by simp [Layout.procStart, Layout.svcStart, Layout.osStart, Layout.accessIdx, Layout.dvalueIdx,
            Layout.valueIdx, Layout.discIdx, Layout.reachIdx, Layout.compIdx, Layout.hostIdx, l1, l2,
            ho, hv] <;> omega)
    rw [← this, e]
  have s5 : slice (encodeRow L r) L.procStart L.stateSize = r.proc.map bi := by
    have := slice_append_mid (onehot L.b0 r.addr.1 ++ onehot L.b1 r.addr.2 ++
        [bi r.comp, bi r.reach, bi r.disc, r.value, r.dvalue, (r.access : Int)] ++ r.os.map bi
        ++ r.svc.map bi) (r.proc.map bi) [] L.procStart L.stateSize
      (by simp [Layout.procStart, Layout.svcStart, Layout.osStart, Layout.accessIdx, Layout.dvalueIdx,
            Layout.valueIdx, Layout.discIdx, Layout.reachIdx, Layout.compIdx, Layout.hostIdx, l1, l2,
            ho, hv] <;> omega)
      (by simp [Layout.stateSize, Layout.procStart, Layout.svcStart, Layout.osStart, Layout.accessIdx,
            Layout.dvalueIdx, Layout.valueIdx, Layout.discIdx, Layout.reachIdx, Layout.compIdx,
            Layout.hostIdx, l1, l2, ho, hv, hp] <;> omega)
    rw [← this, e]; simp
  unfold decodeRow
  rw [s1, s2, s3, s4, s5, argmax_onehot _ _ hs, argmax_onehot _ _ hh, map_bi_ne, map_bi_ne, map_bi_ne]
  have c0 := g 0 (by omega); have c1 := g 1 (by omega); have c2 := g 2 (by omega)
  have c3 := g 3 (by omega); have c4 := g 4 (by omega); have c5 := g 5 (by omega)
  simp only [Layout.compIdx, Layout.reachIdx, Layout.discIdx, Layout.valueIdx, Layout.dvalueIdx,
    Layout.accessIdx, Layout.hostIdx] at *
  simp only [Nat.add_zero] at c0
  rw [c0, show L.b0 + L.b1 + 1 + 1 = L.b0 + L.b1 + 2 by omega, show L.b0 + L.b1 + 2 + 1 = L.b0 + L.b1 + 3 by omega,
      show L.b0 + L.b1 + 3 + 1 = L.b0 + L.b1 + 4 by omega, show L.b0 + L.b1 + 4 + 1 = L.b0 + L.b1 + 5 by omega,
      c1, c2, c3, c4, c5]
  cases r
  simp [hb]

/-- the six scalar columns of the documented row sit right after the two one-hots -/
theorem encodeRow_cell (L : Layout) (r : Row) (k : Nat) (hk : k < 6) :
    (encodeRow L r).getD (L.b0 + L.b1 + k) 0 =
      ([bi r.comp, bi r.reach, bi r.disc, r.value, r.dvalue, (r.access : Int)] : List Int).getD k 0 := by
  have l1 : (onehot L.b0 r.addr.1).length = L.b0 := onehot_length _ _
  have l2 : (onehot L.b1 r.addr.2).length = L.b1 := onehot_length _ _
  have e : encodeRow L r =
      onehot L.b0 r.addr.1 ++ onehot L.b1 r.addr.2 ++
      [bi r.comp, bi r.reach, bi r.disc, r.value, r.dvalue, (r.access : Int)] ++
      r.os.map bi ++ r.svc.map bi ++ r.proc.map bi := rfl
  rw [e]
  simp only [List.getD_eq_getElem?_getD, List.append_assoc]
  rw [List.getElem?_append_right (by rw [l1]; omega), l1,
      List.getElem?_append_right (by rw [l2]; omega), l2,
      List.getElem?_append_left (by simp; omega)]
  congr 2; omega

/-- the five slices of the documented row are its five blocks -/
theorem encodeRow_slices (L : Layout) (r : Row) (h : RowFits L r) :
    slice (encodeRow L r) 0 L.hostIdx = onehot L.b0 r.addr.1 ∧
    slice (encodeRow L r) L.hostIdx L.compIdx = onehot L.b1 r.addr.2 ∧
    slice (encodeRow L r) L.osStart L.svcStart = r.os.map bi ∧
    slice (encodeRow L r) L.svcStart L.procStart = r.svc.map bi ∧
    slice (encodeRow L r) L.procStart L.stateSize = r.proc.map bi := by
  obtain ⟨ho, hv, hp⟩ := h
  have l1 : (onehot L.b0 r.addr.1).length = L.b0 := onehot_length _ _
  have l2 : (onehot L.b1 r.addr.2).length = L.b1 := onehot_length _ _
  have e : encodeRow L r =
      onehot L.b0 r.addr.1 ++ onehot L.b1 r.addr.2 ++
      [bi r.comp, bi r.reach, bi r.disc, r.value, r.dvalue, (r.access : Int)] ++
      r.os.map bi ++ r.svc.map bi ++ r.proc.map bi := rfl
  refine ⟨?_, ?_, ?_, ?_, ?_⟩
  · rw [e]; simp only [slice, Layout.hostIdx, List.drop_zero, Nat.sub_zero, List.append_assoc]
    rw [List.take_append_of_le_length (by rw [l1]; omega), List.take_of_length_le (by rw [l1]; omega)]
  · have := slice_append_mid (onehot L.b0 r.addr.1) (onehot L.b1 r.addr.2)
      ([bi r.comp, bi r.reach, bi r.disc, r.value, r.dvalue, (r.access : Int)] ++
        r.os.map bi ++ r.svc.map bi ++ r.proc.map bi) L.hostIdx L.compIdx
      (by simp [Layout.hostIdx, l1] <;> omega) (by simp [Layout.compIdx, Layout.hostIdx, l1, l2] <;> omega)
    rw [← this, e]; simp
  · have := slice_append_mid (onehot L.b0 r.addr.1 ++ onehot L.b1 r.addr.2 ++
        [bi r.comp, bi r.reach, bi r.disc, r.value, r.dvalue, (r.access : Int)]) (r.os.map bi)
      (r.svc.map bi ++ r.proc.map bi) L.osStart L.svcStart
      (by simp [Layout.osStart, Layout.accessIdx, Layout.dvalueIdx, Layout.valueIdx, Layout.discIdx,
            Layout.reachIdx, Layout.compIdx, Layout.hostIdx, l1, l2] <;> omega)
      (by simp [Layout.svcStart, Layout.osStart, Layout.accessIdx, Layout.dvalueIdx, Layout.valueIdx,
            Layout.discIdx, Layout.reachIdx, Layout.compIdx, Layout.hostIdx, l1, l2, ho] <;> omega)
    rw [← this, e]; simp
  · have := slice_append_mid (onehot L.b0 r.addr.1 ++ onehot L.b1 r.addr.2 ++
        [bi r.comp, bi r.reach, bi r.disc, r.value, r.dvalue, (r.access : Int)] ++ r.os.map bi)
      (r.svc.map bi) (r.proc.map bi) L.svcStart L.procStart
      (by simp [Layout.svcStart, Layout.osStart, Layout.accessIdx, Layout.dvalueIdx, Layout.valueIdx,
            Layout.discIdx, Layout.reachIdx, Layout.compIdx, Layout.hostIdx, l1, l2, ho] <;> omega)
      (by simp [Layout.procStart, Layout.svcStart, Layout.osStart, Layout.accessIdx, Layout.dvalueIdx,
            Layout.valueIdx, Layout.discIdx, Layout.reachIdx, Layout.compIdx, Layout.hostIdx, l1, l2,
            ho, hv] <;> omega)
    rw [← this, e]
  · have := slice_append_mid (onehot L.b0 r.addr.1 ++ onehot L.b1 r.addr.2 ++
        [bi r.comp, bi r.reach, bi r.disc, r.value, r.dvalue, (r.access : Int)] ++ r.os.map bi
        ++ r.svc.map bi) (r.proc.map bi) [] L.procStart L.stateSize
      (by simp [Layout.procStart, Layout.svcStart, Layout.osStart, Layout.accessIdx, Layout.dvalueIdx,
            Layout.valueIdx, Layout.discIdx, Layout.reachIdx, Layout.compIdx, Layout.hostIdx, l1, l2,
            ho, hv] <;> omega)
      (by simp [Layout.stateSize, Layout.procStart, Layout.svcStart, Layout.osStart, Layout.accessIdx,
            Layout.dvalueIdx, Layout.valueIdx, Layout.discIdx, Layout.reachIdx, Layout.compIdx,
            Layout.hostIdx, l1, l2, ho, hv, hp] <;> omega)
    rw [← this, e]; simp

/-- C09: decoding the initial state (written through the index arithmetic) reproduces every host
definition of the scenario, with the reset flags -/
theorem C09_init_decodes (sc : Scenario) (h : ∀ r ∈ sc.init, RowWF sc.layout r) :
    (sc.init.map (vectorize sc.layout)).map (decodeRow sc.layout) = sc.init := by
  rw [List.map_map]
  conv => rhs; rw [← List.map_id sc.init]
  apply List.map_congr_left
  intro r hr
  simp only [Function.comp, id]
  rw [C09_layout_concat _ _ (h r hr), C09_decode_encode _ _ (h r hr)]

/-- C09: the observation has one extra final row whose first four entries are success,
connection error, permission error and undefined error -/
theorem C09_aux_row (L : Layout) (s' : State) (a : Action) (r : Result) (fo : Bool) :
    (observe L s' a r fo).length = s'.length + 1 ∧
    (observe L s' a r fo).getLast? = some (auxRow L.stateSize r) ∧
    (auxRow L.stateSize r).take 4 = [bi r.success, bi r.connErr, bi r.permErr, bi r.undefErr] := by
  refine ⟨?_, (C08_aux L s' a r fo).1, (C08_aux L s' a r fo).2.1⟩
  unfold observe; cases fo <;> simp

/-- C09: the 1D observation is the row-major flattening of the 2D one: entry `(i, j)` sits at
position `i * width + j` -/
theorem C09_flatten_index (o : List (List Int)) (w : Nat) (h : ∀ row ∈ o, row.length = w)
    (i j : Nat) (hi : i < o.length) (hj : j < w) :
    (flatten2 o)[i * w + j]? = (o[i]?).bind (fun row => row[j]?) := by
  unfold flatten2
  induction o generalizing i with
  | nil => simp at hi
  | cons x xs ih =>
    have hx : x.length = w := h x (List.mem_cons_self ..)
    cases i with
    | zero =>
      simp only [Nat.zero_mul, Nat.zero_add, List.flatten_cons, List.getElem?_cons_zero, Option.bind_some]
      exact List.getElem?_append_left (by rw [hx]; exact hj)
    | succ i =>
      simp only [List.flatten_cons, List.getElem?_cons_succ]
      rw [List.getElem?_append_right (by rw [hx]; rw [Nat.add_mul]; omega), hx]
      have : (i + 1) * w + j - w = i * w + j := by rw [Nat.add_mul]; omega
      rw [this]
      exact ih (fun r hr => h r (List.mem_cons_of_mem _ hr)) i (by simpa using hi)

end NASim
