import NasimModel.Model.Env
import NasimModel.Proofs.Inv
/-!
# C06 — termination and step-limit signals are exact
-/
namespace NASim

/-- C06: a (generative) step reports the terminal flag exactly when the resulting state is a goal
state; `goal` is the same function the goal query `goal_reached(state)` evaluates -/
theorem C06_done (sc : Scenario) (fo : Bool) (s : State) (a : Action) (u : Rat) :
    (genStep sc fo s a u).done = goal sc.net (genStep sc fo s a u).next := rfl

/-- C06: the goal is "ROOT access on every sensitive host" -/
theorem C06_goal_iff (n : Net) (s : State) :
    goal n s = true ↔ ∀ p ∈ n.sens, 2 ≤ (s.get p.1).access := by
  unfold goal hasAccess
  simp [List.all_eq_true]

/-- number of `step()` calls since the last `reset()`; generative steps do not count -/
def countStep (k : Nat) : Op → Nat
  | .reset => 0
  | .step _ _ => k + 1
  | .genStep _ _ _ => k

def stepsSinceReset (ops : List Op) : Nat := ops.foldl countStep 0

theorem run_steps (e : Env) (ops : List Op) : (e.run ops).steps = ops.foldl countStep e.steps := by
  induction ops generalizing e with
  | nil => rfl
  | cons op ops ih =>
    unfold Env.run at *; simp only [List.foldl_cons]
    rw [ih]
    cases op <;> rfl

/-- C06: the step counter is exactly the number of `step()` calls since the last reset, for any
interleaving of steps, generative steps and resets -/
theorem C06_counter (sc : Scenario) (fo : Bool) (ops : List Op) :
    ((Env.make sc fo).run ops).steps = stepsSinceReset ops := run_steps _ ops

/-- C06: the step-limit flag returned by a `step()` is set exactly when the scenario has a step
limit and the number of `step()` calls since the last reset (this one included) has reached it -/
theorem C06_truncated (sc : Scenario) (fo : Bool) (ops : List Op) (a : Action) (u : Rat) :
    (((Env.make sc fo).run ops).step a u).2.2 = true ↔
      ∃ L, ((Env.make sc fo).run ops).sc.stepLimit = some L ∧ L ≤ ((stepsSinceReset ops + 1 : Nat) : Int) := by
  unfold Env.step truncated
  simp only [C06_counter]
  cases h : ((Env.make sc fo).run ops).sc.stepLimit with
  | none => simp
  | some L => simp

theorem run_sc (e : Env) (ops : List Op) : (e.run ops).sc = e.sc := by
  induction ops generalizing e with
  | nil => rfl
  | cons op ops ih =>
    unfold Env.run at *; simp only [List.foldl_cons]
    rw [ih]; cases op <;> rfl

/-- never, if the scenario has no step limit -/
theorem C06_no_limit (sc : Scenario) (fo : Bool) (ops : List Op) (a : Action) (u : Rat)
    (h : sc.stepLimit = none) : (((Env.make sc fo).run ops).step a u).2.2 = false := by
  unfold Env.step truncated
  simp only [run_sc]
  simp [Env.make, h]

/-- C06: generative steps leave the counter alone -/
theorem C06_genstep_not_counted (e : Env) (s : State) (a : Action) (u : Rat) :
    (e.apply (.genStep s a u)).steps = e.steps := rfl

end NASim
