import NasimModel.Props.SrcLoad
/-!
# The keys of an accepted host-configuration section

The translator reads `eval(key)` as the parser of the documented `(int, int)` spelling and treats every other string
as raising (`PyRt.evalAddr`).  Inside `_validate_sensitive_hosts`, `_validate_host_address` and `_parse_firewall` that is
sound because what follows rejects whatever else `eval` could return.  Inside `_validate_host_config` it is sound because
of what the caller has already checked — proved here: Python's `str((a, b))` parses back to `(a, b)`
(`parsePair_showPair`, over the digit strings of `Nat.repr`), distinct addresses have distinct spellings
(`showPair_inj`), and a section with as many configurations as hosts that holds a key for every address holds *only*
those keys (`hostConfigs_keys_canonical`, a pigeonhole argument: `subset_of_nodup_length`).
-/
open NASim NASim.Load
namespace NASim

theorem showPair_toList (a b : Nat) :
    (showPair a b).toList = '(' :: (Nat.toDigits 10 a ++ ',' :: ' ' :: (Nat.toDigits 10 b ++ [')'])) := by
  unfold showPair
  simp [String.toList_append]
  rfl

theorem digits_isDigit (n : Nat) : (Nat.toDigits 10 n).all Char.isDigit = true := by
  rw [List.all_eq_true]
  intro c hc
  exact Nat.isDigit_of_mem_toDigits (by decide) (by decide) hc

theorem digitsVal_toDigits (n : Nat) : digitsVal (Nat.toDigits 10 n) = n := by
  have h := Nat.ofDigitChars_ten_toDigits (n := n)
  rw [Nat.ofDigitChars_eq_foldl] at h
  unfold digitsVal
  have : (fun acc c => acc * 10 + (Char.toNat c - 48)) = (fun sofar c => 10 * sofar + (Char.toNat c - '0'.toNat)) := by
    funext acc c
    rw [Nat.mul_comm]
    rfl
  rw [this]
  exact h

theorem digit_ge (c : Char) (h : c.isDigit = true) : 48 ≤ c.toNat := by
  simp only [Char.isDigit, Bool.and_eq_true, decide_eq_true_eq] at h
  have := h.1
  exact UInt32.le_iff_toNat_le.mp this

theorem digit_ne_low (c x : Char) (h : c.isDigit = true) (hx : x.toNat < 48) : c ≠ x := by
  intro e
  have := digit_ge c h
  rw [e] at this
  omega

theorem digit_not_blank (c : Char) (h : c.isDigit = true) : isBlank c = false := by
  unfold isBlank
  have h1 := digit_ne_low c ' ' h (by decide)
  have h2 := digit_ne_low c '\t' h (by decide)
  simp [h1, h2]

theorem takeWhile_append_stop {α : Type} (p : α → Bool) (l r : List α) (x : α) (hl : l.all p = true) (hx : p x = false) :
    (l ++ x :: r).takeWhile p = l ∧ (l ++ x :: r).dropWhile p = x :: r := by
  induction l with
  | nil => simp [hx]
  | cons y t ih =>
    simp only [List.all_cons, Bool.and_eq_true] at hl
    simp [hl.1, ih hl.2]

/-- a list that starts and ends with a non-blank character is its own trimming -/
theorem trimBlanks_id (c d : Char) (l : List Char) (hc : isBlank c = false) (hd : isBlank d = false) :
    trimBlanks (c :: (l ++ [d])) = c :: (l ++ [d]) := by
  unfold trimBlanks
  simp [hc, hd, List.dropWhile_cons]

theorem trimBlanks_single (c : Char) (hc : isBlank c = false) : trimBlanks [c] = [c] := by
  unfold trimBlanks
  simp [hc, List.dropWhile_cons]

/-- the digits of a number, trimmed, are the digits; a leading blank is dropped -/
theorem trim_digits (n : Nat) : trimBlanks (Nat.toDigits 10 n) = Nat.toDigits 10 n ∧
    trimBlanks (' ' :: Nat.toDigits 10 n) = Nat.toDigits 10 n := by
  have hall := digits_isDigit n
  rw [List.all_eq_true] at hall
  -- split the digit list into first, middle, last
  have hne : Nat.toDigits 10 n ≠ [] := Nat.toDigits_ne_nil
  have key : ∀ D : List Char, D ≠ [] → (∀ c ∈ D, c.isDigit = true) →
      trimBlanks D = D ∧ trimBlanks (' ' :: D) = D := by
    intro D hD hdig
    cases D with
    | nil => exact absurd rfl hD
    | cons c t =>
      have hc := digit_not_blank c (hdig c (List.mem_cons_self ..))
      have hsp : isBlank ' ' = true := by decide
      rcases List.eq_nil_or_concat t with rfl | ⟨t', d, rfl⟩
      · refine ⟨trimBlanks_single c hc, ?_⟩
        unfold trimBlanks
        simp [hc, hsp, List.dropWhile_cons]
      · have hd := digit_not_blank d (hdig d (by simp))
        refine ⟨by simpa using trimBlanks_id c d t' hc hd, ?_⟩
        have := trimBlanks_id c d t' hc hd
        unfold trimBlanks at this ⊢
        simp only [List.concat_eq_append] at *
        rw [show List.dropWhile isBlank (' ' :: c :: (t' ++ [d])) = List.dropWhile isBlank (c :: (t' ++ [d])) from by
          simp [List.dropWhile_cons, hsp]]
        exact this
  exact key _ hne hall

theorem parseInt_digits (n : Nat) : parseIntChars (Nat.toDigits 10 n) = some (n : Int) := by
  have hall := digits_isDigit n
  have hne : Nat.toDigits 10 n ≠ [] := Nat.toDigits_ne_nil
  cases hD : Nat.toDigits 10 n with
  | nil => exact absurd hD hne
  | cons c t =>
    have hc : c ≠ '-' := by
      apply digit_ne_low c '-' _ (by decide)
      have := List.all_eq_true.mp hall c (by rw [hD]; exact List.mem_cons_self ..)
      exact this
    have hv := digitsVal_toDigits n
    rw [hD] at hall hv
    unfold parseIntChars
    split
    · rename_i ds heq
      injection heq with h1 h2
      exact absurd h1 hc
    · simp [hall, hv]

/-- Python's `str((a, b))` evaluates back to `(a, b)`: the documented spelling parses to the pair it spells -/
theorem parsePair_showPair (a b : Nat) : parsePair (showPair a b) = some ((a : Int), (b : Int)) := by
  unfold parsePair
  rw [showPair_toList]
  have hA := digits_isDigit a
  have hB := digits_isDigit b
  have hlp : isBlank '(' = false := by decide
  have hrp : isBlank ')' = false := by decide
  have htrim : trimBlanks ('(' :: (Nat.toDigits 10 a ++ ',' :: ' ' :: (Nat.toDigits 10 b ++ [')']))) =
      '(' :: ((Nat.toDigits 10 a ++ ',' :: ' ' :: Nat.toDigits 10 b) ++ [')']) := by
    have := trimBlanks_id '(' ')' (Nat.toDigits 10 a ++ ',' :: ' ' :: Nat.toDigits 10 b) hlp hrp
    simpa using this
  simp only [htrim]
  have hrev : ((Nat.toDigits 10 a ++ ',' :: ' ' :: Nat.toDigits 10 b) ++ [')']).reverse =
      ')' :: (Nat.toDigits 10 a ++ ',' :: ' ' :: Nat.toDigits 10 b).reverse := by simp
  simp only [hrev, List.reverse_reverse]
  have hnc : (Nat.toDigits 10 a).all (fun c => c != ',') = true := by
    rw [List.all_eq_true] at hA ⊢
    intro c hc
    have := digit_ne_low c ',' (hA c hc) (by decide)
    simpa using this
  obtain ⟨ht, hd⟩ := takeWhile_append_stop (fun c => c != ',') (Nat.toDigits 10 a) (' ' :: Nat.toDigits 10 b) ','
    hnc (by decide)
  simp only [ht, hd, List.drop_succ_cons, List.drop_zero]
  have hnoc : (' ' :: Nat.toDigits 10 b).contains ',' = false := by
    rw [List.contains_eq_any_beq, List.any_eq_false]
    intro c hc
    rcases List.mem_cons.mp hc with rfl | hc
    · decide
    · have := digit_ne_low c ',' (List.all_eq_true.mp hB c hc) (by decide)
      simpa using fun e => this e.symm
  simp only [hnoc, Bool.false_eq_true, if_false, (trim_digits a).1, (trim_digits b).2, parseInt_digits]

theorem showPair_inj (a b c d : Nat) (h : showPair a b = showPair c d) : a = c ∧ b = d := by
  have h1 := parsePair_showPair a b
  rw [h, parsePair_showPair] at h1
  injection h1 with h1
  injection h1 with h2 h3
  exact ⟨by exact_mod_cast h2.symm, by exact_mod_cast h3.symm⟩

/-- pigeonhole: a duplicate-free list contained in a list that is no longer contains that list -/
theorem subset_of_nodup_length {α : Type} (l₁ l₂ : List α) (hn : l₁.Nodup) (hs : l₁ ⊆ l₂)
    (hl : l₂.length ≤ l₁.length) : l₂ ⊆ l₁ := by
  classical
  induction l₁ generalizing l₂ with
  | nil =>
    have : l₂ = [] := List.eq_nil_of_length_eq_zero (by simpa using hl)
    simp [this]
  | cons a t ih =>
    rw [List.nodup_cons] at hn
    have ha : a ∈ l₂ := hs (List.mem_cons_self ..)
    have hts : t ⊆ l₂.erase a := by
      intro x hx
      have hxa : x ≠ a := fun e => hn.1 (e ▸ hx)
      exact (List.mem_erase_of_ne hxa).2 (hs (List.mem_cons_of_mem _ hx))
    have hlen : (l₂.erase a).length = l₂.length - 1 := by rw [List.length_erase]; simp [ha]
    have := ih (l₂.erase a) hn.2 hts (by rw [hlen]; simp at hl; omega)
    intro x hx
    by_cases hxa : x = a
    · subst hxa; exact List.mem_cons_self ..
    · exact List.mem_cons_of_mem _ (this ((List.mem_erase_of_ne hxa).2 hx))

/-- the canonical keys of a host-configuration section: `str((s, h))` for every address -/
def canonKeys (t : List Nat) : List (Nat × Nat) :=
  t.zipIdx.flatMap fun p => (List.range p.1).map fun h => (p.2 + 1, h)

theorem canonKeys_length (t : List Nat) : (canonKeys t).length = (1 :: t).foldl (· + ·) 0 - 1 := by
  unfold canonKeys
  have key : ∀ (l : List Nat) (k acc : Nat),
      ((l.zipIdx k).flatMap fun p => (List.range p.1).map fun h => (p.2 + 1, h)).length + acc = l.foldl (· + ·) acc := by
    intro l
    induction l with
    | nil => intro k acc; simp
    | cons x xs ih =>
      intro k acc
      simp only [List.zipIdx_cons, List.flatMap_cons, List.length_append, List.length_map, List.length_range,
        List.foldl_cons]
      rw [← ih (k + 1) (acc + x)]
      omega
  have := key t 0 1
  simp only [List.foldl_cons, Nat.zero_add]
  omega

theorem canonKeys_nodup (t : List Nat) : (canonKeys t).Nodup := by
  unfold canonKeys
  rw [List.nodup_iff_pairwise_ne, List.pairwise_flatMap]
  refine ⟨?_, ?_⟩
  · intro p _
    rw [List.pairwise_map]
    exact List.nodup_range.imp (fun hab h => hab (by simpa using h))
  · have hz : t.zipIdx.Pairwise (fun a b => a.2 ≠ b.2) := by
      rw [List.pairwise_iff_getElem]
      intro i j hi hj hij
      simp only [List.getElem_zipIdx]
      omega
    refine hz.imp ?_
    intro p q hpq x hx y hy hxy
    simp only [List.mem_map, List.mem_range] at hx hy
    obtain ⟨_, _, rfl⟩ := hx
    obtain ⟨_, _, rfl⟩ := hy
    exact hpq (by simpa using congrArg Prod.fst hxy)

theorem pyEq_str_eq (y : Y) (k : String) (h : y.pyEq (.str k) = true) : y = .str k := by
  cases y <;> simp [Y.pyEq, Y.toRat?] at h
  rw [h]

theorem getKey_isSome_mem (m : List (Y × Y)) (k : String) (h : (getKey m k).isSome = true) :
    ∃ kv ∈ m, kv.1 = .str k := by
  unfold getKey at h
  rw [Option.isSome_map] at h
  obtain ⟨kv, hkv⟩ := Option.isSome_iff_exists.mp h
  exact ⟨kv, List.mem_of_find?_eq_some hkv, pyEq_str_eq _ _ (by simpa using List.find?_some hkv)⟩

/-- **the keys of an accepted host-configuration section are exactly the canonical spellings.**  With as many
configurations as hosts and a key for every address (the two tests `_validate_host_configs` makes before its loop),
every key is `str((s, h))` of an address — so `eval(addr)` inside `_validate_host_config` is applied only to strings on
which its translation (`PyRt.evalAddr`, the parser of the documented spelling) is the value Python computes -/
theorem hostConfigs_keys_canonical (t : List Nat) (m : List (Y × Y))
    (hlen : m.length = (1 :: t).foldl (· + ·) 0 - 1) (hall : hasAllAddrs (1 :: t) m = true) :
    ∀ kv ∈ m, ∃ a b : Nat, kv.1 = .str (showPair a b) ∧ PyRt.evalAddr kv.1 = some ((a : Int), (b : Int)) := by
  let f : Nat × Nat → Y := fun p => Y.str (showPair p.1 p.2)
  have hnd : ((canonKeys t).map f).Nodup := by
    rw [List.nodup_iff_pairwise_ne, List.pairwise_map]
    have := canonKeys_nodup t
    rw [List.nodup_iff_pairwise_ne] at this
    refine this.imp ?_
    intro p q hpq he
    apply hpq
    have : showPair p.1 p.2 = showPair q.1 q.2 := by
      simpa [f] using he
    obtain ⟨h1, h2⟩ := showPair_inj _ _ _ _ this
    exact Prod.ext h1 h2
  have hsub : (canonKeys t).map f ⊆ m.map (·.1) := by
    intro y hy
    obtain ⟨p, hp, rfl⟩ := List.mem_map.mp hy
    unfold canonKeys at hp
    obtain ⟨q, hq, hp⟩ := List.mem_flatMap.mp hp
    obtain ⟨h, hh, rfl⟩ := List.mem_map.mp hp
    unfold hasAllAddrs at hall
    simp only [List.drop_succ_cons, List.drop_zero, List.all_eq_true] at hall
    have := hall q hq h hh
    obtain ⟨kv, hkv, hk⟩ := getKey_isSome_mem m _ this
    exact List.mem_map.mpr ⟨kv, hkv, hk⟩
  have hback := subset_of_nodup_length _ _ hnd hsub (by
    rw [List.length_map, List.length_map, canonKeys_length, hlen]; exact Nat.le_refl _)
  intro kv hkv
  have := hback (List.mem_map.mpr ⟨kv, hkv, rfl⟩)
  obtain ⟨p, _, hp⟩ := List.mem_map.mp this
  refine ⟨p.1, p.2, hp.symm, ?_⟩
  rw [← hp]
  show PyRt.evalAddr (Y.str (showPair p.1 p.2)) = _
  unfold PyRt.evalAddr
  exact parsePair_showPair p.1 p.2
/-- the obligation as the check lists it: `eval` is only ever applied to canonical spellings inside `_validate_host_config` -/
theorem Src_host_config_keys_canonical (t : List Nat) (m : List (Y × Y))
    (hlen : m.length = (1 :: t).foldl (· + ·) 0 - 1) (hall : hasAllAddrs (1 :: t) m = true) :
    ∀ kv ∈ m, ∃ a b : Nat, kv.1 = .str (showPair a b) ∧ PyRt.evalAddr kv.1 = some ((a : Int), (b : Int)) :=
  hostConfigs_keys_canonical t m hlen hall

/-- `str((a, b))` evaluates back to `(a, b)` -/
theorem Src_eval_of_str_pair (a b : Nat) : PyRt.evalAddr (.str (showPair a b)) = some ((a : Int), (b : Int)) :=
  parsePair_showPair a b

end NASim
