import NasimModel.Props.C17Shipped
/-!
# C17 — from the file to the dynamics

What a loaded file *means* for the transition function: through `load` and `toScenario` the
service names of the file become the indices the dynamics work with, and

* `C17_exploit_service_semantics` — the service bit the dynamics test for an exploit on a host is
  set exactly when the file lists the exploit's service *name* among that host's services;
* `C17_firewall_semantics` — the subnet firewall of the dynamics lets an exploit's service pass
  from subnet `a` to subnet `b` exactly when the subnets are connected and the file lists the
  service *name* under the key `(a, b)`.
-/
namespace NASim.Load
open NASim

/-! ### Python `==` on scalars is an equivalence -/

theorem pyEq_congr {a b : Y} (h : a.pyEq b = true) (c : Y) : b.pyEq c = a.pyEq c := by
  unfold Y.pyEq at h ⊢
  cases ha : a.toRat? with
  | some x =>
    cases hb : b.toRat? with
    | some y =>
      simp only [ha, hb] at h
      have : x = y := by simpa using h
      subst this
      cases hc : c.toRat? <;> rfl
    | none => simp [ha, hb] at h
  | none =>
    cases hb : b.toRat? with
    | some y => simp [ha, hb] at h
    | none =>
      simp only [ha, hb] at h
      have : a = b := by
        cases a <;> cases b <;> simp_all
      subst this; rfl

theorem pyEq_symm (a b : Y) : a.pyEq b = b.pyEq a := by
  unfold Y.pyEq
  cases ha : a.toRat? <;> cases hb : b.toRat? <;> simp only []
  · cases a <;> cases b <;> simp_all [eq_comm]
    all_goals (first | rfl | (simp [BEq.comm]))
  · rename_i x y; exact BEq.comm

theorem idxOf_congr {x y : Y} (h : x.pyEq y = true) (l : List Y) : idxOf y l = idxOf x l := by
  unfold idxOf
  have : (fun s => y.pyEq s) = (fun s => x.pyEq s) := by funext s; exact pyEq_congr h s
  rw [this]

theorem idxOf_spec {x : Y} {l : List Y} {i : Nat} (h : idxOf x l = some i) :
    ∃ hi : i < l.length, x.pyEq l[i] = true := by
  unfold idxOf at h
  cases hf : l.findIdx? (fun y => x.pyEq y) with
  | none => simp [hf] at h
  | some j =>
    simp only [hf, Option.some.injEq] at h; subst h
    obtain ⟨hlt, hp, _⟩ := List.findIdx?_eq_some_iff_getElem.mp hf
    exact ⟨hlt, hp⟩

/-! ### sorted index lists keep their members -/

theorem mem_insertNat (x y : Nat) (l : List Nat) : y ∈ insertNat x l ↔ y = x ∨ y ∈ l := by
  induction l with
  | nil => simp [insertNat]
  | cons z zs ih =>
    simp only [insertNat]
    split
    · simp
    · simp only [List.mem_cons, ih]
      constructor
      · rintro (h | h | h)
        · exact Or.inr (Or.inl h)
        · exact Or.inl h
        · exact Or.inr (Or.inr h)
      · rintro (h | h | h)
        · exact Or.inr (Or.inl h)
        · exact Or.inl h
        · exact Or.inr (Or.inr h)

theorem mem_sortNat (y : Nat) (l : List Nat) : y ∈ sortNat l ↔ y ∈ l := by
  unfold sortNat
  have : ∀ (acc : List Nat), y ∈ l.foldl (fun acc x => insertNat x acc) acc ↔ y ∈ acc ∨ y ∈ l := by
    induction l with
    | nil => intro acc; simp
    | cons x xs ih =>
      intro acc
      rw [List.foldl_cons, ih, mem_insertNat]
      simp only [List.mem_cons]
      constructor
      · rintro ((h | h) | h)
        · exact Or.inr (Or.inl h)
        · exact Or.inl h
        · exact Or.inr (Or.inr h)
      · rintro (h | h | h)
        · exact Or.inl (Or.inr h)
        · exact Or.inl (Or.inl h)
        · exact Or.inr h
  simpa using this []

/-- the indices of a list of names: `i` is among them iff some listed name has index `i` -/
theorem mem_svcIdxs {services names : List Y} {idxs : List Nat} (h : svcIdxs services names = some idxs)
    (i : Nat) : i ∈ idxs ↔ ∃ y ∈ names, idxOf y services = some i := by
  unfold svcIdxs at h
  have hm := allSome_map h
  constructor
  · intro hi
    have : some i ∈ idxs.map some := List.mem_map_of_mem hi
    rw [hm] at this
    obtain ⟨y, hy, hyi⟩ := List.mem_map.mp this
    exact ⟨y, hy, hyi⟩
  · rintro ⟨y, hy, hyi⟩
    have : some i ∈ names.map fun y => idxOf y services := List.mem_map.mpr ⟨y, hy, hyi⟩
    rw [← hm] at this
    obtain ⟨j, hj, hji⟩ := List.mem_map.mp this
    injection hji with hji; subst hji; exact hj

/-- membership of a service index, read back as membership of the service name -/
theorem idx_mem_iff_name_mem {services names : List Y} {idxs : List Nat}
    (h : svcIdxs services names = some idxs) {x : Y} {i : Nat} (hx : idxOf x services = some i) :
    i ∈ idxs ↔ pyIn x names = true := by
  rw [mem_svcIdxs h]
  unfold pyIn
  rw [List.any_eq_true]
  obtain ⟨hi, hxi⟩ := idxOf_spec hx
  constructor
  · rintro ⟨y, hy, hyi⟩
    obtain ⟨_, hyi'⟩ := idxOf_spec hyi
    refine ⟨y, hy, ?_⟩
    -- x == services[i] and y == services[i]
    rw [pyEq_symm y] at hyi'
    rw [← pyEq_congr hxi y]; exact hyi'
  · rintro ⟨y, hy, hxy⟩
    exact ⟨y, hy, by rw [idxOf_congr hxy]; exact hx⟩


/-- C17 → C01: the service bit the dynamics test when exploit `e` hits host `hd` is set exactly
when the file lists the exploit's service name among the host's services (`hsv`, see
`C17_host_fields` for where it is read) -/
theorem C17_exploit_service_semantics (services os : List Y) (X : ExplL) (e : ExploitDef)
    (hXe : ExplL.toDef services os X = some e) (x : HostL) (hsv : List Y)
    (hx : x.services = services.map (fun s => pyIn s hsv)) (hd : HostDef)
    (hxd : HostL.toDef services x = some hd) :
    hd.svc.getD e.svc false = pyIn X.service hsv := by
  unfold ExplL.toDef at hXe
  simp only [Option.bind_eq_bind, Option.bind_eq_some_iff, Option.pure_def, Option.some.injEq] at hXe
  obtain ⟨i, hi, o, _, cost, _, rfl⟩ := hXe
  unfold HostL.toDef at hxd
  simp only [Option.bind_eq_bind, Option.bind_eq_some_iff, Option.pure_def, Option.some.injEq] at hxd
  obtain ⟨v, _, fw, _, rfl⟩ := hxd
  obtain ⟨hlt, hpy⟩ := idxOf_spec hi
  simp only [hx, List.getD_eq_getElem?_getD, List.getElem?_map, List.getElem?_eq_getElem hlt, Option.map_some,
    Option.getD_some]
  unfold pyIn
  congr 1
  funext c
  exact pyEq_congr hpy c

theorem lookup_allSome_map {κ α β} [BEq κ] [LawfulBEq κ] (f : α → Option β) :
    ∀ (l : List (κ × α)) (r : List (κ × β)) (k : κ),
    allSome (l.map fun e => (f e.2).map fun v => (e.1, v)) = some r →
    r.lookup k = (l.lookup k).bind f
  | [], r, k, h => by simp [allSome] at h; subst h; rfl
  | (k', v') :: xs, r, k, h => by
    simp only [List.map_cons] at h
    cases hf : f v' with
    | none => simp [hf, allSome] at h
    | some w =>
      simp only [hf, Option.map_some, allSome, Option.map_eq_some_iff] at h
      obtain ⟨r', hr', rfl⟩ := h
      rw [List.lookup_cons, List.lookup_cons]
      by_cases hk : k = k'
      · subst hk; simp [hf]
      · have : (k == k') = false := by simpa using hk
        simp only [this]
        exact lookup_allSome_map f xs r' k hr'

/-- C17 → C02: between different subnets the dynamics' subnet firewall lets the service with index
`i` pass from `a` to `b` exactly when the subnets are connected and the file lists the service's
*name* under the key `(a, b)`; a pair without a rule lets nothing pass -/
theorem C17_firewall_semantics (L : Loaded) (sc : Scenario) (h : L.toScenario = some sc)
    (a b : Nat) (hab : a ≠ b) (x : Y) (i : Nat) (hx : idxOf x L.services = some i) :
    sc.net.subnetTraffic a b i =
      (sc.net.conn a b && match L.firewall.lookup (a, b) with
                          | some names => pyIn x names
                          | none => false) := by
  unfold Loaded.toScenario at h
  simp only [Option.bind_eq_bind, Option.bind_eq_some_iff, Option.pure_def, Option.some.injEq] at h
  obtain ⟨sens, _, exploits, _, privescs, _, fw, hfw, hosts, _, c1, _, c2, _, c3, _, c4, _, rfl⟩ := h
  have hlk := lookup_allSome_map (fun names => (svcIdxs L.services names).map sortNat) L.firewall fw (a, b)
    (by
      have : (L.firewall.map fun e => (svcIdxs L.services e.2).map fun l => (e.1, sortNat l))
          = L.firewall.map fun e => ((svcIdxs L.services e.2).map sortNat).map fun v => (e.1, v) := by
        apply List.map_congr_left; intro e _; cases svcIdxs L.services e.2 <;> rfl
      rw [← this]; exact hfw)
  unfold Net.subnetTraffic
  have hne : (a == b) = false := by simpa using hab
  simp only [hne, Bool.false_eq_true, if_false]
  generalize Net.conn _ a b = c
  cases c with
  | false => simp
  | true =>
    simp only [Bool.not_true, Bool.false_eq_true, if_false, Bool.true_and, Scenario.net]
    rw [hlk]
    cases hl : L.firewall.lookup (a, b) with
    | none => rfl
    | some names =>
      simp only [Option.bind_some]
      cases hs : svcIdxs L.services names with
      | none =>
        -- impossible: the whole firewall translated
        exfalso
        have hmem := lookup_some_mem _ _ _ hl
        have : (svcIdxs L.services names).map (fun l => ((a, b), sortNat l)) ∈
            L.firewall.map fun e => (svcIdxs L.services e.2).map fun l => (e.1, sortNat l) :=
          List.mem_map.mpr ⟨((a, b), names), hmem, rfl⟩
        rw [← allSome_map hfw, hs] at this
        simp at this
      | some idxs =>
        simp only [Option.map_some]
        have := idx_mem_iff_name_mem hs hx
        cases hp : pyIn x names with
        | true => simpa [mem_sortNat] using this.mpr hp
        | false =>
          have hni : i ∉ idxs := fun hi => by rw [this.mp hi] at hp; cases hp
          simpa [mem_sortNat] using hni


/-- an exploit / escalation written for OS `xos` ("none" parsed to `.null`) fits a host whose file
entry names OS `hos` -/
def osMatches (xos hos : Y) : Bool := match xos with | .null => true | _ => xos.pyEq hos

/-- the OS test of the dynamics: an exploit / escalation written for "none" applies to every host,
one written for an OS name applies exactly to the hosts whose file entry names that OS -/
theorem os_semantics (osl : List Y) (xos : Y) (o : Option Nat) (ho : optIdx osl xos = some o)
    (hd : HostDef) (hos : Y) (hx : hd.os = osl.map (fun n => n.pyEq hos)) :
    NASim.Gen.runsOsH hd o = osMatches xos hos := by
  unfold osMatches
  cases xos with
  | null => simp [optIdx] at ho; subst ho; rfl
  | bool b =>
    simp only [optIdx, Option.map_eq_some_iff] at ho
    obtain ⟨i, hi, rfl⟩ := ho
    obtain ⟨hlt, hpy⟩ := idxOf_spec hi
    simp only [NASim.Gen.runsOsH, hx, List.getD_eq_getElem?_getD, List.getElem?_map, List.getElem?_eq_getElem hlt,
      Option.map_some, Option.getD_some]
    exact pyEq_congr hpy hos
  | int b =>
    simp only [optIdx, Option.map_eq_some_iff] at ho
    obtain ⟨i, hi, rfl⟩ := ho
    obtain ⟨hlt, hpy⟩ := idxOf_spec hi
    simp only [NASim.Gen.runsOsH, hx, List.getD_eq_getElem?_getD, List.getElem?_map, List.getElem?_eq_getElem hlt,
      Option.map_some, Option.getD_some]
    exact pyEq_congr hpy hos
  | num b =>
    simp only [optIdx, Option.map_eq_some_iff] at ho
    obtain ⟨i, hi, rfl⟩ := ho
    obtain ⟨hlt, hpy⟩ := idxOf_spec hi
    simp only [NASim.Gen.runsOsH, hx, List.getD_eq_getElem?_getD, List.getElem?_map, List.getElem?_eq_getElem hlt,
      Option.map_some, Option.getD_some]
    exact pyEq_congr hpy hos
  | str b =>
    simp only [optIdx, Option.map_eq_some_iff] at ho
    obtain ⟨i, hi, rfl⟩ := ho
    obtain ⟨hlt, hpy⟩ := idxOf_spec hi
    simp only [NASim.Gen.runsOsH, hx, List.getD_eq_getElem?_getD, List.getElem?_map, List.getElem?_eq_getElem hlt,
      Option.map_some, Option.getD_some]
    exact pyEq_congr hpy hos
  | list b =>
    simp only [optIdx, Option.map_eq_some_iff] at ho
    obtain ⟨i, hi, rfl⟩ := ho
    obtain ⟨hlt, hpy⟩ := idxOf_spec hi
    simp only [NASim.Gen.runsOsH, hx, List.getD_eq_getElem?_getD, List.getElem?_map, List.getElem?_eq_getElem hlt,
      Option.map_some, Option.getD_some]
    exact pyEq_congr hpy hos
  | map b =>
    simp only [optIdx, Option.map_eq_some_iff] at ho
    obtain ⟨i, hi, rfl⟩ := ho
    obtain ⟨hlt, hpy⟩ := idxOf_spec hi
    simp only [NASim.Gen.runsOsH, hx, List.getD_eq_getElem?_getD, List.getElem?_map, List.getElem?_eq_getElem hlt,
      Option.map_some, Option.getD_some]
    exact pyEq_congr hpy hos

/-- C17 → C01: exploit `e` (from the file's entry `X`) applies to host `hd` (from the file's host
entry with OS `hos` and service list `hsv`) in the sense the dynamics and the generator use
(`vulnE`) exactly when the file lists the exploit's service among the host's services and the
exploit is written for "none" or for the host's OS -/
theorem C17_exploit_applies_iff (services os : List Y) (X : ExplL) (e : ExploitDef)
    (hXe : ExplL.toDef services os X = some e) (x : HostL) (hsv : List Y) (hos : Y)
    (hxs : x.services = services.map (fun s => pyIn s hsv)) (hxo : x.os = os.map (fun n => n.pyEq hos))
    (hd : HostDef) (hxd : HostL.toDef services x = some hd) :
    NASim.Gen.vulnE hd e = (pyIn X.service hsv && osMatches X.os hos) := by
  have h1 := C17_exploit_service_semantics services os X e hXe x hsv hxs hd hxd
  have hdo : hd.os = os.map (fun n => n.pyEq hos) := by
    unfold HostL.toDef at hxd
    simp only [Option.bind_eq_bind, Option.bind_eq_some_iff, Option.pure_def, Option.some.injEq] at hxd
    obtain ⟨v, _, fw, _, rfl⟩ := hxd
    exact hxo
  have hoe : optIdx os X.os = some e.os := by
    unfold ExplL.toDef at hXe
    simp only [Option.bind_eq_bind, Option.bind_eq_some_iff, Option.pure_def, Option.some.injEq] at hXe
    obtain ⟨i, _, o, ho, cost, _, rfl⟩ := hXe
    exact ho
  have h2 := os_semantics os X.os e.os hoe hd hos hdo
  unfold NASim.Gen.vulnE
  rw [h1, h2]

end NASim.Load
