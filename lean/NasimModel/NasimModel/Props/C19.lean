import NasimModel.Model.World
import NasimModel.Props.C09
import NasimModel.Proofs.Step
/-!
# C19 — environment instances are independent of each other

`C19_same_layout` (the part that holds): if every scenario constructed in the process has the same
vector layout, then under any interleaving of constructions, resets and steps every environment
evolves exactly like an environment that is alone (`soloRun`).

`C19_counterexample`: with two different layouts the statement is false of the model — as it is of
the implementation (known finding: `HostVector` keeps its layout in class attributes).
-/
namespace NASim

theorem modifyAt_map {α β} (l : List α) (i : Nat) (f : α → α) (f' : β → β) (g : α → β)
    (h : ∀ x ∈ l, f' (g x) = g (f x)) : modifyAt (l.map g) i f' = (modifyAt l i f).map g := by
  unfold modifyAt
  rw [List.zipIdx_map, List.map_map, List.map_map]
  apply List.map_congr_left
  intro ⟨x, j⟩ hx
  have hx' : x ∈ l := List.fst_mem_of_mem_zipIdx hx
  simp only [Function.comp, Prod.map, id]
  split
  · exact h x hx'
  · rfl

theorem mem_modifyAt {α} {l : List α} {i : Nat} {f : α → α} {y : α} (h : y ∈ modifyAt l i f) :
    y ∈ l ∨ ∃ x ∈ l, y = f x := by
  unfold modifyAt at h
  obtain ⟨⟨x, j⟩, hx, rfl⟩ := List.mem_map.mp h
  have hx' : x ∈ l := List.fst_mem_of_mem_zipIdx hx
  simp only
  split
  · exact Or.inr ⟨x, hx', rfl⟩
  · exact Or.inl hx'

/-- rows that fit the layout survive the round trip through the raw tensor -/
theorem decode_encode_state (L : Layout) (s : State) (h : ∀ r ∈ s, RowWF L r) :
    decodeState L (encodeState L s) = s := by
  unfold decodeState encodeState
  rw [List.map_map]
  conv => rhs; rw [← List.map_id s]
  apply List.map_congr_left
  intro r hr
  simp only [Function.comp, id]
  rw [C09_layout_concat L r (h r hr), C09_decode_encode L r (h r hr)]

theorem rowWF_of_cfg {L : Layout} {r r' : Row} (h : cfg r' = cfg r) (hw : RowWF L r) : RowWF L r' := by
  simp only [cfg, Prod.mk.injEq] at h
  obtain ⟨h1, _, _, h4, h5, h6⟩ := h
  obtain ⟨a, b, c, d, e⟩ := hw
  exact ⟨h1 ▸ a, h1 ▸ b, h4 ▸ c, h5 ▸ d, h6 ▸ e⟩

theorem perform_rowWF (L : Layout) (n : Net) (s : State) (a : Action) (u : Rat)
    (h : ∀ r ∈ s, RowWF L r) : ∀ r ∈ (perform n s a u).1, RowWF L r := by
  rw [perform_eq_map]
  intro r' hr'
  obtain ⟨r, hr, rfl⟩ := List.mem_map.mp hr'
  exact rowWF_of_cfg (stepRow_cfg n s a u r) (h r hr)

theorem reset_rowWF (L : Layout) (n : Net) (s : State) (h : ∀ r ∈ s, RowWF L r) :
    ∀ r ∈ reset n s, RowWF L r := by
  intro r' hr'
  obtain ⟨r, hr, rfl⟩ := List.mem_map.mp hr'
  exact rowWF_of_cfg (by simp [cfg]) (h r hr)

/-- how an independent environment is stored in the world -/
def stored (L : Layout) (e : Env) : RawEnv :=
  { sc := e.sc, fullyObs := e.fullyObs, raw := encodeState L e.cur, lastObs := e.lastObs, steps := e.steps }

/-- the world is a faithful store of the independent environments `es` -/
structure Rel (L : Layout) (w : World) (es : List Env) : Prop where
  layout : w.layout = some L ∨ es = []
  envs : w.envs = es.map (stored L)
  same : ∀ e ∈ es, e.sc.layout = L ∧ ∀ r ∈ e.cur, RowWF L r

/-- the operations considered: every constructed scenario has layout `L` (and hosts that fit it) -/
def OpOk (L : Layout) : WOp → Prop
  | .construct sc _ => sc.layout = L ∧ ∀ r ∈ sc.init, RowWF L r
  | _ => True

theorem step_rel (L : Layout) (w : World) (es : List Env) (op : WOp) (h : Rel L w es) (hop : OpOk L op) :
    Rel L (w.apply op) (soloApply es op) := by
  cases op with
  | construct sc fo =>
    obtain ⟨hl, hw⟩ := hop
    refine ⟨Or.inl (by simp [World.apply, World.construct, hl]), ?_, ?_⟩
    · simp [World.apply, World.construct, soloApply, h.envs, stored, Env.make, hl]
    · intro e he
      simp only [soloApply, List.mem_append, List.mem_cons, List.not_mem_nil, or_false] at he
      rcases he with he | rfl
      · exact h.same e he
      · exact ⟨hl, hw⟩
  | reset i =>
    rcases h.layout with hl | hnil
    · refine ⟨Or.inl (by simp [World.apply, hl]), ?_, ?_⟩
      · simp only [World.apply, hl, soloApply, h.envs]
        apply modifyAt_map
        intro e he
        obtain ⟨hsl, hwf⟩ := h.same e he
        simp [stored, Env.reset, decode_encode_state L e.cur hwf, hsl]
      · intro e he
        simp only [soloApply] at he
        rcases mem_modifyAt he with he | ⟨x, hx, rfl⟩
        · exact h.same e he
        · obtain ⟨hsl, hwf⟩ := h.same x hx
          exact ⟨hsl, reset_rowWF L _ _ hwf⟩
    · subst hnil
      have : w.envs = [] := by simpa using h.envs
      refine ⟨Or.inr (by simp [soloApply, modifyAt]), ?_, by simp [soloApply, modifyAt]⟩
      simp only [World.apply, soloApply]
      cases w.layout <;> simp [this, modifyAt]
  | step i a u =>
    rcases h.layout with hl | hnil
    · refine ⟨Or.inl (by simp [World.apply, hl]), ?_, ?_⟩
      · simp only [World.apply, hl, soloApply, h.envs]
        apply modifyAt_map
        intro e he
        obtain ⟨hsl, hwf⟩ := h.same e he
        simp [stored, Env.step, genStep, decode_encode_state L e.cur hwf, hsl]
      · intro e he
        simp only [soloApply] at he
        rcases mem_modifyAt he with he | ⟨x, hx, rfl⟩
        · exact h.same e he
        · obtain ⟨hsl, hwf⟩ := h.same x hx
          exact ⟨hsl, perform_rowWF L _ _ _ _ hwf⟩
    · subst hnil
      have : w.envs = [] := by simpa using h.envs
      refine ⟨Or.inr (by simp [soloApply, modifyAt]), ?_, by simp [soloApply, modifyAt]⟩
      simp only [World.apply, soloApply]
      cases w.layout <;> simp [this, modifyAt]

/-- C19 (same layout): for every interleaving of constructions, resets and steps in which all
scenarios share one vector layout, the process-wide world stores exactly the environments an
independent execution would produce: creating, resetting or stepping one environment never
changes the state, the observations or their decoding of another -/
theorem C19_same_layout (L : Layout) (ops : List WOp) (hops : ∀ op ∈ ops, OpOk L op) :
    Rel L (World.run {} ops) (soloRun [] ops) := by
  have h0 : Rel L ({} : World) [] := ⟨Or.inr rfl, rfl, by simp⟩
  generalize ({} : World) = w at *
  generalize ([] : List Env) = es at *
  induction ops generalizing w es with
  | nil => exact h0
  | cons op ops ih =>
    unfold World.run soloRun
    simp only [List.foldl_cons]
    exact ih (fun o ho => hops o (List.mem_cons_of_mem _ ho)) _ _
      (step_rel L w es op h0 (hops op (List.mem_cons_self ..)))

/-- in particular, decoding environment `i`'s tensor gives exactly its solo state -/
theorem C19_state_decodes (L : Layout) (ops : List WOp) (hops : ∀ op ∈ ops, OpOk L op) :
    (World.run {} ops).envs.map (RawEnv.view L) = soloRun [] ops := by
  have h := C19_same_layout L ops hops
  rw [h.envs, List.map_map]
  conv => rhs; rw [← List.map_id (soloRun [] ops)]
  apply List.map_congr_left
  intro e he
  obtain ⟨_, hwf⟩ := h.same e he
  simp [RawEnv.view, stored, decode_encode_state L e.cur hwf]

/-! ### different layouts: the full statement is false (known finding) -/

def cxA : Scenario :=
  { subnets := [1, 1], topo := [[1, 1], [1, 1]], nOs := 1, nSvc := 1, nProc := 1,
    sens := [((1, 0), 640)],
    exploits := [{ svc := 0, os := none, prob := 1, cost := 64, access := 2 }], privescs := [],
    svcScanCost := 64, osScanCost := 64, subnetScanCost := 64, procScanCost := 64,
    fw := [((0, 1), [0]), ((1, 0), [])],
    hosts := [{ addr := (1, 0), os := [true], svc := [true], proc := [true], value := 640 }],
    stepLimit := none, bounds := (2, 1) }

/-- same network with a second host: the address space bound grows, the layout differs -/
def cxB : Scenario :=
  { cxA with subnets := [1, 2], bounds := (2, 2),
             hosts := cxA.hosts ++ [{ addr := (1, 1), os := [true], svc := [false], proc := [true], value := 0 }] }

def cxOps : List WOp :=
  [.construct cxA false, .construct cxB false,
   .step 0 { kind := .exploit, target := (1, 0), cost := 64, prob := 1, req := 1, svc := 0, grant := 2 } 0]

/-- C19 (different layouts): after a second environment with another layout has been constructed,
stepping the first one no longer yields the tensor it would hold if it were alone -/
theorem C19_counterexample :
    cxA.layout ≠ cxB.layout ∧
    (World.run {} cxOps).envs.map (·.raw) ≠ (soloRun [] cxOps).map (fun e => encodeState e.sc.layout e.cur) := by
  decide +kernel

end NASim
