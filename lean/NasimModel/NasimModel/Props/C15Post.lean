import NasimModel.Props.C15
import NasimModel.Props.C16Gen
import NasimModel.Proofs.GenMeta
/-!
# C15: the postcondition predicate holds of everything the model generator returns

`genPostChecks p sc` (Model/GenPost.lean) is what the driver evaluates on the scenario the
*implementation* generated.  Here the same checks are derived from the theorems of `Props/C15` for
every scenario the model generator returns.  Two checks are conditional: when the probabilities are
drawn uniformly (`exploit_probs=None` / `privesc_probs=None`) NumPy's `random_sample` ranges over
[0, 1), so strict positivity (checks 8, 9) holds exactly when no drawn value is 0.0 — it is proved
for the three other probability specifications and `C15_zero_draw_counterexample` exhibits a
stream with a 0.0 draw on which the model generator returns a probability-0 exploit.
-/
namespace NASim.Gen

/-- indices (into `genPostChecks`) of the checks that are proved only for specified probabilities -/
def conditionalChecks (p : Params) : List Nat :=
  (match p.exploitProbs with | .none => [8] | _ => []) ++ (match p.privescProbs with | .none => [9] | _ => [])

theorem pairwiseDistinct_of_nodup : ∀ (l : List Nat), l.Nodup → pairwiseDistinct l = true
  | [], _ => rfl
  | x :: xs, h => by
    rw [List.nodup_cons] at h
    simp only [pairwiseDistinct, Bool.and_eq_true, Bool.not_eq_true', List.contains_eq_mem,
      decide_eq_false_iff_not]
    exact ⟨h.1, pairwiseDistinct_of_nodup xs h.2⟩

theorem all_range_of (n : Nat) (f : Nat → Bool) (h : ∀ i, i < n → f i = true) : (List.range n).all f = true := by
  rw [List.all_eq_true]; intro i hi; exact h i (List.mem_range.mp hi)

/-- C15: host values are the sensitive value or the base value, the discovery value is the requested
one, generated hosts carry no host firewall — none of which `_ensure_host_vulnerability` touches -/
theorem C15_host_values {p : Params} {s s' : List Tok} {sc : Scenario} (h : generate p s = .ok (sc, s')) :
    ∀ hd ∈ sc.hosts, hd.value = (sc.sens.lookup hd.addr).getD p.baseHostValue ∧
      hd.dvalue = p.hostDiscoveryValue ∧ hd.fw = [] := by
  have T := generate_trace h
  obtain ⟨hosts0, s1, s2, s3, s4, h0, h1, _⟩ := T.hosts
  have m0 : hosts0.map hmeta = (allAddrs sc.subnets).map fun a =>
      (a, (sc.sens.lookup a).getD p.baseHostValue, p.hostDiscoveryValue, []) := by
    unfold initialHosts at h0
    split at h0
    · exact uniformHosts_hmeta _ _ _ _ _ _ _ _ h0
    · exact correlatedHosts_hmeta _ _ _ _ _ _ _ _ h0
  have m1 : sc.hosts.map hmeta = hosts0.map hmeta := by
    unfold ensureVulnerable at h1
    obtain ⟨r, s5, hp1, hp2⟩ := bind_ok h1
    rw [ensurePass2_hmeta _ _ _ _ _ _ _ _ _ hp2, ensurePass1_hmeta _ _ _ _ _ _ _ _ _ hp1]
  intro hd hhd
  have : hmeta hd ∈ sc.hosts.map hmeta := List.mem_map_of_mem hhd
  rw [m1, m0] at this
  obtain ⟨a, _, ha⟩ := List.mem_map.mp this
  simp only [hmeta, Prod.mk.injEq] at ha
  obtain ⟨e1, e2, e3, e4⟩ := ha
  exact ⟨by rw [← e2, e1], e3.symm, e4.symm⟩

/-- C15: the proved part of the postcondition predicate, as the driver evaluates it -/
theorem C15_postcondition_checks {p : Params} {s s' : List Tok} {sc : Scenario}
    (h : generate p s = .ok (sc, s')) (hconst : p.period = 40 ∧ p.userSize = 5) :
    ∀ i, i < (genPostChecks p sc).length → i ∉ conditionalChecks p →
      ((genPostChecks p sc).getD i ("", false)).2 = true := by
  have T := generate_trace h
  have hn := valid_numHosts T.valid
  have hsub : sc.subnets = genSubnets 40 5 p.numHosts := by rw [T.subnets, hconst.1, hconst.2]
  obtain ⟨hsum, hpos, hlen, hhead⟩ := C15_subnets_partition p.numHosts hn
  rw [← hsub] at hsum hpos hlen hhead
  obtain ⟨haddrs, hcount⟩ := C15_hosts_addresses h hconst
  obtain ⟨d1, d2, d3, d4, d5⟩ := C15_counts h
  obtain ⟨_, htopo, hconn, hrefl, c1, c2, c3, c4, c5, b1, b2, b3⟩ := C15_network h
  obtain ⟨a2, hsens, s1, s2, s3, s4⟩ := C15_sensitive h hconst
  have hwf := C15_hosts_wf h
  have hkeys := C15_firewall_keys h
  intro i hi hnot
  simp only [genPostChecks, List.length_cons, List.length_nil] at hi
  have hvals := C15_host_values h
  have hcases : i = 0 ∨ i = 1 ∨ i = 2 ∨ i = 3 ∨ i = 4 ∨ i = 5 ∨ i = 6 ∨ i = 7 ∨ i = 10 ∨ i = 11 ∨ i = 12 ∨ i = 14
      ∨ i = 8 ∨ i = 9 ∨ i = 13 := by omega
  rcases hcases with rfl | rfl | rfl | rfl | rfl | rfl | rfl | rfl | rfl | rfl | rfl | rfl | rfl | rfl | rfl
  · have hsum' : List.foldl (fun x1 x2 => x1 + x2) 0 sc.subnets.tail = p.numHosts := by
      rw [← List.drop_one]; exact hsum
    simp [genPostChecks, hcount, hsum']
  · simp only [genPostChecks, List.getD_cons_succ, List.getD_cons_zero, Bool.and_eq_true, List.all_eq_true,
      decide_eq_true_eq, beq_iff_eq]
    exact ⟨⟨hpos, hlen⟩, hhead⟩
  · simp [genPostChecks, haddrs]
  · simp [genPostChecks, d1, d2, d3]
  · simp [genPostChecks, d4, d5]
  · -- topology
    simp only [genPostChecks, List.getD_cons_succ, List.getD_cons_zero, Bool.and_eq_true, beq_iff_eq]
    obtain ⟨g1, g2⟩ := genTopo_shape sc.subnets.length
    refine ⟨⟨by rw [htopo]; exact g1, ?_⟩, ?_⟩
    · rw [List.all_eq_true]
      intro row hrow
      rw [htopo] at hrow
      obtain ⟨r1, r2⟩ := g2 row hrow
      simp only [Bool.and_eq_true, beq_iff_eq, List.all_eq_true, Bool.or_eq_true]
      exact ⟨r1, r2⟩
    · apply all_range_of
      intro a ha
      simp only [Bool.and_eq_true]
      refine ⟨(hrefl a ha).1, ?_⟩
      apply all_range_of
      intro b hb
      simp [(hconn a b ha hb).2]
  · simp only [genPostChecks, List.getD_cons_succ, List.getD_cons_zero]
    apply all_range_of
    intro a ha
    simp [(hrefl a ha).2]
  · simp only [genPostChecks, List.getD_cons_succ, List.getD_cons_zero, List.all_eq_true]
    intro hd hhd; exact (hwf hd hhd).2
  · -- sensitive hosts
    simp only [genPostChecks, List.getD_cons_succ, List.getD_cons_zero, hsens]
    simp only [Bool.and_eq_true, beq_iff_eq, decide_eq_true_eq, Bool.or_eq_true, beq_self_eq_true, true_and]
    refine ⟨⟨⟨s1, s2⟩, s3⟩, ?_⟩
    cases hr : p.randomGoal
    · exact Or.inr (s4 hr)
    · exact Or.inl rfl
  · simp only [genPostChecks, List.getD_cons_succ, List.getD_cons_zero, List.all_eq_true, Bool.and_eq_true,
      beq_iff_eq]
    intro hd hhd
    obtain ⟨v1, v2, v3⟩ := hvals hd hhd
    exact ⟨⟨v1, v2⟩, by simp [v3]⟩
  · simp only [genPostChecks, List.getD_cons_succ, List.getD_cons_zero, beq_iff_eq]
    rw [hkeys]
  · -- costs, limit, bounds
    simp only [genPostChecks, List.getD_cons_succ, List.getD_cons_zero, Bool.and_eq_true, beq_iff_eq,
      decide_eq_true_eq]
    refine ⟨⟨⟨⟨⟨⟨⟨c1, c2⟩, c3⟩, c4⟩, c5⟩, b1⟩, b2⟩, ?_⟩
    cases hb : p.bounds with
    | none =>
      have := T.bounds; rw [← T.subnets, hb] at this
      simp only [genBounds] at this; injection this with this
      simp [← this]
    | some b => simp [b3 b hb]
  · -- exploit definitions (probabilities specified)
    have hspec : p.exploitProbs ≠ .none := by
      intro hc; apply hnot; simp [conditionalChecks, hc]
    obtain ⟨hall, hd⟩ := C15_exploits h
    simp only [genPostChecks, List.getD_cons_succ, List.getD_cons_zero, Bool.and_eq_true, List.all_eq_true]
    refine ⟨fun e he => ?_, hd⟩
    obtain ⟨q1, q2, q3, q4, _, q6, q7⟩ := hall e he
    unfold exploitOk
    simp only [Bool.and_eq_true, decide_eq_true_eq, beq_iff_eq, Bool.or_eq_true]
    refine ⟨⟨⟨⟨⟨q1, ?_⟩, q3⟩, q7 hspec⟩, q6⟩, q4⟩
    cases ho : e.os with
    | none => rfl
    | some o => simpa using q2 o ho
  · -- escalation definitions (probabilities specified)
    have hspec : p.privescProbs ≠ .none := by
      intro hc; apply hnot; simp [conditionalChecks, hc]
    obtain ⟨hall, hd⟩ := C15_privescs h
    simp only [genPostChecks, List.getD_cons_succ, List.getD_cons_zero, Bool.and_eq_true, List.all_eq_true]
    refine ⟨fun e he => ?_, hd⟩
    obtain ⟨⟨pr, q0, q1⟩, q2, q3, q4, _, q6, q7⟩ := hall e he
    unfold privescOk
    simp only [Bool.and_eq_true, decide_eq_true_eq, beq_iff_eq]
    refine ⟨⟨⟨⟨⟨by rw [q0]; simpa using q1, ?_⟩, q3⟩, q7 hspec⟩, q6⟩, q4⟩
    cases ho : e.os with
    | none => rfl
    | some o => simpa using q2 o ho
  · -- firewall rules
    have hshape := C15_firewall_rules h
    have hlow := C15_firewall_lower_bound h
    simp only [genPostChecks, List.getD_cons_succ, List.getD_cons_zero, List.all_eq_true]
    intro r hr
    obtain ⟨r1, r2, r3, r4⟩ := hshape r hr
    have hrk : r.1 ∈ (fwPairs sc.subnets.length).filter fun (a, b) => a != b && connB sc a b := by
      rw [← hkeys]; exact List.mem_map_of_mem hr
    have hk2 := (List.mem_filter.mp hrk).2
    obtain ⟨⟨a, b⟩, l⟩ := r
    simp only [Bool.and_eq_true] at hk2
    unfold fwRuleOk
    simp only [Bool.and_eq_true, List.all_eq_true, decide_eq_true_eq]
    refine ⟨⟨⟨⟨hk2.1, hk2.2⟩, r1⟩, pairwiseDistinct_of_nodup _ r2⟩, ?_⟩
    by_cases huu : 2 < a ∧ 2 < b
    · have := r3 huu
      simp only at this
      simp [huu.1, huu.2, this]
    · rw [if_neg huu]
      by_cases hb0 : b = 0
      · simp [hb0]
      · have h1 := hlow _ hr hb0
        have h2 := r4 huu
        simp only at h1 h2
        simp [hb0, h1, h2]


/-- strict positivity is not provable for drawn probabilities: NumPy's `random_sample` ranges over
[0, 1), and on a stream whose draw is 0.0 `_get_action_probs` returns probability 0 -/
theorem C15_zero_draw_counterexample :
    (match actionProbs 1 ProbSpec.none [Tok.rs [0]] with
      | .ok (probs, _) => probs == [0]
      | .error _ => false) = true := by decide +kernel

end NASim.Gen
