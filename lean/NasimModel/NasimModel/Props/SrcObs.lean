import NasimModel.Proofs.SrcObsTie
/-!
# Source tie: `State.get_initial_observation`, `State.get_observation`, `Observation.*`

The observation functions of `nasim/envs/state.py` and `nasim/envs/observation.py`, translated from their source
text over raw arrays (`Generated/SrcObs.lean`), compute on the raw arrays of a model state exactly the model's
`initialObs` / `observe`: zero tensor with one extra row, auxiliary row from the action result, host rows copied
(fully observable) or stored row by row from `HostVector.observe` through the `host_num_map` (partially observable;
subnet-scan loop first, target row last).
-/
open NASim
namespace NASim

/-- a state whose rows fit the layout and have distinct addresses; at least one host -/
structure StateOk (L : Layout) (s : State) : Prop where
  wf : WF s
  ne : s ≠ []
  fit : ∀ r ∈ s, RowFits L r

theorem shape_rawOf (L : Layout) (s : State) (h : StateOk L s) :
    SrcObs.State.shape L (rawOf L s) = (s.length, L.stateSize) := by
  unfold SrcObs.State.shape PyRt.shape2 rawOf
  cases s with
  | nil => exact absurd rfl h.ne
  | cons x xs => simp [encodeRow_length L x (h.fit x (List.mem_cons_self ..))]

theorem obs_init (L : Layout) (n w : Nat) :
    SrcObs.Observation.__init__ L (n, w) =
      { obs_shape := (n + 1, w), aux_row := n, tensor := List.replicate (n + 1) (zeros w) } := by
  unfold SrcObs.Observation.__init__
  simp [PyRt.zeros2, PyRt.zeros1, zeros]

theorem observeRow_empty_zeros (L : Layout) (x : Row) (h : RowFits L x) : observeRow L x {} = zeros L.stateSize := by
  obtain ⟨ho, hv, hp⟩ := h
  rw [observeRow_empty, ho, hv, hp, stateSize_eq]
  have : ([0, 0, 0, 0, 0, 0] : List Int) = zeros 6 := rfl
  rw [this, ← zeros_add, ← zeros_add, ← zeros_add, ← zeros_add]

theorem hosts_rawOf (L : Layout) (s : State) (h : StateOk L s) :
    SrcObs.State.hosts L (rawOf L s) = s.map (fun x => (x.addr, encodeRow L x)) := by
  unfold SrcObs.State.hosts
  simp only [forEach_next]
  have key : ∀ (pre post : List Row) (acc : List (Addr × List Int)), s = pre ++ post →
      (post.map (·.addr)).foldl (fun hosts host_addr => hosts ++ [(host_addr, SrcObs.State.get_host L (rawOf L s) host_addr)]) acc
        = acc ++ post.map (fun x => (x.addr, encodeRow L x)) := by
    intro pre post
    induction post generalizing pre with
    | nil => intro acc _; simp
    | cons x xs ih =>
      intro acc hs
      simp only [List.map_cons, List.foldl_cons]
      have hx : s[pre.length]? = some x := by rw [hs]; simp
      have hg : SrcObs.State.get_host L (rawOf L s) x.addr = encodeRow L x := by
        unfold SrcObs.State.get_host
        simp only [numMapGet_rawOf L s h.wf _ x hx, row_rawOf L s _ x hx]
      rw [hg, ih (pre ++ [x]) (acc ++ [(x.addr, encodeRow L x)]) (by simp [hs])]
      simp
  have hk : PyRt.mapKeys (rawOf L s).host_num_map = s.map (·.addr) := by
    simp only [PyRt.mapKeys, rawOf]
    rw [List.map_fst_zip]
    simp
  rw [hk]
  simpa using key [] s [] rfl

theorem reachable_encode (L : Layout) (x : Row) : (SrcObs.HostVector.reachable L (encodeRow L x) != 0) = x.reach := by
  unfold SrcObs.HostVector.reachable
  have := encodeRow_cell L x 1 (by omega)
  simp only [Src_vector_idxs, PyRt.at1, Layout.reachIdx, Layout.compIdx, Layout.hostIdx]
  rw [this]
  cases x.reach <;> rfl

/-- `State.get_initial_observation`: the full state when fully observable; otherwise address, reachable and
discovered of the initially reachable hosts; the auxiliary row is zero -/
theorem Src_initial_observation (L : Layout) (s : State) (fo : Bool) (h : StateOk L s) :
    (SrcObs.State.get_initial_observation L (rawOf L s) fo).tensor = initialObs L s fo := by
  unfold SrcObs.State.get_initial_observation
  rw [shape_rawOf L s h, obs_init]
  cases fo
  · dsimp only
    simp only [Bool.false_eq_true, if_false, hosts_rawOf L s h, initialObs]
    let f : Row → List Int := fun x => if x.reach = true then observeRow L x baseMask else observeRow L x {}
    let step : PyRt.ObsObj → Addr × List Int → PyRt.ObsObj := fun obs p =>
      if (!(SrcObs.HostVector.reachable L p.2 != 0)) = true then obs
      else SrcObs.Observation.update_from_host L obs (SrcObs.State.get_host_idx L (rawOf L s) p.1)
        (SrcObs.HostVector.observe L p.2 { SrcObs.HostVector.observe_defaults with address := true, reach := true, disc := true })
    have hbody : ∀ (l : List (Addr × List Int)) (o : PyRt.ObsObj),
        PyRt.forEach (β := Empty) l o (fun x obs =>
          match x with
          | (host_addr, host) =>
            if (!(SrcObs.HostVector.reachable L host != 0)) = true then PyRt.Ctl.next obs
            else PyRt.Ctl.next (SrcObs.Observation.update_from_host L obs (SrcObs.State.get_host_idx L (rawOf L s) host_addr)
              (SrcObs.HostVector.observe L host { SrcObs.HostVector.observe_defaults with address := true, reach := true, disc := true })))
          = .next (l.foldl step o) := by
      intro l o
      rw [← forEach_next]
      apply forEach_congr
      intro x _ t
      obtain ⟨a, v⟩ := x
      simp only [step]
      split <;> rfl
    rw [hbody]
    have key : ∀ (pre post : List Row) (o : PyRt.ObsObj), s = pre ++ post →
        o.tensor = pre.map f ++ (List.replicate post.length (zeros L.stateSize) ++ [zeros L.stateSize]) →
        ((post.map (fun x => (x.addr, encodeRow L x))).foldl step o).tensor = s.map f ++ [zeros L.stateSize] := by
      intro pre post
      induction post generalizing pre with
      | nil => intro o hs ho; simp [ho, hs]
      | cons x xs ih =>
        intro o hs ho
        simp only [List.map_cons, List.foldl_cons]
        have hx : s[pre.length]? = some x := by rw [hs]; simp
        have hfit : RowFits L x := h.fit x (by rw [hs]; simp)
        apply ih (pre ++ [x]) _ (by simp [hs])
        simp only [step, reachable_encode]
        cases hr : x.reach
        · simp only [Bool.not_false, if_true, ho, List.map_append, List.map_cons, List.map_nil, List.length_cons,
            List.replicate_succ, f, hr, Bool.false_eq_true, if_false, observeRow_empty_zeros L x hfit]
          simp
        · simp only [Bool.not_true, Bool.false_eq_true, if_false, SrcObs.Observation.update_from_host,
            SrcObs.State.get_host_idx, numMapGet_rawOf L s h.wf _ x hx, ho, Src_observe_row L x _ hfit]
          simp only [List.map_append, List.map_cons, List.map_nil, List.length_cons, List.replicate_succ, f, hr, if_true]
          rw [List.set_append_right _ _ (by simp)]
          simp
          rfl
    have := key [] s (PyRt.ObsObj.mk (s.length + 1, L.stateSize) s.length
      (List.replicate (s.length + 1) (zeros L.stateSize))) rfl (by simp [List.replicate_succ'])
    simpa [f] using this
  · dsimp only
    simp only [if_true, SrcObs.Observation.from_state, PyRt.setPrefix, rawOf, initialObs]
    simp [List.replicate_succ']

theorem from_action_result_tensor (L : Layout) (n w : Nat) (r : Result) (hw : 4 ≤ w) :
    SrcObs.Observation.from_action_result L (PyRt.ObsObj.mk (n + 1, w) n (List.replicate (n + 1) (zeros w))) r =
      PyRt.ObsObj.mk (n + 1, w) n (List.replicate n (zeros w) ++ [auxRow w r]) := by
  obtain ⟨k, rfl⟩ : ∃ k, w = k + 4 := ⟨w - 4, by omega⟩
  unfold SrcObs.Observation.from_action_result
  simp only [SrcObs.Observation._success_idx, SrcObs.Observation._conn_error_idx, SrcObs.Observation._perm_error_idx,
    SrcObs.Observation._undef_error_idx, PyRt.row]
  have hz : zeros (k + 4) = 0 :: 0 :: 0 :: 0 :: zeros k := by simp [zeros, List.replicate_succ]
  simp [hz, auxRow, List.getD_eq_getElem?_getD]
  rw [List.replicate_succ', List.set_append_right _ _ (by simp)]
  simp

/-- the scan dictionary of an action result names hosts of the state -/
def ResOk (s : State) (r : Result) : Prop := ∀ k ∈ r.discovered.map (·.1), k ∈ s.map (·.addr)

theorem map_empty_rows (L : Layout) (s : State) (hfit : ∀ r ∈ s, RowFits L r) :
    s.map (fun x => observeRow L x {}) = List.replicate s.length (zeros L.stateSize) := by
  induction s with
  | nil => rfl
  | cons x xs ih =>
    simp only [List.map_cons, List.length_cons, List.replicate_succ]
    rw [observeRow_empty_zeros L x (hfit x (List.mem_cons_self ..)), ih (fun r hr => hfit r (List.mem_cons_of_mem _ hr))]

theorem dictGet_true_mem (d : List (Addr × Bool)) (k : Addr) (h : PyRt.dictGet d k = true) : k ∈ d.map (·.1) := by
  induction d with
  | nil => simp [PyRt.dictGet] at h
  | cons e es ih =>
    obtain ⟨ea, eb⟩ := e
    by_cases he : (k == ea) = true
    · simp [beq_iff_eq.mp he]
    · simp only [List.map_cons, List.mem_cons]
      right
      apply ih
      simp only [Bool.not_eq_true] at he
      simpa [PyRt.dictGet, List.lookup_cons, he] using h

theorem host_and_idx (L : Layout) (s : State) (h : StateOk L s) (t : Addr) (hta : t ∈ s.map (·.addr)) :
    SrcObs.State.get_host_and_idx L (rawOf L s) t =
      (PyRt.numMapGet (rawOf L s).host_num_map t, encodeRow L (s.get t)) := by
  obtain ⟨j, x, hx, hxa, hj, _⟩ := pos_of_mem L s h.wf t hta
  unfold SrcObs.State.get_host_and_idx
  have hg : s.get t = x := hxa ▸ get_of_mem h.wf (List.mem_of_getElem? hx)
  simp only [hj, row_rawOf L s j x hx, hg]

/-- the store for the target row -/
theorem finish_target (L : Layout) (s : State) (h : StateOk L s) (T : List (List Int)) (sh : Nat × Nat) (n : Nat)
    (t : Addr) (hta : t ∈ s.map (·.addr)) (tm : Mask) :
    (SrcObs.Observation.update_from_host L (PyRt.ObsObj.mk sh n T) (SrcObs.State.get_host_and_idx L (rawOf L s) t).1
      (SrcObs.HostVector.observe L (SrcObs.State.get_host_and_idx L (rawOf L s) t).2 tm)).tensor =
    T.set (PyRt.numMapGet (rawOf L s).host_num_map t) (observeRow L (s.get t) tm) := by
  obtain ⟨x, hx, hxa⟩ := List.mem_map.1 hta
  have hg : s.get t = x := hxa ▸ get_of_mem h.wf hx
  rw [host_and_idx L s h t hta]
  simp only [SrcObs.Observation.update_from_host, hg, Src_observe_row L x tm (h.fit x hx)]

/-- the subnet-scan loop of `get_observation` is a fold of conditional row stores -/
theorem scan_loop (L : Layout) (s : State) (h : StateOk L s) (r : Result) (hres : ResOk s r) (base : Mask)
    (sh : Nat × Nat) (n : Nat) (T : List (List Int)) :
    PyRt.forEach (β := Empty) (PyRt.dictKeys r.discovered) (PyRt.ObsObj.mk sh n T) (fun host_addr obs =>
      if (!PyRt.dictGet r.discovered host_addr) = true then PyRt.Ctl.next obs
      else PyRt.Ctl.next (SrcObs.Observation.update_from_host L obs
        (SrcObs.State.get_host_and_idx L (rawOf L s) host_addr).1
        (SrcObs.HostVector.observe L (SrcObs.State.get_host_and_idx L (rawOf L s) host_addr).2
          { base with dvalue := PyRt.dictGet r.newly host_addr }))) =
    .next (PyRt.ObsObj.mk sh n (storeRows (fun k => PyRt.dictGet r.discovered k)
      (fun k => PyRt.numMapGet (rawOf L s).host_num_map k)
      (fun k => observeRow L (s.get k) { base with dvalue := PyRt.dictGet r.newly k }) T (PyRt.dictKeys r.discovered))) := by
  have hks : ∀ k ∈ PyRt.dictKeys r.discovered, k ∈ s.map (·.addr) := hres
  generalize PyRt.dictKeys r.discovered = ks at hks
  unfold storeRows
  induction ks generalizing T with
  | nil => rfl
  | cons k ks ih =>
    simp only [PyRt.forEach, List.foldl_cons]
    have hk := hks k (List.mem_cons_self ..)
    by_cases hc : PyRt.dictGet r.discovered k = true
    · simp only [hc, Bool.not_true, Bool.false_eq_true, if_false, if_true]
      have := finish_target L s h T sh n k hk { base with dvalue := PyRt.dictGet r.newly k }
      have e : SrcObs.Observation.update_from_host L (PyRt.ObsObj.mk sh n T) (SrcObs.State.get_host_and_idx L (rawOf L s) k).1
          (SrcObs.HostVector.observe L (SrcObs.State.get_host_and_idx L (rawOf L s) k).2 { base with dvalue := PyRt.dictGet r.newly k }) =
          PyRt.ObsObj.mk sh n (T.set (PyRt.numMapGet (rawOf L s).host_num_map k)
            (observeRow L (s.get k) { base with dvalue := PyRt.dictGet r.newly k })) := by
        rw [← this]; rfl
      rw [e]
      exact ih _ (fun k' hk' => hks k' (List.mem_cons_of_mem _ hk'))
    · simp only [Bool.not_eq_true] at hc
      simp only [hc, Bool.not_false, if_true, Bool.false_eq_true, if_false]
      exact ih _ (fun k' hk' => hks k' (List.mem_cons_of_mem _ hk'))

/-- `State.get_observation` on the raw arrays of the next state is the model's `observe` -/
theorem Src_get_observation (L : Layout) (s : State) (a : Action) (r : Result) (fo : Bool) (h : StateOk L s)
    (hres : ResOk s r) (ht : a.kind ≠ .noop → r.success = true → a.target ∈ s.map (·.addr)) :
    (SrcObs.State.get_observation L (rawOf L s) a r fo).tensor = observe L s a r fo := by
  have hw : 4 ≤ L.stateSize := by rw [stateSize_eq]; omega
  unfold SrcObs.State.get_observation
  rw [shape_rawOf L s h, obs_init]
  dsimp only
  rw [from_action_result_tensor L _ _ r hw]
  cases fo
  · simp only [Bool.false_eq_true, if_false, observe]
    by_cases hn : a.kind = .noop
    · simp [Src.Action.is_noop, hn, rowMask, map_empty_rows L s h.fit]
    · by_cases hs : r.success = true
      · have hn' : (a.kind == Kind.noop) = false := by simpa using hn
        simp only [Src.Action.is_noop, hn', Bool.false_eq_true, if_false, hs, Bool.not_true]
        cases hk : a.kind
        · exact absurd hk hn
        all_goals (simp only [Src.Action.is_exploit, Src.Action.is_privilege_escalation, Src.Action.is_service_scan, Src.Action.is_os_scan, Src.Action.is_process_scan, Src.Action.is_subnet_scan, hk, beq_iff_eq, reduceCtorEq, if_false, if_true])
        case subnetScan =>
          have hta := ht hn hs
          have e := scan_loop L s h r hres baseMask (s.length + 1, L.stateSize) s.length
            (List.replicate s.length (zeros L.stateSize) ++ [auxRow L.stateSize r])
          dsimp only [baseMask] at e
          simp only [e]
          refine (finish_target L s h _ _ _ a.target hta _).trans ?_
          have := obs_rows L s h.wf h.fit (fun k => PyRt.dictGet r.discovered k)
            (fun k => { baseMask with dvalue := PyRt.dictGet r.newly k }) (PyRt.dictKeys r.discovered) hres a.target hta
            (targetMask .subnetScan) (auxRow L.stateSize r)
          refine Eq.trans ?_ (this.trans ?_)
          · rfl
          · congr 1
            apply List.map_congr_left
            intro x _
            by_cases hx : (x.addr == a.target) = true
            · simp [rowMask, hn', hs, hk, hx]
            · by_cases hd : PyRt.dictGet r.discovered x.addr = true
              · have hm : (PyRt.dictKeys r.discovered).contains x.addr = true := by
                  rw [List.contains_iff_mem]; exact dictGet_true_mem _ _ hd
                have hd' : (List.lookup x.addr r.discovered).getD false = true := hd
                have hm' : x.addr ∈ PyRt.dictKeys r.discovered := dictGet_true_mem _ _ hd
                simp [rowMask, hn', hs, hk, hx, hd, hm, hm', hd', PyRt.dictGet]
              · have hd' : (List.lookup x.addr r.discovered).getD false = false := by simpa [PyRt.dictGet] using hd
                simp [rowMask, hn', hs, hk, hx, hd, hd']
        all_goals (
          have hta := ht hn hs
          refine (finish_target L s h _ _ _ a.target hta _).trans ?_
          have := obs_rows L s h.wf h.fit (fun _ => false) (fun _ => {}) [] (by simp) a.target hta (targetMask a.kind) (auxRow L.stateSize r)
          simp only [storeRows, List.foldl_nil, hk] at this
          refine Eq.trans ?_ (this.trans ?_)
          · rfl
          · congr 1
            apply List.map_congr_left
            intro x _
            by_cases hx : (x.addr == a.target) = true <;> simp [rowMask, hn', hs, hk, hx])
      · have hs' : r.success = false := by simpa using hs
        simp [Src.Action.is_noop, hn, hs', rowMask, map_empty_rows L s h.fit]
  · simp only [if_true, SrcObs.Observation.from_state, PyRt.setPrefix, rawOf, observe]
    simp

end NASim
