import NasimModel.Generated.Entitlement
import NasimModel.Props.C08
/-! # C08 — the entitlement table, read off the source text (T1) -/
namespace NASim

/-- C08: the entitlement table of the model is the one `State.get_observation` spells out — the
right-hand sides are translated from the *source text* of nasim/envs/state.py on every run (T1,
`Generated/Entitlement.lean`), so an edit of that function breaks this obligation -/
theorem C08_entitlement_from_source :
    (∀ k, targetMask k = Generated.srcTargetMask k) ∧ baseMask = Generated.srcScanRowMask :=
  Generated.entitlement_matches_model

end NASim
