import NasimModel.Props.SrcBase
/-!
# Source tie: `Network._perform_subnet_scan`
-/
open NASim
namespace NASim

/-- `Network._perform_subnet_scan`: the loop with its four loop-carried variables (state, two dicts, reward) is the
model's `subnetScan` -/
theorem Src_subnet_scan (n : Net) (s : State) (a : Action) (hwf : WF s) (hs : Sync n s) :
    Src.Network._perform_subnet_scan n s a = subnetScan n s a := by
  unfold Src.Network._perform_subnet_scan subnetScan
  simp only [Src.State.host_compromised, Src.State.host_has_access, PyRt.getHost]
  by_cases h1 : (s.get a.target).comp = true
  · by_cases h2 : hasAccess (s.get a.target) a.req = true
    · have h2' : decide ((s.get a.target).access ≥ a.req) = true := h2
      simp only [h1, h2, h2', Bool.not_true, Bool.false_eq_true, if_false]
      rw [hs, forEach_rows s hwf (discRow n a.target.1) (fun r => discRow_addr n a.target.1 r) (scanStep n a.target.1)
        (fun pre acc => acc.1.map (·.1) = pre.map (·.addr) ∧ acc.2.1.map (·.1) = pre.map (·.addr))]
      · simp only [scan_foldl, List.nil_append]
        split
        · simp_all [hasAccess]
        · rfl
      · simp
      · intro pre r post acc hsp hI hpre hpost
        obtain ⟨nd, d, rew⟩ := acc
        have hw := wf_split (hsp ▸ hwf)
        have hnd : ∀ e ∈ nd, e.1 ≠ r.addr := by
          intro e he heq
          have : e.1 ∈ nd.map (·.1) := List.mem_map.2 ⟨e, he, rfl⟩
          rw [hI.1] at this
          obtain ⟨x, hx, hxe⟩ := List.mem_map.1 this
          exact hw.1 x hx (hxe.trans heq)
        have hd : ∀ e ∈ d, e.1 ≠ r.addr := by
          intro e he heq
          have : e.1 ∈ d.map (·.1) := List.mem_map.2 ⟨e, he, rfl⟩
          rw [hI.2] at this
          obtain ⟨x, hx, hxe⟩ := List.mem_map.1 this
          exact hw.1 x hx (hxe.trans heq)
        have hg := get_split (pre.map (discRow n a.target.1)) post r r.addr rfl hpre
        have hu := fun g => updHost_split (pre.map (discRow n a.target.1)) post r r.addr g rfl hpre hpost
        have hg2 := fun (r' : Row) (h : r'.addr = r.addr) => get_split (pre.map (discRow n a.target.1)) post r' r.addr h hpre
        refine ⟨?_, ?_⟩
        · simp only [src_conn, PyRt.getHost, hg, hu, dictSet_fresh nd r.addr _ hnd, dictSet_fresh d r.addr _ hd,
            dictSet_last nd r.addr _ _ hnd, dictSet_last d r.addr _ _ hd, scanStep, discRow]
          by_cases c1 : n.conn a.target.1 r.addr.1 = true <;> by_cases c2 : r.disc = true <;>
            simp [c1, c2, hg2, dictSet_last nd r.addr _ _ hnd, dictSet_last d r.addr _ _ hd]
        · simp [scanStep, hI.1, hI.2]
    · have h2' : decide ((s.get a.target).access ≥ a.req) = false := by simpa [hasAccess] using h2
      simp [h1, h2, h2']
  · simp [h1]

end NASim
