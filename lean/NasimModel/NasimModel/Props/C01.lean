import NasimModel.Model.Pred
import NasimModel.Proofs.Inv
import NasimModel.Proofs.Flags
/-!
# C01 — access is gained only through an applicable exploit or privilege escalation

All statements are for *every* network `n`, state `s` (rows with distinct addresses), action `a`
and draw `u`; reachable states are the special case `Reach`.
-/
namespace NASim

/-- `hostRow` changes `comp`/`access` only for an exploit / escalation whose host-level
preconditions hold -/
theorem hostRow_changes (a : Action) (r : Row)
    (h : (hostRow a r).comp ≠ r.comp ∨ (hostRow a r).access ≠ r.access) :
    (a.kind = .exploit ∨ a.kind = .privesc) ∧ hostPre r a = true := by
  revert h; unfold hostRow hostPerform hostPre; repeat' split
  all_goals simp_all

/-- C01, "only if": a row whose compromised flag or access differs after the step is the target
of an exploit / escalation whose host-level preconditions held -/
theorem C01_only_if (n : Net) (s : State) (a : Action) (u : Rat) (r : Row)
    (h : (stepRow n s a u r).comp ≠ r.comp ∨ (stepRow n s a u r).access ≠ r.access) :
    (a.kind = .exploit ∨ a.kind = .privesc) ∧ r.addr = a.target ∧ hostPre r a = true := by
  unfold stepRow at h
  split at h
  · split at h
    · simp at h
    · unfold effRow at h
      split at h
      · split at h <;> simp at h
      · simp only [] at h
        by_cases ht : r.addr == a.target
        · simp only [ht, if_true] at h
          have h' : (hostRow a r).comp ≠ r.comp ∨ (hostRow a r).access ≠ r.access := by
            split at h <;> simpa using h
          obtain ⟨hk, hp⟩ := hostRow_changes a r h'
          exact ⟨hk, by simpa using ht, hp⟩
        · simp only [ht] at h
          split at h <;> simp at h
  · simp at h

/-- the same, stated on the states: the next state is `s.map (stepRow …)` (`perform_eq_map`) -/
theorem C01_only_if_state (n : Net) (s : State) (a : Action) (u : Rat) :
    (perform n s a u).1 = s.map (stepRow n s a u) ∧
    ∀ r ∈ s, ((stepRow n s a u r).comp ≠ r.comp ∨ (stepRow n s a u r).access ≠ r.access) →
      (a.kind = .exploit ∨ a.kind = .privesc) ∧ r.addr = a.target ∧ hostPre r a = true :=
  ⟨perform_eq_map n s a u, fun r _ h => C01_only_if n s a u r h⟩

/-- C01: scans and no-ops never change any row's compromised flag or access -/
theorem C01_scans (n : Net) (s : State) (a : Action) (u : Rat) (r : Row)
    (hk : a.kind ≠ .exploit ∧ a.kind ≠ .privesc) :
    (stepRow n s a u r).comp = r.comp ∧ (stepRow n s a u r).access = r.access := by
  by_cases h : (stepRow n s a u r).comp ≠ r.comp ∨ (stepRow n s a u r).access ≠ r.access
  · have := (C01_only_if n s a u r h).1; rcases this with h1 | h1 <;> simp_all
  · simp only [not_or] at h; exact ⟨Decidable.not_not.mp h.1, Decidable.not_not.mp h.2⟩

/-- effect of `hostRow` when the host-level preconditions hold -/
theorem hostRow_of_pre (a : Action) (r : Row) (hp : hostPre r a = true)
    (hg : 1 ≤ a.grant ∧ a.grant ≤ 2) (hr : r.access ≤ 2) :
    (hostPerform r a).2.success = true ∧ (hostRow a r).comp = true ∧
    (hostRow a r).access = max r.access a.grant := by
  revert hp; unfold hostRow hostPerform hostPre raiseAccess onHostOk
  repeat' split
  all_goals simp_all
  all_goals (try omega)
  all_goals grind

/-- C01, "if": gates pass, host-level preconditions hold, chance does not intervene ⇒ the action
succeeds and the target is compromised with access = max(old, granted) -/
theorem C01_if (n : Net) (s : State) (a : Action) (u : Rat)
    (hg : gate n s a = .pass) (hp : hostPre (s.get a.target) a = true)
    (hch : ¬ (drawsNeeded s a = 1 ∧ u > a.prob))
    (hgr : ActOk a) (hacc : (s.get a.target).access ≤ 2) :
    (perform n s a u).2.1.success = true ∧
    (State.get (perform n s a u).1 a.target).comp = true ∧
    (State.get (perform n s a u).1 a.target).access = max (s.get a.target).access a.grant := by
  obtain ⟨htreach, _⟩ := gate_pass_target hg
  have hmem := get_mem_of_reach htreach
  have hk : a.kind = .exploit ∨ a.kind = .privesc := by
    revert hp; unfold hostPre; cases a.kind <;> simp
  obtain ⟨hsucc, hcomp, hac⟩ := hostRow_of_pre a (s.get a.target) hp (hgr hk) hacc
  have hns : (a.kind == Kind.subnetScan) = false := by rcases hk with h | h <;> simp [h]
  have hperf : perform n s a u = ((effect n s a).1, (effect n s a).2, drawsNeeded s a) := by
    unfold perform; simp [hg, hch]
  have haddr : ∀ r, (stepRow n s a u r).addr = r.addr := stepRow_addr n s a u
  refine ⟨?_, ?_, ?_⟩
  · rw [hperf]; simp only [effect, hns]; simpa using hsucc
  · rw [perform_eq_map, get_map haddr hmem]
    simp only [stepRow, hg, hch, if_false, effRow, hns, hmem.2, beq_self_eq_true, if_true]
    repeat' split
    all_goals simp_all
  · rw [perform_eq_map, get_map haddr hmem]
    simp only [stepRow, hg, hch, if_false, effRow, hns, hmem.2, beq_self_eq_true, if_true]
    repeat' split
    all_goals simp_all

/-- access levels stay within NONE..ROOT along every history -/
def AccOk (s : State) : Prop := ∀ r ∈ s, r.access ≤ 2

theorem stepRow_accOk (n s a u r) (hg : ActOk a) (hr : r.access ≤ 2) :
    (stepRow n s a u r).access ≤ 2 := by
  unfold stepRow
  split
  · split
    · exact hr
    · unfold effRow
      split
      · split <;> simp [hr]
      · simp only []
        have : (if r.addr == a.target then hostRow a r else r).access ≤ 2 := by
          split
          · exact (hostPerform_mono r a hg hr).2.1
          · exact hr
        split <;> simpa using this
  · exact hr

theorem reach_accOk (n : Net) (s0 s : State) (h0 : AccOk s0) (hr : Reach n s0 s) : AccOk s := by
  induction hr with
  | init => exact h0
  | step a u hok _ ih =>
    rw [perform_eq_map]
    intro r' hr'
    obtain ⟨r, hr, rfl⟩ := List.mem_map.mp hr'
    exact stepRow_accOk n _ a u r hok (ih r hr)

/-- C01 "if" on every state reachable from a state without access (e.g. the initial state) -/
theorem C01_if_reachable (n : Net) (s0 s : State) (a : Action) (u : Rat)
    (h0 : AccOk s0) (hr : Reach n s0 s)
    (hg : gate n s a = .pass) (hp : hostPre (s.get a.target) a = true)
    (hch : ¬ (drawsNeeded s a = 1 ∧ u > a.prob)) (hgr : ActOk a) :
    (perform n s a u).2.1.success = true ∧
    (State.get (perform n s a u).1 a.target).comp = true ∧
    (State.get (perform n s a u).1 a.target).access = max (s.get a.target).access a.grant := by
  obtain ⟨htreach, _⟩ := gate_pass_target hg
  exact C01_if n s a u hg hp hch hgr (reach_accOk n s0 s h0 hr _ (get_mem_of_reach htreach).1)

end NASim
