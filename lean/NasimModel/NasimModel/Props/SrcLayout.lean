import NasimModel.Generated.SrcObs
import NasimModel.Props.C09
/-!
# Source tie: the host-vector layout (`HostVector._update_vector_idxs`, slices, `vectorize`, getters)

The index table, the slices, `vectorize` and the scalar property getters of `nasim/envs/host_vector.py`,
translated from their source text over raw arrays (`Generated/SrcObs.lean`), are the model's `Layout.*Idx`,
`vectorize` and `decodeRow` — for every layout.  With `C09_layout_concat` / `C09_decode_encode` this makes the
documented row layout a theorem about the translated source.
-/
open NASim
namespace NASim

/-- `HostVector._update_vector_idxs`: the twelve class attributes are the model's index arithmetic -/
theorem Src_vector_idxs (L : Layout) :
    SrcObs.HostVector._update_vector_idxs L =
      { subnet_address_idx := 0, host_address_idx := L.hostIdx, compromised_idx := L.compIdx,
        reachable_idx := L.reachIdx, discovered_idx := L.discIdx, value_idx := L.valueIdx,
        discovery_value_idx := L.dvalueIdx, access_idx := L.accessIdx, os_start_idx := L.osStart,
        service_start_idx := L.svcStart, process_start_idx := L.procStart, state_size := L.stateSize } := rfl

/-- the five slices and the three per-item index functions -/
theorem Src_slices (L : Layout) (k : Nat) :
    SrcObs.HostVector._subnet_address_idx_slice L = (0, L.hostIdx) ∧
    SrcObs.HostVector._host_address_idx_slice L = (L.hostIdx, L.compIdx) ∧
    SrcObs.HostVector._os_idx_slice L = (L.osStart, L.svcStart) ∧
    SrcObs.HostVector._service_idx_slice L = (L.svcStart, L.procStart) ∧
    SrcObs.HostVector._process_idx_slice L = (L.procStart, L.stateSize) ∧
    SrcObs.HostVector._get_os_idx L k = L.osStart + k ∧
    SrcObs.HostVector._get_service_idx L k = L.svcStart + k ∧
    SrcObs.HostVector._get_process_idx L k = L.procStart + k :=
  ⟨rfl, rfl, rfl, rfl, rfl, rfl, rfl, rfl⟩

/-- an `enumerate(d.items())` loop that writes flag `i` to position `st + i` is `writeFrom` -/
theorem forEach_enum_write (bs : List Bool) (k st : Nat) (v : List Int) :
    PyRt.forEach (β := Empty) ((List.range' k bs.length).zip ((List.range' k bs.length).zip bs)) v
      (fun x v => .next (v.set (st + x.1) (bi x.2.2))) = .next (writeFrom v (st + k) (bs.map bi)) := by
  induction bs generalizing k v with
  | nil => simp [PyRt.forEach, writeFrom]
  | cons b bs ih =>
    simp only [List.length_cons, List.range'_succ, List.zip_cons_cons, PyRt.forEach, List.map_cons, writeFrom]
    have := ih (k + 1) (v.set (st + k) (bi b))
    rw [show st + (k + 1) = st + k + 1 by omega] at this
    exact this

/-- `HostVector.vectorize` (zero vector, the eight scalar stores, the three `enumerate` loops) is the model's
`vectorize` -/
theorem Src_vectorize (L : Layout) (r : Row) : SrcObs.HostVector.vectorize L r = vectorize L r := by
  unfold SrcObs.HostVector.vectorize vectorize
  simp only [Src_vector_idxs, (Src_slices L _).2.2.2.2.2.1, (Src_slices L _).2.2.2.2.2.2.1,
    (Src_slices L _).2.2.2.2.2.2.2, PyRt.enumerate, PyRt.items, List.length_zip, List.length_range', Nat.min_self,
    List.range_eq_range']
  have h := fun bs st v => forEach_enum_write bs 0 st v
  simp only [Nat.add_zero] at h
  simp only [h]
  rfl

/-- the scalar getters and `address` read exactly what the model's `decodeRow` reads -/
theorem Src_getters (L : Layout) (v : List Int) :
    (decodeRow L v).addr = SrcObs.HostVector.address L v ∧
    (decodeRow L v).comp = (SrcObs.HostVector.compromised L v != 0) ∧
    (decodeRow L v).reach = (SrcObs.HostVector.reachable L v != 0) ∧
    (decodeRow L v).disc = (SrcObs.HostVector.discovered L v != 0) ∧
    (decodeRow L v).value = SrcObs.HostVector.value L v ∧
    (decodeRow L v).dvalue = SrcObs.HostVector.discovery_value L v ∧
    (decodeRow L v).access = (SrcObs.HostVector.access L v).toNat :=
  ⟨rfl, rfl, rfl, rfl, rfl, rfl, rfl⟩

/-- C09 over the translated source: `vectorize` of the repository writes the documented row, and the repository's
getters read every host back from it -/
theorem Src_layout_documented (L : Layout) (r : Row) (h : RowWF L r) :
    SrcObs.HostVector.vectorize L r = encodeRow L r ∧
    SrcObs.HostVector.address L (SrcObs.HostVector.vectorize L r) = r.addr ∧
    (SrcObs.HostVector.compromised L (SrcObs.HostVector.vectorize L r) != 0) = r.comp ∧
    (SrcObs.HostVector.reachable L (SrcObs.HostVector.vectorize L r) != 0) = r.reach ∧
    (SrcObs.HostVector.discovered L (SrcObs.HostVector.vectorize L r) != 0) = r.disc ∧
    SrcObs.HostVector.value L (SrcObs.HostVector.vectorize L r) = r.value ∧
    SrcObs.HostVector.discovery_value L (SrcObs.HostVector.vectorize L r) = r.dvalue ∧
    (SrcObs.HostVector.access L (SrcObs.HostVector.vectorize L r)).toNat = r.access := by
  have e : SrcObs.HostVector.vectorize L r = encodeRow L r := by rw [Src_vectorize, C09_layout_concat L r h]
  have d := C09_decode_encode L r h
  obtain ⟨g1, g2, g3, g4, g5, g6, g7⟩ := Src_getters L (encodeRow L r)
  rw [e]
  refine ⟨rfl, ?_, ?_, ?_, ?_, ?_, ?_, ?_⟩
  · rw [← g1, d]
  · rw [← g2, d]
  · rw [← g3, d]
  · rw [← g4, d]
  · rw [← g5, d]
  · rw [← g6, d]
  · rw [← g7, d]

end NASim
