import NasimModel.Model.Env
import NasimModel.Proofs.Inv
import NasimModel.Props.C01
/-!
# C04 — progress is monotone, host configuration immutable, reset restores the start
-/
namespace NASim

/-- C04: in one step no row loses its compromised / reachable / discovered status and its access
level does not decrease -/
theorem C04_step_mono (n : Net) (s : State) (a : Action) (u : Rat) (r : Row)
    (hg : ActOk a) (hr : r.access ≤ 2) : RowLe r (stepRow n s a u r) :=
  stepRow_le n s a u r hg hr

/-- C04: no step alters any row's address, value, discovery value, OS, services or processes -/
theorem C04_step_config (n : Net) (s : State) (a : Action) (u : Rat) :
    (perform n s a u).1.map cfg = s.map cfg := perform_cfg n s a u

/-- pointwise order on states with the same rows -/
inductive StateLe : State → State → Prop
  | nil : StateLe [] []
  | cons {r r' : Row} {s s' : State} : RowLe r r' → StateLe s s' → StateLe (r :: s) (r' :: s')

theorem StateLe.refl (s : State) : StateLe s s := by
  induction s with
  | nil => exact StateLe.nil
  | cons x xs ih => exact StateLe.cons (RowLe.refl x) ih

theorem StateLe.trans {a b c : State} (h1 : StateLe a b) (h2 : StateLe b c) : StateLe a c := by
  induction h1 generalizing c with
  | nil => cases h2; exact StateLe.nil
  | cons hx _ ih =>
    cases h2 with
    | cons hy hys => exact StateLe.cons (RowLe.trans hx hy) (ih hys)

theorem forall2_map_of_mem {s : State} {f : Row → Row} (h : ∀ r ∈ s, RowLe r (f r)) :
    StateLe s (s.map f) := by
  induction s with
  | nil => exact StateLe.nil
  | cons x xs ih =>
    exact StateLe.cons (h x (List.mem_cons_self ..))
      (ih (fun r hr => h r (List.mem_cons_of_mem _ hr)))

theorem perform_stateLe (n : Net) (s : State) (a : Action) (u : Rat) (hg : ActOk a)
    (hacc : AccOk s) : StateLe s (perform n s a u).1 := by
  rw [perform_eq_map]
  exact forall2_map_of_mem (fun r hr => stepRow_le n s a u r hg (hacc r hr))

/-- C04 over histories of any length: every reachable state has the configuration of the start
state, and is pointwise above it (no status lost, access never decreased) -/
theorem C04_history (n : Net) (s0 s : State) (h0 : AccOk s0) (hr : Reach n s0 s) :
    s.map cfg = s0.map cfg ∧ StateLe s0 s := by
  induction hr with
  | init => exact ⟨rfl, StateLe.refl s0⟩
  | step a u hok hprev ih =>
    refine ⟨by rw [perform_cfg]; exact ih.1, ?_⟩
    exact StateLe.trans ih.2 (perform_stateLe n _ a u hok (reach_accOk n s0 _ h0 hprev))

/-- `reset` depends only on the configuration columns -/
theorem reset_of_cfg (n : Net) (s t : State) (h : s.map cfg = t.map cfg) : reset n s = reset n t := by
  unfold reset
  induction s generalizing t with
  | nil => cases t <;> simp_all
  | cons x xs ih =>
    cases t with
    | nil => simp at h
    | cons y ys =>
      simp only [List.map_cons, List.cons.injEq] at h ⊢
      obtain ⟨hxy, hrest⟩ := h
      refine ⟨?_, ih ys hrest⟩
      simp only [cfg, Prod.mk.injEq] at hxy
      obtain ⟨h1, h2, h3, h4, h5, h6⟩ := hxy
      cases x; cases y; simp_all

theorem reset_idem (n : Net) (s : State) : reset n (reset n s) = reset n s := by
  apply reset_of_cfg
  unfold reset; rw [List.map_map]; apply List.map_congr_left; intro r _; rfl

/-- C04: from whatever state a history reached, `reset` gives back exactly the initial state -/
theorem C04_reset_restores (sc : Scenario) (s : State) (hr : Reach sc.net sc.init s) :
    reset sc.net s = sc.init := by
  have h0 : AccOk sc.init := by
    intro r hr'; obtain ⟨r0, _, rfl⟩ := List.mem_map.mp hr'; simp
  have := (C04_history sc.net sc.init s h0 hr).1
  rw [reset_of_cfg sc.net s sc.init this]
  exact reset_idem sc.net sc.cfgRows

/-- the initial state: no access anywhere, only public subnets reachable and discovered -/
theorem C04_init_shape (sc : Scenario) :
    ∀ r ∈ sc.init, r.comp = false ∧ r.access = 0 ∧ r.reach = sc.net.pub r.addr.1
      ∧ r.disc = sc.net.pub r.addr.1 := by
  intro r hr; obtain ⟨r0, _, rfl⟩ := List.mem_map.mp hr; simp

/-! ### environment level: any interleaving of `step`, `generative_step`, `reset` -/

/-- every action an environment is stepped with grants USER or ROOT -/
def OpsOk : List Op → Prop
  | [] => True
  | .reset :: ops => OpsOk ops
  | .step a _ :: ops => ActOk a ∧ OpsOk ops
  | .genStep _ _ _ :: ops => OpsOk ops

theorem env_run_reach (sc : Scenario) (ops : List Op) (hok : OpsOk ops) :
    (e : Env) → e.sc = sc → Reach sc.net sc.init e.cur →
      Reach sc.net sc.init (e.run ops).cur ∧ (e.run ops).sc = sc := by
  induction ops with
  | nil => intro e hsc hr; exact ⟨hr, hsc⟩
  | cons op ops ih =>
    intro e hsc hr
    unfold Env.run; simp only [List.foldl_cons]
    cases op with
    | reset =>
      apply ih hok
      · simp [Env.apply, Env.reset, hsc]
      · simp only [Env.apply, Env.reset, hsc]
        rw [C04_reset_restores sc e.cur hr]; exact Reach.init
    | step a u =>
      apply ih hok.2
      · simp [Env.apply, Env.step, hsc]
      · simp only [Env.apply, Env.step, genStep, hsc]
        exact Reach.step a u hok.1 hr
    | genStep s a u => exact ih hok e hsc hr

/-- C04: whatever happened before — any interleaving of steps, generative steps and resets —
`reset()` returns the environment to exactly the scenario's initial state and zeroes the step
counter -/
theorem C04_env_reset (sc : Scenario) (fo : Bool) (ops : List Op) (hok : OpsOk ops) :
    ((Env.make sc fo).run ops).reset.cur = sc.init ∧ ((Env.make sc fo).run ops).reset.steps = 0 := by
  obtain ⟨hr, hsc⟩ := env_run_reach sc ops hok (Env.make sc fo) rfl Reach.init
  refine ⟨?_, rfl⟩
  simp only [Env.reset, hsc]
  exact C04_reset_restores sc _ hr

end NASim
