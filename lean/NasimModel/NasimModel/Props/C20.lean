import NasimModel.Model.Bound
import NasimModel.Props.C05
/-!
# C20 — the advertised score upper bound

Proved here (for every network, state with distinct addresses, action and draw):
* `C20_value_is_potential_difference`: the value a step gains is exactly the increase of the
  potential `pot s = Σ value of hosts held with ROOT + Σ discovery value of discovered hosts`;
* `C20_history_accounting`: hence the total reward of *any* history is
  `pot(end) − pot(start) − Σ costs` (telescoping), and at most `pot(end) − pot(start) − unit·steps`
  when every action costs at least one unit;
and, by kernel evaluation of concrete instances, that the full statement is **false** of the model
(as of the implementation): `C20_star_counterexample` — the known finding (hop count); the second
defect found here (negative discovery values) was repaired in the repository (D12) and
`C20_negative_discovery_repaired` records both the failure of the former bound and that the
repaired one holds on the same instance.  A general proof that the advertised hop count is a lower bound on the
subnets that must be entered is therefore impossible; `hops ≤ minSubnets` is *evaluated* per
scenario by the BOUND suite.
-/
namespace NASim

def sumI (l : List Int) : Int := l.foldr (· + ·) 0

@[simp] theorem sumI_nil : sumI [] = 0 := rfl
@[simp] theorem sumI_cons (x : Int) (xs : List Int) : sumI (x :: xs) = x + sumI xs := rfl

/-- value of a row in the potential: its host value once ROOT is held, its discovery value once
it is discovered -/
def rowPot (r : Row) : Int := (if r.access = 2 then r.value else 0) + (if r.disc then r.dvalue else 0)

/-- everything that has been paid for so far -/
def pot (s : State) : Int := sumI (s.map rowPot)

theorem sumI_map_sub (s : State) (f g : Row → Int) :
    sumI (s.map f) - sumI (s.map g) = sumI (s.map fun r => f r - g r) := by
  induction s with
  | nil => simp
  | cons x xs ih => simp only [List.map_cons, sumI_cons]; rw [← ih]; omega

theorem sumI_map_zero (s : State) (f : Row → Int) (h : ∀ r ∈ s, f r = 0) : sumI (s.map f) = 0 := by
  induction s with
  | nil => simp
  | cons x xs ih =>
    simp only [List.map_cons, sumI_cons]
    rw [h x (List.mem_cons_self ..), ih (fun r hr => h r (List.mem_cons_of_mem _ hr))]; simp

/-- a sum in which only the row with address `t` contributes -/
theorem sumI_single (s : State) (hwf : WF s) (f : Row → Int) (t : Addr)
    (hmem : s.get t ∈ s ∧ (s.get t).addr = t) (h : ∀ r ∈ s, r.addr ≠ t → f r = 0) :
    sumI (s.map f) = f (s.get t) := by
  induction s with
  | nil => exact absurd hmem.1 (by simp)
  | cons x xs ih =>
    simp only [List.map_cons, sumI_cons]
    simp only [WF, List.map_cons, List.nodup_cons] at hwf
    by_cases hx : x.addr = t
    · have hget : State.get (x :: xs) t = x := by
        unfold State.get; simp [List.find?_cons, hx]
      rw [hget]
      have : sumI (xs.map f) = 0 := by
        apply sumI_map_zero
        intro r hr
        apply h r (List.mem_cons_of_mem _ hr)
        intro hrt
        apply hwf.1
        rw [hx, ← hrt]; exact List.mem_map_of_mem hr
      rw [this]; simp
    · have hne : (x.addr == t) = false := by simpa using hx
      have hget : State.get (x :: xs) t = State.get xs t := by
        unfold State.get; simp [List.find?_cons, hne]
      rw [hget] at hmem ⊢
      have hx0 : f x = 0 := h x (List.mem_cons_self ..) hx
      have hmem' : State.get xs t ∈ xs := by
        rcases List.mem_cons.mp hmem.1 with heq | hm
        · exact absurd (heq ▸ hmem.2) hx
        · exact hm
      rw [hx0, ih hwf.2 ⟨hmem', hmem.2⟩ (fun r hr => h r (List.mem_cons_of_mem _ hr))]; simp

theorem foldl_filter_sum (s : State) (p : Row → Bool) (acc : Int) :
    (s.filter p).foldl (fun a r => a + r.dvalue) acc
      = acc + sumI (s.map fun r => if p r then r.dvalue else 0) := by
  induction s generalizing acc with
  | nil => simp
  | cons x xs ih =>
    simp only [List.filter_cons, List.map_cons, sumI_cons]
    split
    · simp only [List.foldl_cons]; rw [ih]; omega
    · rw [ih]; omega

/-- per-row facts about one step that the accounting needs -/
theorem stepRow_pot_facts (n : Net) (s : State) (a : Action) (u : Rat) (r : Row) (hg : ActOk a)
    (hr : r.access ≤ 2) :
    (stepRow n s a u r).value = r.value ∧ (stepRow n s a u r).dvalue = r.dvalue ∧
    (r.disc = true → (stepRow n s a u r).disc = true) ∧
    (r.access = 2 → (stepRow n s a u r).access = 2) := by
  have hc := stepRow_cfg n s a u r
  simp only [cfg, Prod.mk.injEq] at hc
  have hle := stepRow_le n s a u r hg hr
  have hup := stepRow_accOk n s a u r hg hr
  refine ⟨hc.2.1, hc.2.2.1, hle.2.2.1, fun h => ?_⟩
  have := hle.2.2.2
  omega

/-- C20: the value gained by a step is exactly the increase of the potential — host values are
paid when ROOT is first obtained, discovery values when a host is first discovered, nothing else
is ever paid -/
theorem C20_value_is_potential_difference (n : Net) (s : State) (a : Action) (u : Rat)
    (hwf : WF s) (hacc : AccOk s) (hg : ActOk a) :
    (perform n s a u).2.1.value = pot (perform n s a u).1 - pot s := by
  rw [perform_eq_map]
  unfold pot
  rw [List.map_map, sumI_map_sub]
  by_cases hscan : a.kind = .subnetScan
  · -- discovery values of the rows discovered for the first time
    rw [C05_discovery_value n s a u hscan, foldl_filter_sum]
    simp only [Int.zero_add]
    congr 1
    apply List.map_congr_left
    intro r hr
    obtain ⟨hv, hdv, hdisc, _⟩ := stepRow_pot_facts n s a u r hg (hacc r hr)
    have hca := C01_scans n s a u r ⟨by simp [hscan], by simp [hscan]⟩
    simp only [Function.comp, rowPot, hv, hdv, hca.2]
    cases hd : r.disc
    · cases hd' : (stepRow n s a u r).disc <;> simp <;> omega
    · simp [hdisc hd]
  · by_cases hk : a.kind = .exploit ∨ a.kind = .privesc
    · by_cases hs : (perform n s a u).2.1.success = true
      · -- only the target row can change its access level
        have hk' : a.kind ≠ .noop := by rcases hk with h | h <;> simp [h]
        obtain ⟨hgate, _, _⟩ := success_pass hk' hs
        obtain ⟨htreach, _⟩ := gate_pass_target hgate
        have hmem := get_mem_of_reach htreach
        rw [C05_host_value n s a u hwf hk hg (hacc _ hmem.1)]
        rw [sumI_single s hwf _ a.target hmem]
        · have hget : State.get (perform n s a u).1 a.target = stepRow n s a u (s.get a.target) := by
            rw [perform_eq_map, get_map (stepRow_addr n s a u) hmem]
          rw [hget]
          obtain ⟨hv, hdv, _, hroot⟩ := stepRow_pot_facts n s a u (s.get a.target) hg (hacc _ hmem.1)
          have hdisc : (stepRow n s a u (s.get a.target)).disc = (s.get a.target).disc := by
            cases hd : (s.get a.target).disc
            · cases hd' : (stepRow n s a u (s.get a.target)).disc
              · rfl
              · exact absurd (C03_discovery_only_by_scan n s a u _ hd hd').1 hscan
            · exact (stepRow_pot_facts n s a u _ hg (hacc _ hmem.1)).2.2.1 hd
          simp only [Function.comp, rowPot, hv, hdv, hdisc]
          by_cases h2 : (s.get a.target).access = 2
          · simp [h2, hroot h2]
          · by_cases h3 : (stepRow n s a u (s.get a.target)).access = 2 <;> simp [h2, h3]
        · intro r hr hne
          obtain ⟨hv, hdv, hdisc, _⟩ := stepRow_pot_facts n s a u r hg (hacc r hr)
          have hacc' : (stepRow n s a u r).access = r.access := by
            by_cases hch : (stepRow n s a u r).access = r.access
            · exact hch
            · exact absurd (C01_only_if n s a u r (Or.inr hch)).2.1 hne
          have hd' : (stepRow n s a u r).disc = r.disc := by
            cases hd : r.disc
            · cases hd2 : (stepRow n s a u r).disc
              · rfl
              · exact absurd (C03_discovery_only_by_scan n s a u _ hd hd2).1 hscan
            · exact hdisc hd
          simp [Function.comp, rowPot, hv, hdv, hacc', hd']
      · have hs' : (perform n s a u).2.1.success = false := by simpa using hs
        rw [C05_fail_gains_nothing n s a u hs']
        have hsame := C02_fail_changes_nothing n s a u hwf hs'
        rw [perform_eq_map] at hsame
        symm; apply sumI_map_zero
        intro r hr
        have : stepRow n s a u r = r := by
          have := congrArg (fun l => l.map id) hsame
          have hmap : ∀ x ∈ s, stepRow n s a u x = id x := by
            have h2 : s.map (stepRow n s a u) = s.map id := by simpa using hsame
            exact List.map_inj_left.mp h2
          exact hmap r hr
        simp [Function.comp, this]
    · -- targeted scans and the no-op change neither access nor discovery and gain nothing
      have hval : (perform n s a u).2.1.value = 0 := by
        by_cases hno : a.kind = .noop
        · exact (C05_noop n s a u hno).1
        · apply C05_scans_gain_nothing
          cases hkk : a.kind <;> simp_all
      rw [hval]
      symm; apply sumI_map_zero
      intro r hr
      obtain ⟨hv, hdv, hdisc, _⟩ := stepRow_pot_facts n s a u r hg (hacc r hr)
      have hk2 : a.kind ≠ .exploit ∧ a.kind ≠ .privesc := ⟨fun h => hk (Or.inl h), fun h => hk (Or.inr h)⟩
      have hca := C01_scans n s a u r hk2
      have hd' : (stepRow n s a u r).disc = r.disc := by
        cases hd : r.disc
        · cases hd2 : (stepRow n s a u r).disc
          · rfl
          · exact absurd (C03_discovery_only_by_scan n s a u _ hd hd2).1 hscan
        · exact hdisc hd
      simp [Function.comp, rowPot, hv, hdv, hca.2, hd']

/-! ### histories -/

/-- run a history of (action, draw) pairs: final state, total reward, total cost -/
def runHist (n : Net) : State → List (Action × Rat) → State × Int × Int
  | s, [] => (s, 0, 0)
  | s, (a, u) :: rest =>
    let p := perform n s a u
    let r := runHist n p.1 rest
    (r.1, p.2.1.value - a.cost + r.2.1, a.cost + r.2.2)

/-- C20: for every history of any length, from any state with distinct addresses: the total
reward is the potential gained minus the costs paid -/
theorem C20_history_accounting (n : Net) (h : List (Action × Rat)) :
    ∀ (s : State), WF s → AccOk s → (∀ p ∈ h, ActOk p.1) →
    (runHist n s h).2.1 = pot (runHist n s h).1 - pot s - (runHist n s h).2.2 := by
  induction h with
  | nil => intro s _ _ _; simp [runHist]
  | cons x xs ih =>
    intro s hwf hacc hok
    obtain ⟨a, u⟩ := x
    have hga : ActOk a := hok (a, u) (List.mem_cons_self ..)
    have hwf' : WF (perform n s a u).1 := perform_wf n s a u hwf
    have hacc' : AccOk (perform n s a u).1 := reach_accOk n s _ hacc (Reach.step a u hga Reach.init)
    have := ih (perform n s a u).1 hwf' hacc' (fun p hp => hok p (List.mem_cons_of_mem _ hp))
    simp only [runHist]
    rw [this, C20_value_is_potential_difference n s a u hwf hacc hga]
    omega

/-- total cost of a history whose actions all cost at least `unit` -/
theorem runHist_cost_ge (n : Net) (unit : Int) (h : List (Action × Rat)) :
    ∀ (s : State), (∀ p ∈ h, unit ≤ p.1.cost) → unit * (h.length : Int) ≤ (runHist n s h).2.2 := by
  induction h with
  | nil => intro s _; simp [runHist]
  | cons x xs ih =>
    intro s hc
    obtain ⟨a, u⟩ := x
    have h1 : unit ≤ a.cost := hc (a, u) (List.mem_cons_self ..)
    have h2 := ih (perform n s a u).1 (fun p hp => hc p (List.mem_cons_of_mem _ hp))
    simp only [runHist, List.length_cons]
    have : unit * ((xs.length + 1 : Nat) : Int) = unit * (xs.length : Int) + unit := by
      rw [Int.natCast_add, Int.mul_add]; simp
    omega

/-- C20: when every action costs at least one unit, no history earns more than the potential it
gains minus one unit per step -/
theorem C20_total_le (n : Net) (unit : Int) (h : List (Action × Rat)) (s : State) (hwf : WF s)
    (hacc : AccOk s) (hok : ∀ p ∈ h, ActOk p.1) (hc : ∀ p ∈ h, unit ≤ p.1.cost) :
    (runHist n s h).2.1 ≤ pot (runHist n s h).1 - pot s - unit * (h.length : Int) := by
  rw [C20_history_accounting n h s hwf hacc hok]
  have := runHist_cost_ge n unit h s hc
  omega

/-! ### the advertised bound itself is not an upper bound (known findings) -/

def starSc : Scenario :=
  { subnets := [1, 1, 1, 1],
    topo := [[1, 1, 0, 0], [1, 1, 1, 1], [0, 1, 1, 0], [0, 1, 0, 1]],
    nOs := 1, nSvc := 1, nProc := 1,
    sens := [((2, 0), 6400), ((3, 0), 6400)],
    exploits := [{ svc := 0, os := none, prob := 1, cost := 64, access := 2 }], privescs := [],
    svcScanCost := 64, osScanCost := 64, subnetScanCost := 64, procScanCost := 64,
    fw := [((0, 1), [0]), ((1, 0), [0]), ((1, 2), [0]), ((2, 1), [0]), ((1, 3), [0]), ((3, 1), [0])],
    hosts := [{ addr := (1, 0), os := [true], svc := [true], proc := [true], value := 64 },
              { addr := (2, 0), os := [true], svc := [true], proc := [true], value := 6400 },
              { addr := (3, 0), os := [true], svc := [true], proc := [true], value := 6400 }],
    stepLimit := none, bounds := (4, 1) }

def expl (t : Addr) : Action := { kind := .exploit, target := t, cost := 64, prob := 1, req := 1, svc := 0, grant := 2 }
def scan (t : Addr) : Action := { kind := .subnetScan, target := t, cost := 64, prob := 1, req := 1 }

def starPlan : List (Action × Rat) := [(expl (1, 0), 0), (scan (1, 0), 0), (expl (2, 0), 0), (expl (3, 0), 0)]

/-- C20 is false on a star: two sensitive subnets hang off the DMZ; the advertised hop count is 4
(a Hamiltonian path through the metric closure) although entering 3 subnets suffices, and a
4-step episode earns one unit more than the advertised bound -/
theorem C20_star_counterexample :
    hops starSc = 4 ∧ minSubnets starSc = 3 ∧
    goal starSc.net (runHist starSc.net starSc.init starPlan).1 = true ∧
    (runHist starSc.net starSc.init starPlan).2.1 > scoreUpperBound starSc ∧
    (∀ a ∈ flatActions starSc, 64 ≤ a.cost) ∧
    (∀ h ∈ starSc.hosts, (starSc.sens.lookup h.addr).isNone → h.value ≤ 64) := by
  decide +kernel

def negDvSc : Scenario :=
  { subnets := [1, 1, 1],
    topo := [[1, 1, 0], [1, 1, 1], [0, 1, 1]],
    nOs := 1, nSvc := 1, nProc := 1,
    sens := [((2, 0), 6400)],
    exploits := [{ svc := 0, os := none, prob := 1, cost := 64, access := 2 }], privescs := [],
    svcScanCost := 64, osScanCost := 64, subnetScanCost := 64, procScanCost := 64,
    fw := [((0, 1), [0]), ((1, 0), [0]), ((1, 2), [0]), ((2, 1), [0])],
    hosts := [{ addr := (1, 0), os := [true], svc := [true], proc := [true], value := 64, dvalue := -64 },
              { addr := (2, 0), os := [true], svc := [true], proc := [true], value := 6400, dvalue := -64 }],
    stepLimit := none, bounds := (3, 1) }

def negDvPlan : List (Action × Rat) := [(expl (1, 0), 0), (scan (1, 0), 0), (expl (2, 0), 0)]

/-- the defect repaired by D12, on the model: with negative discovery values the former bound (the
sum of *all* discovery values, also of hosts discovered at reset, which are never paid) was
exceeded by a goal-reaching episode; the repaired bound (non-negative discovery values only) is not -/
theorem C20_negative_discovery_repaired :
    hops negDvSc = minSubnets negDvSc ∧
    goal negDvSc.net (runHist negDvSc.net negDvSc.init negDvPlan).1 = true ∧
    (runHist negDvSc.net negDvSc.init negDvPlan).2.1 > scoreUpperBoundBeforeD12 negDvSc ∧
    (runHist negDvSc.net negDvSc.init negDvPlan).2.1 ≤ scoreUpperBound negDvSc := by
  decide +kernel

/-- the discovery part of the potential never exceeds what the repaired bound counts: whatever is
discovered, the discovery values collected are at most the sum of the non-negative ones -/
theorem C20_discovery_part_le (s : State) :
    sumI (s.map fun r => if r.disc then r.dvalue else 0) ≤ sumI (s.map fun r => max 0 r.dvalue) := by
  induction s with
  | nil => simp
  | cons x xs ih =>
    simp only [List.map_cons, sumI_cons]
    have : (if x.disc then x.dvalue else 0) ≤ max 0 x.dvalue := by
      split <;> omega
    omega

end NASim
