import NasimModel.Props.C15
/-!
# C15 — the retry loops of `_generate_privescs` can always make progress

`_generate_privescs` has two `while` loops.  The first re-draws the OS choices until no OS (or
`None`) is chosen for more escalations than there are processes and `None` occurs or every OS
does; the second draws a process for the next OS choice until the (process, OS) pair is new.
Before the repair D9 the second loop could spin forever (an OS chosen more often than there are
processes).  Here:

* `C15_privesc_loop_progress` — with an OS-choice list the first loop accepts, the second loop is
  never stuck: whenever fewer escalations than requested exist, some process gives a new pair;
* `C15_os_choices_exist` — the first loop can exit: for every request
  `1 ≤ n ≤ num_processes * (num_os + 1)` there is a draw it accepts.

(Termination *with probability one* follows from these for a generator that gives every draw
positive probability; that is a statement about NumPy, outside the model.)
-/
namespace NASim.Gen

theorem countOcc_append (a b : List (Option Nat)) (o : Option Nat) :
    countOcc (a ++ b) o = countOcc a o + countOcc b o := by
  simp [countOcc, List.filter_append]

/-- the escalations added so far follow the OS choices, position by position -/
def Follows (cs : List (Option Nat)) (acc : List PrivescDef) : Prop :=
  acc.map (·.os) = cs.take acc.length

theorem follows_nil (cs : List (Option Nat)) : Follows cs [] := by simp [Follows]

/-- one iteration of the second loop keeps `Follows` -/
theorem follows_step (cs : List (Option Nat)) (acc : List PrivescDef) (e : PrivescDef)
    (h : Follows cs acc) (hk : acc.length < cs.length) (he : e.os = cs.getD acc.length Option.none) :
    Follows cs (acc ++ [e]) := by
  unfold Follows at *
  rw [List.map_append, h, List.length_append, List.length_singleton, List.take_add_one]
  simp only [List.map_cons, List.map_nil, he]
  congr 1
  rw [List.getD_eq_getElem?_getD, List.getElem?_eq_getElem hk]
  simp

/-- C15 (termination of the second loop of `_generate_privescs`): while fewer escalations than OS
choices exist, and the next OS choice occurs at most `num_processes` times in the whole choice list
(what the first loop guarantees), some process gives a (process, OS) pair that is not present yet -/
theorem C15_privesc_loop_progress (P : Nat) (cs : List (Option Nat)) (acc : List PrivescDef)
    (hk : acc.length < cs.length) (hf : Follows cs acc)
    (hcount : countOcc cs (cs.getD acc.length Option.none) ≤ P) :
    ∃ proc, proc < P ∧
      acc.any (fun e => e.proc == some proc && e.os == cs.getD acc.length Option.none) = false := by
  generalize ho : cs.getD acc.length Option.none = o at *
  -- the entries with this OS are fewer than P
  have hsplit : cs = cs.take acc.length ++ cs.drop acc.length := (List.take_append_drop _ _).symm
  have hhead : (cs.drop acc.length).head? = some o := by
    rw [List.head?_drop, ← ho, List.getD_eq_getElem?_getD, List.getElem?_eq_getElem hk]; simp
  have hdrop : 1 ≤ countOcc (cs.drop acc.length) o := by
    cases hd : cs.drop acc.length with
    | nil => rw [hd] at hhead; simp at hhead
    | cons x xs =>
      rw [hd] at hhead; simp at hhead; subst hhead
      simp [countOcc]
  have htake : countOcc (cs.take acc.length) o + 1 ≤ P := by
    have := countOcc_append (cs.take acc.length) (cs.drop acc.length) o
    rw [← hsplit] at this; omega
  have hA : (acc.filter (fun e => e.os == o)).length = countOcc (cs.take acc.length) o := by
    rw [← hf]; unfold countOcc
    rw [List.filter_map, List.length_map]; rfl
  -- if every process were used with this OS there would be P such entries
  by_cases hall : ∀ pr, pr < P → acc.any (fun e => e.proc == some pr && e.os == o) = true
  · exfalso
    have hsub : (List.range P).map some ⊆ (acc.filter (fun e => e.os == o)).map (·.proc) := by
      intro x hx
      obtain ⟨pr, hpr, rfl⟩ := List.mem_map.mp hx
      have := hall pr (List.mem_range.mp hpr)
      rw [List.any_eq_true] at this
      obtain ⟨e, he, hc⟩ := this
      simp only [Bool.and_eq_true, beq_iff_eq] at hc
      exact List.mem_map.mpr ⟨e, List.mem_filter.mpr ⟨he, by simp [hc.2]⟩, hc.1⟩
    have hnd : ((List.range P).map some).Nodup :=
      List.Pairwise.map some (fun a b hab heq => hab (by injection heq)) List.nodup_range
    have := hnd.length_le_of_subset hsub
    simp only [List.length_map, List.length_range] at this
    omega
  · obtain ⟨pr, hpr⟩ := Classical.not_forall.mp hall
    obtain ⟨hlt, hne⟩ := Classical.not_imp.mp hpr
    exact ⟨pr, hlt, by simpa using hne⟩


/-! ### the first loop can exit -/

/-- the witness: OS position `numOs - i / P` for the `i`-th escalation (`None` first) -/
def osWitness (numOs P i : Nat) : Nat := numOs - i / P

theorem filter_div_le (n P q : Nat) (hP : 1 ≤ P) :
    ((List.range n).filter (fun i => i / P == q)).length ≤ P := by
  have hnd : ((List.range n).filter (fun i => i / P == q)).Nodup :=
    List.Pairwise.sublist List.filter_sublist List.nodup_range
  have hsub : (List.range n).filter (fun i => i / P == q) ⊆ List.range' (q * P) P := by
    intro i hi
    obtain ⟨_, hq⟩ := List.mem_filter.mp hi
    have hq' : i / P = q := by simpa using hq
    rw [List.mem_range'_1]
    have h1 := Nat.div_add_mod i P
    have h2 := Nat.mod_lt i (show 0 < P by omega)
    rw [hq'] at h1
    constructor
    · rw [Nat.mul_comm]; omega
    · rw [Nat.mul_comm]; omega
  have := hnd.length_le_of_subset hsub
  simpa using this

theorem countOcc_witness (numOs P n : Nat) (hP : 1 ≤ P) (hle : n ≤ P * (numOs + 1)) (o : Option Nat) :
    countOcc ((List.range n).map fun i => osOfIdx numOs (osWitness numOs P i)) o ≤ P := by
  unfold countOcc
  rw [List.filter_map, List.length_map]
  by_cases hex : ∃ i0, i0 < n ∧ osOfIdx numOs (osWitness numOs P i0) = o
  · obtain ⟨i0, hi0, ho⟩ := hex
    have hbound : ∀ i, i < n → i / P ≤ numOs := by
      intro i hi
      have : i < P * (numOs + 1) := by omega
      have := Nat.div_lt_of_lt_mul this
      omega
    have hsub : ∀ i ∈ List.range n, ((fun x => x == o) ∘ fun i => osOfIdx numOs (osWitness numOs P i)) i = true →
        (fun i => i / P == i0 / P) i = true := by
      intro i hi hc
      have hi' := List.mem_range.mp hi
      simp only [Function.comp, beq_iff_eq] at hc ⊢
      rw [← ho] at hc
      have := osOfIdx_inj numOs _ _ (Nat.sub_le _ _) (Nat.sub_le _ _) hc
      unfold osWitness at this
      have b1 := hbound i hi'
      have b2 := hbound i0 hi0
      omega
    have hnd1 : ((List.range n).filter ((fun x => x == o) ∘ fun i => osOfIdx numOs (osWitness numOs P i))).Nodup :=
      List.Pairwise.sublist List.filter_sublist List.nodup_range
    have hss : (List.range n).filter ((fun x => x == o) ∘ fun i => osOfIdx numOs (osWitness numOs P i))
        ⊆ (List.range n).filter (fun i => i / P == i0 / P) := by
      intro i hi
      obtain ⟨hr, hc⟩ := List.mem_filter.mp hi
      exact List.mem_filter.mpr ⟨hr, hsub i hr hc⟩
    have hlen := hnd1.length_le_of_subset hss
    exact Nat.le_trans hlen (filter_div_le n P (i0 / P) hP)
  · have : (List.range n).filter ((fun x => x == o) ∘ fun i => osOfIdx numOs (osWitness numOs P i)) = [] := by
      rw [List.filter_eq_nil_iff]
      intro i hi hc
      apply hex
      exact ⟨i, List.mem_range.mp hi, by simpa [Function.comp] using hc⟩
    rw [this]; simp


theorem witness_ok (numOs P n : Nat) (hn : 1 ≤ n) (hP : 1 ≤ P) (hle : n ≤ P * (numOs + 1)) :
    osChoicesOk numOs P ((List.range n).map fun i => osOfIdx numOs (osWitness numOs P i)) = true := by
  unfold osChoicesOk
  rw [Bool.and_eq_true]
  constructor
  · rw [List.all_eq_true]
    intro o _
    simpa using countOcc_witness numOs P n hP hle o
  · rw [Bool.or_eq_true]; left
    rw [List.contains_iff_mem, List.mem_map]
    refine ⟨0, List.mem_range.mpr hn, ?_⟩
    simp [osWitness, osOfIdx]

/-- C15 (the first loop of `_generate_privescs` can exit): for every request the assertion lets
through there is an index draw — of the size and range `np.random.choice(possible_os, ·)` is asked
for — whose OS choices the loop accepts -/
theorem C15_os_choices_exist (numOs P n : Nat) (hn : 1 ≤ n) (hP : 1 ≤ P) (hle : n ≤ P * (numOs + 1)) :
    ∃ idx : List Nat, idx.length = (if n < numOs then n - 1 else n) ∧ (∀ i ∈ idx, i < numOs + 1) ∧
      osChoicesOk numOs P
        (if n < numOs then Option.none :: idx.map (osOfIdx numOs) else idx.map (osOfIdx numOs)) = true := by
  have hw := witness_ok numOs P n hn hP hle
  by_cases hlt : n < numOs
  · refine ⟨(List.range (n - 1)).map fun i => osWitness numOs P (i + 1), by simp [hlt], ?_, ?_⟩
    · intro i hi
      obtain ⟨j, _, rfl⟩ := List.mem_map.mp hi
      exact Nat.lt_succ_of_le (Nat.sub_le _ _)
    · simp only [hlt, if_true, List.map_map]
      have : (List.range n).map (fun i => osOfIdx numOs (osWitness numOs P i))
          = Option.none :: (List.range (n - 1)).map (osOfIdx numOs ∘ fun i => osWitness numOs P (i + 1)) := by
        obtain ⟨m, rfl⟩ : ∃ m, n = m + 1 := ⟨n - 1, by omega⟩
        rw [List.range_succ_eq_map, List.map_cons, List.map_map]
        simp [osWitness, osOfIdx, Function.comp_def]
        try (intro _ _; rfl)
      rw [← this]; exact hw
  · refine ⟨(List.range n).map fun i => osWitness numOs P i, by simp [hlt], ?_, ?_⟩
    · intro i hi
      obtain ⟨j, _, rfl⟩ := List.mem_map.mp hi
      exact Nat.lt_succ_of_le (Nat.sub_le _ _)
    · simp only [hlt, if_false, List.map_map]
      exact hw

/-- non-vacuity / link to the model: on the decisions `C15_os_choices_exist` provides, one pass of
the re-draw loop returns (`drawOsChoices` with any positive fuel) -/
theorem C15_os_choice_loop_exits (numOs P n fuel : Nat) (hn : 1 ≤ n) (hP : 1 ≤ P)
    (hle : n ≤ P * (numOs + 1)) :
    ∃ (s : List Tok) (cs : List (Option Nat)), drawOsChoices numOs P n (fuel + 1) s = .ok (cs, []) := by
  obtain ⟨idx, hlen, hrange, hok⟩ := C15_os_choices_exist numOs P n hn hP hle
  have hall : (idx.all fun x => decide (x < numOs + 1)) = true := by
    rw [List.all_eq_true]; intro x hx; simpa using hrange x hx
  refine ⟨[Tok.ch (numOs + 1) idx], ?_⟩
  by_cases hlt : n < numOs
  · refine ⟨Option.none :: idx.map (osOfIdx numOs), ?_⟩
    simp only [hlt, if_true] at hlen hok
    simp [drawOsChoices, drawOnce, hlt, choiceN, pop, bind, pure,
      hlen, hok, hall]
  · refine ⟨idx.map (osOfIdx numOs), ?_⟩
    simp only [hlt, if_false] at hlen hok
    simp [drawOsChoices, drawOnce, hlt, choiceN, pop, bind, pure,
      hlen, hok, hall]

end NASim.Gen
