import NasimModel.Generated.SrcGen
import NasimModel.Props.C15
/-!
# Source tie: the deterministic skeleton of the generator

`ScenarioGenerator._generate_subnets` translated from its source text (`Generated/SrcGen.lean`) is the model's
`genSubnets` with the module's own constants, so `C15_subnets_partition` and the host counts speak about the
translated source; the generated OS / service / process name lists are `0 … n-1` (names are indices).
-/
open NASim NASim.Gen
namespace NASim

theorem Src_generate_subnets (n : Nat) :
    SrcGen.ScenarioGenerator._generate_subnets n = genSubnets SrcGen.HOST_ASSIGNMENT_PERIOD SrcGen.USER_SUBNET_SIZE n := by
  unfold SrcGen.ScenarioGenerator._generate_subnets genSubnets PyRt.ceilDiv SrcGen.HOST_ASSIGNMENT_PERIOD SrcGen.USER_SUBNET_SIZE
  have h1 : n + (40 + 1) - 1 = n + 40 := by omega
  simp only [h1]
  split <;> simp_all

theorem Src_generate_names (n : Nat) :
    SrcGen.ScenarioGenerator._generate_os n = List.range n ∧
    SrcGen.ScenarioGenerator._generate_services n = List.range n ∧
    SrcGen.ScenarioGenerator._generate_processes n = List.range n := ⟨rfl, rfl, rfl⟩

end NASim
