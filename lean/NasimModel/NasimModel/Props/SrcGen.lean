import NasimModel.Generated.SrcGen
import NasimModel.Props.C15
import NasimModel.Proofs.SrcTie
/-!
# Source tie: the deterministic skeleton of the generator

`ScenarioGenerator._generate_subnets` translated from its source text (`Generated/SrcGen.lean`) is the model's
`genSubnets` with the module's own constants, so `C15_subnets_partition` and the host counts speak about the
translated source; the generated OS / service / process name lists are `0 … n-1` (names are indices).
`_generate_topology` (a zero matrix written by a double loop over the first four subnets and a loop over the binary
tree of user subnets) is the model's closed form `genTopo` (`Src_generate_topology`): matrices of a relation
(`mk01`), a write adds one pair to the relation (`wr_mk01`), a loop adds the pairs its iterations hit (`fold_mk01`),
and the pairs hit are exactly `adj` (linear arithmetic) — so `C15_topology_symmetric / _reflexive / C15_only_dmz_public`
speak about the translated source.
-/
open NASim NASim.Gen
namespace NASim

theorem Src_generate_subnets (n : Nat) :
    SrcGen.ScenarioGenerator._generate_subnets n = genSubnets SrcGen.HOST_ASSIGNMENT_PERIOD SrcGen.USER_SUBNET_SIZE n := by
  unfold SrcGen.ScenarioGenerator._generate_subnets genSubnets PyRt.ceilDiv SrcGen.HOST_ASSIGNMENT_PERIOD SrcGen.USER_SUBNET_SIZE
  have h1 : n + (40 + 1) - 1 = n + 40 := by omega
  simp only [h1]
  split <;> simp_all

theorem Src_generate_names (n : Nat) :
    SrcGen.ScenarioGenerator._generate_os n = List.range n ∧
    SrcGen.ScenarioGenerator._generate_services n = List.range n ∧
    SrcGen.ScenarioGenerator._generate_processes n = List.range n := ⟨rfl, rfl, rfl⟩

/-- the 0/1 matrix of a relation -/
def mk01 (f : Nat → Nat → Bool) (n : Nat) : List (List Int) :=
  (List.range n).map fun r => (List.range n).map fun c => if f r c then 1 else 0

theorem mk01_congr (f g : Nat → Nat → Bool) (n : Nat) (h : ∀ r c, r < n → c < n → f r c = g r c) :
    mk01 f n = mk01 g n := by
  unfold mk01
  apply List.map_congr_left
  intro r hr
  apply List.map_congr_left
  intro c hc
  rw [h r c (List.mem_range.mp hr) (List.mem_range.mp hc)]

theorem wr_mk01 (f : Nat → Nat → Bool) (n i j : Nat) (hi : i < n) (hj : j < n) :
    PyRt.wr (mk01 f n) i j = mk01 (fun r c => f r c || (r == i && c == j)) n := by
  unfold PyRt.wr mk01
  apply List.ext_getElem
  · simp
  · intro r h1 h2
    have hr : r < n := by simpa using h2
    simp only [List.getElem_map, List.getElem_range]
    by_cases hri : r = i
    · subst hri
      rw [List.getElem_set_self]
      simp only [List.getD_eq_getElem?_getD, List.getElem?_map, List.getElem?_range hr, Option.map_some, Option.getD_some]
      apply List.ext_getElem
      · simp
      · intro c h3 h4
        have hc : c < n := by simpa using h4
        simp only [List.getElem_map, List.getElem_range, List.getElem_set]
        by_cases hcj : j = c
        · subst hcj; simp
        · have : (c == j) = false := by simpa using fun e => hcj e.symm
          simp [hcj, this]
    · rw [List.getElem_set_ne (fun e => hri e.symm)]
      simp only [List.getElem_map, List.getElem_range]
      apply List.map_congr_left
      intro c _
      have : (r == i) = false := by simpa using hri
      simp [this]

theorem zeros_mk01 (n : Nat) : PyRt.zerosI n n = mk01 (fun _ _ => false) n := by
  unfold PyRt.zerosI mk01
  apply List.ext_getElem
  · simp
  · intro r h1 h2
    simp only [List.getElem_replicate, List.getElem_map]
    apply List.ext_getElem
    · simp
    · intro c h3 h4
      simp

/-- a fold of steps each of which adds the positions `hit x` to the relation -/
theorem fold_mk01 {α : Type} (l : List α) (n : Nat) (step : α → List (List Int) → List (List Int))
    (hit : α → Nat → Nat → Bool)
    (hstep : ∀ x ∈ l, ∀ g, step x (mk01 g n) = mk01 (fun r c => g r c || hit x r c) n) (f : Nat → Nat → Bool) :
    l.foldl (fun T x => step x T) (mk01 f n) = mk01 (fun r c => f r c || l.any (fun x => hit x r c)) n := by
  induction l generalizing f with
  | nil => simp
  | cons x xs ih =>
    simp only [List.foldl_cons]
    rw [hstep x (List.mem_cons_self ..) f, ih (fun y hy => hstep y (List.mem_cons_of_mem _ hy))]
    apply mk01_congr
    intro r c _ _
    simp [Bool.or_assoc]
theorem any_range_pick (k r : Nat) (p : Nat → Bool) :
    (List.range k).any (fun x => (r == x) && p x) = (decide (r < k) && p r) := by
  induction k with
  | zero => simp
  | succ k ih =>
    rw [List.range_succ, List.any_append, ih]
    by_cases h1 : r < k
    · have : (r == k) = false := by simpa using Nat.ne_of_lt h1
      simp [h1, this, Nat.lt_succ_of_lt h1]
    · by_cases h2 : r = k
      · subst h2; simp
      · have : (r == k) = false := by simpa using h2
        have h3 : ¬ r < k + 1 := by omega
        simp [h1, this, h3]

theorem any_range'_pick (a m r : Nat) (p : Nat → Bool) :
    (List.range' a m).any (fun x => (r == x) && p x) = (decide (a ≤ r ∧ r < a + m) && p r) := by
  induction m generalizing a with
  | zero => simp; intro h; omega
  | succ m ih =>
    rw [List.range'_succ, List.any_cons, ih]
    by_cases h1 : r = a
    · subst h1; simp
    · have : (r == a) = false := by simpa using h1
      simp only [this, Bool.false_and, Bool.false_or]
      congr 1
      apply decide_eq_decide.mpr
      omega

theorem forEach_next_ite2 {α σ : Type} (l : List α) (st : σ) (a b : α → Bool) (g : α → σ → σ) :
    PyRt.forEach (β := Empty) l st (fun x s => if a x = true then .next s else if b x = true then .next s else .next (g x s)) =
      .next (l.foldl (fun s x => if a x = true then s else if b x = true then s else g x s) st) := by
  rw [← forEach_next]
  apply forEach_congr
  intro x _ t
  by_cases ha : a x = true
  · simp [ha]
  · by_cases hb : b x = true <;> simp [ha, hb]

/-- the positions the first double loop writes (rows and columns 0…3) -/
def hitC (row col r c : Nat) : Bool :=
  (r == row) && ((c == col) && (!(row == 0 && decide (col > 1)) && !(decide (row > 1) && col == 0)))
/-- the positions one iteration of the tree loop writes -/
def hitT (n row r c : Nat) : Bool :=
  (r == row) && ((c == row) || (decide (row - 3 > 0) && c == (row - 3 - 1) / 2 + 3)
    || (decide (2 * (row - 3) + 1 + 3 < n) && c == 2 * (row - 3) + 1 + 3)
    || (decide (2 * (row - 3) + 2 + 3 < n) && c == 2 * (row - 3) + 2 + 3))

theorem Src_generate_topology (subnets : List Nat) (h4 : 4 ≤ subnets.length) :
    SrcGen.ScenarioGenerator._generate_topology subnets = genTopo subnets.length := by
  unfold SrcGen.ScenarioGenerator._generate_topology SrcGen.USER SrcGen.DMZ SrcGen.INTERNET
  generalize subnets.length = n at h4
  simp only [forEach_next_ite2, forEach_next, zeros_mk01]
  -- first double loop
  have hcol : ∀ row, row < 4 → ∀ col ∈ List.range (3 + 1), ∀ g,
      (if (row == 0 && decide (col > 1)) = true then mk01 g n
       else if (decide (row > 1) && col == 0) = true then mk01 g n else PyRt.wr (mk01 g n) row col) =
      mk01 (fun r c => g r c || hitC row col r c) n := by
    intro row hrow col hcol g
    have hc : col < 4 := by simpa using hcol
    by_cases c1 : (row == 0 && decide (col > 1)) = true
    · simp only [c1, if_true]
      apply mk01_congr; intro r c _ _; simp [hitC, c1]
    · by_cases c2 : (decide (row > 1) && col == 0) = true
      · simp only [c1, c2, if_true, Bool.false_eq_true, if_false]
        apply mk01_congr; intro r c _ _; simp [hitC, c2]
      · simp only [c1, c2, Bool.false_eq_true, if_false]
        rw [wr_mk01 g n row col (by omega) (by omega)]
        apply mk01_congr; intro r c _ _
        simp only [Bool.not_eq_true] at c1 c2
        simp [hitC, c1, c2]
  have hrow : ∀ row ∈ List.range (3 + 1), ∀ g,
      (List.range (3 + 1)).foldl (fun T col =>
        if (row == 0 && decide (col > 1)) = true then T
        else if (decide (row > 1) && col == 0) = true then T else PyRt.wr T row col) (mk01 g n) =
      mk01 (fun r c => g r c || (List.range (3 + 1)).any (fun col => hitC row col r c)) n := by
    intro row hr g
    have hr' : row < 4 := by simpa using hr
    exact fold_mk01 (List.range (3 + 1)) n (fun col T =>
        if (row == 0 && decide (col > 1)) = true then T
        else if (decide (row > 1) && col == 0) = true then T else PyRt.wr T row col)
      (fun col => hitC row col) (fun col hc g => hcol row hr' col hc g) g
  have hblock := fold_mk01 (List.range (3 + 1)) n (fun row T => (List.range (3 + 1)).foldl (fun T col =>
        if (row == 0 && decide (col > 1)) = true then T
        else if (decide (row > 1) && col == 0) = true then T else PyRt.wr T row col) T)
      (fun row r c => (List.range (3 + 1)).any (fun col => hitC row col r c)) (fun row hr g => hrow row hr g) (fun _ _ => false)
  simp only [hblock]
  -- the tree loop
  have hT : ∀ row ∈ List.range' 3 (n - 3), ∀ g,
      (if decide (2 * (row - 3) + 2 + 3 < n) = true then
          PyRt.wr
            (if decide (2 * (row - 3) + 1 + 3 < n) = true then
              PyRt.wr
                (if decide (row - 3 > 0) = true then PyRt.wr (PyRt.wr (mk01 g n) row row) row ((row - 3 - 1) / 2 + 3)
                else PyRt.wr (mk01 g n) row row)
                row (2 * (row - 3) + 1 + 3)
            else
              if decide (row - 3 > 0) = true then PyRt.wr (PyRt.wr (mk01 g n) row row) row ((row - 3 - 1) / 2 + 3) else PyRt.wr (mk01 g n) row row)
            row (2 * (row - 3) + 2 + 3)
        else
          if decide (2 * (row - 3) + 1 + 3 < n) = true then
            PyRt.wr
              (if decide (row - 3 > 0) = true then PyRt.wr (PyRt.wr (mk01 g n) row row) row ((row - 3 - 1) / 2 + 3) else PyRt.wr (mk01 g n) row row)
              row (2 * (row - 3) + 1 + 3)
          else if decide (row - 3 > 0) = true then PyRt.wr (PyRt.wr (mk01 g n) row row) row ((row - 3 - 1) / 2 + 3) else PyRt.wr (mk01 g n) row row) =
      mk01 (fun r c => g r c || hitT n row r c) n := by
    intro row hrow g
    have hr : 3 ≤ row ∧ row < n := by
      rw [List.mem_range'_1] at hrow; omega
    have hpar : (row - 3 - 1) / 2 + 3 < n := by omega
    by_cases d1 : 2 * (row - 3) + 2 + 3 < n <;> by_cases d2 : 2 * (row - 3) + 1 + 3 < n <;> by_cases d3 : row - 3 > 0 <;>
      simp only [d1, d2, d3, decide_true, decide_false, if_true, if_false, Bool.false_eq_true] <;>
      (repeat rw [wr_mk01 _ n _ _ (by omega) (by omega)]) <;>
      (apply mk01_congr; intro r c _ _; simp [hitT, d1, d2, d3, Bool.or_assoc, Bool.and_or_distrib_left])
  have htree := fun f => fold_mk01 (List.range' 3 (n - 3)) n (fun x s =>
        if decide (2 * (x - 3) + 2 + 3 < n) = true then
          PyRt.wr
            (if decide (2 * (x - 3) + 1 + 3 < n) = true then
              PyRt.wr
                (if decide (x - 3 > 0) = true then PyRt.wr (PyRt.wr s x x) x ((x - 3 - 1) / 2 + 3) else PyRt.wr s x x)
                x (2 * (x - 3) + 1 + 3)
            else if decide (x - 3 > 0) = true then PyRt.wr (PyRt.wr s x x) x ((x - 3 - 1) / 2 + 3) else PyRt.wr s x x)
            x (2 * (x - 3) + 2 + 3)
        else
          if decide (2 * (x - 3) + 1 + 3 < n) = true then
            PyRt.wr
              (if decide (x - 3 > 0) = true then PyRt.wr (PyRt.wr s x x) x ((x - 3 - 1) / 2 + 3) else PyRt.wr s x x) x
              (2 * (x - 3) + 1 + 3)
          else if decide (x - 3 > 0) = true then PyRt.wr (PyRt.wr s x x) x ((x - 3 - 1) / 2 + 3) else PyRt.wr s x x)
      (fun row => hitT n row) hT f
  simp only [htree]
  have hgen : genTopo n = mk01 adj n := rfl
  rw [hgen]
  have pick1 : ∀ r c, ((List.range (3 + 1)).any fun x => (List.range (3 + 1)).any fun col => hitC x col r c) =
      (decide (r < 4) && (decide (c < 4) && (!(r == 0 && decide (c > 1)) && !(decide (r > 1) && c == 0)))) := by
    intro r c
    unfold hitC
    have e1 : ∀ x, ((List.range (3 + 1)).any fun col => (r == x) && ((c == col) && (!(x == 0 && decide (col > 1)) && !(decide (x > 1) && col == 0)))) =
        ((r == x) && (List.range (3 + 1)).any fun col => (c == col) && (!(x == 0 && decide (col > 1)) && !(decide (x > 1) && col == 0))) := by
      intro x
      cases hrx : (r == x) <;> simp
    simp only [e1, any_range_pick]
  have pick2 : ∀ r c, ((List.range' 3 (n - 3)).any fun x => hitT n x r c) =
      (decide (3 ≤ r ∧ r < 3 + (n - 3)) && ((c == r) || (decide (r - 3 > 0) && c == (r - 3 - 1) / 2 + 3)
        || (decide (2 * (r - 3) + 1 + 3 < n) && c == 2 * (r - 3) + 1 + 3)
        || (decide (2 * (r - 3) + 2 + 3 < n) && c == 2 * (r - 3) + 2 + 3))) := by
    intro r c
    unfold hitT
    exact any_range'_pick 3 (n - 3) r _
  by_cases hn : n = 4
  · subst hn
    simp only [beq_self_eq_true, if_true]
    apply mk01_congr
    intro r c hr hc
    rw [pick1]
    unfold adj
    have h1 : r < 4 ∧ c < 4 := ⟨hr, hc⟩
    simp only [h1, and_self, if_true, Bool.false_or]
    by_cases a : r = 0 <;> by_cases b : c > 1 <;> by_cases c' : r > 1 <;> by_cases d : c = 0 <;> simp [hr, hc, a, b, c', d] <;> omega
  · have hn' : (n == 3 + 1) = false := by simpa using hn
    simp only [hn', Bool.false_eq_true, if_false]
    apply mk01_congr
    intro r c hr hc
    rw [pick1, pick2]
    unfold adj
    rw [Bool.eq_iff_iff]
    split
    · simp only [Bool.or_eq_true, Bool.and_eq_true, decide_eq_true_eq, beq_iff_eq, beq_eq_false_iff_ne, ne_eq, Bool.not_eq_true', Bool.false_eq_true,
        false_or, Bool.and_eq_false_iff, decide_eq_false_iff_not, Bool.not_eq_eq_eq_not, Bool.not_true, Bool.or_eq_false_iff,
        not_or, not_and]
      omega
    · split
      · simp only [Bool.or_eq_true, Bool.and_eq_true, decide_eq_true_eq, beq_iff_eq, beq_eq_false_iff_ne, ne_eq, Bool.not_eq_true', Bool.false_eq_true,
          false_or, Bool.and_eq_false_iff, decide_eq_false_iff_not]
        rw [iff_false]
        omega
      · simp only [Bool.or_eq_true, Bool.and_eq_true, decide_eq_true_eq, beq_iff_eq, beq_eq_false_iff_ne, ne_eq, Bool.not_eq_true', Bool.false_eq_true,
          false_or, Bool.and_eq_false_iff, decide_eq_false_iff_not]
        omega


/-! ### the vulnerability predicates of `_ensure_host_vulnerability`

`_host_is_vulnerable_to_exploit`, `_host_is_vulnerable_to_privesc` and `_host_is_vulnerable` translated from the source
are the model's `vulnE`, `vulnPE`, `hostVulnerable` — the predicate the invariant of C15 / C16 is stated with ("every
sensitive host is vulnerable at root level, every subnet holds a vulnerable host"), for escalation definitions that
name a process (the generator's always do). -/

theorem osPart (l : List Bool) (o : Option Nat) :
    (o.isNone || PyRt.flagAt l o) = (match o with | none => true | some i => l.getD i false) := by
  cases o <;> simp [PyRt.flagAt]

theorem Src_vuln_exploit (h : HostDef) (e : ExploitDef) :
    SrcGen.ScenarioGenerator._host_is_vulnerable_to_exploit h e = vulnE h e := by
  unfold SrcGen.ScenarioGenerator._host_is_vulnerable_to_exploit vulnE runsOsH
  simp only [ite_not_false, osPart]
  rfl

theorem Src_vuln_privesc (h : HostDef) (pe : PrivescDef) (hp : pe.proc.isSome = true) :
    SrcGen.ScenarioGenerator._host_is_vulnerable_to_privesc h pe = vulnPE h pe := by
  unfold SrcGen.ScenarioGenerator._host_is_vulnerable_to_privesc vulnPE runsOsH
  simp only [ite_not_false, osPart]
  cases hq : pe.proc with
  | none => rw [hq] at hp; simp at hp
  | some pr => rfl

theorem Src_host_is_vulnerable (es : List ExploitDef) (ps : List PrivescDef) (h : HostDef) (lvl : Nat)
    (hps : ∀ pe ∈ ps, pe.proc.isSome = true) :
    SrcGen.ScenarioGenerator._host_is_vulnerable es ps h lvl = hostVulnerable es ps h lvl := by
  unfold SrcGen.ScenarioGenerator._host_is_vulnerable hostVulnerable
  have hin : PyRt.forEach (β := Bool) ps () (fun pe_def _ =>
      if SrcGen.ScenarioGenerator._host_is_vulnerable_to_privesc h pe_def = true then PyRt.Ctl.ret true else PyRt.Ctl.next ()) =
      if ps.any (vulnPE h) then .ret true else .next () := by
    rw [forEach_find ps _ true]
    rw [any_congr_mem ps _ (vulnPE h) (fun pe hpe => Src_vuln_privesc h pe (hps pe hpe))]
  simp only [hin, Src_vuln_exploit]
  rw [forEach_congr es _ (fun e _ => if (vulnE h e && (decide (lvl ≤ e.access) || ps.any (vulnPE h))) = true then .ret true else .next ()) ()
    (fun e _ t => by
      cases vulnE h e <;> cases hd : decide (lvl ≤ e.access) <;> cases ps.any (vulnPE h) <;> simp_all)]
  rw [forEach_find es _ true]
  cases es.any (fun e => vulnE h e && (decide (lvl ≤ e.access) || ps.any (vulnPE h))) <;> rfl
end NASim
