import NasimModel.Props.SrcRunning
import NasimModel.Props.SrcObs
/-!
# The row vocabulary of the dynamics world, proved over the raw arrays

`Generated/SrcDyn.lean` (the dynamics world) is written over decoded rows: `host.compromised` is `r.comp`,
`host.access = v` is `{ r with access := v }`, `state.get_host(a)` is `s.get a`, `state.update_host(a, h)` overwrites
the row.  Here the repository's own getters, setters, `get_host` and `update_host`, translated over the raw NumPy
arrays (`Generated/SrcObs.lean`), are shown to *be* those operations on the documented encoding of a row — so the
vocabulary `ATTR` / `STORE` / `PyRt.getHost` / `PyRt.setHost` of the dynamics world is a theorem, not an assumption
(what remains assumed is that the tensor of a state is the list of its rows' encodings, which is C09's statement and
what the LAYOUT and DYN suites compare on every raw tensor).
-/
open NASim
namespace NASim

theorem encodeRow_blocks (L : Layout) (r : Row) :
    encodeRow L r = (onehot L.b0 r.addr.1 ++ onehot L.b1 r.addr.2) ++
      (bi r.comp :: (bi r.reach :: (bi r.disc :: (r.value :: (r.dvalue :: ((r.access : Int) ::
        (r.os.map bi ++ r.svc.map bi ++ r.proc.map bi))))))) := by
  simp [encodeRow]

theorem prefix_len (L : Layout) (r : Row) : (onehot L.b0 r.addr.1 ++ onehot L.b1 r.addr.2).length = L.b0 + L.b1 := by
  simp [onehot_length]

/-- the four setters on the documented row write the field and nothing else -/
theorem Src_setters (L : Layout) (r : Row) (b : Bool) (n : Nat) :
    SrcObs.HostVector.set_compromised L (encodeRow L r) b = encodeRow L { r with comp := b } ∧
    SrcObs.HostVector.set_reachable L (encodeRow L r) b = encodeRow L { r with reach := b } ∧
    SrcObs.HostVector.set_discovered L (encodeRow L r) b = encodeRow L { r with disc := b } ∧
    SrcObs.HostVector.set_access L (encodeRow L r) n = encodeRow L { r with access := n } := by
  have hp := prefix_len L r
  refine ⟨?_, ?_, ?_, ?_⟩
  · unfold SrcObs.HostVector.set_compromised
    simp only [Src_vector_idxs, Layout.compIdx, Layout.hostIdx]
    rw [encodeRow_blocks, encodeRow_blocks, List.set_append_right _ _ (by omega)]
    simp [hp]
  · unfold SrcObs.HostVector.set_reachable
    simp only [Src_vector_idxs, Layout.reachIdx, Layout.compIdx, Layout.hostIdx]
    rw [encodeRow_blocks, encodeRow_blocks, List.set_append_right _ _ (by omega)]
    simp [hp]
  · unfold SrcObs.HostVector.set_discovered
    simp only [Src_vector_idxs, Layout.discIdx, Layout.reachIdx, Layout.compIdx, Layout.hostIdx]
    rw [encodeRow_blocks, encodeRow_blocks, List.set_append_right _ _ (by omega)]
    have : L.b0 + L.b1 + 1 + 1 - (L.b0 + L.b1) = 2 := by omega
    simp [hp, this]
  · unfold SrcObs.HostVector.set_access
    simp only [Src_vector_idxs, Layout.accessIdx, Layout.dvalueIdx, Layout.valueIdx, Layout.discIdx, Layout.reachIdx,
      Layout.compIdx, Layout.hostIdx]
    rw [encodeRow_blocks, encodeRow_blocks, List.set_append_right _ _ (by omega)]
    have : L.b0 + L.b1 + 1 + 1 + 1 + 1 + 1 - (L.b0 + L.b1) = 5 := by omega
    simp [hp, this]

/-- `state.get_host(a)` on the raw arrays is the encoding of `s.get a` -/
theorem Src_get_host (L : Layout) (s : State) (h : StateOk L s) (a : Addr) (ha : a ∈ s.map (·.addr)) :
    SrcObs.State.get_host L (rawOf L s) a = encodeRow L (PyRt.getHost s a) := by
  have := host_and_idx L s h a ha
  unfold SrcObs.State.get_host_and_idx at this
  unfold SrcObs.State.get_host PyRt.getHost
  exact congrArg Prod.snd this

/-- `state.update_host(a, h)` on the raw arrays is `PyRt.setHost` (the whole row is overwritten; the map is kept) -/
theorem Src_update_host (L : Layout) (s : State) (h : StateOk L s) (a : Addr) (r' : Row) :
    SrcObs.State.update_host L (rawOf L s) a (encodeRow L r') =
      { tensor := (PyRt.setHost s a r').map (encodeRow L), host_num_map := (rawOf L s).host_num_map } ∨
    a ∉ s.map (·.addr) := by
  by_cases ha : a ∈ s.map (·.addr)
  · left
    obtain ⟨j, x, hx, hxa, hj, hjn⟩ := pos_of_mem L s h.wf a ha
    unfold SrcObs.State.update_host
    simp only [hj]
    congr 1
    simp only [rawOf, PyRt.setHost]
    apply List.ext_getElem?
    intro i
    by_cases hij : i = j
    · subst hij
      rw [List.getElem?_set_self (by simpa using hjn), List.getElem?_map, List.getElem?_map, hx]
      simp [hxa]
    · rw [List.getElem?_set_ne (fun e => hij e.symm), List.getElem?_map, List.getElem?_map, List.getElem?_map]
      cases hy : s[i]? with
      | none => rfl
      | some y =>
        have hne : (y.addr == a) = false := by
          apply beq_false_of_ne
          intro he
          have hji := numMapGet_rawOf L s h.wf i y hy
          rw [he, hj] at hji
          exact hij hji.symm
        have hne' : ¬ y.addr = a := by simpa using hne
        simp [hne']
  · right; exact ha

/-- `vectorize` with the optional `vector` argument passed a zero row (as `State.tensorize` does) is `vectorize` -/
theorem Src_vectorize_into (L : Layout) (r : Row) :
    SrcObs.HostVector.vectorize_into L r (zeros L.stateSize) = SrcObs.HostVector.vectorize L r := rfl

/-- `State.tensorize`: the tensor of the state built from the scenario's hosts is the list of their documented
encodings, and its `host_num_map` numbers the address space — the raw arrays of the model state -/
theorem Src_tensorize (L : Layout) (rows : List Row) (hwf : WF rows) (hfit : ∀ r ∈ rows, RowWF L r) :
    SrcObs.State.tensorize L rows = rawOf L rows := by
  unfold SrcObs.State.tensorize
  simp only [Src_vector_idxs]
  have hnm : PyRt.numMapOf rows = (rawOf L rows).host_num_map := rfl
  have hb : ∀ (l : List (Addr × Row)) (T : List (List Int)),
      PyRt.forEach (β := Empty) l T (fun x tensor =>
        match x with
        | (host_addr, host) =>
          PyRt.Ctl.next (tensor.set (PyRt.numMapGet (PyRt.numMapOf rows) host_addr)
            (SrcObs.HostVector.vectorize_into L host (PyRt.row tensor (PyRt.numMapGet (PyRt.numMapOf rows) host_addr))))) =
      .next (l.foldl (fun tensor x => tensor.set (PyRt.numMapGet (PyRt.numMapOf rows) x.1)
        (SrcObs.HostVector.vectorize_into L x.2 (PyRt.row tensor (PyRt.numMapGet (PyRt.numMapOf rows) x.1)))) T) := by
    intro l T
    rw [← forEach_next]
  simp only [hb]
  have key : ∀ (pre post : List Row) (T : List (List Int)), rows = pre ++ post →
      T = pre.map (encodeRow L) ++ List.replicate post.length (zeros L.stateSize) →
      (PyRt.hostItems post).foldl (fun tensor x => tensor.set (PyRt.numMapGet (PyRt.numMapOf rows) x.1)
        (SrcObs.HostVector.vectorize_into L x.2 (PyRt.row tensor (PyRt.numMapGet (PyRt.numMapOf rows) x.1)))) T =
      rows.map (encodeRow L) := by
    intro pre post
    induction post generalizing pre with
    | nil => intro T hs hT; simp [PyRt.hostItems, hT, hs]
    | cons x xs ih =>
      intro T hs hT
      simp only [PyRt.hostItems, List.map_cons, List.foldl_cons]
      have hx : rows[pre.length]? = some x := by rw [hs]; simp
      have hidx : PyRt.numMapGet (PyRt.numMapOf rows) x.addr = pre.length := by
        rw [hnm]; exact numMapGet_rawOf L rows hwf _ x hx
      have hrow : PyRt.row T pre.length = zeros L.stateSize := by
        rw [hT]; simp [PyRt.row, List.getD_eq_getElem?_getD]
      have hv : SrcObs.HostVector.vectorize_into L x (zeros L.stateSize) = encodeRow L x := by
        rw [Src_vectorize_into, Src_vectorize, C09_layout_concat L x (hfit x (by rw [hs]; simp))]
      rw [hidx, hrow, hv]
      apply ih (pre ++ [x]) _ (by simp [hs])
      rw [hT, List.set_append_right _ _ (by simp)]
      simp [List.replicate_succ]
  have := key [] rows (PyRt.zeros2 (rows.length, L.stateSize)) rfl (by simp [PyRt.zeros2, PyRt.zeros1, zeros])
  simp only [PyRt.hostItems] at this ⊢
  rw [this]
  rfl

/-- the row vocabulary, assembled: getters, setters and the three `is_running_*` tests of the repository, run on the
documented encoding of a row, are the record reads / writes / flag tests the dynamics world is written over -/
theorem Src_row_vocabulary (L : Layout) (r : Row) (hwf : RowWF L r) (b : Bool) (n k : Nat) :
    ((SrcObs.HostVector.compromised L (encodeRow L r) != 0) = r.comp ∧
     (SrcObs.HostVector.reachable L (encodeRow L r) != 0) = r.reach ∧
     (SrcObs.HostVector.discovered L (encodeRow L r) != 0) = r.disc ∧
     (SrcObs.HostVector.access L (encodeRow L r)).toNat = r.access ∧
     SrcObs.HostVector.value L (encodeRow L r) = r.value ∧
     SrcObs.HostVector.discovery_value L (encodeRow L r) = r.dvalue ∧
     SrcObs.HostVector.address L (encodeRow L r) = r.addr) ∧
    (SrcObs.HostVector.set_compromised L (encodeRow L r) b = encodeRow L { r with comp := b } ∧
     SrcObs.HostVector.set_reachable L (encodeRow L r) b = encodeRow L { r with reach := b } ∧
     SrcObs.HostVector.set_discovered L (encodeRow L r) b = encodeRow L { r with disc := b } ∧
     SrcObs.HostVector.set_access L (encodeRow L r) n = encodeRow L { r with access := n }) ∧
    ((k < L.nSvc → SrcObs.HostVector.is_running_service L (encodeRow L r) k = PyRt.isRunningSvc r k) ∧
     (k < L.nOs → SrcObs.HostVector.is_running_os L (encodeRow L r) k = PyRt.isRunningOs r (some k)) ∧
     (k < L.nProc → SrcObs.HostVector.is_running_process L (encodeRow L r) k = PyRt.isRunningProc r (some k))) := by
  obtain ⟨e, g1, g2, g3, g4, g5, g6, g7⟩ := Src_layout_documented L r hwf
  rw [e] at g1 g2 g3 g4 g5 g6 g7
  exact ⟨⟨g2, g3, g4, g7, g5, g6, g1⟩, Src_setters L r b n, Src_is_running L r k hwf.2.2⟩

end NASim
