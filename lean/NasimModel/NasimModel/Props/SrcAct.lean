import NasimModel.Generated.SrcAct
import NasimModel.Proofs.SrcTie
import NasimModel.Props.C11
/-!
# Source tie: action classes and action spaces

The constructors of the action classes, `load_action_list`, `Scenario.get_action_space_size`, the `nvec` of the
parameterised space, `ParameterisedActionSpace.get_action` (with `Scenario.exploit_map / privesc_map` and the three
`_get_*_def` helpers) and `NASimEnv.get_action_mask`, translated from their source text
(`Generated/SrcAct.lean`), are the model's `scanAction / exploitAction / privescAction / noopAction`, `flatActions`,
`Scenario.actionSpaceSize`, `paramNvec`, `decodeParam`, `actionMask`.  The C11 theorems are thereby theorems about
the translated source.
-/
open NASim
namespace NASim

/-- the constructors, called as `load_action_list` and `get_action` call them, build the model's actions -/
theorem Src_constructors (t : Addr) (c : Int) (e : ExploitDef) (p : PrivescDef) :
    SrcAct.ServiceScan.__init__ t c 1 1 = scanAction .svcScan t c ∧
    SrcAct.OSScan.__init__ t c 1 1 = scanAction .osScan t c ∧
    SrcAct.SubnetScan.__init__ t c 1 1 = scanAction .subnetScan t c ∧
    SrcAct.ProcessScan.__init__ t c 1 1 = scanAction .procScan t c ∧
    SrcAct.Exploit.__init__ () t e.cost e.svc e.os e.access e.prob 1 = exploitAction t e ∧
    SrcAct.PrivilegeEscalation.__init__ () t p.cost p.access p.proc p.os p.prob 1 = privescAction t p ∧
    SrcAct.NoOp.__init__ = noopAction :=
  ⟨rfl, rfl, rfl, rfl, rfl, rfl, rfl⟩

theorem forEach_app {α : Type} (l : List α) (acc : List Action) (g : α → Action) :
    PyRt.forEach (β := Empty) l acc (fun x acc => .next (acc ++ [g x])) = .next (acc ++ l.map g) := by
  induction l generalizing acc with
  | nil => simp [PyRt.forEach]
  | cons x xs ih => simp only [PyRt.forEach, List.map_cons]; rw [ih]; simp

theorem forEach_flat {α : Type} (l : List α) (acc : List Action) (h : α → List Action) :
    PyRt.forEach (β := Empty) l acc (fun x acc => .next (acc ++ h x)) = .next (acc ++ l.flatMap h) := by
  induction l generalizing acc with
  | nil => simp [PyRt.forEach]
  | cons x xs ih => simp only [PyRt.forEach, List.flatMap_cons]; rw [ih]; simp

theorem named_map {α β : Type} (l : List α) (g : α → β) : (PyRt.named l).map (fun p => g p.2) = l.map g := by
  have h : (PyRt.named l).map Prod.snd = l := by
    unfold PyRt.named
    rw [List.map_snd_zip]
    simp
  rw [show (fun (p : Nat × α) => g p.2) = g ∘ Prod.snd from rfl, ← List.map_map, h]

/-- `load_action_list`: per host the four scans, then one exploit per definition, then one escalation per definition -/
theorem Src_load_action_list (sc : Scenario) : SrcAct.load_action_list sc = flatActions sc := by
  unfold SrcAct.load_action_list flatActions
  have hE : ∀ (t : Addr) (acc : List Action),
      PyRt.forEach (β := Empty) (PyRt.named sc.exploits) acc (fun x action_list =>
        match x with
        | (e_name, e_def) => PyRt.Ctl.next (action_list ++ [SrcAct.Exploit.__init__ () t e_def.cost e_def.svc e_def.os e_def.access e_def.prob 1]))
      = .next (acc ++ sc.exploits.map (exploitAction t)) := by
    intro t acc
    rw [← named_map sc.exploits (exploitAction t), ← forEach_app]
    apply forEach_congr
    intro x _ a
    obtain ⟨i, e⟩ := x
    rfl
  have hP : ∀ (t : Addr) (acc : List Action),
      PyRt.forEach (β := Empty) (PyRt.named sc.privescs) acc (fun x action_list =>
        match x with
        | (pe_name, pe_def) => PyRt.Ctl.next (action_list ++ [SrcAct.PrivilegeEscalation.__init__ () t pe_def.cost pe_def.access pe_def.proc pe_def.os pe_def.prob 1]))
      = .next (acc ++ sc.privescs.map (privescAction t)) := by
    intro t acc
    rw [← named_map sc.privescs (privescAction t), ← forEach_app]
    apply forEach_congr
    intro x _ a
    obtain ⟨i, e⟩ := x
    rfl
  simp only [hE, hP]
  have body : (fun (address : Addr) (action_list : List Action) =>
      (PyRt.Ctl.next (action_list ++ [SrcAct.ServiceScan.__init__ address sc.svcScanCost 1 1] ++
        [SrcAct.OSScan.__init__ address sc.osScanCost 1 1] ++ [SrcAct.SubnetScan.__init__ address sc.subnetScanCost 1 1] ++
        [SrcAct.ProcessScan.__init__ address sc.procScanCost 1 1] ++ List.map (exploitAction address) sc.exploits ++
        List.map (privescAction address) sc.privescs) : PyRt.Ctl Empty (List Action))) =
      (fun t acc => .next (acc ++ hostActions sc t)) := by
    funext t acc
    simp [hostActions, (Src_constructors t _ default default).1, (Src_constructors t _ default default).2.1,
      (Src_constructors t _ default default).2.2.1, (Src_constructors t _ default default).2.2.2.1]
  rw [body, forEach_flat]
  simp

theorem Src_action_space_size (sc : Scenario) : SrcAct.Scenario.get_action_space_size sc = sc.actionSpaceSize := rfl

theorem Src_nvec (sc : Scenario) : SrcAct.ParameterisedActionSpace.nvec sc = paramNvec sc := rfl

/-- `FlatActionSpace.get_action` indexes the translated action list, i.e. `flatActions` -/
theorem Src_flat_get_action (sc : Scenario) (i : Nat) :
    SrcAct.FlatActionSpace.get_action sc i = (flatActions sc).getD i default := by
  unfold SrcAct.FlatActionSpace.get_action
  rw [Src_load_action_list]

/-! ### nested dictionaries -/

theorem any_key_lookup {κ β : Type} [BEq κ] [LawfulBEq κ] (d : List (κ × β)) (k : κ) :
    d.any (fun e => e.1 == k) = (d.lookup k).isSome := by
  induction d with
  | nil => rfl
  | cons e es ih =>
    obtain ⟨ek, ev⟩ := e
    simp only [List.any_cons, List.lookup_cons]
    by_cases h : (k == ek) = true
    · have : (ek == k) = true := by rw [beq_iff_eq] at h ⊢; exact h.symm
      simp [h, this]
    · simp only [Bool.not_eq_true] at h
      have : (ek == k) = false := by
        rw [beq_eq_false_iff_ne] at h ⊢; exact fun e => h e.symm
      simp [h, this, ih]

theorem lookup_map_set {κ β : Type} [BEq κ] [LawfulBEq κ] (d : List (κ × β)) (k k' : κ) (v : β) :
    (d.map (fun e => if e.1 == k then (k, v) else e)).lookup k' =
      if k' == k then (d.lookup k).map (fun _ => v) else d.lookup k' := by
  induction d with
  | nil => simp
  | cons e es ih =>
    obtain ⟨ek, ev⟩ := e
    simp only [List.map_cons, List.lookup_cons]
    by_cases hek : (ek == k) = true
    · have hekk : ek = k := beq_iff_eq.mp hek
      subst hekk
      simp only [beq_self_eq_true, if_true, List.lookup_cons]
      by_cases hk' : (k' == ek) = true
      · simp [hk']
      · simp only [Bool.not_eq_true] at hk'
        simp only [hk', Bool.false_eq_true, if_false]
        rw [ih]; simp [hk']
    · simp only [Bool.not_eq_true] at hek
      simp only [hek, Bool.false_eq_true, if_false, List.lookup_cons]
      by_cases hk' : (k' == ek) = true
      · have : k' = ek := beq_iff_eq.mp hk'
        subst this
        have hkk : (k' == k) = false := hek
        have hkk2 : (k == k') = false := by
          rw [beq_eq_false_iff_ne] at hkk ⊢; exact fun e => hkk e.symm
        simp [hkk, hkk2]
      · simp only [Bool.not_eq_true] at hk'
        simp only [hk']
        rw [ih]
        by_cases hkk : (k' == k) = true
        · have : k' = k := beq_iff_eq.mp hkk
          subst this
          simp [hk']
        · simp only [Bool.not_eq_true] at hkk
          simp [hkk]

theorem dictSet_lookup {κ β : Type} [BEq κ] [LawfulBEq κ] (d : List (κ × β)) (k k' : κ) (v : β) :
    (PyRt.dictSet d k v).lookup k' = if k' == k then some v else d.lookup k' := by
  unfold PyRt.dictSet
  rw [any_key_lookup]
  cases hl : d.lookup k with
  | some x =>
    simp only [Option.isSome_some, if_true, lookup_map_set, hl, Option.map_some]
  | none =>
    simp only [Option.isSome_none, Bool.false_eq_true, if_false, List.lookup_append]
    by_cases hk' : (k' == k) = true
    · have : k' = k := beq_iff_eq.mp hk'
      subst this
      simp [hl]
    · simp only [Bool.not_eq_true] at hk'
      simp only [hk', Bool.false_eq_true, if_false]
      cases d.lookup k' <;> simp [List.lookup_cons, hk']

def look2 {κ : Type} [BEq κ] (M : List (κ × List (Option Nat × PyRt.KwDict))) (k : κ) (o : Option Nat) :
    Option PyRt.KwDict := (M.lookup k).bind (·.lookup o)

def mapStep {κ : Type} [BEq κ] (M : List (κ × List (Option Nat × PyRt.KwDict))) (k : κ) (o : Option Nat)
    (kw : PyRt.KwDict) : List (κ × List (Option Nat × PyRt.KwDict)) :=
  let M1 := if (!(PyRt.dmem M k)) then PyRt.dset M k [] else M
  if (!(PyRt.dmem (PyRt.dget M1 k) o)) then PyRt.dset M1 k (PyRt.dset (PyRt.dget M1 k) o kw) else M1

theorem mapStep_look2 {κ : Type} [BEq κ] [LawfulBEq κ] (M : List (κ × List (Option Nat × PyRt.KwDict))) (k k' : κ)
    (o o' : Option Nat) (kw : PyRt.KwDict) :
    look2 (mapStep M k o kw) k' o' =
      if (k' == k && o' == o) && (look2 M k o).isNone then some kw else look2 M k' o' := by
  unfold mapStep look2
  simp only [PyRt.dset, PyRt.dget, PyRt.dmem, any_key_lookup]
  cases hM : M.lookup k with
  | none =>
    have h1 : (PyRt.dictSet M k ([] : List (Option Nat × PyRt.KwDict))).lookup k = some [] := by
      rw [dictSet_lookup]; simp
    simp only [Option.isSome_none, Bool.not_false, if_true, h1, Option.getD_some, List.lookup_nil,
      Option.bind_none, Option.isNone_none, Bool.and_true]
    rw [dictSet_lookup]
    by_cases hk : (k' == k) = true
    · have : k' = k := beq_iff_eq.mp hk
      subst this
      simp only [beq_self_eq_true, if_true, Option.bind_some, Bool.true_and, dictSet_lookup, List.lookup_nil]
      simp [hM]
    · simp only [Bool.not_eq_true] at hk
      simp only [hk, Bool.false_eq_true, if_false, Bool.false_and]
      rw [dictSet_lookup]; simp [hk]
  | some inner =>
    simp only [Option.isSome_some, Bool.not_true, Bool.false_eq_true, if_false, hM, Option.getD_some, Option.bind_some]
    by_cases hI : (inner.lookup o).isSome = true
    · have hN : (inner.lookup o).isNone = false := by
        cases h : inner.lookup o <;> simp_all
      simp [hI, hN]
    · simp only [Bool.not_eq_true] at hI
      have hN : (inner.lookup o).isNone = true := by
        cases h : inner.lookup o <;> simp_all
      have hnone : inner.lookup o = none := by
        cases h : inner.lookup o <;> simp_all
      simp only [hI, hN, Bool.not_false, if_true, Bool.and_true]
      rw [dictSet_lookup]
      by_cases hk : (k' == k) = true
      · have : k' = k := beq_iff_eq.mp hk
        subst this
        simp only [beq_self_eq_true, if_true, Option.bind_some, Bool.true_and, dictSet_lookup, hM]
      · simp only [Bool.not_eq_true] at hk
        simp [hk]

theorem foldl_mapStep {κ α : Type} [BEq κ] [LawfulBEq κ] (l : List α) (key : α → κ) (okey : α → Option Nat)
    (kw : α → PyRt.KwDict) (M : List (κ × List (Option Nat × PyRt.KwDict))) (k : κ) (o : Option Nat) :
    look2 (l.foldl (fun M e => mapStep M (key e) (okey e) (kw e)) M) k o =
      match look2 M k o with
      | some x => some x
      | none => (l.find? (fun e => k == key e && o == okey e)).map kw := by
  induction l generalizing M with
  | nil => simp only [List.foldl_nil, List.find?_nil, Option.map_none]; cases look2 M k o <;> rfl
  | cons e es ih =>
    simp only [List.foldl_cons]
    rw [ih, mapStep_look2]
    by_cases hm : (k == key e && o == okey e) = true
    · simp only [hm, Bool.true_and, List.find?_cons]
      have hk : k = key e := by
        rw [Bool.and_eq_true] at hm; exact beq_iff_eq.mp hm.1
      have ho : o = okey e := by
        rw [Bool.and_eq_true] at hm; exact beq_iff_eq.mp hm.2
      subst hk ho
      cases hl : look2 M (key e) (okey e) <;> simp
    · simp only [Bool.not_eq_true] at hm
      simp only [hm, Bool.false_and, Bool.false_eq_true, if_false, List.find?_cons]

/-! ### `exploit_map`, `privesc_map`, `_get_*_def`, `get_action` -/

/-- the inner dictionary `exploit_map` stores for an exploit definition -/
def toKwE (e : ExploitDef) : PyRt.KwDict :=
  { name := some (), service := some e.svc, os := some e.os, cost := some e.cost, prob := some e.prob, access := some e.access }
/-- the inner dictionary `privesc_map` stores for an escalation definition -/
def toKwP (p : PrivescDef) : PyRt.KwDict :=
  { name := some (), process := some p.proc, os := some p.os, cost := some p.cost, prob := some p.prob, access := some p.access }

theorem foldl_named {α σ : Type} (l : List α) (g : σ → α → σ) (init : σ) :
    (PyRt.named l).foldl (fun st x => g st x.2) init = l.foldl g init := by
  have h : (PyRt.named l).map Prod.snd = l := by
    unfold PyRt.named
    rw [List.map_snd_zip]
    simp
  conv => rhs; rw [← h]
  rw [List.foldl_map]

theorem Src_exploit_map (sc : Scenario) :
    SrcAct.Scenario.exploit_map sc = sc.exploits.foldl (fun M e => mapStep M e.svc e.os (toKwE e)) [] := by
  unfold SrcAct.Scenario.exploit_map
  have hb : ∀ (l : List (Nat × ExploitDef)) (M : List (Nat × List (Option Nat × PyRt.KwDict))),
      PyRt.forEach (β := Empty) l M (fun x e_map =>
        match x with
        | (e_name, e_def) =>
          let srv_name := e_def.svc
          let e_map := if (!(PyRt.dmem e_map srv_name)) = true then (let e_map := PyRt.dset e_map srv_name []; e_map) else e_map
          let os := e_def.os
          let e_map := if (!(PyRt.dmem (PyRt.dget e_map srv_name) os)) = true then
              (let e_map := PyRt.dset e_map srv_name (PyRt.dset (PyRt.dget e_map srv_name) os
                ({ name := some (), service := some srv_name, os := some os, cost := some e_def.cost, prob := some e_def.prob,
                   access := some e_def.access } : PyRt.KwDict)); e_map) else e_map
          PyRt.Ctl.next e_map)
      = .next (l.foldl (fun M x => mapStep M x.2.svc x.2.os (toKwE x.2)) M) := by
    intro l M
    rw [← forEach_next]
    apply forEach_congr
    intro x _ t
    obtain ⟨i, e⟩ := x
    rfl
  simp only [hb]
  exact foldl_named sc.exploits (fun M e => mapStep M e.svc e.os (toKwE e)) []

theorem Src_privesc_map (sc : Scenario) :
    SrcAct.Scenario.privesc_map sc = sc.privescs.foldl (fun M p => mapStep M p.proc p.os (toKwP p)) [] := by
  unfold SrcAct.Scenario.privesc_map
  have hb : ∀ (l : List (Nat × PrivescDef)) (M : List (Option Nat × List (Option Nat × PyRt.KwDict))),
      PyRt.forEach (β := Empty) l M (fun x pe_map =>
        match x with
        | (pe_name, pe_def) =>
          let proc_name := pe_def.proc
          let pe_map := if (!(PyRt.dmem pe_map proc_name)) = true then (let pe_map := PyRt.dset pe_map proc_name []; pe_map) else pe_map
          let os := pe_def.os
          let pe_map := if (!(PyRt.dmem (PyRt.dget pe_map proc_name) os)) = true then
              (let pe_map := PyRt.dset pe_map proc_name (PyRt.dset (PyRt.dget pe_map proc_name) os
                ({ name := some (), process := some proc_name, os := some os, cost := some pe_def.cost, prob := some pe_def.prob,
                   access := some pe_def.access } : PyRt.KwDict)); pe_map) else pe_map
          PyRt.Ctl.next pe_map)
      = .next (l.foldl (fun M x => mapStep M x.2.proc x.2.os (toKwP x.2)) M) := by
    intro l M
    rw [← forEach_next]
    apply forEach_congr
    intro x _ t
    obtain ⟨i, e⟩ := x
    rfl
  simp only [hb]
  exact foldl_named sc.privescs (fun M p => mapStep M p.proc p.os (toKwP p)) []

theorem get_def_look2 {κ : Type} [BEq κ] [LawfulBEq κ] (M : List (κ × List (Option Nat × PyRt.KwDict))) (k : κ) (o : Option Nat) :
    (if (!(PyRt.dmem M k)) = true then none
     else if (!(PyRt.dmem (PyRt.dget M k) o)) = true then none else some (PyRt.dget (PyRt.dget M k) o)) = look2 M k o := by
  unfold look2
  simp only [PyRt.dmem, any_key_lookup, PyRt.dget]
  cases h1 : M.lookup k with
  | none => simp
  | some inner =>
    simp only [Option.isSome_some, Bool.not_true, Bool.false_eq_true, if_false, Option.getD_some, Option.bind_some]
    cases h2 : inner.lookup o <;> simp

/-- `_get_exploit_def`: the first exploit definition with that service and OS (`Scenario.exploit_map`: first wins) -/
theorem Src_get_exploit_def (sc : Scenario) (svc : Nat) (os : Option Nat) :
    SrcAct.ParameterisedActionSpace._get_exploit_def sc svc os = (exploitFor sc svc os).map toKwE := by
  unfold SrcAct.ParameterisedActionSpace._get_exploit_def
  dsimp only
  rw [get_def_look2, Src_exploit_map, foldl_mapStep]
  simp only [look2, List.lookup_nil, Option.bind_none, exploitFor]
  congr 2
  funext e
  rw [show (svc == e.svc) = (e.svc == svc) from BEq.comm, show (os == e.os) = (e.os == os) from BEq.comm]

theorem Src_get_privesc_def (sc : Scenario) (proc : Nat) (os : Option Nat) :
    SrcAct.ParameterisedActionSpace._get_privesc_def sc (some proc) os = (privescFor sc proc os).map toKwP := by
  unfold SrcAct.ParameterisedActionSpace._get_privesc_def
  dsimp only
  rw [get_def_look2, Src_privesc_map, foldl_mapStep]
  simp only [look2, List.lookup_nil, Option.bind_none, privescFor]
  congr 2
  funext p
  rw [show (some proc == p.proc) = (p.proc == some proc) from BEq.comm, show (os == p.os) = (p.os == os) from BEq.comm]

theorem construct_exploit (t : Addr) (e : ExploitDef) : SrcAct.construct .exploit t (toKwE e) = exploitAction t e := rfl
theorem construct_privesc (t : Addr) (p : PrivescDef) : SrcAct.construct .privesc t (toKwP p) = privescAction t p := rfl

/-- `ParameterisedActionSpace.get_action` on a vector below `nvec`: the documented decoding -/
theorem Src_param_get_action (sc : Scenario) (v : List Nat) (h0 : v.getD 0 0 < 6)
    (h1 : v.getD 1 0 + 1 < sc.subnets.length) :
    SrcAct.ParameterisedActionSpace.get_action sc v = decodeParam sc v := by
  have hsub : PyRt.natAt sc.subnets (v.getD 1 0 + 1) = sc.subnets.getD (v.getD 1 0 + 1) 1 := by
    unfold PyRt.natAt
    generalize v.getD 1 0 + 1 = j at h1
    simp [List.getD_eq_getElem?_getD, List.getElem?_eq_getElem h1]
  unfold SrcAct.ParameterisedActionSpace.get_action decodeParam
  simp only [PyRt.natAt] at hsub ⊢
  rw [hsub]
  have hc : v.getD 0 0 = 0 ∨ v.getD 0 0 = 1 ∨ v.getD 0 0 = 2 ∨ v.getD 0 0 = 3 ∨ v.getD 0 0 = 4 ∨ v.getD 0 0 = 5 := by omega
  rcases hc with hc | hc | hc | hc | hc | hc
  · simp only [hc, SrcAct.ParameterisedActionSpace.action_types, List.getD_cons_zero]
    simp only [List.contains_cons, beq_self_eq_true, Bool.true_or, Bool.not_true, Bool.false_eq_true, if_false, if_true,
      Src_get_exploit_def]
    generalize hx : exploitFor sc _ _ = x
    cases x with
    | none =>
      simp only [List.getD_eq_getElem?_getD, beq_iff_eq] at hx ⊢
      simp [(Src_constructors (0, 0) 0 default default).2.2.2.2.2.2, hx]
    | some e =>
      simp only [List.getD_eq_getElem?_getD, beq_iff_eq] at hx ⊢
      simp [construct_exploit, hx]
  · simp only [hc, SrcAct.ParameterisedActionSpace.action_types, List.getD_cons_succ, List.getD_cons_zero]
    have hne : (Kind.privesc == Kind.exploit) = false := rfl
    simp only [List.contains_cons, beq_self_eq_true, Bool.true_or, Bool.or_true, Bool.not_true, Bool.false_eq_true, if_false,
      hne, Src_get_privesc_def]
    generalize hx : privescFor sc _ _ = x
    cases x with
    | none =>
      simp only [List.getD_eq_getElem?_getD, beq_iff_eq] at hx ⊢
      simp [(Src_constructors (0, 0) 0 default default).2.2.2.2.2.2, hx]
    | some p =>
      simp only [List.getD_eq_getElem?_getD, beq_iff_eq] at hx ⊢
      simp [construct_privesc, hx]
  all_goals (
    simp only [hc, SrcAct.ParameterisedActionSpace.action_types, List.getD_cons_succ, List.getD_cons_zero]
    rfl)

/-- an index loop that sets the marked positions of a zero vector to one -/
theorem forEach_mask (c : Nat → Bool) (k m : Nat) (pre : List Int) (hpre : pre.length = k) :
    PyRt.forEach (β := Empty) (List.range' k m) (pre ++ zeros m)
      (fun i mask => .next (if c i = true then mask.set i 1 else mask)) =
    .next (pre ++ (List.range' k m).map (fun i => bi (c i))) := by
  induction m generalizing k pre with
  | zero => simp [PyRt.forEach, zeros]
  | succ m ih =>
    simp only [List.range'_succ, PyRt.forEach, List.map_cons]
    have hz : zeros (m + 1) = 0 :: zeros m := by simp [zeros, List.replicate_succ]
    have hstep : (if c k = true then (pre ++ zeros (m + 1)).set k 1 else pre ++ zeros (m + 1)) = (pre ++ [bi (c k)]) ++ zeros m := by
      rw [hz]
      cases c k
      · simp [bi]
      · simp only [if_true, bi]
        rw [List.set_append_right _ _ (by omega)]
        simp [hpre]
    rw [hstep, ih (k + 1) (pre ++ [bi (c k)]) (by simp [hpre])]
    simp

/-- `NASimEnv.get_action_mask`: one entry per flat action, set exactly for the actions whose target is discovered -/
theorem Src_action_mask (e : Env) : SrcAct.NASimEnv.get_action_mask e = (actionMask e.sc e.cur).map bi := by
  unfold SrcAct.NASimEnv.get_action_mask actionMask
  simp only [Src_load_action_list, Src_flat_get_action, Src.State.host_discovered, PyRt.getHost]
  have hb : (fun (a_idx : Nat) (mask : List Int) =>
      (PyRt.Ctl.next (if (e.cur.get ((flatActions e.sc).getD a_idx default).target).disc = true then mask.set a_idx 1 else mask)
        : PyRt.Ctl Empty (List Int))) =
      (fun i mask => .next (if (fun i => (e.cur.get ((flatActions e.sc).getD i default).target).disc) i = true then mask.set i 1 else mask)) := rfl
  have := forEach_mask (fun i => (e.cur.get ((flatActions e.sc).getD i default).target).disc) 0 (flatActions e.sc).length [] rfl
  simp only [List.nil_append, ← List.range_eq_range'] at this
  rw [show PyRt.zeros1 (flatActions e.sc).length = zeros (flatActions e.sc).length from rfl]
  simp only [this]
  apply List.ext_getElem
  · simp
  · intro i h1 h2
    simp only [List.getElem_map, List.getElem_range]
    have hi : i < (flatActions e.sc).length := by simpa using h1
    simp [List.getD_eq_getElem?_getD, List.getElem?_eq_getElem hi]

end NASim
