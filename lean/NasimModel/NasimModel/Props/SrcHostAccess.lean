import NasimModel.Props.SrcBase
/-!
# Source tie: `HostVector.perform_action`, the part C01 / C04 rest on

Next host row (compromised flag, access level, every configuration column) and the success flag,
as the repository's source computes them, equal the model's — proved from the translated source
directly, independently of the value and of the information payload (`SrcHostValue`, `SrcHost`).
-/
open NASim
namespace NASim

theorem Src_host_row_and_success (r : Row) (a : Action) :
    (Src.HostVector.perform_action r a).1 = (hostPerform r a).1 ∧
    (Src.HostVector.perform_action r a).2.success = (hostPerform r a).2.success ∧
    (Src.HostVector.perform_action r a).2.permErr = (hostPerform r a).2.permErr := by
  unfold Src.HostVector.perform_action hostPerform
  simp only [Src.Action.is_service_scan, Src.Action.is_os_scan, Src.Action.is_exploit, Src.Action.is_process_scan,
    Src.Action.is_privilege_escalation, isNone_or_runningOs, isNone_or_runningProc, PyRt.isRunningSvc,
    exploitApplies, privescApplies, onHostOk, raiseAccess, gain]
  cases hk : a.kind <;> simp <;> (repeat' split) <;> simp_all <;> (cases r; simp_all)

end NASim
