import NasimModel.Generated.SrcLoad
import NasimModel.Proofs.SrcTie
import NasimModel.Props.C18
/-!
# Source tie: the simple validators of the scenario loader

`_validate_subnets`, `_validate_topology`, `_validate_os / _services / _processes`, `_is_valid_subnet_ID`,
`_is_valid_host_address`, `_validate_scan_cost` and the step-limit test of `nasim/scenarios/loader.py`, translated
from their source text over the YAML AST (`Generated/SrcLoad.lean`), accept exactly what the model's `subnetsOk`,
`topologyOk`, `namesOk`, `validSubnetId`, `validHostAddr`, `scanCostOk`, `stepLimitOf` accept — so the C18 theorems
about these rules (`C18_subnets`, `C18_topology`, `C18_names`, `C18_scan_cost`, `C18_step_limit`, the address tests
inside `C18_sensitive`) are theorems about the translated source.
-/
open NASim NASim.Load
namespace NASim

theorem forEach_allB {α : Type} (l : List α) (p : α → Bool) (body : α → Unit → PyRt.Ctl Bool Unit)
    (h : ∀ x ∈ l, body x () = if !p x then .ret false else .next ()) :
    (match PyRt.forEach l () body with | .ret v => v | .next _ => true) = l.all p := by
  rw [forEach_all' l body p h]
  cases l.all p <;> rfl

/-- `_validate_subnets` -/
theorem Src_validate_subnets (l : List Y) : SrcLoad.ScenarioLoader._validate_subnets l = subnetsOk l := by
  unfold SrcLoad.ScenarioLoader._validate_subnets subnetsOk
  cases l with
  | nil => rfl
  | cons x xs =>
    have hlen : decide ((x :: xs).length > 0) = true := by simp
    simp only [hlen, Bool.not_true, Bool.false_eq_true, if_false, List.isEmpty_cons, Bool.true_and]
    apply forEach_allB
    intro y _
    cases y with
    | int i =>
      by_cases hi : 0 < i
      · have : (0 : Rat) < (i : Rat) := Rat.intCast_pos.mpr hi
        simp [Y.exactInt?, PyRt.ygt, Y.toRat?, hi, this]
      · have : ¬ (0 : Rat) < (i : Rat) := fun h => hi (Rat.intCast_pos.mp h)
        simp [Y.exactInt?, PyRt.ygt, Y.toRat?, hi, this]
    | _ => simp [Y.exactInt?]

/-- `_validate_topology` -/
theorem Src_validate_topology (subnets : List Nat) (rows : List Y) :
    SrcLoad.ScenarioLoader._validate_topology subnets rows = topologyOk rows subnets.length := by
  unfold SrcLoad.ScenarioLoader._validate_topology topologyOk
  by_cases hl : rows.length = subnets.length
  · simp only [hl, beq_self_eq_true, Bool.not_true, Bool.false_eq_true, if_false, Bool.true_and]
    apply forEach_allB
    intro r _
    cases r with
    | list cols =>
      simp only [Y.isList, Bool.not_true, Bool.false_eq_true, if_false, listOf]
      by_cases hc : cols.length = subnets.length
      · simp only [hc, beq_self_eq_true, Bool.not_true, Bool.false_eq_true, if_false, Bool.true_and]
        rw [forEach_all' cols _ (fun c => match c.intLike? with | some i => i == 1 || i == 0 | none => false)
          (by
            intro c _
            cases c with
            | bool b => cases b <;> simp [Y.intLike?, PyRt.yeq, Y.pyEq, Y.toRat?] <;> decide
            | int i =>
              have e1 : ((i : Rat) = 1) ↔ i = 1 := by
                rw [show (1 : Rat) = ((1 : Int) : Rat) from rfl, Rat.intCast_inj]
              have e0 : ((i : Rat) = 0) ↔ i = 0 := Rat.intCast_eq_zero_iff
              by_cases h1 : i = 1 <;> by_cases h0 : i = 0 <;> simp [Y.intLike?, PyRt.yeq, Y.pyEq, Y.toRat?, h1, h0, e1, e0]
            | _ => simp [Y.intLike?])]
        cases (cols.all fun c => match c.intLike? with | some i => i == 1 || i == 0 | none => false) <;> rfl
      · have : (cols.length == subnets.length) = false := by simpa using hc
        simp [this]
    | _ => simp [Y.isList]
  · have : (rows.length == subnets.length) = false := by simpa using hl
    simp [this]

theorem pyEq_symm (a b : Y) : a.pyEq b = b.pyEq a := by
  unfold Y.pyEq
  cases ha : a.toRat? <;> cases hb : b.toRat? <;> simp
  · cases a <;> cases b <;> simp_all [Y.toRat?]
    exact Bool.beq_comm ..
  · exact Bool.beq_comm ..

theorem dedup_length_le (l : List Y) : (PyRt.dedupY l).length ≤ l.length := by
  induction l with
  | nil => simp [PyRt.dedupY]
  | cons x xs ih =>
    simp only [PyRt.dedupY, List.length_cons]
    have := List.length_filter_le (fun y => !(x.pyEq y)) (PyRt.dedupY xs)
    omega

theorem mem_dedup (l : List Y) (y : Y) (h : y ∈ PyRt.dedupY l) : y ∈ l := by
  induction l with
  | nil => simp [PyRt.dedupY] at h
  | cons x xs ih =>
    simp only [PyRt.dedupY, List.mem_cons, List.mem_filter] at h ⊢
    rcases h with h | h
    · exact Or.inl h
    · exact Or.inr (ih h.1)

/-- the distinct elements are as many as the elements exactly when no two are equal -/
theorem dedup_length_eq (l : List Y) : ((PyRt.dedupY l).length == l.length) = noDupY l := by
  induction l with
  | nil => rfl
  | cons x xs ih =>
    simp only [PyRt.dedupY, List.length_cons, noDupY]
    by_cases hin : pyIn x xs = true
    · -- x occurs again: the filter removes something or the tail already lost something
      simp only [hin, Bool.not_true, Bool.false_and]
      have hle := dedup_length_le xs
      have hf := List.length_filter_le (fun y => !(x.pyEq y)) (PyRt.dedupY xs)
      suffices hlt : (List.filter (fun y => !(x.pyEq y)) (PyRt.dedupY xs)).length < xs.length by
        simp; omega
      by_cases hd : (PyRt.dedupY xs).length = xs.length
      · -- then x's twin survives in dedupY xs and is filtered out
        have hnd : noDupY xs = true := by rw [← ih]; simp [hd]
        obtain ⟨y, hy, hxy⟩ := List.any_eq_true.mp hin
        have hy' : ∃ z ∈ PyRt.dedupY xs, x.pyEq z = true := by
          clear ih hin hle hf hd
          induction xs with
          | nil => cases hy
          | cons a as iha =>
            simp only [noDupY, Bool.and_eq_true, Bool.not_eq_true'] at hnd
            simp only [PyRt.dedupY]
            rcases List.mem_cons.mp hy with rfl | hy2
            · exact ⟨y, List.mem_cons_self .., hxy⟩
            · obtain ⟨z, hz, hxz⟩ := iha hnd.2 hy2
              by_cases haz : a.pyEq z = true
              · refine ⟨a, List.mem_cons_self .., ?_⟩
                -- a == z and x == z: need x == a; use that z ∈ as and a ∉ as up to ==
                have : pyIn a as = true := List.any_eq_true.mpr ⟨z, mem_dedup as z hz, haz⟩
                rw [hnd.1] at this; cases this
              · refine ⟨z, ?_, hxz⟩
                simp only [List.mem_cons, List.mem_filter]
                right; exact ⟨hz, by simpa using haz⟩
        obtain ⟨z, hz, hxz⟩ := hy'
        have : (List.filter (fun y => !(x.pyEq y)) (PyRt.dedupY xs)).length < (PyRt.dedupY xs).length := by
          apply List.length_filter_lt_length_iff_exists.mpr
          exact ⟨z, hz, by simp [hxz]⟩
        omega
      · omega
    · simp only [Bool.not_eq_true] at hin
      simp only [hin, Bool.not_false, Bool.true_and]
      have hall : ∀ y ∈ PyRt.dedupY xs, (!(x.pyEq y)) = true := by
        intro y hy
        have := List.any_eq_false.mp hin y (mem_dedup xs y hy)
        simpa using this
      rw [List.filter_eq_self.mpr hall, ← ih]
      simp

/-- `_validate_os`, `_validate_services`, `_validate_processes` -/
theorem Src_validate_names (l : List Y) :
    SrcLoad.ScenarioLoader._validate_os l = namesOk l ∧
    SrcLoad.ScenarioLoader._validate_services l = namesOk l ∧
    SrcLoad.ScenarioLoader._validate_processes l = namesOk l := by
  have key : (if (!decide (l.length > 0)) = true then false
      else if (!(some l.length == PyRt.setLen l)) = true then false else true) = namesOk l := by
    unfold namesOk PyRt.setLen
    cases l with
    | nil => rfl
    | cons x xs =>
      have hlen : decide ((x :: xs).length > 0) = true := by simp
      simp only [hlen, Bool.not_true, Bool.false_eq_true, if_false, List.isEmpty_cons, Bool.true_and]
      by_cases hs : (x :: xs).all Y.isScalar = true
      · simp only [hs, if_true, Bool.true_and]
        rw [← dedup_length_eq]
        cases h : ((PyRt.dedupY (x :: xs)).length == (x :: xs).length)
        · have : ¬ (PyRt.dedupY (x :: xs)).length = (x :: xs).length := by simpa using h
          have h2 : (some (x :: xs).length == some (PyRt.dedupY (x :: xs)).length) = false := by
            simp only [Option.some_beq_some, beq_eq_false_iff_ne, ne_eq]
            exact fun e => this e.symm
          rw [h2]; rfl
        · have : (PyRt.dedupY (x :: xs)).length = (x :: xs).length := by simpa using h
          simp [this]
      · simp only [Bool.not_eq_true] at hs
        simp [hs]
  refine ⟨?_, ?_, ?_⟩
  · exact key
  · exact key
  · unfold SrcLoad.ScenarioLoader._validate_processes
    rw [← key]
    cases l <;> simp

/-- `_is_valid_subnet_ID` on an integer, and its refusal of everything that is not of type `int` -/
theorem Src_valid_subnet_id (subnets : List Nat) (y : Y) :
    SrcLoad.ScenarioLoader._is_valid_subnet_ID subnets y =
      match y.exactInt? with
      | some s => validSubnetId subnets s
      | none => false := by
  unfold SrcLoad.ScenarioLoader._is_valid_subnet_ID validSubnetId
  cases y with
  | int i => ?_
  | _ => simp [Y.exactInt?]
  simp only [Y.exactInt?, PyRt.ylt, PyRt.ygt, Y.toRat?]
  have e1 : ((i : Rat) < 1) ↔ i < 1 := by
    rw [show (1 : Rat) = ((1 : Int) : Rat) from rfl, Rat.intCast_lt_intCast]
  have e2 : (((subnets.length : Int) : Rat) < (i : Rat)) ↔ (subnets.length : Int) < i := Rat.intCast_lt_intCast
  by_cases h1 : 1 ≤ i <;> by_cases h2 : i ≤ (subnets.length : Int) <;> simp [h1, h2, e1, e2] <;> omega

/-- `_validate_scan_cost` and the step-limit test -/
theorem Src_scan_cost_and_step_limit (y : Y) :
    SrcLoad.ScenarioLoader._validate_scan_cost () y = scanCostOk y ∧
    (∀ i, y.intLike? = some i → SrcLoad.ScenarioLoader.step_limit_ok y = decide (0 < i)) := by
  constructor
  · unfold SrcLoad.ScenarioLoader._validate_scan_cost scanCostOk PyRt.yge
    cases y.toRat? <;> simp
  · intro i hi
    unfold SrcLoad.ScenarioLoader.step_limit_ok PyRt.ygt
    cases y with
    | bool b => simp [Y.intLike?] at hi; subst hi; cases b <;> simp [Y.toRat?] <;> decide
    | int j =>
      simp [Y.intLike?] at hi; subst hi
      have : ((0 : Int) : Rat) < (j : Rat) ↔ 0 < j := Rat.intCast_lt_intCast
      simpa [Y.toRat?] using this
    | _ => simp [Y.intLike?] at hi

end NASim
