import NasimModel.Generated.SrcLoad
import NasimModel.Proofs.SrcTie
import NasimModel.Props.C18
/-!
# Source tie: the simple validators of the scenario loader

`_validate_subnets`, `_validate_topology`, `_validate_os / _services / _processes`, `_is_valid_subnet_ID`,
`_is_valid_host_address`, `_validate_scan_cost`, `_is_valid_firewall_setting`, `_contains_all_required_firewalls`,
`_validate_firewall`, `_validate_sensitive_hosts`, `_validate_single_exploit / _privesc`, `_validate_exploits /
_privescs`, `_has_all_host_addresses`, `_validate_host_address` and the step-limit test of `nasim/scenarios/loader.py`, translated
from their source text over the YAML AST (`Generated/SrcLoad.lean`), accept exactly what the model's `subnetsOk`,
`topologyOk`, `namesOk`, `validSubnetId`, `validHostAddr`, `scanCostOk`, `stepLimitOf` accept — so the C18 theorems
about these rules (`C18_subnets`, `C18_topology`, `C18_names`, `C18_scan_cost`, `C18_step_limit`, the address tests
inside `C18_sensitive`) are theorems about the translated source.
-/
open NASim NASim.Load
namespace NASim

theorem forEach_allB {α : Type} (l : List α) (p : α → Bool) (body : α → Unit → PyRt.Ctl Bool Unit)
    (h : ∀ x ∈ l, body x () = if !p x then .ret false else .next ()) :
    (match PyRt.forEach l () body with | .ret v => v | .next _ => true) = l.all p := by
  rw [forEach_all' l body p h]
  cases l.all p <;> rfl

/-- `_validate_subnets` -/
theorem Src_validate_subnets (l : List Y) : SrcLoad.ScenarioLoader._validate_subnets l = subnetsOk l := by
  unfold SrcLoad.ScenarioLoader._validate_subnets subnetsOk
  cases l with
  | nil => rfl
  | cons x xs =>
    have hlen : decide ((x :: xs).length > 0) = true := by simp
    simp only [hlen, Bool.not_true, Bool.false_eq_true, if_false, List.isEmpty_cons, Bool.true_and]
    apply forEach_allB
    intro y _
    cases y with
    | int i =>
      by_cases hi : 0 < i
      · have : (0 : Rat) < (i : Rat) := Rat.intCast_pos.mpr hi
        simp [Y.exactInt?, PyRt.ygt, Y.toRat?, hi, this]
      · have : ¬ (0 : Rat) < (i : Rat) := fun h => hi (Rat.intCast_pos.mp h)
        simp [Y.exactInt?, PyRt.ygt, Y.toRat?, hi, this]
    | _ => simp [Y.exactInt?]

/-- `_validate_topology` -/
theorem Src_validate_topology (subnets : List Nat) (rows : List Y) :
    SrcLoad.ScenarioLoader._validate_topology subnets rows = topologyOk rows subnets.length := by
  unfold SrcLoad.ScenarioLoader._validate_topology topologyOk
  by_cases hl : rows.length = subnets.length
  · simp only [hl, beq_self_eq_true, Bool.not_true, Bool.false_eq_true, if_false, Bool.true_and]
    apply forEach_allB
    intro r _
    cases r with
    | list cols =>
      simp only [Y.isList, Bool.not_true, Bool.false_eq_true, if_false, listOf]
      by_cases hc : cols.length = subnets.length
      · simp only [hc, beq_self_eq_true, Bool.not_true, Bool.false_eq_true, if_false, Bool.true_and]
        rw [forEach_all' cols _ (fun c => match c.intLike? with | some i => i == 1 || i == 0 | none => false)
          (by
            intro c _
            cases c with
            | bool b => cases b <;> simp [Y.intLike?, PyRt.yeq, Y.pyEq, Y.toRat?] <;> decide
            | int i =>
              have e1 : ((i : Rat) = 1) ↔ i = 1 := by
                rw [show (1 : Rat) = ((1 : Int) : Rat) from rfl, Rat.intCast_inj]
              have e0 : ((i : Rat) = 0) ↔ i = 0 := Rat.intCast_eq_zero_iff
              by_cases h1 : i = 1 <;> by_cases h0 : i = 0 <;> simp [Y.intLike?, PyRt.yeq, Y.pyEq, Y.toRat?, h1, h0, e1, e0]
            | _ => simp [Y.intLike?])]
        cases (cols.all fun c => match c.intLike? with | some i => i == 1 || i == 0 | none => false) <;> rfl
      · have : (cols.length == subnets.length) = false := by simpa using hc
        simp [this]
    | _ => simp [Y.isList]
  · have : (rows.length == subnets.length) = false := by simpa using hl
    simp [this]

theorem pyEq_symm (a b : Y) : a.pyEq b = b.pyEq a := by
  unfold Y.pyEq
  cases ha : a.toRat? <;> cases hb : b.toRat? <;> simp
  · cases a <;> cases b <;> simp_all [Y.toRat?]
    exact Bool.beq_comm ..
  · exact Bool.beq_comm ..

theorem dedup_length_le (l : List Y) : (PyRt.dedupY l).length ≤ l.length := by
  induction l with
  | nil => simp [PyRt.dedupY]
  | cons x xs ih =>
    simp only [PyRt.dedupY, List.length_cons]
    have := List.length_filter_le (fun y => !(x.pyEq y)) (PyRt.dedupY xs)
    omega

theorem mem_dedup (l : List Y) (y : Y) (h : y ∈ PyRt.dedupY l) : y ∈ l := by
  induction l with
  | nil => simp [PyRt.dedupY] at h
  | cons x xs ih =>
    simp only [PyRt.dedupY, List.mem_cons, List.mem_filter] at h ⊢
    rcases h with h | h
    · exact Or.inl h
    · exact Or.inr (ih h.1)

/-- the distinct elements are as many as the elements exactly when no two are equal -/
theorem dedup_length_eq (l : List Y) : ((PyRt.dedupY l).length == l.length) = noDupY l := by
  induction l with
  | nil => rfl
  | cons x xs ih =>
    simp only [PyRt.dedupY, List.length_cons, noDupY]
    by_cases hin : pyIn x xs = true
    · -- x occurs again: the filter removes something or the tail already lost something
      simp only [hin, Bool.not_true, Bool.false_and]
      have hle := dedup_length_le xs
      have hf := List.length_filter_le (fun y => !(x.pyEq y)) (PyRt.dedupY xs)
      suffices hlt : (List.filter (fun y => !(x.pyEq y)) (PyRt.dedupY xs)).length < xs.length by
        simp; omega
      by_cases hd : (PyRt.dedupY xs).length = xs.length
      · -- then x's twin survives in dedupY xs and is filtered out
        have hnd : noDupY xs = true := by rw [← ih]; simp [hd]
        obtain ⟨y, hy, hxy⟩ := List.any_eq_true.mp hin
        have hy' : ∃ z ∈ PyRt.dedupY xs, x.pyEq z = true := by
          clear ih hin hle hf hd
          induction xs with
          | nil => cases hy
          | cons a as iha =>
            simp only [noDupY, Bool.and_eq_true, Bool.not_eq_true'] at hnd
            simp only [PyRt.dedupY]
            rcases List.mem_cons.mp hy with rfl | hy2
            · exact ⟨y, List.mem_cons_self .., hxy⟩
            · obtain ⟨z, hz, hxz⟩ := iha hnd.2 hy2
              by_cases haz : a.pyEq z = true
              · refine ⟨a, List.mem_cons_self .., ?_⟩
                -- a == z and x == z: need x == a; use that z ∈ as and a ∉ as up to ==
                have : pyIn a as = true := List.any_eq_true.mpr ⟨z, mem_dedup as z hz, haz⟩
                rw [hnd.1] at this; cases this
              · refine ⟨z, ?_, hxz⟩
                simp only [List.mem_cons, List.mem_filter]
                right; exact ⟨hz, by simpa using haz⟩
        obtain ⟨z, hz, hxz⟩ := hy'
        have : (List.filter (fun y => !(x.pyEq y)) (PyRt.dedupY xs)).length < (PyRt.dedupY xs).length := by
          apply List.length_filter_lt_length_iff_exists.mpr
          exact ⟨z, hz, by simp [hxz]⟩
        omega
      · omega
    · simp only [Bool.not_eq_true] at hin
      simp only [hin, Bool.not_false, Bool.true_and]
      have hall : ∀ y ∈ PyRt.dedupY xs, (!(x.pyEq y)) = true := by
        intro y hy
        have := List.any_eq_false.mp hin y (mem_dedup xs y hy)
        simpa using this
      rw [List.filter_eq_self.mpr hall, ← ih]
      simp

/-- `_validate_os`, `_validate_services`, `_validate_processes` -/
theorem Src_validate_names (l : List Y) :
    SrcLoad.ScenarioLoader._validate_os l = namesOk l ∧
    SrcLoad.ScenarioLoader._validate_services l = namesOk l ∧
    SrcLoad.ScenarioLoader._validate_processes l = namesOk l := by
  have key : (if (!decide (l.length > 0)) = true then false
      else if (!(some l.length == PyRt.setLen l)) = true then false else true) = namesOk l := by
    unfold namesOk PyRt.setLen
    cases l with
    | nil => rfl
    | cons x xs =>
      have hlen : decide ((x :: xs).length > 0) = true := by simp
      simp only [hlen, Bool.not_true, Bool.false_eq_true, if_false, List.isEmpty_cons, Bool.true_and]
      by_cases hs : (x :: xs).all Y.isScalar = true
      · simp only [hs, if_true, Bool.true_and]
        rw [← dedup_length_eq]
        cases h : ((PyRt.dedupY (x :: xs)).length == (x :: xs).length)
        · have : ¬ (PyRt.dedupY (x :: xs)).length = (x :: xs).length := by simpa using h
          have h2 : (some (x :: xs).length == some (PyRt.dedupY (x :: xs)).length) = false := by
            simp only [Option.some_beq_some, beq_eq_false_iff_ne, ne_eq]
            exact fun e => this e.symm
          rw [h2]; rfl
        · have : (PyRt.dedupY (x :: xs)).length = (x :: xs).length := by simpa using h
          simp [this]
      · simp only [Bool.not_eq_true] at hs
        simp [hs]
  refine ⟨?_, ?_, ?_⟩
  · exact key
  · exact key
  · unfold SrcLoad.ScenarioLoader._validate_processes
    rw [← key]
    cases l <;> simp

/-- `_is_valid_subnet_ID` on an integer, and its refusal of everything that is not of type `int` -/
theorem Src_valid_subnet_id (subnets : List Nat) (y : Y) :
    SrcLoad.ScenarioLoader._is_valid_subnet_ID subnets y =
      match y.exactInt? with
      | some s => validSubnetId subnets s
      | none => false := by
  unfold SrcLoad.ScenarioLoader._is_valid_subnet_ID validSubnetId
  cases y with
  | int i => ?_
  | _ => simp [Y.exactInt?]
  simp only [Y.exactInt?, PyRt.ylt, PyRt.ygt, Y.toRat?]
  have e1 : ((i : Rat) < 1) ↔ i < 1 := by
    rw [show (1 : Rat) = ((1 : Int) : Rat) from rfl, Rat.intCast_lt_intCast]
  have e2 : (((subnets.length : Int) : Rat) < (i : Rat)) ↔ (subnets.length : Int) < i := Rat.intCast_lt_intCast
  by_cases h1 : 1 ≤ i <;> by_cases h2 : i ≤ (subnets.length : Int) <;> simp [h1, h2, e1, e2] <;> omega

/-- `_validate_scan_cost` and the step-limit test -/
theorem Src_scan_cost_and_step_limit (y : Y) :
    SrcLoad.ScenarioLoader._validate_scan_cost () y = scanCostOk y ∧
    (∀ i, y.intLike? = some i → SrcLoad.ScenarioLoader.step_limit_ok y = decide (0 < i)) := by
  constructor
  · unfold SrcLoad.ScenarioLoader._validate_scan_cost scanCostOk PyRt.yge
    cases y.toRat? <;> simp
  · intro i hi
    unfold SrcLoad.ScenarioLoader.step_limit_ok PyRt.ygt
    cases y with
    | bool b => simp [Y.intLike?] at hi; subst hi; cases b <;> simp [Y.toRat?] <;> decide
    | int j =>
      simp [Y.intLike?] at hi; subst hi
      have : ((0 : Int) : Rat) < (j : Rat) ↔ 0 < j := Rat.intCast_lt_intCast
      simpa [Y.toRat?] using this
    | _ => simp [Y.intLike?] at hi

/-- `_is_valid_host_address` on integers, and its refusal of everything that is not of type `int` -/
theorem Src_valid_host_address (subnets : List Nat) (ys yh : Y) :
    SrcLoad.ScenarioLoader._is_valid_host_address subnets ys yh =
      match ys.exactInt?, yh.exactInt? with
      | some s, some h => validHostAddr subnets s h
      | _, _ => false := by
  unfold SrcLoad.ScenarioLoader._is_valid_host_address
  rw [Src_valid_subnet_id]
  cases ys with
  | int s =>
    simp only [Y.exactInt?]
    cases yh with
    | int h =>
      obtain ⟨n, hn⟩ : ∃ n, subnets.getD s.toNat 0 = n := ⟨_, rfl⟩
      have hz : s.toNat = subnets.length → n = 0 := by
        intro hs; rw [← hn, hs]; simp
      simp only [Y.exactInt?, validSubnetId, validHostAddr, PyRt.ylt, PyRt.yge, Y.toRat?, PyRt.yNat, Y.intLike?,
        Option.getD_some, Option.isSome_some, Bool.not_true, Bool.false_or, hn]
      have e1 : ((h : Rat) < ((0 : Int) : Rat)) ↔ h < 0 := Rat.intCast_lt_intCast
      have e3 : (((n : Int) : Rat) ≤ (h : Rat)) ↔ (n : Int) ≤ h := Rat.intCast_le_intCast
      have e4 : ((0 : Rat) ≤ (h : Rat)) ↔ 0 ≤ h := Rat.intCast_nonneg
      have e1' : ((h : Rat) < 0) ↔ h < 0 := by
        have := @Rat.intCast_lt_intCast h 0
        simpa using this
      by_cases h1 : 1 ≤ s
      · by_cases h2 : s ≤ (subnets.length : Int)
        · by_cases h3 : s < (subnets.length : Int)
          · by_cases h4 : 0 ≤ h <;> by_cases h5 : h < (n : Int) <;>
              simp [h1, h2, h3, h4, h5, e1, e1', e3] <;> omega
          · have hn0 : n = 0 := hz (by omega)
            subst hn0
            by_cases h4 : 0 ≤ h <;> simp [h1, h2, h3, h4, e1, e1', e3, e4] <;> omega
        · have h3 : ¬ s < (subnets.length : Int) := by omega
          simp [h1, h2, h3]
      · simp [h1]
    | _ => simp [Y.exactInt?]
  | _ => simp [Y.exactInt?]





theorem any_or_split {α : Type} (l : List α) (p q : α → Bool) :
    l.any (fun x => p x || q x) = (l.any p || l.any q) := by
  induction l with
  | nil => rfl
  | cons x xs ih =>
    simp only [List.any_cons, ih]
    cases p x <;> cases q x <;> cases xs.any p <;> cases xs.any q <;> rfl

theorem any_snd_zip (k : Nat) (t : List Y) (f : Y → Bool) :
    ((List.range' k t.length).zip t).any (fun q => f q.2) = t.any f := by
  have : ((List.range' k t.length).zip t).map Prod.snd = t := by
    rw [List.map_snd_zip]; simp
  conv => rhs; rw [← this]
  rw [List.any_map]
  rfl



/-- only scalars compare equal to anything -/
theorem pyIn_scalar (s : Y) (l : List Y) (h : pyIn s l = true) : s.isScalar = true := by
  obtain ⟨y, _, hy⟩ := List.any_eq_true.mp h
  cases s with
  | list l' => cases y <;> simp [Y.pyEq, Y.toRat?] at hy
  | map m' => cases y <;> simp [Y.pyEq, Y.toRat?] at hy
  | _ => rfl

/-- some pair of different positions holds equal elements -/
def dupPair (k : Nat) (l : List Y) : Bool :=
  ((List.range' k l.length).zip l).any fun p => ((List.range' k l.length).zip l).any fun q => p.1 != q.1 && p.2.pyEq q.2

theorem rangeZip_ge (k n : Nat) (l : List Y) (p : Nat × Y) (h : p ∈ (List.range' (k + 1) n).zip l) : p.1 ≠ k := by
  have := (List.of_mem_zip h).1
  rw [List.mem_range'_1] at this
  omega

theorem dupPair_eq (k : Nat) (l : List Y) : dupPair k l = !noDupY l := by
  induction l generalizing k with
  | nil => rfl
  | cons a t ih =>
    unfold dupPair
    simp only [List.length_cons, List.range'_succ, List.zip_cons_cons, List.any_cons, noDupY, bne_self_eq_false,
      Bool.false_and, Bool.false_or]
    have hrest : ∀ p ∈ (List.range' (k + 1) t.length).zip t, (k != p.1) = true := by
      intro p hp
      have := rangeZip_ge k t.length t p hp
      simp [bne_iff_ne, Ne.symm this]
    have hrest' : ∀ p ∈ (List.range' (k + 1) t.length).zip t, (p.1 != k) = true := by
      intro p hp
      have := rangeZip_ge k t.length t p hp
      simp [bne_iff_ne, this]
    have h1 : ((List.range' (k + 1) t.length).zip t).any (fun q => k != q.1 && a.pyEq q.2) = pyIn a t := by
      rw [any_congr_mem _ _ (fun q => a.pyEq q.2) (fun q hq => by simp [hrest q hq])]
      exact any_snd_zip (k + 1) t (fun y => a.pyEq y)
    have h2 : ((List.range' (k + 1) t.length).zip t).any (fun p =>
        (p.1 != k && p.2.pyEq a) || ((List.range' (k + 1) t.length).zip t).any fun q => p.1 != q.1 && p.2.pyEq q.2) =
        (pyIn a t || dupPair (k + 1) t) := by
      rw [any_congr_mem _ _ (fun p => p.2.pyEq a || ((List.range' (k + 1) t.length).zip t).any fun q => p.1 != q.1 && p.2.pyEq q.2)
        (fun p hp => by simp [hrest' p hp])]
      rw [any_or_split]
      congr 1
      rw [any_congr_mem _ _ (fun p => a.pyEq p.2) (fun p _ => pyEq_symm p.2 a)]
      exact any_snd_zip (k + 1) t (fun y => a.pyEq y)
    rw [h1, h2, ih (k + 1)]
    cases pyIn a t <;> cases noDupY t <;> rfl

/-- `_is_valid_firewall_setting`: a list of distinct known services -/
theorem Src_fw_setting (services : List Y) (f : Y) :
    SrcLoad.ScenarioLoader._is_valid_firewall_setting services f = fwSettingOk services f := by
  unfold SrcLoad.ScenarioLoader._is_valid_firewall_setting fwSettingOk
  cases f with
  | list l =>
    simp only [Y.isList, Bool.not_true, Bool.false_eq_true, if_false, listOf]
    have ha : l.all (fun s => s.isScalar && pyIn s services) = l.all (fun s => pyIn s services) := by
      apply all_congr_mem
      intro s _
      cases h : pyIn s services
      · simp
      · simp [pyIn_scalar s services h]
    rw [ha, forEach_all' l _ (fun s => pyIn s services) (fun x _ => rfl)]
    cases hall : l.all (fun s => pyIn s services)
    · simp
    · simp only [if_true, Bool.true_and]
      have hin : ∀ (p : Nat × Y),
          (match PyRt.forEach (β := Bool) (PyRt.enumerate l) () (fun q _ =>
              if (p.1 != q.1 && p.2.pyEq q.2) = true then PyRt.Ctl.ret false else PyRt.Ctl.next ()) with
            | .ret v => (PyRt.Ctl.ret v : PyRt.Ctl Bool Unit)
            | .next _ => PyRt.Ctl.next ()) =
          if (PyRt.enumerate l).any (fun q => p.1 != q.1 && p.2.pyEq q.2) then .ret false else .next () := by
        intro p
        rw [forEach_find]
        cases (PyRt.enumerate l).any (fun q => p.1 != q.1 && p.2.pyEq q.2) <;> rfl
      show (match PyRt.forEach (β := Bool) (PyRt.enumerate l) () (fun p _ =>
          match PyRt.forEach (β := Bool) (PyRt.enumerate l) () (fun q _ =>
              if (p.1 != q.1 && p.2.pyEq q.2) = true then PyRt.Ctl.ret false else PyRt.Ctl.next ()) with
            | .ret v => (PyRt.Ctl.ret v : PyRt.Ctl Bool Unit)
            | .next _ => PyRt.Ctl.next ()) with
          | .ret v => v
          | .next _ => true) = noDupY l
      simp only [hin]
      rw [forEach_find]
      have hd := dupPair_eq 0 l
      unfold dupPair at hd
      unfold PyRt.enumerate
      rw [List.range_eq_range', hd]
      cases noDupY l <;> rfl
  | _ => simp [Y.isList]

theorem any_enum_zipIdx {α : Type} (l : List α) (k : Nat) (f : Nat → α → Bool) :
    ((List.range' k l.length).zip l).any (fun p => f p.1 p.2) = (l.zipIdx k).any (fun p => f p.2 p.1) := by
  induction l generalizing k with
  | nil => rfl
  | cons x xs ih =>
    simp only [List.length_cons, List.range'_succ, List.zip_cons_cons, List.any_cons, List.zipIdx_cons]
    rw [ih (k + 1)]

theorem all_not_any {α : Type} (l : List α) (p : α → Bool) : l.all p = !l.any (fun x => !p x) := by
  induction l with
  | nil => rfl
  | cons x xs ih => simp only [List.all_cons, List.any_cons, ih]; cases p x <;> simp

/-- `_contains_all_required_firewalls` -/
theorem Src_required_firewalls (topo : List (List Int)) (m : List (Y × Y)) :
    SrcLoad.ScenarioLoader._contains_all_required_firewalls topo m = hasRequiredFw topo m := by
  unfold SrcLoad.ScenarioLoader._contains_all_required_firewalls hasRequiredFw
  have hin : ∀ (src : Nat) (row : List Int),
      (match PyRt.forEach (β := Bool) (PyRt.enumerate row) () (fun q _ =>
          if (src == q.1) = true then PyRt.Ctl.next ()
          else if (q.2 == (1 : Int) && (!(getKey m (showPair src q.1)).isSome || !(getKey m (showPair q.1 src)).isSome)) = true
            then PyRt.Ctl.ret false else PyRt.Ctl.next ()) with
        | .ret v => (PyRt.Ctl.ret v : PyRt.Ctl Bool Unit)
        | .next _ => PyRt.Ctl.next ()) =
      if (PyRt.enumerate row).any (fun q => !(src == q.1) && (q.2 == (1 : Int) &&
          (!(getKey m (showPair src q.1)).isSome || !(getKey m (showPair q.1 src)).isSome))) then .ret false else .next () := by
    intro src row
    rw [← forEach_find]
    have : ∀ (l : List (Nat × Int)), PyRt.forEach (β := Bool) l () (fun q _ =>
          if (src == q.1) = true then PyRt.Ctl.next ()
          else if (q.2 == (1 : Int) && (!(getKey m (showPair src q.1)).isSome || !(getKey m (showPair q.1 src)).isSome)) = true
            then PyRt.Ctl.ret false else PyRt.Ctl.next ()) =
        PyRt.forEach (β := Bool) l () (fun q _ => if (!(src == q.1) && (q.2 == (1 : Int) &&
          (!(getKey m (showPair src q.1)).isSome || !(getKey m (showPair q.1 src)).isSome))) = true then .ret false else .next ()) := by
      intro l
      apply forEach_congr
      intro q _ t
      cases hs : (src == q.1) <;> simp
    rw [this]
    cases PyRt.forEach (β := Bool) (PyRt.enumerate row) () _ <;> rfl
  show (match PyRt.forEach (β := Bool) (PyRt.enumerate topo) () (fun p _ =>
      match PyRt.forEach (β := Bool) (PyRt.enumerate p.2) () (fun q _ =>
          if (p.1 == q.1) = true then PyRt.Ctl.next ()
          else if (q.2 == (1 : Int) && (!(getKey m (showPair p.1 q.1)).isSome || !(getKey m (showPair q.1 p.1)).isSome)) = true
            then PyRt.Ctl.ret false else PyRt.Ctl.next ()) with
        | .ret v => (PyRt.Ctl.ret v : PyRt.Ctl Bool Unit)
        | .next _ => PyRt.Ctl.next ()) with
      | .ret v => v
      | .next _ => true) = _
  simp only [hin]
  rw [forEach_find]
  unfold PyRt.enumerate
  simp only [List.range_eq_range']
  rw [any_enum_zipIdx topo 0 (fun src row => ((List.range' 0 row.length).zip row).any (fun q => !(src == q.1) && (q.2 == (1 : Int) &&
      (!(getKey m (showPair src q.1)).isSome || !(getKey m (showPair q.1 src)).isSome))))]
  rw [all_not_any]
  have : ∀ (b : Bool), (match (if b = true then (PyRt.Ctl.ret false : PyRt.Ctl Bool Unit) else PyRt.Ctl.next ()) with
      | .ret v => v | .next _ => true) = !b := by intro b; cases b <;> rfl
  rw [this]
  congr 1
  apply any_congr_mem
  intro p _
  rw [any_enum_zipIdx p.1 0 (fun dst col => !(p.2 == dst) && (col == (1 : Int) &&
      (!(getKey m (showPair p.2 dst)).isSome || !(getKey m (showPair dst p.2)).isSome)))]
  rw [all_not_any, Bool.not_not]
  apply any_congr_mem
  intro q _
  simp only [bne]
  generalize (p.2 == q.2) = a
  generalize (q.1 == (1 : Int)) = b
  generalize (getKey m (showPair p.2 q.2)).isSome = c
  generalize (getKey m (showPair q.2 p.2)).isSome = d
  cases a <;> cases b <;> cases c <;> cases d <;> rfl

/-- `_validate_firewall`: every required rule is there and every rule is a list of distinct known services -/
theorem Src_validate_firewall (topo : List (List Int)) (services : List Y) (m : List (Y × Y)) :
    SrcLoad.ScenarioLoader._validate_firewall topo services m =
      (hasRequiredFw topo m && m.all (fun kv => fwSettingOk services kv.2)) := by
  unfold SrcLoad.ScenarioLoader._validate_firewall
  rw [Src_required_firewalls]
  cases hasRequiredFw topo m
  · rfl
  · simp only [Bool.not_true, Bool.false_eq_true, if_false, Bool.true_and]
    rw [forEach_all' (m.map (·.2)) _ (fun f => fwSettingOk services f) (fun f _ => by rw [Src_fw_setting])]
    have e : (m.map (·.2)).all (fun f => fwSettingOk services f) = m.all (fun kv => fwSettingOk services kv.2) := by
      rw [List.all_map]; rfl
    rw [e]
    cases m.all (fun kv => fwSettingOk services kv.2) <;> rfl

/-- no two elements related by `e` -/
def noDupG {α : Type} (e : α → α → Bool) : List α → Bool
  | [] => true
  | x :: xs => !(xs.any (e x)) && noDupG e xs

def dupPairG {α : Type} (e : α → α → Bool) (k : Nat) (l : List α) : Bool :=
  ((List.range' k l.length).zip l).any fun p => ((List.range' k l.length).zip l).any fun q => p.1 != q.1 && e p.2 q.2

theorem any_snd_zipG {α : Type} (k : Nat) (t : List α) (f : α → Bool) :
    ((List.range' k t.length).zip t).any (fun q => f q.2) = t.any f := by
  have : ((List.range' k t.length).zip t).map Prod.snd = t := by
    rw [List.map_snd_zip]; simp
  conv => rhs; rw [← this]
  rw [List.any_map]
  rfl

theorem rangeZip_geG {α : Type} (k n : Nat) (l : List α) (p : Nat × α) (h : p ∈ (List.range' (k + 1) n).zip l) : p.1 ≠ k := by
  have := (List.of_mem_zip h).1
  rw [List.mem_range'_1] at this
  omega

theorem dupPairG_eq {α : Type} (e : α → α → Bool) (hsym : ∀ a b, e a b = e b a) (k : Nat) (l : List α) :
    dupPairG e k l = !noDupG e l := by
  induction l generalizing k with
  | nil => rfl
  | cons a t ih =>
    unfold dupPairG
    simp only [List.length_cons, List.range'_succ, List.zip_cons_cons, List.any_cons, noDupG, bne_self_eq_false,
      Bool.false_and, Bool.false_or]
    have hrest : ∀ p ∈ (List.range' (k + 1) t.length).zip t, (k != p.1) = true := by
      intro p hp
      have := rangeZip_geG k t.length t p hp
      simp [bne_iff_ne, Ne.symm this]
    have hrest' : ∀ p ∈ (List.range' (k + 1) t.length).zip t, (p.1 != k) = true := by
      intro p hp
      have := rangeZip_geG k t.length t p hp
      simp [bne_iff_ne, this]
    have h1 : ((List.range' (k + 1) t.length).zip t).any (fun q => k != q.1 && e a q.2) = t.any (e a) := by
      rw [any_congr_mem _ _ (fun q => e a q.2) (fun q hq => by simp [hrest q hq])]
      exact any_snd_zipG (k + 1) t (fun y => e a y)
    have h2 : ((List.range' (k + 1) t.length).zip t).any (fun p =>
        (p.1 != k && e p.2 a) || ((List.range' (k + 1) t.length).zip t).any fun q => p.1 != q.1 && e p.2 q.2) =
        (t.any (e a) || dupPairG e (k + 1) t) := by
      rw [any_congr_mem _ _ (fun p => e p.2 a || ((List.range' (k + 1) t.length).zip t).any fun q => p.1 != q.1 && e p.2 q.2)
        (fun p hp => by simp [hrest' p hp])]
      rw [any_or_split]
      congr 1
      rw [any_congr_mem _ _ (fun p => e a p.2) (fun p _ => hsym p.2 a)]
      exact any_snd_zipG (k + 1) t (fun y => e a y)
    rw [h1, h2, ih (k + 1)]
    cases t.any (e a) <;> cases noDupG e t <;> rfl

/-- one entry of the sensitive-hosts section as the first loop of `_validate_sensitive_hosts` tests it -/
def entryOkSrc (subnets : List Nat) (kv : Y × Y) : Bool :=
  match PyRt.evalAddr kv.1 with
  | none => false
  | some (a, b) => validHostAddr subnets a b && (match kv.2.toRat? with | some q => decide (0 < q) | none => false)

theorem entryOkSrc_eq (subnets : List Nat) (kv : Y × Y) : entryOkSrc subnets kv = sensEntryOk subnets kv := by
  obtain ⟨k, v⟩ := kv
  unfold entryOkSrc sensEntryOk PyRt.evalAddr
  cases k <;> simp
  rename_i s
  cases parsePair s <;> rfl

theorem value_test (v : Y) : (v.toRat?.isSome && PyRt.ygt v 0) = (match v.toRat? with | some q => decide (0 < q) | none => false) := by
  unfold PyRt.ygt
  cases v.toRat? <;> simp

theorem hostAddr_imp_subnet (subnets : List Nat) (a b : Int) (h : validHostAddr subnets a b = true) :
    validSubnetId subnets a = true := by
  unfold validHostAddr at h
  unfold validSubnetId
  simp only [Bool.and_eq_true, decide_eq_true_eq] at h ⊢
  omega

/-- the equivalence the duplicate test of `_validate_sensitive_hosts` uses: equal evaluated keys -/
def eK (k1 k2 : Y) : Bool := PyRt.evalAddr k1 == PyRt.evalAddr k2

theorem eK_symm (a b : Y) : eK a b = eK b a := by unfold eK; exact BEq.comm

theorem noDup_keys (subnets : List Nat) (m : List (Y × Y)) (hall : m.all (entryOkSrc subnets) = true) :
    noDupG eK (m.map (·.1)) = pairsNoDup (m.map sensAddr) := by
  induction m with
  | nil => rfl
  | cons kv t ih =>
    simp only [List.all_cons, Bool.and_eq_true] at hall
    simp only [List.map_cons, noDupG, pairsNoDup]
    rw [ih hall.2]
    congr 2
    -- membership of the head among the tail, by evaluated key resp. by address
    rw [List.any_map, List.contains_eq_any_beq, List.any_map]
    apply any_congr_mem
    intro kv' hkv'
    have h1 := hall.1
    have h2 := List.all_eq_true.mp hall.2 kv' hkv'
    unfold entryOkSrc at h1 h2
    unfold eK sensAddr
    simp only [Function.comp]
    obtain ⟨k, v⟩ := kv
    obtain ⟨k', v'⟩ := kv'
    cases k with
    | str s =>
      cases k' with
      | str s' =>
        simp only [PyRt.evalAddr] at h1 h2 ⊢
        cases hp : parsePair s with
        | none => simp [hp] at h1
        | some ab =>
          cases hp' : parsePair s' with
          | none => simp [hp'] at h2
          | some ab' =>
            obtain ⟨a, b⟩ := ab
            obtain ⟨a', b'⟩ := ab'
            simp only [hp, hp', Bool.and_eq_true] at h1 h2
            have v1 := h1.1
            have v2 := h2.1
            unfold validHostAddr at v1 v2
            simp only [Bool.and_eq_true, decide_eq_true_eq] at v1 v2
            rw [Bool.eq_iff_iff]
            simp only [beq_iff_eq, Option.some.injEq, Prod.mk.injEq]
            constructor
            · rintro ⟨rfl, rfl⟩; exact ⟨rfl, rfl⟩
            · rintro ⟨e1, e2⟩; constructor <;> omega
      | _ => simp [PyRt.evalAddr] at h2
    | _ => simp [PyRt.evalAddr] at h1

theorem enum_mem {α : Type} (l : List α) (p : Nat × α) (h : p ∈ PyRt.enumerate l) : p.2 ∈ l := by
  unfold PyRt.enumerate at h
  exact (List.of_mem_zip h).2

/-- `_validate_sensitive_hosts`: at least one and at most `num_hosts` entries, every key a valid host address with a
positive value, no address twice -/
theorem Src_validate_sensitive (subnets : List Nat) (m : List (Y × Y)) :
    SrcLoad.ScenarioLoader._validate_sensitive_hosts subnets (subnets.foldl (· + ·) 0 - 1) m = sensitiveOk subnets m := by
  unfold SrcLoad.ScenarioLoader._validate_sensitive_hosts sensitiveOk
  have hentry : sensEntryOk subnets = entryOkSrc subnets := by funext kv; rw [entryOkSrc_eq]
  cases hm : m with
  | nil => rfl
  | cons kv0 t =>
    rw [← hm]
    have hlen0 : decide (m.length > 0) = true := by simp [hm]
    have hne : m.isEmpty = false := by simp [hm]
    simp only [hlen0, hne, Bool.not_true, Bool.false_eq_true, if_false, Bool.not_false, Bool.true_and]
    by_cases hl : m.length ≤ subnets.foldl (· + ·) 0 - 1
    · simp only [hl, decide_true, Bool.not_true, Bool.false_eq_true, if_false, Bool.true_and]
      -- first loop
      rw [forEach_all' m _ (entryOkSrc subnets) (by
        intro kv _
        obtain ⟨k, v⟩ := kv
        split
        · rename_i hk
          simp [entryOkSrc, hk]
        · rename_i a b hk
          simp only [entryOkSrc, hk, Src_valid_subnet_id, Src_valid_host_address, Y.exactInt?, value_test]
          by_cases hv : validHostAddr subnets a b = true
          · simp only [hv, hostAddr_imp_subnet subnets a b hv, Bool.not_true, Bool.false_eq_true, if_false, Bool.true_and]
          · simp only [Bool.not_eq_true] at hv
            simp only [hv, Bool.not_false, if_true, Bool.false_and]
            split <;> rfl)]
      rw [hentry]
      cases hall : m.all (entryOkSrc subnets)
      · rfl
      · simp only [if_true, Bool.true_and]
        have hkeys : ∀ k ∈ m.map (·.1), ∃ ab, PyRt.evalAddr k = some ab := by
          intro k hk
          obtain ⟨kv, hkv, rfl⟩ := List.mem_map.1 hk
          have := List.all_eq_true.mp hall kv hkv
          unfold entryOkSrc at this
          cases he : PyRt.evalAddr kv.1 with
          | none => simp [he] at this
          | some ab => exact ⟨ab, rfl⟩
        -- second loop
        rw [forEach_congr (PyRt.enumerate (m.map (·.1))) _
          (fun p _ => if (PyRt.enumerate (m.map (·.1))).any (fun q => p.1 != q.1 && eK p.2 q.2) then .ret false else .next ()) ()
          (by
            intro p hp u
            obtain ⟨i, k⟩ := p
            obtain ⟨h1, hk⟩ := hkeys k (enum_mem _ _ hp)
            simp only [hk]
            rw [forEach_congr (PyRt.enumerate (m.map (·.1))) _
              (fun q _ => if (i != q.1 && eK k q.2) = true then .ret false else .next ()) ()
              (by
                intro q hq u'
                obtain ⟨j, n⟩ := q
                obtain ⟨h2, hn⟩ := hkeys n (enum_mem _ _ hq)
                simp only [hn, eK, hk]
                by_cases hij : i = j
                · subst hij; simp
                · have : (i == j) = false := by simpa using hij
                  simp only [this, Bool.false_eq_true, if_false, bne, Bool.not_false, Bool.true_and]
                  by_cases he : h1 = h2
                  · subst he; simp
                  · have : (h1 == h2) = false := by simpa using he
                    simp [this, he])]
            rw [forEach_find]
            cases (PyRt.enumerate (m.map (·.1))).any (fun q => i != q.1 && eK k q.2) <;> rfl)]
        rw [forEach_find]
        have hd := dupPairG_eq eK eK_symm 0 (m.map (·.1))
        unfold dupPairG at hd
        unfold PyRt.enumerate
        rw [List.range_eq_range', hd, noDup_keys subnets m hall]
        cases pairsNoDup (m.map sensAddr) <;> rfl
    · simp [hl]


theorem str_pyEq (a b : String) : (Y.str a).pyEq (.str b) = (a == b) := by
  simp [Y.pyEq, Y.toRat?]

theorem pyEq_two_keys (y : Y) (k k' : String) (h1 : y.pyEq (.str k) = true) (h2 : y.pyEq (.str k') = true) : k = k' := by
  cases y <;> simp [Y.pyEq, Y.toRat?] at h1 h2
  rw [← h1, ← h2]

theorem getKey_set_same (m : List (Y × Y)) (k : String) (v : Y) :
    getKey (mapOf (PyRt.ymapSet (.map m) k v)) k = some v := by
  unfold PyRt.ymapSet getKey
  simp only [mapOf]
  by_cases hany : m.any (fun p => p.1.pyEq (.str k)) = true
  · simp only [hany, if_true]
    induction m with
    | nil => simp at hany
    | cons p t ih =>
      simp only [List.map_cons, List.find?_cons]
      by_cases hp : p.1.pyEq (.str k) = true
      · simp [hp]
      · simp only [Bool.not_eq_true] at hp
        simp only [hp, Bool.false_eq_true, if_false]
        apply ih
        simpa [List.any_cons, hp] using hany
  · simp only [hany, Bool.false_eq_true, if_false]
    simp only [Bool.not_eq_true] at hany
    rw [List.find?_append]
    have : m.find? (fun p => p.1.pyEq (.str k)) = none := by
      rw [List.find?_eq_none]
      intro p hp
      have := List.any_eq_false.mp hany p hp
      simpa using this
    simp [this, str_pyEq]

theorem getKey_set_other (m : List (Y × Y)) (k k' : String) (v : Y) (hne : k ≠ k') :
    getKey (mapOf (PyRt.ymapSet (.map m) k v)) k' = getKey m k' := by
  unfold PyRt.ymapSet getKey
  simp only [mapOf]
  by_cases hany : m.any (fun p => p.1.pyEq (.str k)) = true
  · simp only [hany, if_true]
    clear hany
    induction m with
    | nil => rfl
    | cons p t ih =>
      simp only [List.map_cons, List.find?_cons]
      by_cases hp : p.1.pyEq (.str k) = true
      · simp only [hp, if_true]
        by_cases hp' : p.1.pyEq (.str k') = true
        · exact absurd (pyEq_two_keys p.1 k k' hp hp') hne
        · simp only [Bool.not_eq_true] at hp'
          simp only [hp', Bool.false_eq_true, if_false]
          exact ih
      · simp only [Bool.not_eq_true] at hp
        simp only [hp, Bool.false_eq_true, if_false]
        by_cases hp' : p.1.pyEq (.str k') = true
        · simp [hp']
        · simp only [Bool.not_eq_true] at hp'
          simp only [hp', Bool.false_eq_true, if_false]
          exact ih
  · simp only [hany, Bool.false_eq_true, if_false]
    rw [List.find?_append]
    have hk : ((Y.str k).pyEq (.str k')) = false := by
      rw [str_pyEq]; simpa using hne
    cases m.find? (fun p => p.1.pyEq (.str k')) <;> simp [hk]



theorem L_os (osL : List Y) (osv : Y) :
    (osv.isStr && ((if PyRt.lowerIsNone osv = true then Y.null else osv).isNull ||
      pyIn (if PyRt.lowerIsNone osv = true then Y.null else osv) osL)) = (osField osL osv).isSome := by
  cases osv <;> simp [Y.isStr, osField, PyRt.lowerIsNone]
  rename_i s
  by_cases h : isNoneWord s = true
  · simp [h, Y.isNull]
  · simp only [Bool.not_eq_true] at h
    simp only [h, Bool.false_eq_true, if_false, Y.isNull, Bool.false_or]
    cases pyIn (Y.str s) osL <;> rfl

theorem L_acc (acc : Y) :
    ((acc.isStr || acc.intLike?.isSome) && pyIn acc SrcLoad.VALID_ACCESS_VALUES) = (accessOf acc).isSome := by
  unfold SrcLoad.VALID_ACCESS_VALUES pyIn accessOf
  cases acc with
  | str s =>
    simp only [Y.isStr, Bool.true_or, Bool.true_and, List.any_cons, List.any_nil, str_pyEq, Bool.or_false]
    have h1 : (Y.str s).pyEq (Y.int 1) = false := by simp [Y.pyEq, Y.toRat?]
    have h2 : (Y.str s).pyEq (Y.int 2) = false := by simp [Y.pyEq, Y.toRat?]
    simp only [h1, h2, Bool.or_false]
    by_cases hu : s = "user"
    · subst hu; rfl
    · by_cases hr : s = "root"
      · subst hr; rfl
      · have a1 : (s == "user") = false := by simpa using hu
        have a2 : (s == "root") = false := by simpa using hr
        simp [a1, a2]
  | int i =>
    simp only [Y.isStr, Y.intLike?, Option.isSome_some, Bool.or_true, Bool.true_and, List.any_cons, List.any_nil, Bool.or_false]
    have h1 : (Y.int i).pyEq (Y.str "user") = false := by simp [Y.pyEq, Y.toRat?]
    have h2 : (Y.int i).pyEq (Y.str "root") = false := by simp [Y.pyEq, Y.toRat?]
    have h3 : (Y.int i).pyEq (Y.int 1) = (i == 1) := by
      simp only [Y.pyEq, Y.toRat?]
      rw [Bool.eq_iff_iff]; simp only [beq_iff_eq]
      exact Rat.intCast_inj
    have h4 : (Y.int i).pyEq (Y.int 2) = (i == 2) := by
      simp only [Y.pyEq, Y.toRat?]
      rw [Bool.eq_iff_iff]; simp only [beq_iff_eq]
      exact Rat.intCast_inj
    simp only [h1, h2, h3, h4, Bool.false_or]
    by_cases a1 : i = 1
    · subst a1; rfl
    · by_cases a2 : i = 2
      · subst a2; rfl
      · have b1 : (i == 1) = false := by simpa using a1
        have b2 : (i == 2) = false := by simpa using a2
        simp [b1, b2, a1, a2]
  | bool b => cases b <;> simp [Y.isStr, Y.intLike?, Y.pyEq, Y.toRat?] <;> decide
  | num q => simp [Y.isStr, Y.intLike?]
  | null => simp [Y.isStr, Y.intLike?]
  | list l => simp [Y.isStr, Y.intLike?]
  | map m => simp [Y.isStr, Y.intLike?]

theorem L_prob (y : Y) : (y.toRat?.isSome && (PyRt.yge y 0 && PyRt.yle y 1)) =
    (match y.toRat? with | some q => decide (0 ≤ q) && decide (q ≤ 1) | none => false) := by
  unfold PyRt.yge PyRt.yle
  cases y.toRat? <;> simp

theorem L_cost (y : Y) : (y.toRat?.isSome && PyRt.ygt y 0) =
    (match y.toRat? with | some q => decide (0 < q) | none => false) := by
  unfold PyRt.ygt
  cases y.toRat? <;> simp

theorem ymapGet_map (m : List (Y × Y)) (k : String) : PyRt.ymapGet (.map m) k = (getKey m k).getD .null := rfl
theorem ymapHas_map (m : List (Y × Y)) (k : String) : PyRt.ymapHas (.map m) k = (getKey m k).isSome := rfl

theorem ymapGet_set_same (m : List (Y × Y)) (k : String) (v : Y) : PyRt.ymapGet (PyRt.ymapSet (.map m) k v) k = v := by
  unfold PyRt.ymapGet; rw [getKey_set_same]; rfl
theorem ymapGet_set_other (m : List (Y × Y)) (k k' : String) (v : Y) (h : k ≠ k') :
    PyRt.ymapGet (PyRt.ymapSet (.map m) k v) k' = PyRt.ymapGet (.map m) k' := by
  unfold PyRt.ymapGet; rw [getKey_set_other m k k' v h]; rfl

/-- `_validate_single_exploit` accepts exactly the definitions the model parses -/
theorem Src_validate_single_exploit (services osL : List Y) (name e : Y) :
    SrcLoad.ScenarioLoader._validate_single_exploit services osL name e = (parseExploit services osL name e).isSome := by
  unfold SrcLoad.ScenarioLoader._validate_single_exploit parseExploit
  cases e with
  | map m =>
    simp only [Y.isMap, Bool.not_true, Bool.false_eq_true, if_false, ymapHas_map]
    cases hs : getKey m "service" with
    | none => simp
    | some svc =>
      cases ho : getKey m "os" with
      | none => simp [ymapGet_map, hs]
      | some osv =>
        cases hp : getKey m "prob" with
        | none => simp [ymapGet_map, hs, ho]
        | some prob =>
          cases hc : getKey m "cost" with
          | none => simp [ymapGet_map, hs, ho, hp]
          | some cost =>
            cases ha : getKey m "access" with
            | none => simp [ymapGet_map, hs, ho, hp, hc]
            | some acc =>
              have g1 : PyRt.ymapGet (.map m) "service" = svc := by rw [ymapGet_map, hs]; rfl
              have g2 : PyRt.ymapGet (.map m) "os" = osv := by rw [ymapGet_map, ho]; rfl
              have g3 : PyRt.ymapGet (.map m) "prob" = prob := by rw [ymapGet_map, hp]; rfl
              have g4 : PyRt.ymapGet (.map m) "cost" = cost := by rw [ymapGet_map, hc]; rfl
              have g5 : PyRt.ymapGet (.map m) "access" = acc := by rw [ymapGet_map, ha]; rfl
              simp only [Option.isSome_some, Bool.not_true, Bool.false_eq_true, if_false, g1, g2, g3, g4, g5]
              -- the dictionary after the OS normalisation
              have e_os : PyRt.ymapGet (if PyRt.lowerIsNone osv = true then PyRt.ymapSet (.map m) "os" Y.null else .map m) "os" =
                  (if PyRt.lowerIsNone osv = true then Y.null else osv) := by
                split
                · exact ymapGet_set_same m "os" Y.null
                · exact g2
              have e_pr : PyRt.ymapGet (if PyRt.lowerIsNone osv = true then PyRt.ymapSet (.map m) "os" Y.null else .map m) "prob" = prob := by
                split
                · rw [ymapGet_set_other m "os" "prob" Y.null (by decide)]; exact g3
                · exact g3
              have e_co : PyRt.ymapGet (if PyRt.lowerIsNone osv = true then PyRt.ymapSet (.map m) "os" Y.null else .map m) "cost" = cost := by
                split
                · rw [ymapGet_set_other m "os" "cost" Y.null (by decide)]; exact g4
                · exact g4
              have e_ac : PyRt.ymapGet (if PyRt.lowerIsNone osv = true then PyRt.ymapSet (.map m) "os" Y.null else .map m) "access" = acc := by
                split
                · rw [ymapGet_set_other m "os" "access" Y.null (by decide)]; exact g5
                · exact g5
              simp only [e_os, e_pr, e_co, e_ac, ite_not_false]
              have hO := L_os osL osv
              have hA := L_acc acc
              have hP := L_prob prob
              have hC := L_cost cost
              cases h1 : svc.isStr
              · simp
              · simp only [Bool.true_and, Bool.not_true, Bool.false_eq_true, if_false]
                cases hos : osField osL osv with
                | none =>
                  rw [hos] at hO
                  simp only [Option.isSome_none] at hO
                  cases h2 : osv.isStr
                  · simp
                  · rw [h2] at hO
                    simp only [Bool.true_and] at hO
                    simp [hO]
                | some os' =>
                  rw [hos] at hO
                  simp only [Option.isSome_some, Bool.and_eq_true] at hO
                  simp only [hO.1, hO.2, Bool.true_and]
                  cases hpr : prob.toRat? with
                  | none => simp
                  | some p =>
                    rw [hpr] at hP
                    simp only [Option.isSome_some, Bool.true_and] at hP
                    cases hco : cost.toRat? with
                    | none => simp
                    | some c =>
                      rw [hco] at hC
                      simp only [Option.isSome_some, Bool.true_and] at hC
                      cases hac : accessOf acc with
                      | none =>
                        rw [hac] at hA
                        simp only [Option.isSome_none] at hA
                        simp only [Option.isSome_some, Bool.true_and]
                        cases h5 : (acc.isStr || acc.intLike?.isSome)
                        · simp
                        · rw [h5] at hA; simp only [Bool.true_and] at hA
                          simp [hA]
                      | some a =>
                        rw [hac] at hA
                        simp only [Option.isSome_some, Bool.and_eq_true] at hA
                        simp only [Option.isSome_some, Bool.true_and, hA.1, hA.2, hP, hC]
                        cases pyIn svc services <;> cases decide (0 ≤ p) <;> cases decide (p ≤ 1) <;> cases decide (0 < c) <;> rfl
  | _ => rfl

/-- `_validate_single_privesc` accepts exactly the definitions the model parses -/
theorem Src_validate_single_privesc (processes osL : List Y) (name e : Y) :
    SrcLoad.ScenarioLoader._validate_single_privesc processes osL name e = (parsePrivesc processes osL name e).isSome := by
  unfold SrcLoad.ScenarioLoader._validate_single_privesc parsePrivesc
  cases e with
  | map m =>
    simp only [Y.isMap, Bool.not_true, Bool.false_eq_true, if_false, ymapHas_map]
    cases hs : getKey m "process" with
    | none => simp
    | some proc =>
      cases ho : getKey m "os" with
      | none => simp [ymapGet_map, hs]
      | some osv =>
        cases hp : getKey m "prob" with
        | none => simp [ymapGet_map, hs, ho]
        | some prob =>
          cases hc : getKey m "cost" with
          | none => simp [ymapGet_map, hs, ho, hp]
          | some cost =>
            cases ha : getKey m "access" with
            | none => simp [ymapGet_map, hs, ho, hp, hc]
            | some acc =>
              have g1 : PyRt.ymapGet (.map m) "process" = proc := by rw [ymapGet_map, hs]; rfl
              have g2 : PyRt.ymapGet (.map m) "os" = osv := by rw [ymapGet_map, ho]; rfl
              have g3 : PyRt.ymapGet (.map m) "prob" = prob := by rw [ymapGet_map, hp]; rfl
              have g4 : PyRt.ymapGet (.map m) "cost" = cost := by rw [ymapGet_map, hc]; rfl
              have g5 : PyRt.ymapGet (.map m) "access" = acc := by rw [ymapGet_map, ha]; rfl
              simp only [Option.isSome_some, Bool.not_true, Bool.false_eq_true, if_false, g1, g2, g3, g4, g5]
              -- the dictionary after the OS normalisation
              have e_os : PyRt.ymapGet (if PyRt.lowerIsNone osv = true then PyRt.ymapSet (.map m) "os" Y.null else .map m) "os" =
                  (if PyRt.lowerIsNone osv = true then Y.null else osv) := by
                split
                · exact ymapGet_set_same m "os" Y.null
                · exact g2
              have e_pr : PyRt.ymapGet (if PyRt.lowerIsNone osv = true then PyRt.ymapSet (.map m) "os" Y.null else .map m) "prob" = prob := by
                split
                · rw [ymapGet_set_other m "os" "prob" Y.null (by decide)]; exact g3
                · exact g3
              have e_co : PyRt.ymapGet (if PyRt.lowerIsNone osv = true then PyRt.ymapSet (.map m) "os" Y.null else .map m) "cost" = cost := by
                split
                · rw [ymapGet_set_other m "os" "cost" Y.null (by decide)]; exact g4
                · exact g4
              have e_ac : PyRt.ymapGet (if PyRt.lowerIsNone osv = true then PyRt.ymapSet (.map m) "os" Y.null else .map m) "access" = acc := by
                split
                · rw [ymapGet_set_other m "os" "access" Y.null (by decide)]; exact g5
                · exact g5
              simp only [e_os, e_pr, e_co, e_ac, ite_not_false]
              have hO := L_os osL osv
              have hA := L_acc acc
              have hP := L_prob prob
              have hC := L_cost cost
              cases h1 : proc.isStr
              · simp
              · simp only [Bool.true_and, Bool.not_true, Bool.false_eq_true, if_false]
                cases hos : osField osL osv with
                | none =>
                  rw [hos] at hO
                  simp only [Option.isSome_none] at hO
                  cases h2 : osv.isStr
                  · simp
                  · rw [h2] at hO
                    simp only [Bool.true_and] at hO
                    simp [hO]
                | some os' =>
                  rw [hos] at hO
                  simp only [Option.isSome_some, Bool.and_eq_true] at hO
                  simp only [hO.1, hO.2, Bool.true_and]
                  cases hpr : prob.toRat? with
                  | none => simp
                  | some p =>
                    rw [hpr] at hP
                    simp only [Option.isSome_some, Bool.true_and] at hP
                    cases hco : cost.toRat? with
                    | none => simp
                    | some c =>
                      rw [hco] at hC
                      simp only [Option.isSome_some, Bool.true_and] at hC
                      cases hac : accessOf acc with
                      | none =>
                        rw [hac] at hA
                        simp only [Option.isSome_none] at hA
                        simp only [Option.isSome_some, Bool.true_and]
                        cases h5 : (acc.isStr || acc.intLike?.isSome)
                        · simp
                        · rw [h5] at hA; simp only [Bool.true_and] at hA
                          simp [hA]
                      | some a =>
                        rw [hac] at hA
                        simp only [Option.isSome_some, Bool.and_eq_true] at hA
                        simp only [Option.isSome_some, Bool.true_and, hA.1, hA.2, hP, hC]
                        cases pyIn proc processes <;> cases decide (0 ≤ p) <;> cases decide (p ≤ 1) <;> cases decide (0 < c) <;> rfl
  | _ => rfl


/-- `_validate_exploits` / `_validate_privescs`: every definition of the section is accepted -/
theorem Src_validate_defs (services processes osL : List Y) (m : List (Y × Y)) :
    SrcLoad.ScenarioLoader._validate_exploits services osL m = m.all (fun kv => (parseExploit services osL kv.1 kv.2).isSome) ∧
    SrcLoad.ScenarioLoader._validate_privescs processes osL m = m.all (fun kv => (parsePrivesc processes osL kv.1 kv.2).isSome) := by
  constructor
  · unfold SrcLoad.ScenarioLoader._validate_exploits
    rw [forEach_all' m _ (fun kv => (parseExploit services osL kv.1 kv.2).isSome)
      (fun kv _ => by obtain ⟨k, v⟩ := kv; simp only [Src_validate_single_exploit])]
    cases m.all (fun kv => (parseExploit services osL kv.1 kv.2).isSome) <;> rfl
  · unfold SrcLoad.ScenarioLoader._validate_privescs
    rw [forEach_all' m _ (fun kv => (parsePrivesc processes osL kv.1 kv.2).isSome)
      (fun kv _ => by obtain ⟨k, v⟩ := kv; simp only [Src_validate_single_privesc])]
    cases m.all (fun kv => (parsePrivesc processes osL kv.1 kv.2).isSome) <;> rfl


theorem getKey_isSome_pyIn (m : List (Y × Y)) (k : String) :
    (getKey m k).isSome = pyIn (.str k) (m.map (·.1)) := by
  unfold getKey pyIn
  rw [Option.isSome_map]
  induction m with
  | nil => rfl
  | cons p t ih =>
    simp only [List.find?_cons, List.map_cons, List.any_cons]
    rw [pyEq_symm (Y.str k) p.1]
    cases p.1.pyEq (Y.str k)
    · simpa using ih
    · simp

/-- `_has_all_host_addresses`: the canonical spelling of every address of every subnet is a key -/
theorem Src_has_all_addrs (subnets : List Nat) (m : List (Y × Y)) :
    SrcLoad.ScenarioLoader._has_all_host_addresses subnets (m.map (·.1)) = hasAllAddrs subnets m := by
  unfold SrcLoad.ScenarioLoader._has_all_host_addresses hasAllAddrs
  have hin : ∀ (p : Nat × Nat),
      (match PyRt.forEach (β := Bool) (List.range p.2) () (fun h _ =>
          if (!pyIn (Y.str (showPair (p.1 + 1) h)) (m.map (·.1))) = true then PyRt.Ctl.ret false else PyRt.Ctl.next ()) with
        | .ret v => (PyRt.Ctl.ret v : PyRt.Ctl Bool Unit)
        | .next _ => PyRt.Ctl.next ()) =
      if (!(List.range p.2).all (fun h => (getKey m (showPair (p.1 + 1) h)).isSome)) = true then .ret false else .next () := by
    intro p
    rw [forEach_all' (List.range p.2) _ (fun h => (getKey m (showPair (p.1 + 1) h)).isSome)
      (fun h _ => by rw [getKey_isSome_pyIn])]
    cases (List.range p.2).all (fun h => (getKey m (showPair (p.1 + 1) h)).isSome) <;> rfl
  show (match PyRt.forEach (β := Bool) (PyRt.enumerate (subnets.drop 1)) () (fun p _ =>
      match PyRt.forEach (β := Bool) (List.range p.2) () (fun h _ =>
          if (!pyIn (Y.str (showPair (p.1 + 1) h)) (m.map (·.1))) = true then PyRt.Ctl.ret false else PyRt.Ctl.next ()) with
        | .ret v => (PyRt.Ctl.ret v : PyRt.Ctl Bool Unit)
        | .next _ => PyRt.Ctl.next ()) with
      | .ret v => v
      | .next _ => true) = _
  simp only [hin]
  rw [forEach_all' (PyRt.enumerate (subnets.drop 1)) _
    (fun p => (List.range p.2).all (fun h => (getKey m (showPair (p.1 + 1) h)).isSome)) (fun p _ => rfl)]
  have : ∀ (b : Bool), (match (if b = true then (PyRt.Ctl.next () : PyRt.Ctl Bool Unit) else PyRt.Ctl.ret false) with
      | .ret v => v | .next _ => true) = b := by intro b; cases b <;> rfl
  rw [this, all_not_any, all_not_any]
  unfold PyRt.enumerate
  rw [List.range_eq_range']
  rw [any_enum_zipIdx (subnets.drop 1) 0 (fun s size => !(List.range size).all (fun h => (getKey m (showPair (s + 1) h)).isSome))]

/-- `_validate_host_address` (the key of a host-firewall entry) -/
theorem Src_validate_host_address (subnets : List Nat) (k : Y) :
    SrcLoad.ScenarioLoader._validate_host_address subnets k = hostFwKeyOk subnets k := by
  unfold SrcLoad.ScenarioLoader._validate_host_address hostFwKeyOk PyRt.evalAddr
  cases k with
  | str s =>
    simp only
    cases parsePair s with
    | none => rfl
    | some ab =>
      obtain ⟨a, b⟩ := ab
      simp only [beq_self_eq_true, Bool.and_true, Bool.true_and, Bool.not_true, Bool.false_eq_true, if_false, ite_not_false]
      cases decide (0 < a) <;> cases decide (a < (subnets.length : Int)) <;> cases decide (0 ≤ b) <;>
        cases decide (b < ((subnets.getD a.toNat 0 : Nat) : Int)) <;> rfl
  | _ => rfl


def tyName : Ty → String | .list => "list" | .map => "map" | .number => "number" | .int => "int"

theorem tables_match :
    SrcLoad.VALID_CONFIG_KEYS = requiredKeys.map (fun p => (p.1, tyName p.2)) ∧
    SrcLoad.OPTIONAL_CONFIG_KEYS = optionalKeys.map (fun p => (p.1, tyName p.2)) := by decide

theorem lookup_map_snd {β γ : Type} (l : List (String × β)) (f : β → γ) (s : String) :
    (l.map (fun p => (p.1, f p.2))).lookup s = (l.lookup s).map f := by
  induction l with
  | nil => rfl
  | cons p t ih =>
    obtain ⟨k, b⟩ := p
    simp only [List.map_cons, List.lookup_cons]
    cases s == k <;> simp [ih]

theorem isInstanceOf_tyOk (t : Ty) (v : Y) : PyRt.isInstanceOf v (tyName t) = tyOk t v := by
  cases t <;> rfl

/-- `_check_scenario_sections_valid`: enough sections, every key known, every value of the section's type -/
theorem Src_sections (m : List (Y × Y)) :
    SrcLoad.ScenarioLoader._check_scenario_sections_valid m = sectionsOk m := by
  unfold SrcLoad.ScenarioLoader._check_scenario_sections_valid sectionsOk
  have hlen : SrcLoad.VALID_CONFIG_KEYS.length = requiredKeys.length := by decide
  rw [hlen]
  by_cases hl : requiredKeys.length ≤ m.length
  · have : decide (m.length ≥ requiredKeys.length) = true := by simpa using hl
    simp only [hl, decide_true, Bool.not_true, Bool.false_eq_true, if_false, Bool.true_and]
    rw [forEach_all' m _ (fun kv => match kv.1 with
        | .str s => match (requiredKeys ++ optionalKeys).lookup s with
                    | some t => tyOk t kv.2
                    | none => false
        | _ => false) (by
      intro kv _
      obtain ⟨k, v⟩ := kv
      cases k with
      | str s =>
        simp only [PyRt.tableHas, PyRt.tableGet, tables_match.1, tables_match.2, lookup_map_snd, List.lookup_append]
        cases h1 : requiredKeys.lookup s with
        | some t => simp [isInstanceOf_tyOk]
        | none =>
          cases h2 : optionalKeys.lookup s with
          | some t => simp [isInstanceOf_tyOk]
          | none => simp
      | _ => simp [PyRt.tableHas])]
    cases hall : m.all _ <;> simp_all
  · have : decide (m.length ≥ requiredKeys.length) = false := by simpa using hl
    simp [hl]

/-! ### host configurations -/

theorem forEach_all_k {α : Type} (l : List α) (p : α → Bool) (body : α → Unit → PyRt.Ctl Bool Unit) (K : Bool)
    (h : ∀ x ∈ l, body x () = if !p x then .ret false else .next ()) :
    (match PyRt.forEach l () body with | .ret v => v | .next _ => K) = (l.all p && K) := by
  rw [forEach_all' l body p h]
  cases l.all p <;> rfl

theorem ymapHas_set_other (m : List (Y × Y)) (k k' : String) (v : Y) (h : k ≠ k') :
    PyRt.ymapHas (PyRt.ymapSet (.map m) k v) k' = PyRt.ymapHas (.map m) k' := by
  unfold PyRt.ymapHas; rw [getKey_set_other m k k' v h]; rfl

/-- the names part of a host configuration: every listed name known, none twice -/
def namesPartSrc (x : Y) (names : List Y) (K : Bool) : Bool :=
  match PyRt.iterY x with
  | none => false
  | some it => it.all (fun s => pyIn s names) && (PyRt.optEq (PyRt.ylen x) (PyRt.ysetLen x) && K)

theorem namesPart_list (l names : List Y) (K : Bool) :
    namesPartSrc (.list l) names K = (l.all (fun s => s.isScalar && pyIn s names) && noDupY l && K) := by
  unfold namesPartSrc
  simp only [PyRt.iterY, PyRt.ylen, PyRt.ysetLen, Option.map_some, Option.bind_some, PyRt.setLen]
  have hsc : l.all (fun s => s.isScalar && pyIn s names) = l.all (fun s => pyIn s names) := by
    apply all_congr_mem
    intro s _
    cases h : pyIn s names
    · simp
    · simp [pyIn_scalar s names h]
  rw [hsc]
  cases hall : l.all (fun s => pyIn s names)
  · simp
  · have : l.all Y.isScalar = true := by
      rw [List.all_eq_true] at hall ⊢
      intro s hs; exact pyIn_scalar s names (hall s hs)
    simp only [this, if_true, PyRt.optEq, Bool.true_and]
    rw [← dedup_length_eq l]
    rw [show (l.length == (PyRt.dedupY l).length) = ((PyRt.dedupY l).length == l.length) from BEq.comm]

/-- the value of a `services` / `processes` entry is a list or not iterable at all (the documented format says list;
a string or a dictionary would be iterated by the implementation, character by character resp. key by key) -/
def NotStrMap (x : Y) : Prop := x.isStr = false ∧ x.isMap = false

theorem namesPart_other (x : Y) (names : List Y) (K : Bool) (h : NotStrMap x) (hl : x.isList = false) :
    namesPartSrc x names K = false := by
  cases x <;> simp_all [namesPartSrc, PyRt.iterY, NotStrMap, Y.isStr, Y.isMap, Y.isList]


/-- hypothesis of the host-configuration tie: the configuration's `services` / `processes` values are lists or not
iterable at all -/
def IterListCfg (cfg : Y) : Prop :=
  ∀ m, cfg = .map m → (∀ x, getKey m "services" = some x → NotStrMap x) ∧ (∀ x, getKey m "processes" = some x → NotStrMap x)

def namesM (osl svl prl : List Y) : Option Y → Option Y → Option Y → Bool
  | some os, some (.list svcs), some (.list procs) =>
    svcs.all (fun s => s.isScalar && pyIn s svl) && noDupY svcs
      && procs.all (fun p => p.isScalar && pyIn p prl) && noDupY procs && os.isScalar && pyIn os osl
  | _, _, _ => false
def fwM (subnets : List Nat) (svl : List Y) : Option Y → Bool
  | none => true
  | some (.map fw) => fw.all fun kv => hostFwKeyOk subnets kv.1 && fwSettingOk svl kv.2
  | some _ => false
def valMk (sens : List ((Nat × Nat) × Rat)) (e : Option (Int × Int)) : Option Y → Bool
  | none => true
  | some v => match v.toRat? with
    | none => false
    | some q => match e with
      | none => false
      | some (x, y) =>
        if x < 0 ∨ y < 0 then true
        else match sens.lookup (x.toNat, y.toNat) with
          | some sv => isclose q sv
          | none => true

theorem evalAddr_keyPair (k : Y) : PyRt.evalAddr k = keyPair k := by cases k <;> rfl

theorem hostConfigOk_parts (subnets : List Nat) (osl svl prl : List Y) (sens : List ((Nat × Nat) × Rat)) (key : Y)
    (m : List (Y × Y)) :
    hostConfigOk subnets osl svl prl sens key (.map m) =
      (decide (3 ≤ m.length) && namesM osl svl prl (getKey m "os") (getKey m "services") (getKey m "processes")
        && fwM subnets svl (getKey m "firewall") && valMk sens (PyRt.evalAddr key) (getKey m "value")) := by
  rw [evalAddr_keyPair]
  unfold hostConfigOk namesM fwM valMk
  rfl

theorem iscloseY_some (v : Y) (q sv : Rat) (h : v.toRat? = some q) : PyRt.iscloseY v sv = isclose q sv := by
  unfold PyRt.iscloseY; rw [h]

theorem valMk_some (sens : List ((Nat × Nat) × Rat)) (e : Option (Int × Int)) (v : Y) :
    valMk sens e (some v) = (match v.toRat? with
    | none => false
    | some q => match e with
      | none => false
      | some (x, y) =>
        if x < 0 ∨ y < 0 then true
        else match sens.lookup (x.toNat, y.toNat) with
          | some sv => isclose q sv
          | none => true) := rfl

theorem valPart_some (sens : List ((Nat × Nat) × Rat)) (x y : Int) (ov : Option Y) :
    (if ov.isSome = true then
      if (!(ov.getD Y.null).toRat?.isSome) = true then false
      else if PyRt.sensHas sens (x, y) = true then
        if (!PyRt.iscloseY (ov.getD Y.null) (PyRt.sensGet sens (x, y))) = true then false else true
      else true
    else true) = valMk sens (some (x, y)) ov := by
  cases ov with
  | none => rfl
  | some v =>
    rw [valMk_some]
    simp only [Option.isSome_some, if_true, Option.getD_some, PyRt.sensHas, PyRt.sensGet]
    rcases (by cases hh : v.toRat? <;> simp : v.toRat? = none ∨ ∃ q, v.toRat? = some q) with h | ⟨q, h⟩
    · simp only [h]; rfl
    · simp only [iscloseY_some v q _ h, h]
      by_cases hneg : x < 0 ∨ y < 0
      · have : (decide (0 ≤ x) && decide (0 ≤ y)) = false := by
          rcases hneg with h1 | h1
          · have : ¬ 0 ≤ x := by omega
            simp [this]
          · have : ¬ 0 ≤ y := by omega
            simp [this]
        simp [hneg, this]
      · have hx : 0 ≤ x := by omega
        have hy : 0 ≤ y := by omega
        simp only [hneg, if_false, hx, hy, decide_true, Bool.true_and]
        rcases (by cases hh : sens.lookup (x.toNat, y.toNat) <;> simp :
            sens.lookup (x.toNat, y.toNat) = none ∨ ∃ sv, sens.lookup (x.toNat, y.toNat) = some sv) with h2 | ⟨sv, h2⟩
        · simp [h2]
        · simp only [h2]
          cases h3 : isclose q sv <;> simp [h3]

theorem valPart_none (sens : List ((Nat × Nat) × Rat)) (ov : Option Y) :
    (if ov.isSome = true then
      if (!(ov.getD Y.null).toRat?.isSome) = true then false else false
    else true) = valMk sens none ov := by
  cases ov with
  | none => rfl
  | some v =>
    rw [valMk_some]
    cases v.toRat? <;> simp

def prPart (prl : List Y) : Y → Bool
  | .list l2 => l2.all (fun p => p.isScalar && pyIn p prl) && noDupY l2
  | _ => false

theorem namesM_list (osl svl prl : List Y) (os pr : Y) (l : List Y) :
    namesM osl svl prl (some os) (some (.list l)) (some pr) =
      (l.all (fun s => s.isScalar && pyIn s svl) && noDupY l && (prPart prl pr && (os.isScalar && pyIn os osl))) := by
  cases pr <;> simp [namesM, prPart, Bool.and_assoc]

/-- the names loop followed by the duplicate test, on a list -/
theorem namesLoop_list (l names : List Y) :
    (PyRt.forEach l () (fun s _ => if (!pyIn s names) = true then PyRt.Ctl.ret false else PyRt.Ctl.next ()) =
        if (l.all (fun s => pyIn s names)) = true then PyRt.Ctl.next () else PyRt.Ctl.ret false) ∧
    ((l.all (fun s => pyIn s names) && PyRt.optEq (PyRt.ylen (Y.list l)) (PyRt.ysetLen (Y.list l))) =
      (l.all (fun s => s.isScalar && pyIn s names) && noDupY l)) := by
  refine ⟨forEach_all' l _ (fun s => pyIn s names) (fun _ _ => rfl), ?_⟩
  have := namesPart_list l names true
  unfold namesPartSrc at this
  rw [show PyRt.iterY (Y.list l) = some l from rfl] at this
  simpa using this

theorem Src_validate_host_config (subnets : List Nat) (osl svl prl : List Y) (sens : List ((Nat × Nat) × Rat))
    (key cfg : Y) (hit : IterListCfg cfg) :
    SrcLoad.ScenarioLoader._validate_host_config subnets osl svl prl sens key cfg =
      hostConfigOk subnets osl svl prl sens key cfg := by
  cases cfg with
  | map m =>
    obtain ⟨hsv, hpr⟩ := hit m rfl
    rw [hostConfigOk_parts]
    unfold SrcLoad.ScenarioLoader._validate_host_config
    have hne : ("firewall" : String) ≠ "value" := by decide
    rcases (by cases hh : PyRt.evalAddr key <;> simp <;> exact ⟨_, _, rfl⟩ : PyRt.evalAddr key = none ∨ ∃ x y, PyRt.evalAddr key = some (x, y))
      with hE | ⟨x, y, hE⟩ <;>
    simp only [hE] <;>
    simp only [ymapHas_set_other _ _ _ _ hne, ymapGet_set_other _ _ _ _ hne, ymapHas_map, ymapGet_map, valPart_some,
      valPart_none sens] <;>
    (
    have hlen : SrcLoad.HOST_CONFIG_KEYS.length = 3 := rfl
    have hm1 : (Y.map m).isMap = true := rfl
    have hm2 : mapOf (Y.map m) = m := rfl
    simp only [hlen, hm1, hm2, Bool.true_and, ge_iff_le]
    cases decide (3 ≤ m.length) with
    | false => rfl
    | true =>
    simp only [Bool.not_true, Bool.false_eq_true, if_false, Bool.true_and]
    cases hos : getKey m "os" with
    | none => simp [namesM]
    | some os =>
    cases hsv' : getKey m "services" with
    | none => simp [namesM]
    | some sv =>
    cases hpr' : getKey m "processes" with
    | none => simp [namesM]
    | some pr =>
    simp only [Option.isSome_some, Option.getD_some, Bool.not_true, Bool.false_eq_true, if_false]
    have hsv := hsv sv hsv'
    have hpr := hpr pr hpr'
    cases sv with
    | list l =>
      rw [show PyRt.iterY (Y.list l) = some l from rfl, namesM_list]
      simp only
      obtain ⟨hL, hN⟩ := namesLoop_list l svl
      rw [hL, ← hN]
      cases hA : l.all (fun s => pyIn s svl) with
      | false => simp
      | true =>
      simp only [if_true, Bool.true_and]
      cases hB : PyRt.optEq (PyRt.ylen (Y.list l)) (PyRt.ysetLen (Y.list l)) with
      | false => simp
      | true =>
      simp only [Bool.not_true, Bool.false_eq_true, if_false, Bool.true_and]
      cases pr with
      | list l2 =>
        rw [show PyRt.iterY (Y.list l2) = some l2 from rfl]
        simp only [prPart]
        obtain ⟨hL2, hN2⟩ := namesLoop_list l2 prl
        rw [hL2, ← hN2]
        cases hA2 : l2.all (fun s => pyIn s prl) with
        | false => simp
        | true =>
        simp only [if_true, Bool.true_and]
        cases hB2 : PyRt.optEq (PyRt.ylen (Y.list l2)) (PyRt.ysetLen (Y.list l2)) with
        | false => simp
        | true =>
        simp only [Bool.not_true, Bool.false_eq_true, if_false, Bool.true_and]
        rcases (by cases pyIn os osl <;> simp : pyIn os osl = false ∨ pyIn os osl = true) with hO | hO
        · simp [hO]
        simp only [hO, Bool.not_true, Bool.false_eq_true, if_false, Bool.true_and, pyIn_scalar os osl hO, Bool.and_true]
        rcases (by cases hh : getKey m "firewall" <;> simp : getKey m "firewall" = none ∨ ∃ v, getKey m "firewall" = some v)
          with hfw | ⟨fwv, hfw⟩
        · simp [hfw, fwM]
        · simp only [hfw]
          cases fwv with
          | map fw =>
            simp only [Option.isSome_some, Option.getD_some, if_true, Y.isMap, mapOf, fwM, Bool.not_true, Bool.false_eq_true, if_false]
            rw [forEach_all' fw _ (fun kv => hostFwKeyOk subnets kv.1 && fwSettingOk svl kv.2) (by
              intro kv _
              rw [Src_validate_host_address, Src_fw_setting]
              cases hostFwKeyOk subnets kv.1 <;> cases fwSettingOk svl kv.2 <;> rfl)]
            cases hW : fw.all (fun kv => hostFwKeyOk subnets kv.1 && fwSettingOk svl kv.2) with
            | false => simp
            | true =>
              simp only [if_true]
              first | exact valPart_some sens x y (getKey m "value") | exact valPart_none sens (getKey m "value")
          | _ => simp [fwM, Y.isMap]
      | _ => first | (exfalso; simp [NotStrMap, Y.isStr, Y.isMap] at hpr; done) | (simp [PyRt.iterY, prPart])
    | _ => first | (exfalso; simp [NotStrMap, Y.isStr, Y.isMap] at hsv; done) | (simp [PyRt.iterY, namesM])
    )
  | _ => rfl

/-- `_validate_host_configs`: as many configurations as hosts, a key for every address, every configuration valid -/
theorem Src_validate_host_configs (subnets : List Nat) (osl svl prl : List Y) (sens : List ((Nat × Nat) × Rat))
    (m : List (Y × Y)) (hit : ∀ kv ∈ m, IterListCfg kv.2) :
    SrcLoad.ScenarioLoader._validate_host_configs subnets osl svl prl sens (subnets.foldl (· + ·) 0 - 1) m =
      hostConfigsOk subnets osl svl prl sens m := by
  unfold SrcLoad.ScenarioLoader._validate_host_configs hostConfigsOk
  rw [Src_has_all_addrs]
  cases m.length == subnets.foldl (· + ·) 0 - 1
  · rfl
  cases hasAllAddrs subnets m
  · rfl
  simp only [Bool.not_true, Bool.false_eq_true, if_false, Bool.true_and]
  rw [forEach_all' m _ (fun kv => hostConfigOk subnets osl svl prl sens kv.1 kv.2) (fun kv hkv => by
    obtain ⟨k, v⟩ := kv
    simp only [Src_validate_host_config subnets osl svl prl sens k v (hit (k, v) hkv)])]
  cases m.all (fun kv => hostConfigOk subnets osl svl prl sens kv.1 kv.2) <;> rfl

/-- the hypothesis is satisfiable: a configuration in the documented format -/
example : IterListCfg (.map [(.str "os", .str "linux"), (.str "services", .list [.str "ssh"]), (.str "processes", .list [])]) := by
  intro m hm
  injection hm with hm
  subst hm
  constructor <;> intro x hx <;> simp [getKey, Y.pyEq, Y.toRat?] at hx <;> subst hx <;> simp [NotStrMap, Y.isStr, Y.isMap]


/-! ### the data-building helpers of `_parse_hosts` -/

theorem flagSet_fresh (d : List (Y × Bool)) (k : Y) (v : Bool) (h : d.any (fun p => p.1.pyEq k) = false) :
    PyRt.flagSet d k v = d ++ [(k, v)] := by
  unfold PyRt.flagSet; simp [h]

/-- filling a flag dictionary from a duplicate-free name list, in order -/
theorem fold_flagSet (l : List Y) (f : Y → Bool) (h : noDupY l = true) (pre : List Y)
    (hpre : ∀ x ∈ pre, pyIn x l = false) :
    l.foldl (fun d k => PyRt.flagSet d k (f k)) (pre.map fun k => (k, f k)) = (pre ++ l).map fun k => (k, f k) := by
  induction l generalizing pre with
  | nil => simp
  | cons y ys ih =>
    simp only [noDupY, Bool.and_eq_true, Bool.not_eq_true'] at h
    have hfresh : (pre.map fun k => (k, f k)).any (fun p => p.1.pyEq y) = false := by
      rw [List.any_map]
      apply List.any_eq_false.mpr
      intro x hx
      have := hpre x hx
      simp only [pyIn, List.any_cons, Bool.or_eq_false_iff] at this
      simpa using this.1
    rw [List.foldl_cons, flagSet_fresh _ _ _ hfresh]
    have : (pre.map fun k => (k, f k)) ++ [(y, f y)] = (pre ++ [y]).map fun k => (k, f k) := by simp
    rw [this, ih h.2 (pre ++ [y])]
    · simp
    · intro x hx
      rcases List.mem_append.mp hx with hx | hx
      · have := hpre x hx
        simp only [pyIn, List.any_cons, Bool.or_eq_false_iff] at this
        exact this.2
      · simp only [List.mem_singleton] at hx
        subst hx
        exact h.1

theorem forEach_flagSet (l : List Y) (f : Y → Bool) (h : noDupY l = true) :
    PyRt.forEach (β := Empty) l ([] : List (Y × Bool)) (fun k d => .next (PyRt.flagSet d k (f k))) =
      .next (l.map fun k => (k, f k)) := by
  rw [forEach_next]
  have := fold_flagSet l f h [] (by simp)
  simpa using this

theorem map_pair_eq_zip {α β : Type} (l : List α) (g : α → β) : l.map (fun k => (k, g k)) = l.zip (l.map g) := by
  induction l with
  | nil => rfl
  | cons x xs ih => simp [ih]

/-- `_construct_host_config`: the three name → flag dictionaries are the scenario's name lists, in order, each name
flagged by the configuration (`parseHost`'s `os` / `services` / `processes`) -/
theorem Src_construct_host_config (osl svl prl : List Y) (m : List (Y × Y)) (key : Y) (sens : List ((Nat × Nat) × Rat))
    (ho : noDupY osl = true) (hs : noDupY svl = true) (hp : noDupY prl = true)
    (hsl : ∀ x, getKey m "services" = some x → x.isList = true)
    (hpl : ∀ x, getKey m "processes" = some x → x.isList = true) :
    let r := SrcLoad.ScenarioLoader._construct_host_config osl svl prl (.map m)
    let h := parseHost osl svl prl sens key (.map m)
    r.1 = osl.zip h.os ∧ r.2.1 = svl.zip h.services ∧ r.2.2 = prl.zip h.processes := by
  intro r h
  have hr : r = (osl.map (fun k => (k, k.pyEq (PyRt.ymapGet (.map m) "os"))),
      svl.map (fun k => (k, PyRt.yContains (PyRt.ymapGet (.map m) "services") k)),
      prl.map (fun k => (k, PyRt.yContains (PyRt.ymapGet (.map m) "processes") k))) := by
    show SrcLoad.ScenarioLoader._construct_host_config osl svl prl (.map m) = _
    unfold SrcLoad.ScenarioLoader._construct_host_config
    simp only [forEach_flagSet osl _ ho, forEach_flagSet svl _ hs, forEach_flagSet prl _ hp]
  have hc : ∀ (k : String) (x : Y), (∀ y, getKey m k = some y → y.isList = true) →
      PyRt.yContains (PyRt.ymapGet (.map m) k) x = pyIn x (listOf ((getKey m k).getD .null)) := by
    intro k x hl
    rw [ymapGet_map]
    cases hg : getKey m k with
    | none => rfl
    | some y =>
      have := hl y hg
      cases y <;> simp_all [Y.isList, PyRt.yContains, listOf]
  rw [hr]
  refine ⟨?_, ?_, ?_⟩
  · simp only [map_pair_eq_zip]
    rfl
  · simp only [map_pair_eq_zip]
    show svl.zip _ = svl.zip (svl.map fun s => pyIn s (listOf ((getKey m "services").getD .null)))
    congr 1
    apply List.map_congr_left
    intro x _
    exact hc "services" x hsl
  · simp only [map_pair_eq_zip]
    show prl.zip _ = prl.zip (prl.map fun s => pyIn s (listOf ((getKey m "processes").getD .null)))
    congr 1
    apply List.map_congr_left
    intro x _
    exact hc "processes" x hpl

/-- `_get_host_value`: the sensitive value if the address is a sensitive host, else the configured value, else 0 -/
theorem Src_get_host_value (sens : List ((Nat × Nat) × Rat)) (a b : Nat) (m : List (Y × Y)) :
    SrcLoad.ScenarioLoader._get_host_value sens ((a : Int), (b : Int)) (.map m) =
      (match sens.lookup (a, b) with
       | some v => v
       | none => ((getKey m "value").bind Y.toRat?).getD 0) := by
  unfold SrcLoad.ScenarioLoader._get_host_value
  simp only [PyRt.sensHas, PyRt.sensGet, Int.toNat_natCast, ymapHas_map, ymapGet_map, PyRt.yfloat]
  rcases (by cases hh : sens.lookup (a, b) <;> simp : sens.lookup (a, b) = none ∨ ∃ v, sens.lookup (a, b) = some v)
    with h | ⟨v, h⟩
  · simp only [h]
    rcases (by cases hh : getKey m "value" <;> simp : getKey m "value" = none ∨ ∃ v, getKey m "value" = some v)
      with h2 | ⟨v, h2⟩
    · simp [h2, Y.toRat?]
    · simp [h2]
  · simp [h]

/-! ### the parse steps and `load` itself -/

theorem natsOf_parse (l : List Y) : PyRt.natsOf (Y.int 1 :: l) = parseSubnets l := rfl
theorem topoOf_parse (rows : List Y) : PyRt.topoOf rows = parseTopology rows := by
  unfold PyRt.topoOf parseTopology
  apply List.map_congr_left
  intro r _
  cases r <;> rfl

/-- `_parse_subnets` -/
theorem Src_parse_subnets (m : List (Y × Y)) :
    SrcLoad.ScenarioLoader._parse_subnets m = (match getKey m "subnets" with
      | none => none
      | some v => if subnetsOk (listOf v) then
          some (parseSubnets (listOf v), (parseSubnets (listOf v)).foldl (· + ·) 0 - 1) else none) := by
  unfold SrcLoad.ScenarioLoader._parse_subnets
  cases getKey m "subnets" with
  | none => rfl
  | some v =>
    simp only [Src_validate_subnets, PyRt.sumY, natsOf_parse]
    cases subnetsOk (listOf v) <;> rfl

/-- `_parse_topology` -/
theorem Src_parse_topology (subnets : List Nat) (m : List (Y × Y)) :
    SrcLoad.ScenarioLoader._parse_topology subnets m = (match getKey m "topology" with
      | none => none
      | some v => if topologyOk (listOf v) subnets.length then some (parseTopology (listOf v)) else none) := by
  unfold SrcLoad.ScenarioLoader._parse_topology
  cases getKey m "topology" with
  | none => rfl
  | some v =>
    simp only [Src_validate_topology, topoOf_parse]
    cases topologyOk (listOf v) subnets.length <;> rfl

/-- `_parse_os`, `_parse_services`, `_parse_processes` -/
theorem Src_parse_names (m : List (Y × Y)) :
    SrcLoad.ScenarioLoader._parse_os m = (match getKey m "os" with
      | none => none | some v => if namesOk (listOf v) then some (listOf v) else none) ∧
    SrcLoad.ScenarioLoader._parse_services m = (match getKey m "services" with
      | none => none | some v => if namesOk (listOf v) then some (listOf v) else none) ∧
    SrcLoad.ScenarioLoader._parse_processes m = (match getKey m "processes" with
      | none => none | some v => if namesOk (listOf v) then some (listOf v) else none) := by
  refine ⟨?_, ?_, ?_⟩
  · unfold SrcLoad.ScenarioLoader._parse_os
    cases getKey m "os" with
    | none => rfl
    | some v => simp only [(Src_validate_names (listOf v)).1]; cases namesOk (listOf v) <;> rfl
  · unfold SrcLoad.ScenarioLoader._parse_services
    cases getKey m "services" with
    | none => rfl
    | some v => simp only [(Src_validate_names (listOf v)).2.1]; cases namesOk (listOf v) <;> rfl
  · unfold SrcLoad.ScenarioLoader._parse_processes
    cases getKey m "processes" with
    | none => rfl
    | some v => simp only [(Src_validate_names (listOf v)).2.2]; cases namesOk (listOf v) <;> rfl

/-- `_parse_exploits`, `_parse_privescs` -/
theorem Src_parse_defs (svl prl osl : List Y) (m : List (Y × Y)) :
    (SrcLoad.ScenarioLoader._parse_exploits svl osl m).isSome = (match getKey m "exploits" with
      | none => false | some v => (mapOf v).all (fun kv => (parseExploit svl osl kv.1 kv.2).isSome)) ∧
    (SrcLoad.ScenarioLoader._parse_privescs prl osl m).isSome = (match getKey m "privilege_escalation" with
      | none => false | some v => (mapOf v).all (fun kv => (parsePrivesc prl osl kv.1 kv.2).isSome)) := by
  constructor
  · unfold SrcLoad.ScenarioLoader._parse_exploits
    cases getKey m "exploits" with
    | none => rfl
    | some v =>
      simp only [(Src_validate_defs svl prl osl (mapOf v)).1]
      cases (mapOf v).all (fun kv => (parseExploit svl osl kv.1 kv.2).isSome) <;> rfl
  · unfold SrcLoad.ScenarioLoader._parse_privescs
    cases getKey m "privilege_escalation" with
    | none => rfl
    | some v =>
      simp only [(Src_validate_defs svl prl osl (mapOf v)).2]
      cases (mapOf v).all (fun kv => (parsePrivesc prl osl kv.1 kv.2).isSome) <;> rfl

/-- `_parse_scan_costs` -/
theorem Src_parse_scan_costs (m : List (Y × Y)) :
    (SrcLoad.ScenarioLoader._parse_scan_costs m).isSome =
      (match getKey m "os_scan_cost", getKey m "service_scan_cost", getKey m "subnet_scan_cost", getKey m "process_scan_cost" with
       | some a, some b, some c, some d => scanCostOk a && scanCostOk b && scanCostOk c && scanCostOk d
       | _, _, _, _ => false) := by
  unfold SrcLoad.ScenarioLoader._parse_scan_costs
  cases getKey m "os_scan_cost" with
  | none => rfl
  | some a =>
  cases getKey m "service_scan_cost" with
  | none => rfl
  | some b =>
  cases getKey m "subnet_scan_cost" with
  | none => rfl
  | some c =>
  cases getKey m "process_scan_cost" with
  | none => rfl
  | some d =>
    simp only [(Src_scan_cost_and_step_limit _).1]
    cases scanCostOk a <;> cases scanCostOk b <;> cases scanCostOk c <;> cases scanCostOk d <;> rfl

/-- `_parse_host_configs` -/
theorem Src_parse_host_configs (subnets : List Nat) (osl svl prl : List Y) (sens : List ((Nat × Nat) × Rat))
    (m : List (Y × Y)) (hit : ∀ v, getKey m "host_configurations" = some v → ∀ kv ∈ mapOf v, IterListCfg kv.2) :
    (SrcLoad.ScenarioLoader._parse_host_configs subnets osl svl prl sens (subnets.foldl (· + ·) 0 - 1) m).isSome =
      (match getKey m "host_configurations" with
       | none => false | some v => hostConfigsOk subnets osl svl prl sens (mapOf v)) := by
  unfold SrcLoad.ScenarioLoader._parse_host_configs
  cases h : getKey m "host_configurations" with
  | none => rfl
  | some v =>
    simp only [Src_validate_host_configs subnets osl svl prl sens (mapOf v) (hit v h)]
    cases hostConfigsOk subnets osl svl prl sens (mapOf v) <;> rfl


theorem pairsNoDup_append (xs ys : List (Nat × Nat)) (h : pairsNoDup (xs ++ ys) = true) :
    pairsNoDup ys = true ∧ ∀ x ∈ xs, x ∉ ys := by
  induction xs with
  | nil => exact ⟨h, by simp⟩
  | cons a t ih =>
    simp only [List.cons_append, pairsNoDup, Bool.and_eq_true, Bool.not_eq_true', List.contains_eq_mem,
      decide_eq_false_iff_not, List.mem_append, not_or] at h
    obtain ⟨h1, h2⟩ := ih h.2
    refine ⟨h1, ?_⟩
    intro x hx
    rcases List.mem_cons.mp hx with rfl | hx
    · exact h.1.2
    · exact h2 x hx

theorem sensEntry_eval (subnets : List Nat) (kv : Y × Y) (h : sensEntryOk subnets kv = true) :
    ∃ a b : Int, PyRt.evalAddr kv.1 = some (a, b) ∧ sensAddr kv = (a.toNat, b.toNat) := by
  unfold sensEntryOk at h
  unfold PyRt.evalAddr sensAddr
  cases hk : kv.1 with
  | str s =>
    rw [hk] at h
    simp only at h ⊢
    cases hp : parsePair s with
    | none => rw [hp] at h; simp at h
    | some ab => exact ⟨ab.1, ab.2, rfl, rfl⟩
  | _ => rw [hk] at h; simp at h

/-- the dictionary `_parse_sensitive_hosts` builds from a validated section is the section, entry by entry -/
theorem sens_loop (subnets : List Nat) (body : Y × Y → List ((Nat × Nat) × Rat) → PyRt.Ctl (Option (List ((Nat × Nat) × Rat))) (List ((Nat × Nat) × Rat)))
    (hbody : ∀ kv d, body kv d = match PyRt.evalAddr kv.1 with
      | none => .ret none | some k => .next (PyRt.sensSet d k kv.2))
    (l pre : List (Y × Y)) (hall : l.all (sensEntryOk subnets) = true)
    (hnd : pairsNoDup ((pre ++ l).map sensAddr) = true) :
    PyRt.forEach l (parseSensitive pre) body = .next (parseSensitive (pre ++ l)) := by
  induction l generalizing pre with
  | nil => simp [PyRt.forEach]
  | cons kv t ih =>
    simp only [List.all_cons, Bool.and_eq_true] at hall
    obtain ⟨a, b, he, ha⟩ := sensEntry_eval subnets kv hall.1
    have hfresh : ∀ e ∈ parseSensitive pre, e.1 ≠ sensAddr kv := by
      intro e he' heq
      rw [List.map_append, List.map_cons] at hnd
      obtain ⟨_, h2⟩ := pairsNoDup_append _ _ hnd
      unfold parseSensitive at he'
      obtain ⟨kv', hkv', rfl⟩ := List.mem_map.mp he'
      have heq' : sensAddr kv' = sensAddr kv := heq
      exact h2 (sensAddr kv') (List.mem_map.mpr ⟨kv', hkv', rfl⟩) (by rw [heq']; exact List.mem_cons_self ..)
    simp only [PyRt.forEach, hbody, he]
    have hset : PyRt.sensSet (parseSensitive pre) (a, b) kv.2 = parseSensitive (pre ++ [kv]) := by
      unfold PyRt.sensSet
      rw [← ha, dictSet_fresh _ _ _ hfresh]
      simp [parseSensitive]
    rw [hset, ih (pre ++ [kv]) hall.2 (by simpa using hnd)]
    simp

theorem sens_loop0 (subnets : List Nat) (body : Y × Y → List ((Nat × Nat) × Rat) → PyRt.Ctl (Option (List ((Nat × Nat) × Rat))) (List ((Nat × Nat) × Rat)))
    (l : List (Y × Y)) (hall : l.all (sensEntryOk subnets) = true) (hnd : pairsNoDup (l.map sensAddr) = true)
    (hbody : ∀ kv d, body kv d = match PyRt.evalAddr kv.1 with
      | none => .ret none | some k => .next (PyRt.sensSet d k kv.2)) :
    PyRt.forEach l [] body = .next (parseSensitive l) := by
  have := sens_loop subnets body hbody l [] hall (by simpa using hnd)
  simpa [parseSensitive] using this

def fwFold (l : List (Y × Y)) (d : List ((Int × Int) × Y)) : List ((Int × Int) × Y) :=
  l.foldl (fun d kv => PyRt.fwSet d ((PyRt.evalAddr kv.1).getD (0, 0)) kv.2) d

theorem fw_loop (body : Y × Y → List ((Int × Int) × Y) → PyRt.Ctl (Option (List ((Int × Int) × Y))) (List ((Int × Int) × Y)))
    (l : List (Y × Y)) (d : List ((Int × Int) × Y))
    (hbody : ∀ kv d, body kv d = match PyRt.evalAddr kv.1 with
      | none => .ret none | some k => .next (PyRt.fwSet d k kv.2)) :
    PyRt.forEach l d body =
      if l.all (fun kv => (PyRt.evalAddr kv.1).isSome) then .next (fwFold l d) else .ret none := by
  induction l generalizing d with
  | nil => rfl
  | cons kv t ih =>
    simp only [PyRt.forEach, hbody, List.all_cons, fwFold, List.foldl_cons]
    rcases (by cases hh : PyRt.evalAddr kv.1 <;> simp : PyRt.evalAddr kv.1 = none ∨ ∃ k, PyRt.evalAddr kv.1 = some k)
      with he | ⟨k, he⟩
    · simp [he]
    · simp only [he, ih, Option.isSome_some, Bool.true_and, Option.getD_some, fwFold]

/-- `_parse_firewall` -/
theorem Src_parse_firewall (topo : List (List Int)) (svl : List Y) (m : List (Y × Y)) :
    (SrcLoad.ScenarioLoader._parse_firewall topo svl m).isSome =
      (match getKey m "firewall" with
       | none => false | some v => firewallOk topo svl (mapOf v)) := by
  unfold SrcLoad.ScenarioLoader._parse_firewall
  cases getKey m "firewall" with
  | none => rfl
  | some v =>
    simp only [Src_validate_firewall, firewallOk]
    cases hasRequiredFw topo (mapOf v) && (mapOf v).all (fun kv => fwSettingOk svl kv.2) with
    | false => rfl
    | true =>
      simp only [Bool.not_true, Bool.false_eq_true, if_false, Bool.true_and]
      rw [fw_loop _ (mapOf v) [] (fun kv d => by obtain ⟨k, w⟩ := kv; rfl)]
      have : (mapOf v).all (fun kv => (PyRt.evalAddr kv.1).isSome) =
          (mapOf v).all (fun kv => match kv.1 with | .str s => (parsePair s).isSome | _ => false) := by
        apply all_congr_mem
        intro kv _
        unfold PyRt.evalAddr
        cases kv.1 <;> rfl
      rw [this]
      cases (mapOf v).all (fun kv => match kv.1 with | .str s => (parsePair s).isSome | _ => false) <;> rfl

theorem sections_step (m : List (Y × Y)) (h : sectionsOk m = true) (v : Y) (hv : getKey m "step_limit" = some v) :
    v.intLike?.isSome = true := by
  unfold sectionsOk at h
  simp only [Bool.and_eq_true, List.all_eq_true] at h
  unfold getKey at hv
  cases hf : m.find? (fun p => p.1.pyEq (.str "step_limit")) with
  | none => rw [hf] at hv; simp at hv
  | some kv =>
    rw [hf] at hv
    simp only [Option.map_some, Option.some.injEq] at hv
    have hmem := List.mem_of_find?_eq_some hf
    have hp := List.find?_some hf
    have := h.2 kv hmem
    obtain ⟨k, w⟩ := kv
    simp only at hp hv this
    subst hv
    cases k <;> simp [Y.pyEq, Y.toRat?] at hp
    subst hp
    have hl : (requiredKeys ++ optionalKeys).lookup "step_limit" = some Ty.int := by decide
    simp only [hl, tyOk] at this
    exact this

/-- `_parse_step_limit` -/
theorem Src_parse_step_limit (m : List (Y × Y)) (h : sectionsOk m = true) :
    (SrcLoad.ScenarioLoader._parse_step_limit m).isSome = (stepLimitOf m).isSome := by
  unfold SrcLoad.ScenarioLoader._parse_step_limit stepLimitOf
  cases hv : getKey m "step_limit" with
  | none => rfl
  | some v =>
    have hi := sections_step m h v hv
    simp only [Option.isSome_some, Bool.not_true, Bool.false_eq_true, if_false]
    cases hil : v.intLike? with
    | none => rw [hil] at hi; simp at hi
    | some i =>
      have := (Src_scan_cost_and_step_limit v).2 i hil
      unfold SrcLoad.ScenarioLoader.step_limit_ok at this
      simp only
      by_cases hpos : 0 < i
      · simp [hpos] at this ⊢
        simp [this]
      · simp [hpos] at this ⊢
        simp [this]

/-- `_parse_sensitive_hosts` -/
theorem Src_parse_sensitive (subnets : List Nat) (m : List (Y × Y)) :
    SrcLoad.ScenarioLoader._parse_sensitive_hosts subnets (subnets.foldl (· + ·) 0 - 1) m =
      (match getKey m "sensitive_hosts" with
       | none => none
       | some v => if sensitiveOk subnets (mapOf v) then some (parseSensitive (mapOf v)) else none) := by
  unfold SrcLoad.ScenarioLoader._parse_sensitive_hosts
  cases getKey m "sensitive_hosts" with
  | none => rfl
  | some v =>
    simp only [Src_validate_sensitive]
    cases hok : sensitiveOk subnets (mapOf v) with
    | false => rfl
    | true =>
      simp only [Bool.not_true, Bool.false_eq_true, if_false, if_true]
      have hok' := hok
      unfold sensitiveOk at hok'
      simp only [Bool.and_eq_true] at hok'
      rw [sens_loop0 subnets _ (mapOf v) hok'.1.2 hok'.2 (fun kv d => by obtain ⟨k, w⟩ := kv; rfl)]

/-! ### `load` -/

/-- the sections of a document, `null` where one is missing -/
def sectOf (m : List (Y × Y)) : Sect :=
  { subnets := (getKey m "subnets").getD .null, topology := (getKey m "topology").getD .null,
    os := (getKey m "os").getD .null, services := (getKey m "services").getD .null,
    processes := (getKey m "processes").getD .null, sensitive := (getKey m "sensitive_hosts").getD .null,
    exploits := (getKey m "exploits").getD .null, privescs := (getKey m "privilege_escalation").getD .null,
    osCost := (getKey m "os_scan_cost").getD .null, svcCost := (getKey m "service_scan_cost").getD .null,
    subnetCost := (getKey m "subnet_scan_cost").getD .null, procCost := (getKey m "process_scan_cost").getD .null,
    hostConfigs := (getKey m "host_configurations").getD .null, firewall := (getKey m "firewall").getD .null }

def keysPresent (m : List (Y × Y)) : Bool :=
  (getKey m "subnets").isSome && (getKey m "topology").isSome && (getKey m "os").isSome && (getKey m "services").isSome
  && (getKey m "processes").isSome && (getKey m "sensitive_hosts").isSome && (getKey m "exploits").isSome
  && (getKey m "privilege_escalation").isSome && (getKey m "os_scan_cost").isSome && (getKey m "service_scan_cost").isSome
  && (getKey m "subnet_scan_cost").isSome && (getKey m "process_scan_cost").isSome
  && (getKey m "host_configurations").isSome && (getKey m "firewall").isSome

/-- acceptance by the model's `load`, flat: typed known sections, every required section present, every check -/
def accepts (m : List (Y × Y)) : Bool :=
  sectionsOk m && keysPresent m && (checks m (sectOf m)).all (·.1)

theorem firstFail_all (l : List (Bool × Err)) : (firstFail l).isNone = l.all (·.1) := by
  induction l with
  | nil => rfl
  | cons p t ih => obtain ⟨b, e⟩ := p; cases b <;> simp [firstFail, ih]

theorem load_accepts (m : List (Y × Y)) :
    (match load (.map m) with | .ok _ => true | .error _ => false) = accepts m := by
  unfold load accepts
  rcases (by cases sectionsOk m <;> simp : sectionsOk m = false ∨ sectionsOk m = true) with hs | hs
  · simp [hs]
  simp only [hs, Bool.not_true, Bool.false_eq_true, if_false, Bool.true_and]
  cases h1 : getKey m "subnets" with
  | none => simp [getSections, need, keysPresent, h1, bind, Except.bind]
  | some v1 =>
  cases h2 : getKey m "topology" with
  | none => simp [getSections, need, keysPresent, h1, h2, bind, Except.bind]
  | some v2 =>
  cases h3 : getKey m "os" with
  | none => simp [getSections, need, keysPresent, h1, h2, h3, bind, Except.bind]
  | some v3 =>
  cases h4 : getKey m "services" with
  | none => simp [getSections, need, keysPresent, h1, h2, h3, h4, bind, Except.bind]
  | some v4 =>
  cases h5 : getKey m "processes" with
  | none => simp [getSections, need, keysPresent, h1, h2, h3, h4, h5, bind, Except.bind]
  | some v5 =>
  cases h6 : getKey m "sensitive_hosts" with
  | none => simp [getSections, need, keysPresent, h1, h2, h3, h4, h5, h6, bind, Except.bind]
  | some v6 =>
  cases h7 : getKey m "exploits" with
  | none => simp [getSections, need, keysPresent, h1, h2, h3, h4, h5, h6, h7, bind, Except.bind]
  | some v7 =>
  cases h8 : getKey m "privilege_escalation" with
  | none => simp [getSections, need, keysPresent, h1, h2, h3, h4, h5, h6, h7, h8, bind, Except.bind]
  | some v8 =>
  cases h9 : getKey m "os_scan_cost" with
  | none => simp [getSections, need, keysPresent, h1, h2, h3, h4, h5, h6, h7, h8, h9, bind, Except.bind]
  | some v9 =>
  cases h10 : getKey m "service_scan_cost" with
  | none => simp [getSections, need, keysPresent, h1, h2, h3, h4, h5, h6, h7, h8, h9, h10, bind, Except.bind]
  | some v10 =>
  cases h11 : getKey m "subnet_scan_cost" with
  | none => simp [getSections, need, keysPresent, h1, h2, h3, h4, h5, h6, h7, h8, h9, h10, h11, bind, Except.bind]
  | some v11 =>
  cases h12 : getKey m "process_scan_cost" with
  | none => simp [getSections, need, keysPresent, h1, h2, h3, h4, h5, h6, h7, h8, h9, h10, h11, h12, bind, Except.bind]
  | some v12 =>
  cases h13 : getKey m "host_configurations" with
  | none => simp [getSections, need, keysPresent, h1, h2, h3, h4, h5, h6, h7, h8, h9, h10, h11, h12, h13, bind, Except.bind]
  | some v13 =>
  cases h14 : getKey m "firewall" with
  | none => simp [getSections, need, keysPresent, h1, h2, h3, h4, h5, h6, h7, h8, h9, h10, h11, h12, h13, h14, bind, Except.bind]
  | some v14 =>
    have hS : getSections m = .ok (sectOf m) := by
      simp [getSections, need, sectOf, h1, h2, h3, h4, h5, h6, h7, h8, h9, h10, h11, h12, h13, h14, bind, Except.bind, pure, Except.pure]
    have hK : keysPresent m = true := by
      simp [keysPresent, h1, h2, h3, h4, h5, h6, h7, h8, h9, h10, h11, h12, h13, h14]
    rw [hS, hK]
    simp only [Bool.true_and]
    rw [← firstFail_all]
    cases firstFail (checks m (sectOf m)) <;> rfl

theorem opt_none {α : Type} {o : Option α} (h : o.isSome = false) : o = none := by cases o <;> simp_all
theorem opt_some {α : Type} {o : Option α} (h : o.isSome = true) : ∃ x, o = some x := by
  cases o with
  | none => simp at h
  | some x => exact ⟨x, rfl⟩

theorem allSome_isSome {α : Type} (l : List (Option α)) : (allSome l).isSome = l.all (·.isSome) := by
  induction l with
  | nil => rfl
  | cons o t ih =>
    cases o with
    | none => simp [allSome]
    | some x =>
      simp only [allSome, List.all_cons, Option.isSome_some, Bool.true_and, ← ih]
      cases allSome t <;> rfl

/-- hypothesis of the loader tie: the `services` / `processes` values of the host configurations are lists (or not
iterable at all), see `IterListCfg` -/
def HostCfgIter (m : List (Y × Y)) : Prop :=
  ∀ v, getKey m "host_configurations" = some v → ∀ kv ∈ mapOf v, IterListCfg kv.2

theorem Src_load_accepts (m : List (Y × Y)) (hit : HostCfgIter m) :
    SrcLoad.ScenarioLoader.load m = accepts m := by
  unfold SrcLoad.ScenarioLoader.load
  simp only [accepts, keysPresent, checks, sectOf, List.all_cons, List.all_nil, Sect.subnetsL, Sect.topologyL,
    Sect.sensitiveL, Sect.exploitsL, Sect.privescsL, allSome_isSome, List.all_map, Function.comp_def]
  rw [Src_sections]
  rcases (by cases sectionsOk m <;> simp : sectionsOk m = false ∨ sectionsOk m = true) with hs | hs
  · simp [hs]
  simp only [hs, Bool.not_true, Bool.false_eq_true, if_false, Bool.true_and]
  rw [Src_parse_subnets]
  rcases (by cases hh : getKey m "subnets" <;> simp : getKey m "subnets" = none ∨ ∃ v, getKey m "subnets" = some v) with h1 | ⟨v1, h1⟩
  · simp [h1]
  simp only [h1, Option.isSome_some, Option.getD_some, Bool.true_and]
  rcases (by cases subnetsOk (listOf v1) <;> simp : subnetsOk (listOf v1) = false ∨ subnetsOk (listOf v1) = true) with c1 | c1
  · simp [c1]
  simp only [c1, if_true, Bool.true_and]
  rw [Src_parse_topology]
  rcases (by cases hh : getKey m "topology" <;> simp : getKey m "topology" = none ∨ ∃ v, getKey m "topology" = some v) with h2 | ⟨v2, h2⟩
  · simp [h2]
  simp only [h2, Option.isSome_some, Option.getD_some, Bool.true_and]
  rcases (by cases topologyOk (listOf v2) (parseSubnets (listOf v1)).length <;> simp : topologyOk (listOf v2) (parseSubnets (listOf v1)).length = false ∨ topologyOk (listOf v2) (parseSubnets (listOf v1)).length = true) with c2 | c2
  · simp [c2]
  simp only [c2, if_true, Bool.true_and]
  rw [(Src_parse_names m).1]
  rcases (by cases hh : getKey m "os" <;> simp : getKey m "os" = none ∨ ∃ v, getKey m "os" = some v) with h3 | ⟨v3, h3⟩
  · simp [h3]
  simp only [h3, Option.isSome_some, Option.getD_some, Bool.true_and]
  rcases (by cases namesOk (listOf v3) <;> simp : namesOk (listOf v3) = false ∨ namesOk (listOf v3) = true) with c3 | c3
  · simp [c3]
  simp only [c3, if_true, Bool.true_and]
  rw [(Src_parse_names m).2.1]
  rcases (by cases hh : getKey m "services" <;> simp : getKey m "services" = none ∨ ∃ v, getKey m "services" = some v) with h4 | ⟨v4, h4⟩
  · simp [h4]
  simp only [h4, Option.isSome_some, Option.getD_some, Bool.true_and]
  rcases (by cases namesOk (listOf v4) <;> simp : namesOk (listOf v4) = false ∨ namesOk (listOf v4) = true) with c4 | c4
  · simp [c4]
  simp only [c4, if_true, Bool.true_and]
  rw [(Src_parse_names m).2.2]
  rcases (by cases hh : getKey m "processes" <;> simp : getKey m "processes" = none ∨ ∃ v, getKey m "processes" = some v) with h5 | ⟨v5, h5⟩
  · simp [h5]
  simp only [h5, Option.isSome_some, Option.getD_some, Bool.true_and]
  rcases (by cases namesOk (listOf v5) <;> simp : namesOk (listOf v5) = false ∨ namesOk (listOf v5) = true) with c5 | c5
  · simp [c5]
  simp only [c5, if_true, Bool.true_and]
  rw [Src_parse_sensitive]
  rcases (by cases hh : getKey m "sensitive_hosts" <;> simp : getKey m "sensitive_hosts" = none ∨ ∃ v, getKey m "sensitive_hosts" = some v) with h6 | ⟨v6, h6⟩
  · simp [h6]
  simp only [h6, Option.isSome_some, Option.getD_some, Bool.true_and]
  rcases (by cases sensitiveOk (parseSubnets (listOf v1)) (mapOf v6) <;> simp : sensitiveOk (parseSubnets (listOf v1)) (mapOf v6) = false ∨ sensitiveOk (parseSubnets (listOf v1)) (mapOf v6) = true) with c6 | c6
  · simp [c6]
  simp only [c6, if_true, Bool.true_and]
  have hE := (Src_parse_defs (listOf v4) (listOf v5) (listOf v3) m).1
  have hP := (Src_parse_defs (listOf v4) (listOf v5) (listOf v3) m).2
  rcases (by cases hh : getKey m "exploits" <;> simp : getKey m "exploits" = none ∨ ∃ v, getKey m "exploits" = some v) with h7 | ⟨v7, h7⟩
  · simp only [h7] at hE
    simp [opt_none hE, h7]
  simp only [h7, Option.isSome_some, Option.getD_some, Bool.true_and] at hE ⊢
  rcases (by cases ((mapOf v7).all fun kv => (parseExploit (listOf v4) (listOf v3) kv.fst kv.snd).isSome) <;> simp : ((mapOf v7).all fun kv => (parseExploit (listOf v4) (listOf v3) kv.fst kv.snd).isSome) = false ∨ ((mapOf v7).all fun kv => (parseExploit (listOf v4) (listOf v3) kv.fst kv.snd).isSome) = true) with c7 | c7
  · rw [c7] at hE
    simp [opt_none hE, c7]
  rw [c7] at hE
  obtain ⟨x7, hx7⟩ := opt_some hE
  simp only [hx7, c7, Bool.true_and]
  rcases (by cases hh : getKey m "privilege_escalation" <;> simp : getKey m "privilege_escalation" = none ∨ ∃ v, getKey m "privilege_escalation" = some v) with h8 | ⟨v8, h8⟩
  · simp only [h8] at hP
    simp [opt_none hP, h8]
  simp only [h8, Option.isSome_some, Option.getD_some, Bool.true_and] at hP ⊢
  rcases (by cases ((mapOf v8).all fun kv => (parsePrivesc (listOf v5) (listOf v3) kv.fst kv.snd).isSome) <;> simp : ((mapOf v8).all fun kv => (parsePrivesc (listOf v5) (listOf v3) kv.fst kv.snd).isSome) = false ∨ ((mapOf v8).all fun kv => (parsePrivesc (listOf v5) (listOf v3) kv.fst kv.snd).isSome) = true) with c8 | c8
  · rw [c8] at hP
    simp [opt_none hP, c8]
  rw [c8] at hP
  obtain ⟨x8, hx8⟩ := opt_some hP
  simp only [hx8, c8, Bool.true_and]
  have hC := Src_parse_scan_costs m
  rcases (by cases hh : getKey m "os_scan_cost" <;> simp : getKey m "os_scan_cost" = none ∨ ∃ v, getKey m "os_scan_cost" = some v) with h9 | ⟨v9, h9⟩
  · simp only [h9] at hC
    simp [opt_none hC, h9]
  simp only [h9, Option.isSome_some, Option.getD_some, Bool.true_and] at hC ⊢
  rcases (by cases hh : getKey m "service_scan_cost" <;> simp : getKey m "service_scan_cost" = none ∨ ∃ v, getKey m "service_scan_cost" = some v) with h10 | ⟨v10, h10⟩
  · simp only [h10] at hC
    simp [opt_none hC, h10]
  simp only [h10, Option.isSome_some, Option.getD_some, Bool.true_and] at hC ⊢
  rcases (by cases hh : getKey m "subnet_scan_cost" <;> simp : getKey m "subnet_scan_cost" = none ∨ ∃ v, getKey m "subnet_scan_cost" = some v) with h11 | ⟨v11, h11⟩
  · simp only [h11] at hC
    simp [opt_none hC, h11]
  simp only [h11, Option.isSome_some, Option.getD_some, Bool.true_and] at hC ⊢
  rcases (by cases hh : getKey m "process_scan_cost" <;> simp : getKey m "process_scan_cost" = none ∨ ∃ v, getKey m "process_scan_cost" = some v) with h12 | ⟨v12, h12⟩
  · simp only [h12] at hC
    simp [opt_none hC, h12]
  simp only [h12, Option.isSome_some, Option.getD_some, Bool.true_and] at hC ⊢
  rcases (by cases (scanCostOk v9 && scanCostOk v10 && scanCostOk v11 && scanCostOk v12) <;> simp : (scanCostOk v9 && scanCostOk v10 && scanCostOk v11 && scanCostOk v12) = false ∨ (scanCostOk v9 && scanCostOk v10 && scanCostOk v11 && scanCostOk v12) = true) with c9 | c9
  · rw [c9] at hC
    simp [opt_none hC, c9]
  rw [c9] at hC
  obtain ⟨⟨q1, q2, q3, q4⟩, hx9⟩ := opt_some hC
  simp only [hx9, c9, Bool.true_and]
  have hH := Src_parse_host_configs (parseSubnets (listOf v1)) (listOf v3) (listOf v4) (listOf v5) (parseSensitive (mapOf v6)) m hit
  rcases (by cases hh : getKey m "host_configurations" <;> simp : getKey m "host_configurations" = none ∨ ∃ v, getKey m "host_configurations" = some v) with h13 | ⟨v13, h13⟩
  · simp only [h13] at hH
    simp [opt_none hH, h13]
  simp only [h13, Option.isSome_some, Option.getD_some, Bool.true_and] at hH ⊢
  rcases (by cases hostConfigsOk (parseSubnets (listOf v1)) (listOf v3) (listOf v4) (listOf v5) (parseSensitive (mapOf v6)) (mapOf v13) <;> simp : hostConfigsOk (parseSubnets (listOf v1)) (listOf v3) (listOf v4) (listOf v5) (parseSensitive (mapOf v6)) (mapOf v13) = false ∨ hostConfigsOk (parseSubnets (listOf v1)) (listOf v3) (listOf v4) (listOf v5) (parseSensitive (mapOf v6)) (mapOf v13) = true) with c13 | c13
  · rw [c13] at hH
    simp [opt_none hH, c13]
  rw [c13] at hH
  obtain ⟨x13, hx13⟩ := opt_some hH
  simp only [hx13, c13, Bool.true_and]
  have hF := Src_parse_firewall (parseTopology (listOf v2)) (listOf v4) m
  rcases (by cases hh : getKey m "firewall" <;> simp : getKey m "firewall" = none ∨ ∃ v, getKey m "firewall" = some v) with h14 | ⟨v14, h14⟩
  · simp only [h14] at hF
    simp [opt_none hF, h14]
  simp only [h14, Option.isSome_some, Option.getD_some, Bool.true_and] at hF ⊢
  rcases (by cases firewallOk (parseTopology (listOf v2)) (listOf v4) (mapOf v14) <;> simp : firewallOk (parseTopology (listOf v2)) (listOf v4) (mapOf v14) = false ∨ firewallOk (parseTopology (listOf v2)) (listOf v4) (mapOf v14) = true) with c14 | c14
  · rw [c14] at hF
    simp [opt_none hF, c14]
  rw [c14] at hF
  obtain ⟨x14, hx14⟩ := opt_some hF
  simp only [hx14, c14, Bool.true_and]
  have hL := Src_parse_step_limit m hs
  rcases (by cases (stepLimitOf m).isSome <;> simp : (stepLimitOf m).isSome = false ∨ (stepLimitOf m).isSome = true) with c15 | c15
  · rw [c15] at hL
    simp [opt_none hL, c15]
  rw [c15] at hL
  obtain ⟨x15, hx15⟩ := opt_some hL
  simp only [hx15, c15, Bool.true_and]

/-- **the loader, end to end**: `ScenarioLoader.load`, translated from the source (the sections test, every `_parse_*`
step with its validator and the data later steps read, in the order `load` calls them; `_parse_hosts` builds objects
only), returns a scenario exactly when the model's `load` does -/
theorem Src_load (m : List (Y × Y)) (hit : HostCfgIter m) :
    SrcLoad.ScenarioLoader.load m = (match load (.map m) with | .ok _ => true | .error _ => false) := by
  rw [Src_load_accepts m hit, load_accepts]

/-- every C18 theorem (`Rejected`) is a statement about the translated `load` -/
theorem Src_load_rejects (m : List (Y × Y)) (hit : HostCfgIter m) (h : Rejected (.map m)) :
    SrcLoad.ScenarioLoader.load m = false := by
  obtain ⟨e, he⟩ := h
  rw [Src_load m hit, he]

end NASim
