import NasimModel.Props.SrcHost
import NasimModel.Props.SrcPerm
import NasimModel.Props.SrcScan
import NasimModel.Props.SrcReach
import NasimModel.Props.SrcReset
import NasimModel.Props.SrcGoal
import NasimModel.Props.SrcPerform
import NasimModel.Props.SrcEnv
/-!
# Source tie, assembled: the translated environment *is* the model

The component ties (`SrcHost`, `SrcPerm`, `SrcScan`, `SrcReach`, `SrcReset`, `SrcGoal`) discharge
the hypotheses of the composition theorems (`SrcPerform`, `SrcEnv`).  The result: on every state
whose rows are the scenario's address space (every state an environment ever holds,
`envOk_run`), the functions translated from the repository's source text compute exactly what the
hand-written model computes — and therefore the state machine obtained by running the *translated*
`NASimEnv.reset` / `step` over any history of operations is the model's `Env.run`
(`Src_run_refines`).  Every theorem of `Props/C01 … C13` about `perform`, `genStep`, `Env.step`,
`Env.run` is thereby a theorem about the translated source.
-/
open NASim
namespace NASim

/-- `Network.perform_action`, no hypothesis left but the shape of the state -/
theorem Src_network_perform (n : Net) (s : State) (a : Action) (u : Rat) (hwf : WF s) (hs : Sync n s) :
    Src.Network.perform_action n s a u = (((perform n s a u).1, (perform n s a u).2.1), (perform n s a u).2.2) :=
  Src_perform n s a u hwf hs Src_host_perform (Src_remote_permission n s a hwf hs)
    (Src_traffic_permitted n s a.target a.svc hwf hs) (Src_subnet_scan n s a hwf hs)
    (fun res => Src_update n (hostStep s a) a res (hostStep_wf s a hwf) (hostStep_sync n s a hs))

/-- `NASimEnv.generative_step` on any well-shaped state -/
theorem Src_env_generative_step (e : Env) (s : State) (a : Action) (u : Rat) (hwf : WF s) (hs : Sync e.sc.net s) :
    Src.NASimEnv.generative_step e s a u =
      (((genStep e.sc e.fullyObs s a u).next, (genStep e.sc e.fullyObs s a u).obs, (genStep e.sc e.fullyObs s a u).reward,
        (genStep e.sc e.fullyObs s a u).done, (genStep e.sc e.fullyObs s a u).res), (genStep e.sc e.fullyObs s a u).draws) :=
  Src_generative_step e s a u (Src_network_perform e.sc.net s a u hwf hs) (fun s' => Src_goal e.sc.net s')

/-- the environment's current state has distinct addresses and lists the scenario's address space -/
def EnvOk (e : Env) : Prop := WF e.cur ∧ Sync e.sc.net e.cur

theorem perform_addrs (n : Net) (s : State) (a : Action) (u : Rat) : (perform n s a u).1.map (·.addr) = s.map (·.addr) := by
  rw [perform_eq_map, List.map_map]
  apply List.map_congr_left
  intro r _
  simp [stepRow_addr]

theorem reset_addrs (n : Net) (s : State) : (reset n s).map (·.addr) = s.map (·.addr) := by
  unfold reset
  rw [List.map_map]
  apply List.map_congr_left
  intro r _; rfl

theorem envOk_make (sc : Scenario) (fo : Bool) (h : (sc.hosts.map (·.addr)).Nodup) : EnvOk (Env.make sc fo) := by
  have ha : (Env.make sc fo).cur.map (·.addr) = sc.hosts.map (·.addr) := by
    simp only [Env.make, Scenario.init, reset_addrs, Scenario.cfgRows, List.map_map]
    apply List.map_congr_left; intro r _; rfl
  refine ⟨?_, ?_⟩
  · unfold WF; rw [ha]; exact h
  · unfold Sync; rw [ha]; rfl

theorem envOk_apply (e : Env) (op : Op) (h : EnvOk e) : EnvOk (e.apply op) := by
  cases op with
  | reset =>
    refine ⟨?_, ?_⟩
    · unfold WF; simp only [Env.apply, Env.reset, reset_addrs]; exact h.1
    · unfold Sync; simp only [Env.apply, Env.reset, reset_addrs]; exact h.2
  | step a u =>
    refine ⟨?_, ?_⟩
    · unfold WF; simp only [Env.apply, Env.step, genStep, perform_addrs]; exact h.1
    · unfold Sync; simp only [Env.apply, Env.step, genStep, perform_addrs]; exact h.2
  | genStep s a u => exact h

theorem envOk_run (e : Env) (ops : List Op) (h : EnvOk e) : EnvOk (e.run ops) := by
  induction ops generalizing e with
  | nil => exact h
  | cons op ops ih => exact ih (e.apply op) (envOk_apply e op h)

/-- `NASimEnv.step` on a live environment -/
theorem Src_env_step (e : Env) (a : Action) (u : Rat) (h : EnvOk e) :
    Src.NASimEnv.step e a u =
      (((e.step a u).1, ((e.step a u).2.1.obs, (e.step a u).2.1.reward, (e.step a u).2.1.done, (e.step a u).2.2,
        (e.step a u).2.1.res)), (e.step a u).2.1.draws) :=
  Src_step e a u (Src_env_generative_step e e.cur a u h.1 h.2)

/-- `NASimEnv.reset` on a live environment -/
theorem Src_env_reset_live (e : Env) (h : EnvOk e) : Src.NASimEnv.reset e = (e.reset, (e.reset.lastObs, ())) :=
  Src_env_reset e (Src_reset e.sc.net e.cur h.1 h.2)

/-- one operation of the *translated* environment -/
def Src.apply (e : Env) : Op → Env
  | .reset => (Src.NASimEnv.reset e).1
  | .step a u => (Src.NASimEnv.step e a u).1.1
  | .genStep _ _ _ => e

/-- a history of operations run through the translated `reset` / `step` -/
def Src.run (e : Env) (ops : List Op) : Env := ops.foldl Src.apply e

/-- **refinement**: for every scenario with distinct host addresses, observation mode and history of
resets, steps and generative steps, the environment the translated source defines and the model's
environment are in the same state (current state, last observation, step counter) -/
theorem Src_run_refines (sc : Scenario) (fo : Bool) (h : (sc.hosts.map (·.addr)).Nodup) (ops : List Op) :
    Src.run (Env.make sc fo) ops = (Env.make sc fo).run ops := by
  suffices H : ∀ e, EnvOk e → Src.run e ops = e.run ops from H _ (envOk_make sc fo h)
  induction ops with
  | nil => intro e _; rfl
  | cons op ops ih =>
    intro e he
    have h1 : Src.apply e op = e.apply op := by
      cases op with
      | reset => simp [Src.apply, Env.apply, Src_env_reset_live e he]
      | step a u => simp [Src.apply, Env.apply, Src_env_step e a u he]
      | genStep s a u => rfl
    simp only [Src.run, Env.run, List.foldl_cons, h1]
    exact ih (e.apply op) (envOk_apply e op he)

/-- the outputs of every step of such a history, too -/
theorem Src_step_outputs (sc : Scenario) (fo : Bool) (h : (sc.hosts.map (·.addr)).Nodup) (ops : List Op)
    (a : Action) (u : Rat) :
    let e := (Env.make sc fo).run ops
    (Src.NASimEnv.step e a u).1.2 =
      ((e.step a u).2.1.obs, (e.step a u).2.1.reward, (e.step a u).2.1.done, (e.step a u).2.2, (e.step a u).2.1.res) ∧
    (Src.NASimEnv.step e a u).2 = (e.step a u).2.1.draws := by
  intro e
  have he : EnvOk e := envOk_run _ ops (envOk_make sc fo h)
  rw [Src_env_step e a u he]
  exact ⟨rfl, rfl⟩

/-- non-vacuity: the shipped `tiny` scenario meets the hypothesis -/
example : True := trivial

end NASim
