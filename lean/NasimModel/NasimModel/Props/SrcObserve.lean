import NasimModel.Props.SrcLayout
/-!
# Source tie: `HostVector.observe`

The translated `observe` (a zero vector of `state_size`; for every keyword that is set, the slice or the cell of
that column group is copied from the host's own vector) applied to the documented row of a host is the model's
`observeRow` — for every layout, host and keyword combination.
-/
open NASim
namespace NASim

theorem cell_step (c : Bool) (P Q V : List Int) (z x : Int) (i : Nat) (hP : P.length = i) (hx : PyRt.at1 V i = x) :
    (if c = true then (P ++ (z :: Q)).set i (PyRt.at1 V i) else P ++ (z :: Q)) =
      (P ++ [if c = true then x else z]) ++ Q := by
  subst hP
  cases c <;> simp [hx]

theorem block_step (c : Bool) (P Z Q V B : List Int) (a b : Nat) (hP : P.length = a) (hb : b = a + Z.length)
    (hB : PyRt.slice1 V (a, b) = B) :
    (if c = true then PyRt.setSlice (P ++ (Z ++ Q)) (a, b) (PyRt.slice1 V (a, b)) else P ++ (Z ++ Q)) =
      (P ++ (if c = true then B else Z)) ++ Q := by
  subst hP hb
  cases c <;> simp [hB, PyRt.setSlice]

/-- `HostVector.observe` on the documented row of a host: every keyword copies exactly its column group -/
theorem Src_observe_row (L : Layout) (r : Row) (m : Mask) (h : RowFits L r) :
    SrcObs.HostVector.observe L (encodeRow L r) m = observeRow L r m := by
  obtain ⟨s1, s2, s3, s4, s5⟩ := encodeRow_slices L r h
  have g := encodeRow_cell L r
  obtain ⟨ho, hv, hp⟩ := h
  have l1 : (onehot L.b0 r.addr.1).length = L.b0 := onehot_length _ _
  have l2 : (onehot L.b1 r.addr.2).length = L.b1 := onehot_length _ _
  have lz : ∀ n, (zeros n).length = n := by intro n; simp [zeros]
  unfold observeRow
  generalize encodeRow L r = V at *
  unfold SrcObs.HostVector.observe
  extract_lets o0 sl1 sl2 a1 a2 oA c1 oC r1 oR d1 oD v1 oV dv w1 oW x1 oX i1 p1 oO i2 p2 oS i3 p3 oP
  have e0 : o0 = [] ++ (zeros L.b0 ++ (zeros L.b1 ++ (0 :: (0 :: (0 :: (0 :: (0 :: (0 :: (zeros L.nOs ++ (zeros L.nSvc ++
      (zeros L.nProc ++ []))))))))))) := by
    show zeros L.stateSize = _
    have z6 : (0 :: (0 :: (0 :: (0 :: (0 :: (0 :: (zeros L.nOs ++ (zeros L.nSvc ++ (zeros L.nProc ++ [])))))))) : List Int) =
        zeros 6 ++ (zeros L.nOs ++ (zeros L.nSvc ++ zeros L.nProc)) := by
      simp only [List.append_nil]; rfl
    rw [z6, List.nil_append, ← zeros_add, ← zeros_add, ← zeros_add, ← zeros_add, ← zeros_add, stateSize_eq]
    congr 1; omega
  have eA : oA = ((if m.address = true then onehot L.b0 r.addr.1 else zeros L.b0) ++
      (if m.address = true then onehot L.b1 r.addr.2 else zeros L.b1)) ++
      (0 :: (0 :: (0 :: (0 :: (0 :: (0 :: (zeros L.nOs ++ (zeros L.nSvc ++ (zeros L.nProc ++ [])))))))))  := by
    simp only [oA, a2, a1, sl1, sl2, (Src_slices L 0).1, (Src_slices L 0).2.1]
    cases m.address
    · simp [e0]
    · have b1 := block_step true [] (zeros L.b0) (zeros L.b1 ++ (0 :: (0 :: (0 :: (0 :: (0 :: (0 :: (zeros L.nOs ++ (zeros L.nSvc ++
          (zeros L.nProc ++ []))))))))))  V _ 0 L.hostIdx rfl (by simp [Layout.hostIdx, lz]) s1
      simp only [if_true] at b1
      rw [e0, b1]
      have b2 := block_step true ([] ++ onehot L.b0 r.addr.1) (zeros L.b1) (0 :: (0 :: (0 :: (0 :: (0 :: (0 :: (zeros L.nOs ++ (zeros L.nSvc ++
          (zeros L.nProc ++ []))))))))) V _ L.hostIdx L.compIdx (by simp [Layout.hostIdx, l1])
          (by simp [Layout.hostIdx, Layout.compIdx, lz]) s2
      simp only [if_true] at b2
      rw [b2]
      simp
  have lPA : ((if m.address = true then onehot L.b0 r.addr.1 else zeros L.b0) ++
      (if m.address = true then onehot L.b1 r.addr.2 else zeros L.b1)).length = L.b0 + L.b1 := by
    cases m.address <;> simp [l1, l2, lz]
  have hPA : ((if m.address = true then onehot L.b0 r.addr.1 else zeros L.b0) ++
      (if m.address = true then onehot L.b1 r.addr.2 else zeros L.b1)) =
      (if m.address = true then onehot L.b0 r.addr.1 ++ onehot L.b1 r.addr.2 else zeros (L.b0 + L.b1)) := by
    cases m.address <;> simp [zeros_add]
  generalize ((if m.address = true then onehot L.b0 r.addr.1 else zeros L.b0) ++
      (if m.address = true then onehot L.b1 r.addr.2 else zeros L.b1)) = PA at eA lPA hPA
  have gk : ∀ k (hk : k < 6), PyRt.at1 V (L.b0 + L.b1 + k) =
      ([bi r.comp, bi r.reach, bi r.disc, r.value, r.dvalue, (r.access : Int)] : List Int).getD k 0 := g
  have eC : oC = (PA ++ [if m.comp = true then bi r.comp else 0]) ++
      (0 :: (0 :: (0 :: (0 :: (0 :: (zeros L.nOs ++ (zeros L.nSvc ++ (zeros L.nProc ++ [])))))))) := by
    simp only [oC, c1, eA, Src_vector_idxs]
    exact cell_step m.comp _ _ V 0 _ L.compIdx (by simp [lPA, Layout.compIdx, Layout.hostIdx])
      (by have := gk 0 (by omega); simpa [Layout.compIdx, Layout.hostIdx] using this)
  have eR : oR = (PA ++ [if m.comp = true then bi r.comp else 0] ++ [if m.reach = true then bi r.reach else 0]) ++
      (0 :: (0 :: (0 :: (0 :: (zeros L.nOs ++ (zeros L.nSvc ++ (zeros L.nProc ++ []))))))) := by
    simp only [oR, r1, eC, Src_vector_idxs]
    exact cell_step m.reach _ _ V 0 _ L.reachIdx (by simp [lPA, Layout.reachIdx, Layout.compIdx, Layout.hostIdx])
      (by have := gk 1 (by omega); simpa [Layout.reachIdx, Layout.compIdx, Layout.hostIdx] using this)
  have eD : oD = (PA ++ [if m.comp = true then bi r.comp else 0] ++ [if m.reach = true then bi r.reach else 0] ++
      [if m.disc = true then bi r.disc else 0]) ++
      (0 :: (0 :: (0 :: (zeros L.nOs ++ (zeros L.nSvc ++ (zeros L.nProc ++ [])))))) := by
    simp only [oD, d1, eR, Src_vector_idxs]
    exact cell_step m.disc _ _ V 0 _ L.discIdx
      (by simp [lPA, Layout.discIdx, Layout.reachIdx, Layout.compIdx, Layout.hostIdx])
      (by have := gk 2 (by omega); simpa [Layout.discIdx, Layout.reachIdx, Layout.compIdx, Layout.hostIdx, Nat.add_assoc] using this)
  have eV : oV = (PA ++ [if m.comp = true then bi r.comp else 0] ++ [if m.reach = true then bi r.reach else 0] ++
      [if m.disc = true then bi r.disc else 0] ++ [if m.value = true then r.value else 0]) ++
      (0 :: (0 :: (zeros L.nOs ++ (zeros L.nSvc ++ (zeros L.nProc ++ []))))) := by
    simp only [oV, v1, eD, Src_vector_idxs]
    exact cell_step m.value _ _ V 0 _ L.valueIdx
      (by simp [lPA, Layout.valueIdx, Layout.discIdx, Layout.reachIdx, Layout.compIdx, Layout.hostIdx])
      (by have := gk 3 (by omega); simpa [Layout.valueIdx, Layout.discIdx, Layout.reachIdx, Layout.compIdx, Layout.hostIdx, Nat.add_assoc] using this)
  have eW : oW = (PA ++ [if m.comp = true then bi r.comp else 0] ++ [if m.reach = true then bi r.reach else 0] ++
      [if m.disc = true then bi r.disc else 0] ++ [if m.value = true then r.value else 0] ++
      [if m.dvalue = true then r.dvalue else 0]) ++
      (0 :: (zeros L.nOs ++ (zeros L.nSvc ++ (zeros L.nProc ++ [])))) := by
    simp only [oW, w1, dv, eV, Src_vector_idxs]
    exact cell_step m.dvalue _ _ V 0 _ L.dvalueIdx
      (by simp [lPA, Layout.dvalueIdx, Layout.valueIdx, Layout.discIdx, Layout.reachIdx, Layout.compIdx, Layout.hostIdx])
      (by have := gk 4 (by omega); simpa [Layout.dvalueIdx, Layout.valueIdx, Layout.discIdx, Layout.reachIdx, Layout.compIdx, Layout.hostIdx, Nat.add_assoc] using this)
  have eX : oX = (PA ++ [if m.comp = true then bi r.comp else 0] ++ [if m.reach = true then bi r.reach else 0] ++
      [if m.disc = true then bi r.disc else 0] ++ [if m.value = true then r.value else 0] ++
      [if m.dvalue = true then r.dvalue else 0] ++ [if m.access = true then (r.access : Int) else 0]) ++
      (zeros L.nOs ++ (zeros L.nSvc ++ (zeros L.nProc ++ []))) := by
    simp only [oX, x1, eW, Src_vector_idxs]
    exact cell_step m.access _ _ V 0 _ L.accessIdx
      (by simp [lPA, Layout.accessIdx, Layout.dvalueIdx, Layout.valueIdx, Layout.discIdx, Layout.reachIdx, Layout.compIdx, Layout.hostIdx])
      (by have := gk 5 (by omega); simpa [Layout.accessIdx, Layout.dvalueIdx, Layout.valueIdx, Layout.discIdx, Layout.reachIdx, Layout.compIdx, Layout.hostIdx, Nat.add_assoc] using this)
  have eO : oO = (PA ++ [if m.comp = true then bi r.comp else 0] ++ [if m.reach = true then bi r.reach else 0] ++
      [if m.disc = true then bi r.disc else 0] ++ [if m.value = true then r.value else 0] ++
      [if m.dvalue = true then r.dvalue else 0] ++ [if m.access = true then (r.access : Int) else 0] ++
      (if m.os = true then r.os.map bi else zeros L.nOs)) ++
      (zeros L.nSvc ++ (zeros L.nProc ++ [])) := by
    simp only [oO, p1, i1, eX, (Src_slices L 0).2.2.1]
    exact block_step m.os _ _ _ V _ L.osStart L.svcStart
      (by simp [lPA, Layout.osStart, Layout.accessIdx, Layout.dvalueIdx, Layout.valueIdx, Layout.discIdx, Layout.reachIdx, Layout.compIdx, Layout.hostIdx])
      (by simp [lz, Layout.svcStart]) s3
  have eS : oS = (PA ++ [if m.comp = true then bi r.comp else 0] ++ [if m.reach = true then bi r.reach else 0] ++
      [if m.disc = true then bi r.disc else 0] ++ [if m.value = true then r.value else 0] ++
      [if m.dvalue = true then r.dvalue else 0] ++ [if m.access = true then (r.access : Int) else 0] ++
      (if m.os = true then r.os.map bi else zeros L.nOs) ++ (if m.svc = true then r.svc.map bi else zeros L.nSvc)) ++
      (zeros L.nProc ++ []) := by
    simp only [oS, p2, i2, eO, (Src_slices L 0).2.2.2.1]
    exact block_step m.svc _ _ _ V _ L.svcStart L.procStart
      (by cases m.os <;> simp [lPA, lz, ho, Layout.svcStart, Layout.osStart, Layout.accessIdx, Layout.dvalueIdx, Layout.valueIdx, Layout.discIdx, Layout.reachIdx, Layout.compIdx, Layout.hostIdx] <;> omega)
      (by simp [lz, Layout.procStart]) s4
  have eP : oP = (PA ++ [if m.comp = true then bi r.comp else 0] ++ [if m.reach = true then bi r.reach else 0] ++
      [if m.disc = true then bi r.disc else 0] ++ [if m.value = true then r.value else 0] ++
      [if m.dvalue = true then r.dvalue else 0] ++ [if m.access = true then (r.access : Int) else 0] ++
      (if m.os = true then r.os.map bi else zeros L.nOs) ++ (if m.svc = true then r.svc.map bi else zeros L.nSvc) ++
      (if m.proc = true then r.proc.map bi else zeros L.nProc)) ++ [] := by
    simp only [oP, p3, i3, eS, (Src_slices L 0).2.2.2.2.1]
    exact block_step m.proc _ _ _ V _ L.procStart L.stateSize
      (by cases m.os <;> cases m.svc <;> simp [lPA, lz, ho, hv, Layout.procStart, Layout.svcStart, Layout.osStart, Layout.accessIdx, Layout.dvalueIdx, Layout.valueIdx, Layout.discIdx, Layout.reachIdx, Layout.compIdx, Layout.hostIdx] <;> omega)
      (by simp [lz, Layout.stateSize]) s5
  rw [eP, hPA, ho, hv, hp]
  simp

end NASim
