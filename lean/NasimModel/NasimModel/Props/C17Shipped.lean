import NasimModel.Generated.ShippedDocs
import NasimModel.Props.C17
import NasimModel.Proofs.Solve
/-!
# C17 on the shipped benchmark files

The nine YAML files under `nasim/scenarios/benchmark/` are translated on every run (T1) twice:
as the document PyYAML parses (`doc_*`) and as the scenario the repository's loader builds from it
(`sc_*`).  The kernel checks that the model's `load` followed by `toScenario` maps the one to the
other, so on these files the loader model and `Scenario`'s index maps are *verified against* the
implementation rather than compared on samples; the dynamics theorems (C01–C08, C16) then speak
about the very scenarios these files denote.
-/
namespace NASim.Load
open NASim.Generated

/-- C17: each shipped file means, in the model, exactly the scenario the repository's loader builds -/
theorem C17_shipped_files_load :
    ∀ p ∈ [(doc_tiny, sc_tiny), (doc_tiny_hard, sc_tiny_hard), (doc_tiny_small, sc_tiny_small),
           (doc_small, sc_small), (doc_small_honeypot, sc_small_honeypot), (doc_small_linear, sc_small_linear),
           (doc_medium, sc_medium), (doc_medium_single_site, sc_medium_single_site),
           (doc_medium_multi_site, sc_medium_multi_site)],
      loadScenario p.1 = some p.2 := by
  have h := shipped_docs_load
  intro p hp
  simp only [List.mem_cons, List.not_mem_nil, or_false] at hp
  rcases hp with rfl | rfl | rfl | rfl | rfl | rfl | rfl | rfl | rfl
  · exact h.1
  · exact h.2.1
  · exact h.2.2.1
  · exact h.2.2.2.1
  · exact h.2.2.2.2.1
  · exact h.2.2.2.2.2.1
  · exact h.2.2.2.2.2.2.1
  · exact h.2.2.2.2.2.2.2.1
  · exact h.2.2.2.2.2.2.2.2

/-- C17: a document that `loadScenario` accepts is accepted by `load`, and its scenario is
`toScenario` of what `load` returns — the chain has no other source of data -/
theorem C17_loadScenario_factors (doc : Y) (sc : Scenario) (h : loadScenario doc = some sc) :
    ∃ L, load doc = .ok L ∧ L.toScenario = some sc := by
  unfold loadScenario at h
  cases hl : load doc with
  | error e => simp [hl] at h
  | ok L => exact ⟨L, rfl, by simpa [hl] using h⟩

end NASim.Load

namespace NASim.Load

theorem accessOf_range {y : Y} {a : Nat} (h : accessOf y = some a) : 1 ≤ a ∧ a ≤ 2 := by
  unfold accessOf at h
  split at h
  · split at h
    · injection h with h; omega
    · split at h
      · injection h with h; omega
      · cases h
  · split at h
    · injection h with h; omega
    · split at h
      · injection h with h; omega
      · cases h
  · split at h
    · injection h with h; omega
    · cases h
  · cases h

theorem mem_of_allSome {α} {l : List (Option α)} {r : List α} (h : allSome l = some r) {b : α} (hb : b ∈ r) :
    some b ∈ l := by
  rw [← allSome_map h]; exact List.mem_map_of_mem hb

/-- C17: every exploit / escalation of a scenario loaded from a file grants USER or ROOT — the
hypothesis (`ActOk`) under which the history theorems of C01–C05 are stated holds for the whole
action space of every loaded scenario -/
theorem C17_loaded_grants (doc : Y) (sc : Scenario) (h : loadScenario doc = some sc) : GrantsOk sc := by
  obtain ⟨L, hl, hs⟩ := C17_loadScenario_factors doc sc h
  cases doc with
  | map m =>
    obtain ⟨S, _, hA, rfl⟩ := C17_denotes m L hl
    unfold Loaded.toScenario at hs
    simp only [Option.bind_eq_bind, Option.bind_eq_some_iff, Option.pure_def, Option.some.injEq] at hs
    obtain ⟨sens, _, exploits, hex, privescs, hpr, fw, _, hosts, _, c1, _, c2, _, c3, _, c4, _, rfl⟩ := hs
    constructor
    · intro e he
      have hm := mem_of_allSome hex he
      obtain ⟨x, hx, hxe⟩ := List.mem_map.mp hm
      simp only [build] at hx
      have hxs : (S.exploitsL.getD []).map some =
          (mapOf S.exploits).map fun kv => parseExploit (listOf S.services) (listOf S.os) kv.1 kv.2 := by
        have := hA.exploits
        unfold Sect.exploitsL at this ⊢
        cases hr : allSome ((mapOf S.exploits).map fun kv => parseExploit (listOf S.services) (listOf S.os) kv.1 kv.2) with
        | none => simp [hr] at this
        | some r => simpa using allSome_map hr
      have : some x ∈ (S.exploitsL.getD []).map some := List.mem_map_of_mem hx
      rw [hxs] at this
      obtain ⟨kv, _, hkv⟩ := List.mem_map.mp this
      obtain ⟨em, svc, osv, prob, cost, acc, os', p, c, a, _, _, _, _, _, _, _, _, _, _, hacc, _, _, _, _, rfl⟩ :=
        parseExploit_some hkv
      unfold ExplL.toDef at hxe
      simp only [Option.bind_eq_bind, Option.bind_eq_some_iff, Option.pure_def, Option.some.injEq] at hxe
      obtain ⟨_, _, _, _, _, _, rfl⟩ := hxe
      exact accessOf_range hacc
    · intro e he
      have hm := mem_of_allSome hpr he
      obtain ⟨x, hx, hxe⟩ := List.mem_map.mp hm
      simp only [build] at hx
      have hxs : (S.privescsL.getD []).map some =
          (mapOf S.privescs).map fun kv => parsePrivesc (listOf S.processes) (listOf S.os) kv.1 kv.2 := by
        have := hA.privescs
        unfold Sect.privescsL at this ⊢
        cases hr : allSome ((mapOf S.privescs).map fun kv => parsePrivesc (listOf S.processes) (listOf S.os) kv.1 kv.2) with
        | none => simp [hr] at this
        | some r => simpa using allSome_map hr
      have : some x ∈ (S.privescsL.getD []).map some := List.mem_map_of_mem hx
      rw [hxs] at this
      obtain ⟨kv, _, hkv⟩ := List.mem_map.mp this
      obtain ⟨em, svc, osv, prob, cost, acc, os', p, c, a, _, _, _, _, _, _, _, _, _, _, hacc, _, _, _, _, rfl⟩ :=
        parsePrivesc_some hkv
      unfold PrivL.toDef at hxe
      simp only [Option.bind_eq_bind, Option.bind_eq_some_iff, Option.pure_def, Option.some.injEq] at hxe
      obtain ⟨_, _, _, _, _, _, rfl⟩ := hxe
      exact accessOf_range hacc
  | _ => simp [load] at hl


/-- C17: hence the history theorems hold of every history over a loaded scenario's action space
with no further hypothesis; instance: C04 (configuration immutable, progress monotone) -/
theorem C17_loaded_histories (doc : Y) (sc : Scenario) (h : loadScenario doc = some sc) {st : State}
    (hr : ReachFlat sc st) :
    Reach sc.net sc.init st ∧ st.map cfg = sc.init.map cfg ∧ StateLe sc.init st := by
  have hreach := reach_of_reachFlat (C17_loaded_grants doc sc h) hr
  exact ⟨hreach, C04_history sc.net sc.init st (accOk_init sc) hreach⟩


theorem length_of_allSome {α} {l : List (Option α)} {r : List α} (h : allSome l = some r) : r.length = l.length := by
  have := congrArg List.length (allSome_map h); simpa using this

/-- C17: the scenario the environment runs has the loaded document's subnets, topology, numbers of
OS / services / processes, step limit, one exploit / escalation / rule / host per loaded one (in the
file's order), the default address-space bounds, and every exploit's service index denotes the
service name the file wrote, with the file's probability and normalised access -/
theorem C17_scenario_shape (L : Loaded) (sc : Scenario) (h : L.toScenario = some sc) :
    sc.subnets = L.subnets ∧ sc.topo = L.topology ∧ sc.nOs = L.os.length ∧ sc.nSvc = L.services.length ∧
    sc.nProc = L.processes.length ∧ sc.stepLimit = L.stepLimit ∧
    sc.bounds = (L.subnets.length, L.subnets.foldl max 0) ∧
    sc.exploits.length = L.exploits.length ∧ sc.privescs.length = L.privescs.length ∧
    sc.fw.length = L.firewall.length ∧ sc.hosts.length = L.hosts.length ∧
    (∀ e ∈ sc.exploits, ∃ x ∈ L.exploits, idxOf x.service L.services = some e.svc ∧ e.prob = x.prob ∧
      e.access = x.access ∧ units x.cost = some e.cost) ∧
    (∀ hd ∈ sc.hosts, ∃ x ∈ L.hosts, hd.addr = x.addr ∧ hd.os = x.os ∧ hd.svc = x.services ∧
      hd.proc = x.processes ∧ units x.value = some hd.value ∧ hd.dvalue = 0) := by
  unfold Loaded.toScenario at h
  simp only [Option.bind_eq_bind, Option.bind_eq_some_iff, Option.pure_def, Option.some.injEq] at h
  obtain ⟨sens, _, exploits, hex, privescs, hpr, fw, hfw, hosts, hho, c1, _, c2, _, c3, _, c4, _, rfl⟩ := h
  refine ⟨rfl, rfl, rfl, rfl, rfl, rfl, rfl, ?_, ?_, ?_, ?_, ?_, ?_⟩
  · simpa using length_of_allSome hex
  · simpa using length_of_allSome hpr
  · simpa using length_of_allSome hfw
  · simpa using length_of_allSome hho
  · intro e he
    obtain ⟨x, hx, hxe⟩ := List.mem_map.mp (mem_of_allSome hex he)
    unfold ExplL.toDef at hxe
    simp only [Option.bind_eq_bind, Option.bind_eq_some_iff, Option.pure_def, Option.some.injEq] at hxe
    obtain ⟨svc, hsvc, o, _, cost, hcost, rfl⟩ := hxe
    exact ⟨x, hx, hsvc, rfl, rfl, hcost⟩
  · intro hd hhd
    obtain ⟨x, hx, hxe⟩ := List.mem_map.mp (mem_of_allSome hho hhd)
    unfold HostL.toDef at hxe
    simp only [Option.bind_eq_bind, Option.bind_eq_some_iff, Option.pure_def, Option.some.injEq] at hxe
    obtain ⟨value, hval, fw', _, rfl⟩ := hxe
    exact ⟨x, hx, rfl, rfl, rfl, rfl, hval, rfl⟩

end NASim.Load
