import NasimModel.Generated.SrcBound
import NasimModel.Proofs.SrcTie
import NasimModel.Props.C20
/-!
# Source tie: the hop count and the advertised score bound

`get_minimal_hops_to_goal` (distance matrix written through two nested loops, Floyd–Warshall with the `int16`
infinity, the subnets to visit, the minimum over all permutations of the path length in the metric closure), the
two totals of `Network` and `NASimEnv.get_score_upper_bound`, translated from their source text
(`Generated/SrcBound.lean`), are the model's `hops` and `scoreUpperBound`.
-/
open NASim
namespace NASim

theorem ite_decide {α : Type} (p : Prop) [Decidable p] (a b : α) :
    (if decide p = true then a else b) = if p then a else b := by
  by_cases h : p <;> simp [h]

theorem dset_length (d : List (List Nat)) (i j v : Nat) : (dset d i j v).length = d.length := by
  simp [dset]

theorem foldl_length_inv {α : Type} (l : List α) (d : List (List Nat)) (f : List (List Nat) → α → List (List Nat))
    (hf : ∀ d x, (f d x).length = d.length) : (l.foldl f d).length = d.length := by
  induction l generalizing d with
  | nil => rfl
  | cons x xs ih => simp only [List.foldl_cons]; rw [ih, hf]

theorem initDist_length (topo : List (List Int)) : (initDist topo).length = topo.length := by
  unfold initDist
  rw [foldl_length_inv]
  · simp
  · intro d s1
    apply foldl_length_inv
    intro d s2
    split
    · exact dset_length ..
    · split
      · exact dset_length ..
      · rfl

theorem pathLen_range (d : List (List Nat)) (l : List Nat) (acc : Nat) :
    (List.range (l.length - 1)).foldl (fun acc i => acc + dget d (PyRt.natAt l i) (PyRt.natAt l (i + 1))) acc =
      acc + pathLen d l := by
  induction l generalizing acc with
  | nil => simp [pathLen]
  | cons a rest ih =>
    cases rest with
    | nil => simp [pathLen]
    | cons b rest =>
      have hlen : (a :: b :: rest).length - 1 = ((b :: rest).length - 1) + 1 := by simp
      rw [hlen, List.range_succ_eq_map, List.foldl_cons, List.foldl_map]
      have := ih (acc + dget d a b)
      simp only [PyRt.natAt, List.getD_cons_zero, List.getD_cons_succ, pathLen] at this ⊢
      rw [this]; omega

/-- `get_minimal_hops_to_goal` on the scenario's topology and sensitive addresses is the model's `hops` -/
theorem Src_hops (sc : Scenario) : SrcBound.Network.get_minimal_hops sc = hops sc := by
  unfold SrcBound.Network.get_minimal_hops SrcBound.get_minimal_hops_to_goal hops PyRt.int16Max PyRt.full2 PyRt.permutations
  simp only [forEach_next]
  -- the subnets to visit
  have hv : List.foldl (fun (s : List Nat) (x : Addr) =>
        match x with
        | (subnet, host) => if (!s.contains subnet) = true then s ++ [subnet] else s) [0] (sc.sens.map (·.1)) =
      subnetsToVisit sc.sens := by
    unfold subnetsToVisit
    rw [List.foldl_map]
    congr 1
    funext acc p
    obtain ⟨⟨a, b⟩, v⟩ := p
    cases h : acc.contains a <;> simp_all
  simp only [hv]
  -- the minimum over the permutations
  have hp : ∀ (d : List (List Nat)) (perms : List (List Nat)) (init : Nat),
      List.foldl (fun (s : Nat) (pm : List Nat) =>
        min s (List.foldl (fun s i => s + dget d (PyRt.natAt pm i) (PyRt.natAt pm (i + 1))) 0 (List.range (pm.length - 1))))
        init perms = (perms.map (pathLen d)).foldl min init := by
    intro d perms init
    rw [List.foldl_map]
    congr 1
    funext s pm
    rw [pathLen_range]; simp
  simp only [hp]
  simp only [decide_eq_true_eq]
  have hl : (initDist sc.topo).length = sc.topo.length := initDist_length sc.topo
  unfold floydWarshall
  simp only [hl]
  unfold initDist INF
  rfl

theorem foldl_add_int (l : List Int) (init : Int) : l.foldl (fun t x => t + x) init = l.foldl (· + ·) init := rfl

/-- `NASimEnv.get_score_upper_bound` is the model's `scoreUpperBound` (units of 1/64) -/
theorem Src_score_upper_bound (e : Env) : SrcBound.NASimEnv.get_score_upper_bound e = scoreUpperBound e.sc := by
  unfold SrcBound.NASimEnv.get_score_upper_bound scoreUpperBound SrcBound.Network.get_total_sensitive_host_value
    SrcBound.Network.get_total_discovery_value
  simp only [forEach_next, Src_hops]
  simp only [List.foldl_map]

theorem Src_minimum_hops (e : Env) : SrcBound.NASimEnv.get_minimum_hops e = hops e.sc := Src_hops e.sc

end NASim
