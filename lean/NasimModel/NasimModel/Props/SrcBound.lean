import NasimModel.Generated.SrcBound
import NasimModel.Proofs.SrcTie
import NasimModel.Props.C20
import NasimModel.Props.C10
/-!
# Source tie: the hop count and the advertised score bound

`get_minimal_hops_to_goal` (distance matrix written through two nested loops, Floyd–Warshall with the `int16`
infinity, the subnets to visit, the minimum over all permutations of the path length in the metric closure), the
two totals of `Network` and `NASimEnv.get_score_upper_bound`, translated from their source text
(`Generated/SrcBound.lean`), are the model's `hops` and `scoreUpperBound`.
-/
open NASim
namespace NASim

theorem ite_decide {α : Type} (p : Prop) [Decidable p] (a b : α) :
    (if decide p = true then a else b) = if p then a else b := by
  by_cases h : p <;> simp [h]

theorem dset_length (d : List (List Nat)) (i j v : Nat) : (dset d i j v).length = d.length := by
  simp [dset]

theorem foldl_length_inv {α : Type} (l : List α) (d : List (List Nat)) (f : List (List Nat) → α → List (List Nat))
    (hf : ∀ d x, (f d x).length = d.length) : (l.foldl f d).length = d.length := by
  induction l generalizing d with
  | nil => rfl
  | cons x xs ih => simp only [List.foldl_cons]; rw [ih, hf]

theorem initDist_length (topo : List (List Int)) : (initDist topo).length = topo.length := by
  unfold initDist
  rw [foldl_length_inv]
  · simp
  · intro d s1
    apply foldl_length_inv
    intro d s2
    split
    · exact dset_length ..
    · split
      · exact dset_length ..
      · rfl

theorem pathLen_range (d : List (List Nat)) (l : List Nat) (acc : Nat) :
    (List.range (l.length - 1)).foldl (fun acc i => acc + dget d (PyRt.natAt l i) (PyRt.natAt l (i + 1))) acc =
      acc + pathLen d l := by
  induction l generalizing acc with
  | nil => simp [pathLen]
  | cons a rest ih =>
    cases rest with
    | nil => simp [pathLen]
    | cons b rest =>
      have hlen : (a :: b :: rest).length - 1 = ((b :: rest).length - 1) + 1 := by simp
      rw [hlen, List.range_succ_eq_map, List.foldl_cons, List.foldl_map]
      have := ih (acc + dget d a b)
      simp only [PyRt.natAt, List.getD_cons_zero, List.getD_cons_succ, pathLen] at this ⊢
      rw [this]; omega

/-- `get_minimal_hops_to_goal` on the scenario's topology and sensitive addresses is the model's `hops` -/
theorem Src_hops (sc : Scenario) : SrcBound.Network.get_minimal_hops sc = hops sc := by
  unfold SrcBound.Network.get_minimal_hops SrcBound.get_minimal_hops_to_goal hops PyRt.int16Max PyRt.full2 PyRt.permutations
  simp only [forEach_next]
  -- the subnets to visit
  have hv : List.foldl (fun (s : List Nat) (x : Addr) =>
        match x with
        | (subnet, host) => if (!s.contains subnet) = true then s ++ [subnet] else s) [0] (sc.sens.map (·.1)) =
      subnetsToVisit sc.sens := by
    unfold subnetsToVisit
    rw [List.foldl_map]
    congr 1
    funext acc p
    obtain ⟨⟨a, b⟩, v⟩ := p
    cases h : acc.contains a <;> simp_all
  simp only [hv]
  -- the minimum over the permutations
  have hp : ∀ (d : List (List Nat)) (perms : List (List Nat)) (init : Nat),
      List.foldl (fun (s : Nat) (pm : List Nat) =>
        min s (List.foldl (fun s i => s + dget d (PyRt.natAt pm i) (PyRt.natAt pm (i + 1))) 0 (List.range (pm.length - 1))))
        init perms = (perms.map (pathLen d)).foldl min init := by
    intro d perms init
    rw [List.foldl_map]
    congr 1
    funext s pm
    rw [pathLen_range]; simp
  simp only [hp]
  simp only [decide_eq_true_eq]
  have hl : (initDist sc.topo).length = sc.topo.length := initDist_length sc.topo
  unfold floydWarshall
  simp only [hl]
  unfold initDist INF
  rfl

theorem foldl_add_int (l : List Int) (init : Int) : l.foldl (fun t x => t + x) init = l.foldl (· + ·) init := rfl

/-- `NASimEnv.get_score_upper_bound` is the model's `scoreUpperBound` (units of 1/64) -/
theorem Src_score_upper_bound (e : Env) : SrcBound.NASimEnv.get_score_upper_bound e = scoreUpperBound e.sc := by
  unfold SrcBound.NASimEnv.get_score_upper_bound scoreUpperBound SrcBound.Network.get_total_sensitive_host_value
    SrcBound.Network.get_total_discovery_value
  simp only [forEach_next, Src_hops]
  simp only [List.foldl_map]

theorem Src_minimum_hops (e : Env) : SrcBound.NASimEnv.get_minimum_hops e = hops e.sc := Src_hops e.sc

/-! ### the Box bounds of the observation space (C10) -/

open PyRt in
theorem Ext.min_assoc (a b c : Ext) : Ext.min a (Ext.min b c) = Ext.min (Ext.min a b) c := by
  cases a <;> cases b <;> cases c <;> simp [Ext.min, Int.min_assoc]

open PyRt in
theorem Ext.max_assoc (a b c : Ext) : Ext.max a (Ext.max b c) = Ext.max (Ext.max a b) c := by
  cases a <;> cases b <;> cases c <;> simp [Ext.max, Int.max_assoc]

open PyRt in
theorem foldl_emin_out (l : List Int) (a X : Ext) :
    Ext.min a (l.foldl (fun m x => Ext.min m (.fin x)) X) = l.foldl (fun m x => Ext.min m (.fin x)) (Ext.min a X) := by
  induction l generalizing X with
  | nil => rfl
  | cons x xs ih => simp only [List.foldl_cons]; rw [ih, Ext.min_assoc]

open PyRt in
theorem foldl_emax_out (l : List Int) (a X : Ext) :
    Ext.max a (l.foldl (fun m x => Ext.max m (.fin x)) X) = l.foldl (fun m x => Ext.max m (.fin x)) (Ext.max a X) := by
  induction l generalizing X with
  | nil => rfl
  | cons x xs ih => simp only [List.foldl_cons]; rw [ih, Ext.max_assoc]

open PyRt in
theorem foldl_emin_fin (l : List Int) (e : Int) :
    l.foldl (fun m x => Ext.min m (.fin x)) (.fin e) = .fin (l.foldl min e) := by
  induction l generalizing e with
  | nil => rfl
  | cons x xs ih => simp only [List.foldl_cons, Ext.min]; exact ih _

open PyRt in
theorem foldl_emax_fin (l : List Int) (e : Int) :
    l.foldl (fun m x => Ext.max m (.fin x)) (.fin e) = .fin (l.foldl max e) := by
  induction l generalizing e with
  | nil => rfl
  | cons x xs ih => simp only [List.foldl_cons, Ext.max]; exact ih _

theorem foldl_pair {α σ τ : Type} (l : List α) (f : σ → α → σ) (g : τ → α → τ) (a : σ) (b : τ) :
    l.foldl (fun (st : σ × τ) x => (f st.1 x, g st.2 x)) (a, b) = (l.foldl f a, l.foldl g b) := by
  induction l generalizing a b with
  | nil => rfl
  | cons x xs ih => simp only [List.foldl_cons]; exact ih _ _

open PyRt in
theorem Src_value_bounds (sc : Scenario) :
    SrcBound.Scenario.host_value_bounds sc =
      ((sc.hosts.map (·.value)).foldl (fun m x => Ext.min m (.fin x)) .posInf,
       (sc.hosts.map (·.value)).foldl (fun m x => Ext.max m (.fin x)) .negInf) ∧
    SrcBound.Scenario.host_discovery_value_bounds sc =
      ((sc.hosts.map (·.dvalue)).foldl (fun m x => Ext.min m (.fin x)) .posInf,
       (sc.hosts.map (·.dvalue)).foldl (fun m x => Ext.max m (.fin x)) .negInf) := by
  constructor
  · unfold SrcBound.Scenario.host_value_bounds
    simp only [List.foldl_map]
    have := foldl_pair sc.hosts (fun (m : Ext) (h : HostDef) => Ext.min m (.fin h.value))
      (fun (m : Ext) (h : HostDef) => Ext.max m (.fin h.value)) .posInf .negInf
    simp only [forEach_next]
    rw [this]
  · unfold SrcBound.Scenario.host_discovery_value_bounds
    simp only [List.foldl_map]
    have := foldl_pair sc.hosts (fun (m : Ext) (h : HostDef) => Ext.min m (.fin h.dvalue))
      (fun (m : Ext) (h : HostDef) => Ext.max m (.fin h.dvalue)) .posInf .negInf
    simp only [forEach_next]
    rw [this]

open PyRt in
theorem Ext.min_fin_posInf (a : Int) : Ext.min (.fin a) .posInf = .fin a := rfl
open PyRt in
theorem Ext.max_fin_negInf (a : Int) : Ext.max (.fin a) .negInf = .fin a := rfl
open PyRt in
theorem Ext.min_fin_fin (a b : Int) : Ext.min (.fin a) (.fin b) = .fin (min a b) := rfl
open PyRt in
theorem Ext.max_fin_fin (a b : Int) : Ext.max (.fin a) (.fin b) = .fin (max a b) := rfl

/-- `Observation.get_space_bounds`: the Box bounds of the observation space are the model's `obsLow` / `obsHigh`
(units of 1/64) -/
theorem Src_space_bounds (sc : Scenario) :
    SrcBound.Observation.get_space_bounds sc = (.fin (obsLow sc), .fin (obsHigh sc)) := by
  unfold SrcBound.Observation.get_space_bounds obsLow obsHigh listMin listMax
  simp only [(Src_value_bounds sc).1, (Src_value_bounds sc).2]
  simp only [foldl_emin_out, foldl_emax_out, Ext.min_fin_posInf, Ext.max_fin_negInf, foldl_emin_fin, foldl_emax_fin,
    Ext.min_fin_fin, Ext.max_fin_fin, List.foldl_append, List.foldl_cons, List.foldl_nil]
  simp

end NASim
