import NasimModel.Props.SrcBase
/-!
# Source tie: `Network._update` / `_update_reachable`
-/
open NASim
namespace NASim

/-- `Network._update_reachable` -/
theorem Src_update_reachable (n : Net) (s : State) (c : Addr) (hwf : WF s) (hs : Sync n s) :
    Src.Network._update_reachable n s c = s.map (reachRow n c.1) := by
  unfold Src.Network._update_reachable
  dsimp only
  rw [hs, forEach_rows0 s hwf (reachRow n c.1) (fun r => reachRow_addr n c.1 r)]
  intro pre r post _ hpre hpost
  have hg := get_split (pre.map (reachRow n c.1)) post r r.addr rfl hpre
  have hu := fun g => updHost_split (pre.map (reachRow n c.1)) post r r.addr g rfl hpre hpost
  simp only [Src.State.host_reachable, Src.State.set_host_reachable, PyRt.getHost, src_conn, hg, hu]
  unfold reachRow
  by_cases h1 : r.reach = true <;> by_cases h2 : n.conn c.1 r.addr.1 = true <;> simp [h1, h2]


/-- `Network._update` -/
theorem Src_update (n : Net) (s : State) (a : Action) (res : Result) (hwf : WF s) (hs : Sync n s) :
    Src.Network._update n s a res = if a.kind == .exploit && res.success then s.map (reachRow n a.target.1) else s := by
  unfold Src.Network._update
  simp only [Src.Action.is_exploit, Src_update_reachable n s a.target hwf hs]

end NASim
