import NasimModel.Model.Env
import NasimModel.Proofs.Inv
/-!
# C03 — reachability and discovery follow compromise exactly

`Inv3 n s`: every row is reachable iff its subnet is public or connected *from* the subnet of a
compromised row (`topology[c][r]`, the direction the code reads; for the symmetric topologies the
documentation prescribes this is "connected to"), compromised ⇒ discovered ⇒ reachable.
-/
namespace NASim

/-- C03: the invariant holds in the initial state of every scenario -/
theorem C03_init (sc : Scenario) : Inv3 sc.net sc.init := inv3_reset sc.net sc.cfgRows

/-- C03: the invariant holds in every state reachable by any history of actions and draws,
of any length, from the initial state of a scenario whose hosts have distinct addresses -/
theorem C03_invariant (sc : Scenario) (s : State) (hwf : WF sc.cfgRows)
    (hr : Reach sc.net sc.init s) : Inv3 sc.net s :=
  (reach_inv3 sc.net _ s (reset_wf sc.net _ hwf) (inv3_reset sc.net _) hr).2

/-- for symmetric topologies the invariant reads "connected to a subnet that contains a
compromised host" in either direction -/
theorem C03_invariant_symmetric (sc : Scenario) (s : State) (hwf : WF sc.cfgRows)
    (hsym : ∀ x y, sc.net.conn x y = sc.net.conn y x)
    (hr : Reach sc.net sc.init s) :
    ∀ r ∈ s, (r.reach = true ↔ (sc.net.pub r.addr.1 = true ∨
      ∃ c ∈ s, c.comp = true ∧ sc.net.conn r.addr.1 c.addr.1 = true)) := by
  intro r hr'
  have := (C03_invariant sc s hwf hr r hr').1
  rw [this]
  constructor
  · rintro (h | ⟨c, hc, h1, h2⟩)
    · exact Or.inl h
    · exact Or.inr ⟨c, hc, h1, by rw [hsym]; exact h2⟩
  · rintro (h | ⟨c, hc, h1, h2⟩)
    · exact Or.inl h
    · exact Or.inr ⟨c, hc, h1, by rw [hsym]; exact h2⟩

/-- C03: at reset a host is discovered (and reachable) exactly when its subnet is public -/
theorem C03_reset_discovery (n : Net) (s : State) :
    ∀ r ∈ reset n s, r.disc = n.pub r.addr.1 ∧ r.reach = n.pub r.addr.1 ∧ r.comp = false := by
  intro r hr
  obtain ⟨r0, _, rfl⟩ := List.mem_map.mp hr
  simp

/-- C03: a row becomes discovered in a step only through a successful subnet scan run on a
compromised host whose subnet is connected to the row's subnet -/
theorem C03_discovery_only_by_scan (n : Net) (s : State) (a : Action) (u : Rat) (r : Row)
    (h0 : r.disc = false) (h1 : (stepRow n s a u r).disc = true) :
    a.kind = .subnetScan ∧ (perform n s a u).2.1.success = true ∧
    (s.get a.target).comp = true ∧ a.req ≤ (s.get a.target).access ∧
    n.conn a.target.1 r.addr.1 = true := by
  unfold stepRow at h1
  cases hg : gate n s a with
  | noop => simp [hg, h0] at h1
  | fail _ => simp [hg, h0] at h1
  | pass =>
    simp only [hg] at h1
    split at h1
    · simp [h0] at h1
    · rename_i hc
      unfold effRow at h1
      by_cases hk : a.kind == .subnetScan
      · simp only [hk, if_true] at h1
        split at h1
        · rename_i hok
          rw [discRow_disc, h0] at h1
          simp only [Bool.and_eq_true, hasAccess, decide_eq_true_eq] at hok
          refine ⟨by simpa using hk, ?_, hok.1, hok.2, by simpa using h1⟩
          unfold perform; simp only [hg, hc, if_false]
          unfold effect subnetScan
          simp [hk, hok.1, hasAccess, hok.2]
        · simp [h0] at h1
      · simp only [hk] at h1
        simp only [Bool.false_eq_true, if_false] at h1
        split at h1 <;> split at h1 <;> simp [h0] at h1

/-- C03: a successful subnet scan discovers exactly the hosts of every connected subnet:
afterwards a row is discovered iff it was before or its subnet is connected -/
theorem C03_scan_discovers (n : Net) (s : State) (a : Action) (u : Rat)
    (hk : a.kind = .subnetScan) (hs : (perform n s a u).2.1.success = true) (r : Row) :
    (stepRow n s a u r).disc = (r.disc || n.conn a.target.1 r.addr.1) := by
  have hk' : a.kind ≠ .noop := by simp [hk]
  have hg : gate n s a = .pass := by
    unfold perform at hs
    cases hg : gate n s a with
    | noop => unfold gate at hg; simp [hk] at hg; repeat' split at hg
              all_goals simp_all
    | fail r =>
      simp only [hg] at hs
      unfold gate at hg; repeat' split at hg
      all_goals simp_all
      all_goals (subst hg; simp at hs)
    | pass => rfl
  have hc : ¬ (drawsNeeded s a = 1 ∧ u > a.prob) := by
    intro hc; unfold perform at hs; simp [hg, hc, chanceFail] at hs
  have hres : (subnetScan n s a).2.success = true := by
    unfold perform at hs; simp only [hg, hc, if_false] at hs
    unfold effect at hs; simpa [hk] using hs
  have hok : ((s.get a.target).comp && hasAccess (s.get a.target) a.req) = true := by
    revert hres; unfold subnetScan; simp only []
    repeat' split
    all_goals simp_all
  unfold stepRow; simp only [hg, hc, if_false]
  unfold effRow; simp only [hk, beq_self_eq_true, if_true, hok]
  exact discRow_disc n _ r

end NASim
