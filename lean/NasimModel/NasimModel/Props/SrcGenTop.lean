import NasimModel.Props.SrcGen
import NasimModel.Props.C16Gen
/-!
# The generator's vulnerability invariant, about the translated predicate

`C16_generated_structure` (1) says every sensitive host of a generated scenario is ROOT-vulnerable in the model's sense
(`hostVulnerable`).  With `Src_host_is_vulnerable` (the translated `ScenarioGenerator._host_is_vulnerable` *is*
`hostVulnerable` for escalation definitions that name a process) and `C15_privescs` (the generator's escalations always
name one), the invariant is a statement about the repository's own predicate: the test `_ensure_host_vulnerability`
applies would succeed on every sensitive host of the scenario it returns.
-/
open NASim NASim.Gen
namespace NASim

/-- for every parameter set and every decision stream: the translated `_host_is_vulnerable(host, ROOT_ACCESS)` holds of
every sensitive host of the generated scenario -/
theorem Src_sensitive_hosts_vulnerable {p : Params} {s s' : List Tok} {sc : Scenario}
    (h : generate p s = .ok (sc, s')) :
    ∀ hd ∈ sc.hosts, (sc.sens.lookup hd.addr).isSome = true →
      SrcGen.ScenarioGenerator._host_is_vulnerable sc.exploits sc.privescs hd 2 = true := by
  intro hd hhd hsens
  have hps : ∀ pe ∈ sc.privescs, pe.proc.isSome = true := by
    intro pe hpe
    obtain ⟨⟨pr, hpr, _⟩, _⟩ := (C15_privescs h).1 pe hpe
    rw [hpr]; rfl
  rw [Src_host_is_vulnerable sc.exploits sc.privescs hd 2 hps]
  exact (C16_generated_structure h).1 hd hhd hsens

end NASim
