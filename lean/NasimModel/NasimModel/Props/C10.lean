import NasimModel.Model.Env
import NasimModel.Props.C11
/-!
# C10 — Gymnasium contract (value-level part)

What a Lean model can express: shapes, the Box bounds covering every entry that can occur, and
totality of action decoding (`C11_param_in_flat`, `C11_flat_index`). dtype `float32`,
`Box.contains`, acceptance of NumPy scalars / arrays and the shape of the returned tuples are
Python-runtime facts; the LAYOUT suite checks them directly on the implementation.
-/
namespace NASim

/-- a row carries one flag per OS / service / process of the layout -/
def RowFits (L : Layout) (r : Row) : Prop :=
  r.os.length = L.nOs ∧ r.svc.length = L.nSvc ∧ r.proc.length = L.nProc

theorem stateSize_eq (L : Layout) : L.stateSize = L.b0 + L.b1 + 6 + L.nOs + L.nSvc + L.nProc := by
  simp [Layout.stateSize, Layout.procStart, Layout.svcStart, Layout.osStart, Layout.accessIdx,
    Layout.dvalueIdx, Layout.valueIdx, Layout.discIdx, Layout.reachIdx, Layout.compIdx,
    Layout.hostIdx]

theorem encodeRow_length (L : Layout) (r : Row) (h : RowFits L r) :
    (encodeRow L r).length = L.stateSize := by
  obtain ⟨h1, h2, h3⟩ := h
  simp [encodeRow, onehot, stateSize_eq, h1, h2, h3]; omega

theorem observeRow_length (L : Layout) (r : Row) (m : Mask) (h : RowFits L r) :
    (observeRow L r m).length = L.stateSize := by
  obtain ⟨h1, h2, h3⟩ := h
  unfold observeRow
  cases m.address <;> cases m.os <;> cases m.svc <;> cases m.proc <;>
    simp [onehot, zeros, stateSize_eq, h1, h2, h3] <;> omega

theorem auxRow_length (L : Layout) (r : Result) : (auxRow L.stateSize r).length = L.stateSize := by
  simp [auxRow, zeros, stateSize_eq]; omega

/-- C10: every observation (either mode) has one row per host plus the auxiliary row, each of the
advertised width — the 2D shape `(hosts + 1, state_size)`, which is also
`Scenario.get_observation_dims` -/
theorem C10_obs_shape (L : Layout) (s' : State) (a : Action) (r : Result) (fo : Bool)
    (hfit : ∀ x ∈ s', RowFits L x) :
    (observe L s' a r fo).length = s'.length + 1 ∧
    ∀ row ∈ observe L s' a r fo, row.length = L.stateSize := by
  unfold observe
  cases fo
  · simp only [Bool.false_eq_true, if_false]
    refine ⟨by simp, ?_⟩
    intro row hrow
    rcases List.mem_append.mp hrow with h | h
    · obtain ⟨x, hx, rfl⟩ := List.mem_map.mp h
      exact observeRow_length L x _ (hfit x hx)
    · simp at h; rw [h]; exact auxRow_length L r
  · simp only [if_true]
    refine ⟨by simp, ?_⟩
    intro row hrow
    rcases List.mem_append.mp hrow with h | h
    · obtain ⟨x, hx, rfl⟩ := List.mem_map.mp h
      exact encodeRow_length L x (hfit x hx)
    · simp at h; rw [h]; exact auxRow_length L r

theorem flatten_length_const (o : List (List Int)) (w : Nat) (h : ∀ row ∈ o, row.length = w) :
    o.flatten.length = o.length * w := by
  induction o with
  | nil => simp
  | cons x xs ih =>
    simp only [List.flatten_cons, List.length_append, List.length_cons]
    rw [h x (List.mem_cons_self ..), ih (fun r hr => h r (List.mem_cons_of_mem _ hr))]
    rw [Nat.add_mul]; omega

/-- C10: the 1D observation has the advertised length `(hosts + 1) * state_size` -/
theorem C10_flat_shape (L : Layout) (s' : State) (a : Action) (r : Result) (fo : Bool)
    (hfit : ∀ x ∈ s', RowFits L x) :
    (flatten2 (observe L s' a r fo)).length = (s'.length + 1) * L.stateSize := by
  obtain ⟨h1, h2⟩ := C10_obs_shape L s' a r fo hfit
  unfold flatten2
  rw [flatten_length_const _ _ h2, h1]

theorem foldl_min_le (l : List Int) (d : Int) : l.foldl min d ≤ d ∧ ∀ x ∈ l, l.foldl min d ≤ x := by
  induction l generalizing d with
  | nil => simp
  | cons y ys ih =>
    simp only [List.foldl_cons]
    obtain ⟨h1, h2⟩ := ih (min d y)
    refine ⟨by omega, ?_⟩
    intro x hx
    rcases List.mem_cons.mp hx with rfl | hx
    · omega
    · exact h2 x hx

theorem le_foldl_max (l : List Int) (d : Int) : d ≤ l.foldl max d ∧ ∀ x ∈ l, x ≤ l.foldl max d := by
  induction l generalizing d with
  | nil => simp
  | cons y ys ih =>
    simp only [List.foldl_cons]
    obtain ⟨h1, h2⟩ := ih (max d y)
    refine ⟨by omega, ?_⟩
    intro x hx
    rcases List.mem_cons.mp hx with rfl | hx
    · omega
    · exact h2 x hx

/-- C10: the Box bounds cover every value that can occur in an observation: every host value and
discovery value of the scenario (of any sign), the flags 0/1, the access levels up to ROOT -/
theorem C10_bounds_cover (sc : Scenario) :
    (∀ h ∈ sc.hosts, obsLow sc ≤ h.value ∧ h.value ≤ obsHigh sc
        ∧ obsLow sc ≤ h.dvalue ∧ h.dvalue ≤ obsHigh sc)
    ∧ obsLow sc ≤ 0 ∧ 64 * 1 ≤ obsHigh sc ∧ 64 * 2 ≤ obsHigh sc := by
  unfold obsLow obsHigh listMin listMax
  refine ⟨fun h hh => ⟨?_, ?_, ?_, ?_⟩, (foldl_min_le _ 0).1, (le_foldl_max _ 64).1, ?_⟩
  · exact (foldl_min_le _ 0).2 _ (by simp; exact Or.inl ⟨h, hh, rfl⟩)
  · exact (le_foldl_max _ 64).2 _ (by simp; exact Or.inl ⟨h, hh, rfl⟩)
  · exact (foldl_min_le _ 0).2 _ (by simp; exact Or.inr ⟨h, hh, rfl⟩)
  · exact (le_foldl_max _ 64).2 _ (by simp; exact Or.inr (Or.inl ⟨h, hh, rfl⟩))
  · exact (le_foldl_max _ 64).2 _ (by simp)

/-- C10: every entry of a host row other than the two value columns is 0, 1 or an access level -/
theorem C10_entries_small (L : Layout) (r : Row) (hacc : r.access ≤ 2) :
    ∀ x ∈ onehot L.b0 r.addr.1 ++ onehot L.b1 r.addr.2
          ++ [bi r.comp, bi r.reach, bi r.disc, (r.access : Int)]
          ++ r.os.map bi ++ r.svc.map bi ++ r.proc.map bi, 0 ≤ x ∧ x ≤ 2 := by
  intro x hx
  simp only [List.mem_append, List.mem_map, onehot, List.mem_cons, List.mem_range,
    List.not_mem_nil, or_false] at hx
  have hb : ∀ b : Bool, 0 ≤ bi b ∧ bi b ≤ 2 := by intro b; cases b <;> simp [bi]
  rcases hx with ((((⟨j, _, rfl⟩ | ⟨j, _, rfl⟩) | h) | ⟨b, _, rfl⟩) | ⟨b, _, rfl⟩) | ⟨b, _, rfl⟩
  · split <;> omega
  · split <;> omega
  · rcases h with rfl | rfl | rfl | rfl
    · exact hb _
    · exact hb _
    · exact hb _
    · omega
  · exact hb b
  · exact hb b
  · exact hb b

end NASim
