import NasimModel.Generated.LoaderOk
import NasimModel.Proofs.LoaderInv
/-!
# C18 — malformed scenario files are rejected

One theorem per rule of the property's catalogue.  Every statement has the shape
"the document breaks the rule → `load` returns an error", for *every* document (the rest of the
document is arbitrary).  The rule predicates are written from the property text in terms of the
YAML value, not in terms of the loader's checks.
-/
namespace NASim.Load

abbrev Rejected (doc : Y) : Prop := ∃ e, load doc = .error e

/-- a document that is not a mapping -/
theorem C18_not_a_mapping (doc : Y) (h : ∀ m, doc ≠ .map m) : Rejected doc :=
  load_rejects_of doc (fun m _ hm _ => h m hm)

/-- a missing section -/
theorem C18_missing_section (m : List (Y × Y)) (k : String)
    (hk : k ∈ requiredKeys.map (·.1)) (h : getKey m k = none) : Rejected (.map m) := by
  apply load_rejects_of
  intro m' S hm hA
  injection hm with hm; subst hm
  have hk' := getSections_keys hA.getS
  simp only [requiredKeys, List.map_cons, List.map_nil, List.mem_cons, List.not_mem_nil, or_false] at hk
  obtain ⟨h1, h2, h3, h4, h5, h6, h7, h8, h9, h10, h11, h12, h13, h14⟩ := hk'
  rcases hk with rfl | rfl | rfl | rfl | rfl | rfl | rfl | rfl | rfl | rfl | rfl | rfl | rfl | rfl <;> simp_all

/-- an unknown section -/
theorem C18_unknown_section (m : List (Y × Y)) (kv : Y × Y) (hkv : kv ∈ m)
    (h : ∀ s, kv.1 = .str s → (requiredKeys ++ optionalKeys).lookup s = none) : Rejected (.map m) := by
  apply load_rejects_of
  intro m' S hm hA
  injection hm with hm; subst hm
  have := hA.sections
  unfold sectionsOk at this
  simp only [Bool.and_eq_true, List.all_eq_true] at this
  have := this.2 kv hkv
  obtain ⟨k, v⟩ := kv
  cases k <;> simp at this
  rename_i s
  simp [h s rfl] at this

/-- a mistyped section: a list/map/number/integer section holding something else -/
theorem C18_mistyped_section (m : List (Y × Y)) (kv : Y × Y) (s : String) (t : Ty) (hkv : kv ∈ m)
    (hs : kv.1 = .str s) (ht : (requiredKeys ++ optionalKeys).lookup s = some t)
    (hbad : tyOk t kv.2 = false) : Rejected (.map m) := by
  apply load_rejects_of
  intro m' S hm hA
  injection hm with hm; subst hm
  have := hA.sections
  unfold sectionsOk at this
  simp only [Bool.and_eq_true, List.all_eq_true] at this
  have := this.2 kv hkv
  obtain ⟨k, v⟩ := kv
  simp only at hs; subst hs
  simp [ht, hbad] at this

/-- fewer sections than the format requires -/
theorem C18_too_few_sections (m : List (Y × Y)) (h : m.length < 14) : Rejected (.map m) := by
  apply load_rejects_of
  intro m' S hm hA
  injection hm with hm; subst hm
  have := hA.sections
  unfold sectionsOk at this
  simp only [Bool.and_eq_true, requiredKeys, List.length_cons, List.length_nil] at this
  have := this.1
  simp at this
  omega

/-- an empty subnet list -/
theorem C18_empty_subnets (m : List (Y × Y)) (h : getKey m "subnets" = some (.list [])) :
    Rejected (.map m) := by
  apply load_rejects_of
  intro m' S hm hA
  injection hm with hm; subst hm
  have := (getSections_keys hA.getS).1
  rw [h] at this; injection this with this
  have h2 := hA.subnets
  rw [← this] at h2
  simp [subnetsOk, listOf] at h2

/-- a subnet size that is not a positive integer (`type(x) is int`: no booleans, no floats) -/
theorem C18_bad_subnet_size (m : List (Y × Y)) (l : List Y) (y : Y)
    (h : getKey m "subnets" = some (.list l)) (hy : y ∈ l) (hbad : ∀ i, y = .int i → i ≤ 0) :
    Rejected (.map m) := by
  apply load_rejects_of
  intro m' S hm hA
  injection hm with hm; subst hm
  have := (getSections_keys hA.getS).1
  rw [h] at this; injection this with this
  have h2 := hA.subnets
  rw [← this] at h2
  simp only [subnetsOk, listOf, Bool.and_eq_true, List.all_eq_true] at h2
  have := h2.2 y hy
  cases y <;> simp [Y.exactInt?] at this
  rename_i i
  have := hbad i rfl
  omega

theorem parseSubnets_length (l : List Y) : (parseSubnets l).length = l.length + 1 := by
  simp [parseSubnets]

/-- a topology with the wrong number of rows -/
theorem C18_topology_rows (m : List (Y × Y)) (l rows : List Y)
    (hs : getKey m "subnets" = some (.list l)) (ht : getKey m "topology" = some (.list rows))
    (hbad : rows.length ≠ l.length + 1) : Rejected (.map m) := by
  apply load_rejects_of
  intro m' S hm hA
  injection hm with hm; subst hm
  obtain ⟨k1, k2, _⟩ := getSections_keys hA.getS
  rw [hs] at k1; injection k1 with k1
  rw [ht] at k2; injection k2 with k2
  have h2 := hA.topology
  simp only [Sect.subnetsL, ← k1, ← k2, listOf, parseSubnets_length, topologyOk, Bool.and_eq_true,
    beq_iff_eq] at h2
  exact hbad h2.1

/-- a topology row that is not a list of the right length -/
theorem C18_topology_row_shape (m : List (Y × Y)) (l rows : List Y) (r : Y)
    (hs : getKey m "subnets" = some (.list l)) (ht : getKey m "topology" = some (.list rows))
    (hr : r ∈ rows) (hbad : ∀ cols, r = .list cols → cols.length ≠ l.length + 1) :
    Rejected (.map m) := by
  apply load_rejects_of
  intro m' S hm hA
  injection hm with hm; subst hm
  obtain ⟨k1, k2, _⟩ := getSections_keys hA.getS
  rw [hs] at k1; injection k1 with k1
  rw [ht] at k2; injection k2 with k2
  have h2 := hA.topology
  simp only [Sect.subnetsL, ← k1, ← k2, listOf, parseSubnets_length, topologyOk, Bool.and_eq_true,
    List.all_eq_true] at h2
  have := h2.2 r hr
  cases r <;> simp at this
  rename_i cols
  exact hbad cols rfl this.1

/-- a topology entry other than 0 / 1 -/
theorem C18_topology_entry (m : List (Y × Y)) (rows cols : List Y) (c : Y)
    (ht : getKey m "topology" = some (.list rows)) (hr : Y.list cols ∈ rows) (hc : c ∈ cols)
    (hbad : ∀ i, c.intLike? = some i → i ≠ 0 ∧ i ≠ 1) : Rejected (.map m) := by
  apply load_rejects_of
  intro m' S hm hA
  injection hm with hm; subst hm
  obtain ⟨_, k2, _⟩ := getSections_keys hA.getS
  rw [ht] at k2; injection k2 with k2
  have h2 := hA.topology
  simp only [← k2, listOf, topologyOk, Bool.and_eq_true, List.all_eq_true] at h2
  have := (h2.2 _ hr)
  simp only [Bool.and_eq_true, List.all_eq_true] at this
  have := this.2 c hc
  cases hi : c.intLike? with
  | none => simp [hi] at this
  | some i =>
    simp [hi] at this
    have := hbad i hi
    omega

/-- which name list a key denotes -/
def nameSection (S : Sect) : String → Option Y
  | "os" => some S.os
  | "services" => some S.services
  | "processes" => some S.processes
  | _ => none

theorem names_rejected (m : List (Y × Y)) (k : String) (hk : k = "os" ∨ k = "services" ∨ k = "processes")
    (l : List Y) (h : getKey m k = some (.list l)) (hbad : namesOk l = false) : Rejected (.map m) := by
  apply load_rejects_of
  intro m' S hm hA
  injection hm with hm; subst hm
  obtain ⟨_, _, k3, k4, k5, _⟩ := getSections_keys hA.getS
  rcases hk with rfl | rfl | rfl
  · rw [h] at k3; injection k3 with k3
    have := hA.os; rw [← k3] at this; simp [listOf, hbad] at this
  · rw [h] at k4; injection k4 with k4
    have := hA.services; rw [← k4] at this; simp [listOf, hbad] at this
  · rw [h] at k5; injection k5 with k5
    have := hA.processes; rw [← k5] at this; simp [listOf, hbad] at this

/-- an empty OS, service or process list -/
theorem C18_empty_names (m : List (Y × Y)) (k : String)
    (hk : k = "os" ∨ k = "services" ∨ k = "processes") (h : getKey m k = some (.list [])) :
    Rejected (.map m) :=
  names_rejected m k hk [] h (by simp [namesOk])

/-- a duplicated OS, service or process (Python equality: `x` occurs again later in the list) -/
theorem C18_duplicated_names (m : List (Y × Y)) (k : String)
    (hk : k = "os" ∨ k = "services" ∨ k = "processes") (pre post : List Y) (x y : Y)
    (h : getKey m k = some (.list (pre ++ x :: post))) (hy : y ∈ post) (heq : x.pyEq y = true) :
    Rejected (.map m) := by
  apply names_rejected m k hk _ h
  clear h
  have : noDupY (pre ++ x :: post) = false := by
    induction pre with
    | nil =>
      simp only [List.nil_append, noDupY, Bool.and_eq_false_iff, Bool.not_eq_false']
      left; simp only [pyIn, List.any_eq_true]; exact ⟨y, hy, heq⟩
    | cons p ps ih => simp [noDupY, ih]
  simp [namesOk, this]

/-! ### sensitive hosts -/

theorem sens_section {m : List (Y × Y)} {S : Sect} (hA : Accepted m S) {l : List Y} {sm : List (Y × Y)}
    (hs : getKey m "subnets" = some (.list l)) (hse : getKey m "sensitive_hosts" = some (.map sm)) :
    sensitiveOk (parseSubnets l) sm = true := by
  obtain ⟨k1, _, _, _, _, k6, _⟩ := getSections_keys hA.getS
  rw [hs] at k1; injection k1 with k1
  rw [hse] at k6; injection k6 with k6
  have := hA.sensitive
  simpa [Sect.subnetsL, ← k1, ← k6, listOf, mapOf] using this

/-- no sensitive host at all -/
theorem C18_no_sensitive_host (m : List (Y × Y)) (l : List Y)
    (hs : getKey m "subnets" = some (.list l)) (h : getKey m "sensitive_hosts" = some (.map [])) :
    Rejected (.map m) := by
  apply load_rejects_of
  intro m' S hm hA
  injection hm with hm; subst hm
  have := sens_section hA hs h
  simp [sensitiveOk] at this

/-- a sensitive host whose key is not a `(subnet, host)` address of the network -/
theorem C18_sensitive_invalid_address (m : List (Y × Y)) (l : List Y) (sm : List (Y × Y)) (kv : Y × Y)
    (hs : getKey m "subnets" = some (.list l)) (hse : getKey m "sensitive_hosts" = some (.map sm))
    (hkv : kv ∈ sm)
    (hbad : ∀ s a b, kv.1 = .str s → parsePair s = some (a, b) →
      ¬ (1 ≤ a ∧ a < (l.length + 1 : Nat) ∧ 0 ≤ b ∧ b < ((parseSubnets l).getD a.toNat 0 : Nat))) :
    Rejected (.map m) := by
  apply load_rejects_of
  intro m' S hm hA
  injection hm with hm; subst hm
  have := sens_section hA hs hse
  simp only [sensitiveOk, Bool.and_eq_true, List.all_eq_true] at this
  have := this.1.2 kv hkv
  unfold sensEntryOk at this
  split at this
  · rename_i s hk
    split at this
    · rename_i a b hp
      simp only [Bool.and_eq_true, validHostAddr, decide_eq_true_eq, parseSubnets_length] at this
      exact hbad s a b hk hp ⟨this.1.1.1.1, by omega, this.1.1.2, by omega⟩
    · cases this
  · cases this

/-- a sensitive host with a non-positive or non-numeric value -/
theorem C18_sensitive_bad_value (m : List (Y × Y)) (l : List Y) (sm : List (Y × Y)) (kv : Y × Y)
    (hs : getKey m "subnets" = some (.list l)) (hse : getKey m "sensitive_hosts" = some (.map sm))
    (hkv : kv ∈ sm) (hbad : ∀ q, kv.2.toRat? = some q → q ≤ 0) : Rejected (.map m) := by
  apply load_rejects_of
  intro m' S hm hA
  injection hm with hm; subst hm
  have := sens_section hA hs hse
  simp only [sensitiveOk, Bool.and_eq_true, List.all_eq_true] at this
  have := this.1.2 kv hkv
  unfold sensEntryOk at this
  split at this
  · split at this
    · simp only [Bool.and_eq_true] at this
      cases hq : kv.2.toRat? with
      | none => simp [hq] at this
      | some q =>
        simp only [hq, decide_eq_true_eq] at this
        exact absurd this.2 (Rat.not_lt.mpr (hbad q hq))
    · cases this
  · cases this

/-- a sensitive host listed twice (two keys that denote the same address) -/
theorem C18_sensitive_duplicate (m : List (Y × Y)) (l : List Y) (pre post : List (Y × Y)) (kv kv' : Y × Y)
    (hs : getKey m "subnets" = some (.list l))
    (hse : getKey m "sensitive_hosts" = some (.map (pre ++ kv :: post)))
    (hkv' : kv' ∈ post) (hsame : sensAddr kv = sensAddr kv') : Rejected (.map m) := by
  apply load_rejects_of
  intro m' S hm hA
  injection hm with hm; subst hm
  have := sens_section hA hs hse
  simp only [sensitiveOk, Bool.and_eq_true] at this
  have hd := this.2
  have : pairsNoDup ((pre ++ kv :: post).map sensAddr) = false := by
    clear hd this hse
    induction pre with
    | nil =>
      simp only [List.nil_append, List.map_cons, pairsNoDup, Bool.and_eq_false_iff, Bool.not_eq_false']
      left
      simp only [List.contains_eq_any_beq, List.any_eq_true, List.mem_map]
      exact ⟨sensAddr kv', ⟨kv', hkv', rfl⟩, by simp [hsame]⟩
    | cons p ps ih =>
      simp only [List.cons_append, List.map_cons, pairsNoDup]
      rw [ih]; simp
  rw [this] at hd; cases hd

/-! ### exploits and privilege escalations -/

theorem allSome_some {α} {l : List (Option α)} {r : List α} (h : allSome l = some r) :
    ∀ o ∈ l, o.isSome = true := by
  induction l generalizing r with
  | nil => simp
  | cons o os ih =>
    cases o with
    | none => simp [allSome] at h
    | some x =>
      simp only [allSome, Option.map_eq_some_iff] at h
      obtain ⟨r', hr', _⟩ := h
      intro o ho
      rcases List.mem_cons.mp ho with rfl | ho
      · rfl
      · exact ih hr' o ho

/-- master lemma: an exploit entry the model cannot parse makes the document rejected -/
theorem exploit_rejected (m : List (Y × Y)) (em : List (Y × Y)) (sv os : List Y) (kv : Y × Y)
    (he : getKey m "exploits" = some (.map em)) (hsv : getKey m "services" = some (.list sv))
    (hos : getKey m "os" = some (.list os)) (hkv : kv ∈ em)
    (hbad : parseExploit sv os kv.1 kv.2 = none) : Rejected (.map m) := by
  apply load_rejects_of
  intro m' S hm hA
  injection hm with hm; subst hm
  obtain ⟨_, _, k3, k4, _, _, k7, _⟩ := getSections_keys hA.getS
  rw [hos] at k3; injection k3 with k3
  rw [hsv] at k4; injection k4 with k4
  rw [he] at k7; injection k7 with k7
  have := hA.exploits
  simp only [Sect.exploitsL, ← k3, ← k4, ← k7, listOf, mapOf] at this
  cases hall : allSome (em.map fun kv => parseExploit sv os kv.1 kv.2) with
  | none => simp [hall] at this
  | some r =>
    have := allSome_some hall _ (List.mem_map_of_mem (f := fun kv => parseExploit sv os kv.1 kv.2) hkv)
    simp [hbad] at this

theorem privesc_rejected (m : List (Y × Y)) (em : List (Y × Y)) (pr os : List Y) (kv : Y × Y)
    (he : getKey m "privilege_escalation" = some (.map em)) (hpr : getKey m "processes" = some (.list pr))
    (hos : getKey m "os" = some (.list os)) (hkv : kv ∈ em)
    (hbad : parsePrivesc pr os kv.1 kv.2 = none) : Rejected (.map m) := by
  apply load_rejects_of
  intro m' S hm hA
  injection hm with hm; subst hm
  obtain ⟨_, _, k3, _, k5, _, _, k8, _⟩ := getSections_keys hA.getS
  rw [hos] at k3; injection k3 with k3
  rw [hpr] at k5; injection k5 with k5
  rw [he] at k8; injection k8 with k8
  have := hA.privescs
  simp only [Sect.privescsL, ← k3, ← k5, ← k8, listOf, mapOf] at this
  cases hall : allSome (em.map fun kv => parsePrivesc pr os kv.1 kv.2) with
  | none => simp [hall] at this
  | some r =>
    have := allSome_some hall _ (List.mem_map_of_mem (f := fun kv => parsePrivesc pr os kv.1 kv.2) hkv)
    simp [hbad] at this

/-- the defects of an exploit definition the property lists -/
inductive ExploitDefect (sv os : List Y) : Y → Prop
  | notMapping (e : Y) (h : e.isMap = false) : ExploitDefect sv os e
  | missingField (em : List (Y × Y)) (k : String)
      (hk : k ∈ ["service", "os", "prob", "cost", "access"]) (h : getKey em k = none) :
      ExploitDefect sv os (.map em)
  | unknownService (em : List (Y × Y)) (x : Y) (h : getKey em "service" = some x)
      (hx : pyIn x sv = false) : ExploitDefect sv os (.map em)
  | unknownOs (em : List (Y × Y)) (x : Y) (h : getKey em "os" = some x)
      (hx : ∀ s, x = .str s → isNoneWord s = false ∧ pyIn (.str s) os = false) :
      ExploitDefect sv os (.map em)
  | badProb (em : List (Y × Y)) (x : Y) (h : getKey em "prob" = some x)
      (hx : ∀ q, x.toRat? = some q → q < 0 ∨ 1 < q) : ExploitDefect sv os (.map em)
  | badCost (em : List (Y × Y)) (x : Y) (h : getKey em "cost" = some x)
      (hx : ∀ q, x.toRat? = some q → q ≤ 0) : ExploitDefect sv os (.map em)
  | badAccess (em : List (Y × Y)) (x : Y) (h : getKey em "access" = some x)
      (hx : accessOf x = none) : ExploitDefect sv os (.map em)

/-- what a parsed exploit definition guarantees -/
theorem parseExploit_some {sv os : List Y} {name e : Y} {x : ExplL}
    (h : parseExploit sv os name e = some x) :
    ∃ em svc osv prob cost acc os' p c a, e = .map em ∧ getKey em "service" = some svc ∧
      getKey em "os" = some osv ∧ getKey em "prob" = some prob ∧ getKey em "cost" = some cost ∧
      getKey em "access" = some acc ∧ svc.isStr = true ∧ osField os osv = some os' ∧
      prob.toRat? = some p ∧ cost.toRat? = some c ∧ accessOf acc = some a ∧ pyIn svc sv = true ∧
      0 ≤ p ∧ p ≤ 1 ∧ 0 < c ∧
      x = { name, service := svc, os := os', prob := p, cost := c, access := a } := by
  cases e with
  | map em =>
    simp only [parseExploit] at h
    cases h1 : getKey em "service" with
    | none => simp [h1] at h
    | some svc =>
    cases h2 : getKey em "os" with
    | none => simp [h1, h2] at h
    | some osv =>
    cases h3 : getKey em "prob" with
    | none => simp [h1, h2, h3] at h
    | some prob =>
    cases h4 : getKey em "cost" with
    | none => simp [h1, h2, h3, h4] at h
    | some cost =>
    cases h5 : getKey em "access" with
    | none => simp [h1, h2, h3, h4, h5] at h
    | some acc =>
    simp only [h1, h2, h3, h4, h5] at h
    cases hstr : svc.isStr with
    | false => simp [hstr] at h
    | true =>
    simp only [hstr, Bool.not_true, Bool.false_eq_true, if_false] at h
    cases h6 : osField os osv with
    | none => simp [h6] at h
    | some os' =>
    cases h7 : prob.toRat? with
    | none => simp [h6, h7] at h
    | some p =>
    cases h8 : cost.toRat? with
    | none => simp [h6, h7, h8] at h
    | some c =>
    cases h9 : accessOf acc with
    | none => simp [h6, h7, h8, h9] at h
    | some a =>
    simp only [h6, h7, h8, h9] at h
    split at h
    · rename_i hc
      simp only [Bool.and_eq_true, decide_eq_true_eq] at hc
      injection h with h
      refine ⟨em, svc, osv, prob, cost, acc, os', p, c, a, rfl, ?_, ?_, ?_, ?_, ?_, hstr, ?_,
        ?_, ?_, ?_, hc.1.1.1, hc.1.1.2, hc.1.2, hc.2, h.symm⟩ <;> first | rfl | assumption
    · cases h
  | _ => simp [parseExploit] at h

theorem osField_some {os : List Y} {x os' : Y} (h : osField os x = some os') :
    ∃ s, x = .str s ∧ (isNoneWord s = true ∨ pyIn (.str s) os = true) := by
  cases x <;> simp [osField] at h
  rename_i s
  refine ⟨s, rfl, ?_⟩
  by_cases h1 : isNoneWord s = true
  · exact Or.inl h1
  · by_cases h2 : pyIn (.str s) os = true
    · exact Or.inr h2
    · simp [h1, h2] at h

theorem parseExploit_none_of_defect (sv os : List Y) (name e : Y) (h : ExploitDefect sv os e) :
    parseExploit sv os name e = none := by
  cases hp : parseExploit sv os name e with
  | none => rfl
  | some x =>
    exfalso
    obtain ⟨em, svc, osv, prob, cost, acc, os', p, c, a, he, h1, h2, h3, h4, h5, hstr, h6, h7, h8, h9,
      hin, hp0, hp1, hc0, _⟩ := parseExploit_some hp
    cases h with
    | notMapping e h => subst he; simp [Y.isMap] at h
    | missingField em' k hk h =>
      injection he with he; subst he
      simp only [List.mem_cons, List.not_mem_nil, or_false] at hk
      rcases hk with rfl | rfl | rfl | rfl | rfl <;> simp_all
    | unknownService em' x h hx =>
      injection he with he; subst he
      rw [h1] at h; injection h with h; subst h; simp [hin] at hx
    | unknownOs em' x h hx =>
      injection he with he; subst he
      rw [h2] at h; injection h with h; subst h
      obtain ⟨s, rfl, hs⟩ := osField_some h6
      have := hx s rfl
      rcases hs with hs | hs <;> simp_all
    | badProb em' x h hx =>
      injection he with he; subst he
      rw [h3] at h; injection h with h; subst h
      rcases hx p h7 with h0 | h0
      · exact absurd hp0 (Rat.not_le.mpr h0)
      · exact absurd hp1 (Rat.not_le.mpr h0)
    | badCost em' x h hx =>
      injection he with he; subst he
      rw [h4] at h; injection h with h; subst h
      exact absurd hc0 (Rat.not_lt.mpr (hx c h8))
    | badAccess em' x h hx =>
      injection he with he; subst he
      rw [h5] at h; injection h with h; subst h
      simp [hx] at h9

/-- an exploit with a missing field, an unknown service or OS, a probability outside [0,1], a
non-positive cost or an invalid access level (or that is not a mapping at all) -/
theorem C18_bad_exploit (m : List (Y × Y)) (em : List (Y × Y)) (sv os : List Y) (kv : Y × Y)
    (he : getKey m "exploits" = some (.map em)) (hsv : getKey m "services" = some (.list sv))
    (hos : getKey m "os" = some (.list os)) (hkv : kv ∈ em) (hbad : ExploitDefect sv os kv.2) :
    Rejected (.map m) :=
  exploit_rejected m em sv os kv he hsv hos hkv (parseExploit_none_of_defect sv os kv.1 kv.2 hbad)

/-- the defects of an escalation definition the property lists -/
inductive PrivescDefect (sv os : List Y) : Y → Prop
  | notMapping (e : Y) (h : e.isMap = false) : PrivescDefect sv os e
  | missingField (em : List (Y × Y)) (k : String)
      (hk : k ∈ ["process", "os", "prob", "cost", "access"]) (h : getKey em k = none) :
      PrivescDefect sv os (.map em)
  | unknownProcess (em : List (Y × Y)) (x : Y) (h : getKey em "process" = some x)
      (hx : pyIn x sv = false) : PrivescDefect sv os (.map em)
  | unknownOs (em : List (Y × Y)) (x : Y) (h : getKey em "os" = some x)
      (hx : ∀ s, x = .str s → isNoneWord s = false ∧ pyIn (.str s) os = false) :
      PrivescDefect sv os (.map em)
  | badProb (em : List (Y × Y)) (x : Y) (h : getKey em "prob" = some x)
      (hx : ∀ q, x.toRat? = some q → q < 0 ∨ 1 < q) : PrivescDefect sv os (.map em)
  | badCost (em : List (Y × Y)) (x : Y) (h : getKey em "cost" = some x)
      (hx : ∀ q, x.toRat? = some q → q ≤ 0) : PrivescDefect sv os (.map em)
  | badAccess (em : List (Y × Y)) (x : Y) (h : getKey em "access" = some x)
      (hx : accessOf x = none) : PrivescDefect sv os (.map em)

/-- what a parsed escalation definition guarantees -/
theorem parsePrivesc_some {sv os : List Y} {name e : Y} {x : PrivL}
    (h : parsePrivesc sv os name e = some x) :
    ∃ em svc osv prob cost acc os' p c a, e = .map em ∧ getKey em "process" = some svc ∧
      getKey em "os" = some osv ∧ getKey em "prob" = some prob ∧ getKey em "cost" = some cost ∧
      getKey em "access" = some acc ∧ svc.isStr = true ∧ osField os osv = some os' ∧
      prob.toRat? = some p ∧ cost.toRat? = some c ∧ accessOf acc = some a ∧ pyIn svc sv = true ∧
      0 ≤ p ∧ p ≤ 1 ∧ 0 < c ∧
      x = { name, process := svc, os := os', prob := p, cost := c, access := a } := by
  cases e with
  | map em =>
    simp only [parsePrivesc] at h
    cases h1 : getKey em "process" with
    | none => simp [h1] at h
    | some svc =>
    cases h2 : getKey em "os" with
    | none => simp [h1, h2] at h
    | some osv =>
    cases h3 : getKey em "prob" with
    | none => simp [h1, h2, h3] at h
    | some prob =>
    cases h4 : getKey em "cost" with
    | none => simp [h1, h2, h3, h4] at h
    | some cost =>
    cases h5 : getKey em "access" with
    | none => simp [h1, h2, h3, h4, h5] at h
    | some acc =>
    simp only [h1, h2, h3, h4, h5] at h
    cases hstr : svc.isStr with
    | false => simp [hstr] at h
    | true =>
    simp only [hstr, Bool.not_true, Bool.false_eq_true, if_false] at h
    cases h6 : osField os osv with
    | none => simp [h6] at h
    | some os' =>
    cases h7 : prob.toRat? with
    | none => simp [h6, h7] at h
    | some p =>
    cases h8 : cost.toRat? with
    | none => simp [h6, h7, h8] at h
    | some c =>
    cases h9 : accessOf acc with
    | none => simp [h6, h7, h8, h9] at h
    | some a =>
    simp only [h6, h7, h8, h9] at h
    split at h
    · rename_i hc
      simp only [Bool.and_eq_true, decide_eq_true_eq] at hc
      injection h with h
      refine ⟨em, svc, osv, prob, cost, acc, os', p, c, a, rfl, ?_, ?_, ?_, ?_, ?_, hstr, ?_,
        ?_, ?_, ?_, hc.1.1.1, hc.1.1.2, hc.1.2, hc.2, h.symm⟩ <;> first | rfl | assumption
    · cases h
  | _ => simp [parsePrivesc] at h

theorem parsePrivesc_none_of_defect (sv os : List Y) (name e : Y) (h : PrivescDefect sv os e) :
    parsePrivesc sv os name e = none := by
  cases hp : parsePrivesc sv os name e with
  | none => rfl
  | some x =>
    exfalso
    obtain ⟨em, svc, osv, prob, cost, acc, os', p, c, a, he, h1, h2, h3, h4, h5, hstr, h6, h7, h8, h9,
      hin, hp0, hp1, hc0, _⟩ := parsePrivesc_some hp
    cases h with
    | notMapping e h => subst he; simp [Y.isMap] at h
    | missingField em' k hk h =>
      injection he with he; subst he
      simp only [List.mem_cons, List.not_mem_nil, or_false] at hk
      rcases hk with rfl | rfl | rfl | rfl | rfl <;> simp_all
    | unknownProcess em' x h hx =>
      injection he with he; subst he
      rw [h1] at h; injection h with h; subst h; simp [hin] at hx
    | unknownOs em' x h hx =>
      injection he with he; subst he
      rw [h2] at h; injection h with h; subst h
      obtain ⟨s, rfl, hs⟩ := osField_some h6
      have := hx s rfl
      rcases hs with hs | hs <;> simp_all
    | badProb em' x h hx =>
      injection he with he; subst he
      rw [h3] at h; injection h with h; subst h
      rcases hx p h7 with h0 | h0
      · exact absurd hp0 (Rat.not_le.mpr h0)
      · exact absurd hp1 (Rat.not_le.mpr h0)
    | badCost em' x h hx =>
      injection he with he; subst he
      rw [h4] at h; injection h with h; subst h
      exact absurd hc0 (Rat.not_lt.mpr (hx c h8))
    | badAccess em' x h hx =>
      injection he with he; subst he
      rw [h5] at h; injection h with h; subst h
      simp [hx] at h9


/-- an escalation with a missing field, an unknown process or OS, a probability outside [0,1], a
non-positive cost or an invalid access level (or that is not a mapping at all) -/
theorem C18_bad_privesc (m : List (Y × Y)) (em : List (Y × Y)) (pr os : List Y) (kv : Y × Y)
    (he : getKey m "privilege_escalation" = some (.map em)) (hpr : getKey m "processes" = some (.list pr))
    (hos : getKey m "os" = some (.list os)) (hkv : kv ∈ em) (hbad : PrivescDefect pr os kv.2) :
    Rejected (.map m) :=
  privesc_rejected m em pr os kv he hpr hos hkv (parsePrivesc_none_of_defect pr os kv.1 kv.2 hbad)

/-! ### scan costs, step limit -/

/-- a negative scan cost -/
theorem C18_negative_scan_cost (m : List (Y × Y)) (k : String) (v : Y) (q : Rat)
    (hk : k = "os_scan_cost" ∨ k = "service_scan_cost" ∨ k = "subnet_scan_cost" ∨ k = "process_scan_cost")
    (h : getKey m k = some v) (hv : v.toRat? = some q) (hneg : q < 0) : Rejected (.map m) := by
  apply load_rejects_of
  intro m' S hm hA
  injection hm with hm; subst hm
  obtain ⟨_, _, _, _, _, _, _, _, k9, k10, k11, k12, _⟩ := getSections_keys hA.getS
  have hc := hA.scanCosts
  simp only [Bool.and_eq_true] at hc
  have hbad : scanCostOk v = false := by
    simp [scanCostOk, hv]; exact Rat.not_le.mpr hneg
  rcases hk with rfl | rfl | rfl | rfl
  · rw [h] at k9; injection k9 with k9; rw [← k9, hbad] at hc; simp at hc
  · rw [h] at k10; injection k10 with k10; rw [← k10, hbad] at hc; simp at hc
  · rw [h] at k11; injection k11 with k11; rw [← k11, hbad] at hc; simp at hc
  · rw [h] at k12; injection k12 with k12; rw [← k12, hbad] at hc; simp at hc

/-- a step limit that is not a positive integer -/
theorem C18_bad_step_limit (m : List (Y × Y)) (y : Y) (h : getKey m "step_limit" = some y)
    (hbad : ∀ i, y.intLike? = some i → i ≤ 0) : Rejected (.map m) := by
  apply load_rejects_of
  intro m' S hm hA
  injection hm with hm; subst hm
  have := hA.stepLimit
  unfold stepLimitOf at this
  simp only [h] at this
  cases hi : y.intLike? with
  | none => simp [hi] at this
  | some i =>
    have := hbad i hi
    simp only [hi] at *
    split at * <;> simp_all
    omega

/-! ### host configurations -/

theorem hc_section {m : List (Y × Y)} {S : Sect} (hA : Accepted m S) {l osl svl prl : List Y}
    {sm hc : List (Y × Y)}
    (hs : getKey m "subnets" = some (.list l)) (hos : getKey m "os" = some (.list osl))
    (hsv : getKey m "services" = some (.list svl)) (hpr : getKey m "processes" = some (.list prl))
    (hse : getKey m "sensitive_hosts" = some (.map sm))
    (hhc : getKey m "host_configurations" = some (.map hc)) :
    hostConfigsOk (parseSubnets l) osl svl prl (parseSensitive sm) hc = true := by
  obtain ⟨k1, _, k3, k4, k5, k6, _, _, _, _, _, _, k13, _⟩ := getSections_keys hA.getS
  rw [hs] at k1; injection k1 with k1
  rw [hos] at k3; injection k3 with k3
  rw [hsv] at k4; injection k4 with k4
  rw [hpr] at k5; injection k5 with k5
  rw [hse] at k6; injection k6 with k6
  rw [hhc] at k13; injection k13 with k13
  have := hA.hostConfigs
  simpa [Sect.subnetsL, Sect.sensitiveL, ← k1, ← k3, ← k4, ← k5, ← k6, ← k13, listOf, mapOf] using this

/-- too many or too few host configurations (a missing or a superfluous host) -/
theorem C18_host_config_count (m : List (Y × Y)) (l osl svl prl : List Y) (sm hc : List (Y × Y))
    (hs : getKey m "subnets" = some (.list l)) (hos : getKey m "os" = some (.list osl))
    (hsv : getKey m "services" = some (.list svl)) (hpr : getKey m "processes" = some (.list prl))
    (hse : getKey m "sensitive_hosts" = some (.map sm))
    (hhc : getKey m "host_configurations" = some (.map hc))
    (hbad : hc.length ≠ (parseSubnets l).foldl (· + ·) 0 - 1) : Rejected (.map m) := by
  apply load_rejects_of
  intro m' S hm hA
  injection hm with hm; subst hm
  have := hc_section hA hs hos hsv hpr hse hhc
  simp only [hostConfigsOk, Bool.and_eq_true, beq_iff_eq] at this
  exact hbad this.1.1

/-- a host of the network without a configuration under its canonical key `(s, h)` -/
theorem C18_missing_host_config (m : List (Y × Y)) (l osl svl prl : List Y) (sm hc : List (Y × Y))
    (s h size : Nat)
    (hs : getKey m "subnets" = some (.list l)) (hos : getKey m "os" = some (.list osl))
    (hsv : getKey m "services" = some (.list svl)) (hpr : getKey m "processes" = some (.list prl))
    (hse : getKey m "sensitive_hosts" = some (.map sm))
    (hhc : getKey m "host_configurations" = some (.map hc))
    (hsz : ((parseSubnets l).drop 1)[s]? = some size) (hh : h < size)
    (hbad : getKey hc (showPair (s + 1) h) = none) : Rejected (.map m) := by
  apply load_rejects_of
  intro m' S hm hA
  injection hm with hm; subst hm
  have := hc_section hA hs hos hsv hpr hse hhc
  simp only [hostConfigsOk, Bool.and_eq_true] at this
  have hall := this.1.2
  unfold hasAllAddrs at hall
  rw [List.all_eq_true] at hall
  have := hall (size, s) (List.mk_mem_zipIdx_iff_getElem?.mpr hsz)
  simp only [List.all_eq_true, List.mem_range] at this
  have := this h hh
  simp [hbad] at this

/-- master lemma: a host configuration the validation refuses makes the document rejected -/
theorem hostConfig_rejected (m : List (Y × Y)) (l osl svl prl : List Y) (sm hc : List (Y × Y))
    (kv : Y × Y)
    (hs : getKey m "subnets" = some (.list l)) (hos : getKey m "os" = some (.list osl))
    (hsv : getKey m "services" = some (.list svl)) (hpr : getKey m "processes" = some (.list prl))
    (hse : getKey m "sensitive_hosts" = some (.map sm))
    (hhc : getKey m "host_configurations" = some (.map hc)) (hkv : kv ∈ hc)
    (hbad : hostConfigOk (parseSubnets l) osl svl prl (parseSensitive sm) kv.1 kv.2 = false) :
    Rejected (.map m) := by
  apply load_rejects_of
  intro m' S hm hA
  injection hm with hm; subst hm
  have := hc_section hA hs hos hsv hpr hse hhc
  simp only [hostConfigsOk, Bool.and_eq_true, List.all_eq_true] at this
  have := this.2 kv hkv
  rw [hbad] at this; cases this

/-- the defects of a host configuration the property lists -/
inductive HostDefect (subnets : List Nat) (osl svl prl : List Y) (sens : List ((Nat × Nat) × Rat))
    (key : Y) : Y → Prop
  | notMapping (c : Y) (h : c.isMap = false) : HostDefect subnets osl svl prl sens key c
  | missingField (cm : List (Y × Y)) (k : String) (hk : k ∈ ["os", "services", "processes"])
      (h : getKey cm k = none) : HostDefect subnets osl svl prl sens key (.map cm)
  | servicesNotList (cm : List (Y × Y)) (x : Y) (h : getKey cm "services" = some x)
      (hx : x.isList = false) : HostDefect subnets osl svl prl sens key (.map cm)
  | processesNotList (cm : List (Y × Y)) (x : Y) (h : getKey cm "processes" = some x)
      (hx : x.isList = false) : HostDefect subnets osl svl prl sens key (.map cm)
  | unknownService (cm : List (Y × Y)) (xs : List Y) (x : Y) (h : getKey cm "services" = some (.list xs))
      (hx : x ∈ xs) (hbad : pyIn x svl = false) : HostDefect subnets osl svl prl sens key (.map cm)
  | unknownProcess (cm : List (Y × Y)) (xs : List Y) (x : Y) (h : getKey cm "processes" = some (.list xs))
      (hx : x ∈ xs) (hbad : pyIn x prl = false) : HostDefect subnets osl svl prl sens key (.map cm)
  | unknownOs (cm : List (Y × Y)) (x : Y) (h : getKey cm "os" = some x) (hbad : pyIn x osl = false) :
      HostDefect subnets osl svl prl sens key (.map cm)
  | duplicatedService (cm : List (Y × Y)) (xs : List Y) (h : getKey cm "services" = some (.list xs))
      (hbad : noDupY xs = false) : HostDefect subnets osl svl prl sens key (.map cm)
  | duplicatedProcess (cm : List (Y × Y)) (xs : List Y) (h : getKey cm "processes" = some (.list xs))
      (hbad : noDupY xs = false) : HostDefect subnets osl svl prl sens key (.map cm)
  | firewallNotMapping (cm : List (Y × Y)) (x : Y) (h : getKey cm "firewall" = some x)
      (hx : x.isMap = false) : HostDefect subnets osl svl prl sens key (.map cm)
  | firewallBadEntry (cm fw : List (Y × Y)) (e : Y × Y) (h : getKey cm "firewall" = some (.map fw))
      (he : e ∈ fw) (hbad : hostFwKeyOk subnets e.1 = false ∨ fwSettingOk svl e.2 = false) :
      HostDefect subnets osl svl prl sens key (.map cm)
  | valueNotNumeric (cm : List (Y × Y)) (x : Y) (h : getKey cm "value" = some x)
      (hx : x.toRat? = none) : HostDefect subnets osl svl prl sens key (.map cm)
  | valueContradictsSensitive (cm : List (Y × Y)) (x : Y) (q sv : Rat) (h : getKey cm "value" = some x)
      (hx : x.toRat? = some q) (hs : sens.lookup (pairOfKey key) = some sv) (hne : isclose q sv = false)
      (hk : ∀ a b, keyPair key = some (a, b) → 0 ≤ a ∧ 0 ≤ b) :
      HostDefect subnets osl svl prl sens key (.map cm)

theorem hostConfigOk_false_of_defect (subnets : List Nat) (osl svl prl : List Y)
    (sens : List ((Nat × Nat) × Rat)) (key cfg : Y) (h : HostDefect subnets osl svl prl sens key cfg) :
    hostConfigOk subnets osl svl prl sens key cfg = false := by
  cases hok : hostConfigOk subnets osl svl prl sens key cfg with
  | false => rfl
  | true =>
    exfalso
    cases h with
    | notMapping c h => cases cfg <;> simp_all [hostConfigOk, Y.isMap]
    | missingField cm k hk h =>
      simp only [List.mem_cons, List.not_mem_nil, or_false] at hk
      simp only [hostConfigOk, Bool.and_eq_true] at hok
      have := hok.1.1.2
      rcases hk with rfl | rfl | rfl <;> simp only [h] at this <;> (repeat' split at this) <;> simp_all
    | servicesNotList cm x h hx =>
      simp only [hostConfigOk, Bool.and_eq_true, h] at hok
      have := hok.1.1.2
      cases x <;> simp_all [Y.isList] <;> (repeat' split at this) <;> simp_all
    | processesNotList cm x h hx =>
      simp only [hostConfigOk, Bool.and_eq_true, h] at hok
      have := hok.1.1.2
      cases x <;> simp_all [Y.isList] <;> (repeat' split at this) <;> simp_all
    | unknownService cm xs x h hx hbad =>
      simp only [hostConfigOk, Bool.and_eq_true, h] at hok
      have := hok.1.1.2
      repeat' split at this
      all_goals simp_all
      all_goals (have := this.1.1.1.1 x hx; simp_all)
    | unknownProcess cm xs x h hx hbad =>
      simp only [hostConfigOk, Bool.and_eq_true, h] at hok
      have := hok.1.1.2
      repeat' split at this
      all_goals simp_all
      all_goals (have := this.1.1.2.1 x hx; simp_all)
    | unknownOs cm x h hbad =>
      simp only [hostConfigOk, Bool.and_eq_true, h] at hok
      have := hok.1.1.2
      repeat' split at this
      all_goals simp_all
    | duplicatedService cm xs h hbad =>
      simp only [hostConfigOk, Bool.and_eq_true, h] at hok
      have := hok.1.1.2
      repeat' split at this
      all_goals simp_all
    | duplicatedProcess cm xs h hbad =>
      simp only [hostConfigOk, Bool.and_eq_true, h] at hok
      have := hok.1.1.2
      repeat' split at this
      all_goals simp_all
    | firewallNotMapping cm x h hx =>
      simp only [hostConfigOk, Bool.and_eq_true, h] at hok
      have := hok.1.2
      cases x <;> simp_all [Y.isMap]
    | firewallBadEntry cm fw e h he hbad =>
      simp only [hostConfigOk, Bool.and_eq_true, h, List.all_eq_true] at hok
      have := hok.1.2 e he
      rcases hbad with hb | hb <;> simp_all
    | valueNotNumeric cm x h hx =>
      simp only [hostConfigOk, Bool.and_eq_true, h, hx] at hok
      have := hok.2; simp at this
    | valueContradictsSensitive cm x q sv h hx hs hne hk =>
      simp only [hostConfigOk, Bool.and_eq_true, h, hx] at hok
      have := hok.2
      cases hkp : keyPair key with
      | none => simp [hkp] at this
      | some ab =>
        obtain ⟨a, b⟩ := ab
        obtain ⟨ha, hb⟩ := hk a b hkp
        have hp : pairOfKey key = (a.toNat, b.toNat) := by
          cases key <;> simp [keyPair] at hkp
          simp [pairOfKey, hkp]
        rw [hp] at hs
        have hn : ¬ (a < 0 ∨ b < 0) := by omega
        simp [hkp, hn, hs, hne] at this

/-- a host configuration that names an unknown or duplicated service, process or OS, carries a
malformed host firewall or a non-numeric value, or contradicts the value declared for a sensitive
host (or lacks a field / is not a mapping) -/
theorem C18_bad_host_config (m : List (Y × Y)) (l osl svl prl : List Y) (sm hc : List (Y × Y))
    (kv : Y × Y)
    (hs : getKey m "subnets" = some (.list l)) (hos : getKey m "os" = some (.list osl))
    (hsv : getKey m "services" = some (.list svl)) (hpr : getKey m "processes" = some (.list prl))
    (hse : getKey m "sensitive_hosts" = some (.map sm))
    (hhc : getKey m "host_configurations" = some (.map hc)) (hkv : kv ∈ hc)
    (hbad : HostDefect (parseSubnets l) osl svl prl (parseSensitive sm) kv.1 kv.2) :
    Rejected (.map m) :=
  hostConfig_rejected m l osl svl prl sm hc kv hs hos hsv hpr hse hhc hkv
    (hostConfigOk_false_of_defect _ _ _ _ _ _ _ hbad)

/-! ### subnet firewall -/

theorem fw_section {m : List (Y × Y)} {S : Sect} (hA : Accepted m S) {rows svl : List Y}
    {fw : List (Y × Y)}
    (ht : getKey m "topology" = some (.list rows)) (hsv : getKey m "services" = some (.list svl))
    (hfw : getKey m "firewall" = some (.map fw)) :
    firewallOk (parseTopology rows) svl fw = true := by
  obtain ⟨_, k2, _, k4, _, _, _, _, _, _, _, _, _, k14⟩ := getSections_keys hA.getS
  rw [ht] at k2; injection k2 with k2
  rw [hsv] at k4; injection k4 with k4
  rw [hfw] at k14; injection k14 with k14
  have := hA.firewall
  simpa [Sect.topologyL, ← k2, ← k4, ← k14, listOf, mapOf] using this

/-- a connected pair of subnets without a firewall rule in one of the two directions -/
theorem C18_missing_firewall_rule (m : List (Y × Y)) (rows svl : List Y) (fw : List (Y × Y))
    (src dst : Nat) (row : List Int)
    (ht : getKey m "topology" = some (.list rows)) (hsv : getKey m "services" = some (.list svl))
    (hfw : getKey m "firewall" = some (.map fw))
    (hrow : (parseTopology rows)[src]? = some row) (hcol : row[dst]? = some 1) (hne : src ≠ dst)
    (hbad : getKey fw (showPair src dst) = none ∨ getKey fw (showPair dst src) = none) :
    Rejected (.map m) := by
  apply load_rejects_of
  intro m' S hm hA
  injection hm with hm; subst hm
  have := fw_section hA ht hsv hfw
  simp only [firewallOk, Bool.and_eq_true] at this
  have hreq := this.1.1
  unfold hasRequiredFw at hreq
  rw [List.all_eq_true] at hreq
  have := hreq (row, src) (List.mk_mem_zipIdx_iff_getElem?.mpr hrow)
  simp only [List.all_eq_true] at this
  have := this (1, dst) (List.mk_mem_zipIdx_iff_getElem?.mpr hcol)
  have hne' : (src == dst) = false := by simpa using hne
  simp only [hne', Bool.false_or, bne_self_eq_false, Bool.and_eq_true] at this
  rcases hbad with hb | hb <;> simp [hb] at this

/-- a subnet firewall rule that is not a list, lists an unknown service, or lists one twice -/
theorem C18_bad_firewall_rule (m : List (Y × Y)) (rows svl : List Y) (fw : List (Y × Y)) (kv : Y × Y)
    (ht : getKey m "topology" = some (.list rows)) (hsv : getKey m "services" = some (.list svl))
    (hfw : getKey m "firewall" = some (.map fw)) (hkv : kv ∈ fw)
    (hbad : kv.2.isList = false ∨
      ∃ xs, kv.2 = .list xs ∧ ((∃ x ∈ xs, pyIn x svl = false) ∨ noDupY xs = false)) :
    Rejected (.map m) := by
  apply load_rejects_of
  intro m' S hm hA
  injection hm with hm; subst hm
  have := fw_section hA ht hsv hfw
  simp only [firewallOk, Bool.and_eq_true, List.all_eq_true] at this
  have h2 := this.1.2 kv hkv
  rcases hbad with hb | ⟨xs, hxs, hb⟩
  · cases hv : kv.2 <;> simp_all [fwSettingOk, Y.isList]
  · rw [hxs] at h2
    simp only [fwSettingOk, Bool.and_eq_true, List.all_eq_true] at h2
    rcases hb with ⟨x, hx, hb⟩ | hb
    · have := (h2.1 x hx).2; simp [hb] at this
    · simp [hb] at h2

/-- a firewall key that is not a `(subnet, subnet)` pair -/
theorem C18_bad_firewall_key (m : List (Y × Y)) (rows svl : List Y) (fw : List (Y × Y)) (kv : Y × Y)
    (ht : getKey m "topology" = some (.list rows)) (hsv : getKey m "services" = some (.list svl))
    (hfw : getKey m "firewall" = some (.map fw)) (hkv : kv ∈ fw)
    (hbad : ∀ s, kv.1 = .str s → parsePair s = none) : Rejected (.map m) := by
  apply load_rejects_of
  intro m' S hm hA
  injection hm with hm; subst hm
  have := fw_section hA ht hsv hfw
  simp only [firewallOk, Bool.and_eq_true, List.all_eq_true] at this
  have h2 := this.2 kv hkv
  cases hk : kv.1 <;> simp [hk] at h2
  rename_i s
  simp [hbad s hk] at h2

end NASim.Load
