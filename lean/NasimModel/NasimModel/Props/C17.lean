import NasimModel.Generated.LoaderOk
import NasimModel.Proofs.LoaderInv
import NasimModel.Props.C18
/-!
# C17 — a loaded YAML scenario means exactly what the file says

`C17_accepts`: every document in the documented format is accepted.
`C17_denotes` + the field theorems: whatever is accepted is `build` of the file's sections, and
each field of `build` is read off the file: subnet sizes, topology, names, sensitive hosts,
exploit / escalation definitions (access normalised to 1/2, OS "none" ↦ every OS), scan costs,
firewall allow-lists keyed by pairs, hosts with OS / service / process flags, value and
deny-lists keyed by addresses, step limit.
-/
namespace NASim.Load

/-- C17: an accepted document denotes `build` of its fourteen sections -/
theorem C17_denotes (m : List (Y × Y)) (d : Loaded) (h : load (.map m) = .ok d) :
    ∃ S, getSections m = .ok S ∧ Accepted m S ∧ d = build m S := by
  obtain ⟨m', S, hm, hA, hd⟩ := (load_ok_iff _ d).mp h
  injection hm with hm; subst hm
  exact ⟨S, hA.getS, hA, hd⟩

/-- the documented format, stated on the document: the fourteen sections are present, nothing
unknown is, and every section satisfies its documented constraints -/
structure DocFormat (m : List (Y × Y)) (S : Sect) : Prop where
  onlyKnown : sectionsOk m = true
  hSubnets : getKey m "subnets" = some S.subnets
  hTopology : getKey m "topology" = some S.topology
  hOs : getKey m "os" = some S.os
  hServices : getKey m "services" = some S.services
  hProcesses : getKey m "processes" = some S.processes
  hSensitive : getKey m "sensitive_hosts" = some S.sensitive
  hExploits : getKey m "exploits" = some S.exploits
  hPrivescs : getKey m "privilege_escalation" = some S.privescs
  hOsCost : getKey m "os_scan_cost" = some S.osCost
  hSvcCost : getKey m "service_scan_cost" = some S.svcCost
  hSubnetCost : getKey m "subnet_scan_cost" = some S.subnetCost
  hProcCost : getKey m "process_scan_cost" = some S.procCost
  hHostConfigs : getKey m "host_configurations" = some S.hostConfigs
  hFirewall : getKey m "firewall" = some S.firewall
  /-- subnet sizes are positive integers -/
  subnetsPos : subnetsOk (listOf S.subnets) = true
  /-- the topology is a square 0/1 matrix over the subnets plus the internet -/
  topologySquare : topologyOk (listOf S.topology) (parseSubnets (listOf S.subnets)).length = true
  /-- non-empty, duplicate-free name lists -/
  osNames : namesOk (listOf S.os) = true
  serviceNames : namesOk (listOf S.services) = true
  processNames : namesOk (listOf S.processes) = true
  /-- at least one sensitive host, each a valid address with a positive value, no duplicates -/
  sensitiveValid : sensitiveOk (parseSubnets (listOf S.subnets)) (mapOf S.sensitive) = true
  /-- every exploit has the five documented fields: a defined service, a defined OS or "none",
      a probability in [0, 1] (1.0 included), a positive cost, access user/root/1/2 -/
  exploitsValid : ∀ kv ∈ mapOf S.exploits,
      (parseExploit (listOf S.services) (listOf S.os) kv.1 kv.2).isSome = true
  /-- the same for escalations; the section may be empty -/
  privescsValid : ∀ kv ∈ mapOf S.privescs,
      (parsePrivesc (listOf S.processes) (listOf S.os) kv.1 kv.2).isSome = true
  /-- scan costs are non-negative numbers -/
  costsValid : (scanCostOk S.osCost && scanCostOk S.svcCost && scanCostOk S.subnetCost
      && scanCostOk S.procCost) = true
  /-- one configuration per address of the network under its canonical key, each naming defined
      services / processes / OS, an optional host firewall keyed by valid addresses, an optional
      numeric value of any sign that agrees with the sensitive section -/
  hostsValid : hostConfigsOk (parseSubnets (listOf S.subnets)) (listOf S.os) (listOf S.services)
      (listOf S.processes) (parseSensitive (mapOf S.sensitive)) (mapOf S.hostConfigs) = true
  /-- a rule in both directions for every connected pair, lists of defined services -/
  firewallValid : firewallOk (parseTopology (listOf S.topology)) (listOf S.services)
      (mapOf S.firewall) = true
  /-- the step limit is optional; if present it is a positive integer -/
  stepLimitValid : (stepLimitOf m).isSome = true

theorem allSome_of_all {α} (l : List (Option α)) (h : ∀ o ∈ l, o.isSome = true) :
    (allSome l).isSome = true := by
  induction l with
  | nil => rfl
  | cons o os ih =>
    cases o with
    | none => have := h none (List.mem_cons_self ..); simp at this
    | some x =>
      have := ih (fun o ho => h o (List.mem_cons_of_mem _ ho))
      cases hr : allSome os <;> simp_all [allSome]

/-- C17: every document that follows the documented format is accepted -/
theorem C17_accepts (m : List (Y × Y)) (S : Sect) (h : DocFormat m S) :
    load (.map m) = .ok (build m S) := by
  have hS : getSections m = .ok S := by
    unfold getSections
    simp [need, h.hSubnets, h.hTopology, h.hOs, h.hServices, h.hProcesses, h.hSensitive,
      h.hExploits, h.hPrivescs, h.hOsCost, h.hSvcCost, h.hSubnetCost, h.hProcCost, h.hHostConfigs,
      h.hFirewall, bind, Except.bind, pure, Except.pure]
  refine (load_ok_iff _ _).mpr ⟨m, S, rfl, ?_, rfl⟩
  exact
    { sections := h.onlyKnown, getS := hS, subnets := h.subnetsPos, topology := h.topologySquare,
      os := h.osNames, services := h.serviceNames, processes := h.processNames,
      sensitive := h.sensitiveValid,
      exploits := by
        apply allSome_of_all
        intro o ho
        obtain ⟨kv, hkv, rfl⟩ := List.mem_map.mp ho
        exact h.exploitsValid kv hkv
      privescs := by
        apply allSome_of_all
        intro o ho
        obtain ⟨kv, hkv, rfl⟩ := List.mem_map.mp ho
        exact h.privescsValid kv hkv
      scanCosts := h.costsValid, hostConfigs := h.hostsValid, firewall := h.firewallValid,
      stepLimit := h.stepLimitValid }

/-! ### what the accepted scenario contains -/

theorem allSome_map {α} {l : List (Option α)} {r : List α} (h : allSome l = some r) :
    r.map some = l := by
  induction l generalizing r with
  | nil => simp [allSome] at h; subst h; rfl
  | cons o os ih =>
    cases o with
    | none => simp [allSome] at h
    | some x =>
      simp only [allSome, Option.map_eq_some_iff] at h
      obtain ⟨r', hr', rfl⟩ := h
      simp [ih hr']

/-- C17: subnet sizes — the internet subnet (size 1) followed by the file's sizes -/
theorem C17_subnets (m : List (Y × Y)) (d : Loaded) (l : List Y) (h : load (.map m) = .ok d)
    (hs : getKey m "subnets" = some (.list l)) :
    d.subnets = 1 :: l.map (fun y => (y.exactInt?.getD 0).toNat) ∧
    ∀ y ∈ l, ∃ i, y = .int i ∧ 0 < i := by
  obtain ⟨S, hS, hA, rfl⟩ := C17_denotes m d h
  have k1 := (getSections_keys hS).1
  rw [hs] at k1; injection k1 with k1
  refine ⟨by simp [build, Sect.subnetsL, ← k1, listOf, parseSubnets], ?_⟩
  intro y hy
  have := hA.subnets
  simp only [← k1, listOf, subnetsOk, Bool.and_eq_true, List.all_eq_true] at this
  have := this.2 y hy
  cases y <;> simp [Y.exactInt?] at this
  exact ⟨_, rfl, this⟩

/-- C17: the topology is the file's matrix -/
theorem C17_topology (m : List (Y × Y)) (d : Loaded) (rows : List Y) (h : load (.map m) = .ok d)
    (ht : getKey m "topology" = some (.list rows)) : d.topology = parseTopology rows := by
  obtain ⟨S, hS, _, rfl⟩ := C17_denotes m d h
  have k2 := (getSections_keys hS).2.1
  rw [ht] at k2; injection k2 with k2
  simp [build, Sect.topologyL, ← k2, listOf]

/-- C17: OS, service and process lists are the file's lists, in order -/
theorem C17_names (m : List (Y × Y)) (d : Loaded) (osl svl prl : List Y) (h : load (.map m) = .ok d)
    (hos : getKey m "os" = some (.list osl)) (hsv : getKey m "services" = some (.list svl))
    (hpr : getKey m "processes" = some (.list prl)) :
    d.os = osl ∧ d.services = svl ∧ d.processes = prl := by
  obtain ⟨S, hS, _, rfl⟩ := C17_denotes m d h
  obtain ⟨_, _, k3, k4, k5, _⟩ := getSections_keys hS
  rw [hos] at k3; injection k3 with k3
  rw [hsv] at k4; injection k4 with k4
  rw [hpr] at k5; injection k5 with k5
  simp [build, ← k3, ← k4, ← k5, listOf]

/-- C17: sensitive hosts and their values, keyed by address -/
theorem C17_sensitive (m : List (Y × Y)) (d : Loaded) (sm : List (Y × Y)) (h : load (.map m) = .ok d)
    (hse : getKey m "sensitive_hosts" = some (.map sm)) :
    d.sensitive = sm.map (fun kv => (sensAddr kv, kv.2.toRat?.getD 0)) := by
  obtain ⟨S, hS, _, rfl⟩ := C17_denotes m d h
  obtain ⟨_, _, _, _, _, k6, _⟩ := getSections_keys hS
  rw [hse] at k6; injection k6 with k6
  simp [build, Sect.sensitiveL, ← k6, mapOf, parseSensitive]

/-- C17: exploit definitions — one per entry of the file, in order, with the file's service,
probability and cost, the OS ("none" in any capitalisation ↦ every OS) and the access level
normalised to 1 (user) / 2 (root) -/
theorem C17_exploits (m : List (Y × Y)) (d : Loaded) (em : List (Y × Y)) (svl osl : List Y)
    (h : load (.map m) = .ok d) (he : getKey m "exploits" = some (.map em))
    (hsv : getKey m "services" = some (.list svl)) (hos : getKey m "os" = some (.list osl)) :
    d.exploits.map some = em.map (fun kv => parseExploit svl osl kv.1 kv.2) := by
  obtain ⟨S, hS, hA, rfl⟩ := C17_denotes m d h
  obtain ⟨_, _, k3, k4, _, _, k7, _⟩ := getSections_keys hS
  rw [hos] at k3; injection k3 with k3
  rw [hsv] at k4; injection k4 with k4
  rw [he] at k7; injection k7 with k7
  have := hA.exploits
  simp only [build, Sect.exploitsL, ← k3, ← k4, ← k7, listOf, mapOf] at this ⊢
  cases hr : allSome (em.map fun kv => parseExploit svl osl kv.1 kv.2) with
  | none => simp [hr] at this
  | some r => simpa using allSome_map hr

theorem C17_privescs (m : List (Y × Y)) (d : Loaded) (em : List (Y × Y)) (prl osl : List Y)
    (h : load (.map m) = .ok d) (he : getKey m "privilege_escalation" = some (.map em))
    (hpr : getKey m "processes" = some (.list prl)) (hos : getKey m "os" = some (.list osl)) :
    d.privescs.map some = em.map (fun kv => parsePrivesc prl osl kv.1 kv.2) := by
  obtain ⟨S, hS, hA, rfl⟩ := C17_denotes m d h
  obtain ⟨_, _, k3, _, k5, _, _, k8, _⟩ := getSections_keys hS
  rw [hos] at k3; injection k3 with k3
  rw [hpr] at k5; injection k5 with k5
  rw [he] at k8; injection k8 with k8
  have := hA.privescs
  simp only [build, Sect.privescsL, ← k3, ← k5, ← k8, listOf, mapOf] at this ⊢
  cases hr : allSome (em.map fun kv => parsePrivesc prl osl kv.1 kv.2) with
  | none => simp [hr] at this
  | some r => simpa using allSome_map hr

/-- C17: an exploit written with probability 1.0 keeps probability 1 (and the whole range [0,1]
is representable) -/
theorem C17_exploit_fields {svl osl : List Y} {name e : Y} {x : ExplL}
    (h : parseExploit svl osl name e = some x) :
    ∃ em svc osv prob cost acc, e = .map em ∧ getKey em "service" = some svc ∧
      getKey em "os" = some osv ∧ getKey em "prob" = some prob ∧ getKey em "cost" = some cost ∧
      getKey em "access" = some acc ∧
      x.name = name ∧ x.service = svc ∧ osField osl osv = some x.os ∧
      prob.toRat? = some x.prob ∧ cost.toRat? = some x.cost ∧ accessOf acc = some x.access := by
  obtain ⟨em, svc, osv, prob, cost, acc, os', p, c, a, he, h1, h2, h3, h4, h5, _, h6, h7, h8, h9,
    _, _, _, _, rfl⟩ := parseExploit_some h
  exact ⟨em, svc, osv, prob, cost, acc, he, h1, h2, h3, h4, h5, rfl, rfl, h6, h7, h8, h9⟩

/-- C17: scan costs and step limit -/
theorem C17_costs_and_limit (m : List (Y × Y)) (d : Loaded) (h : load (.map m) = .ok d) :
    (∀ v, getKey m "service_scan_cost" = some v → some d.svcScanCost = v.toRat?) ∧
    (∀ v, getKey m "os_scan_cost" = some v → some d.osScanCost = v.toRat?) ∧
    (∀ v, getKey m "subnet_scan_cost" = some v → some d.subnetScanCost = v.toRat?) ∧
    (∀ v, getKey m "process_scan_cost" = some v → some d.procScanCost = v.toRat?) ∧
    (getKey m "step_limit" = none → d.stepLimit = none) ∧
    (∀ y, getKey m "step_limit" = some y → ∃ i, y.intLike? = some i ∧ 0 < i ∧ d.stepLimit = some i) := by
  obtain ⟨S, hS, hA, rfl⟩ := C17_denotes m d h
  obtain ⟨_, _, _, _, _, _, _, _, k9, k10, k11, k12, _⟩ := getSections_keys hS
  have hc := hA.scanCosts
  simp only [Bool.and_eq_true] at hc
  have num : ∀ y, scanCostOk y = true → some (y.toRat?.getD 0) = y.toRat? := by
    intro y hy; unfold scanCostOk at hy; cases hq : y.toRat? <;> simp_all
  refine ⟨?_, ?_, ?_, ?_, ?_, ?_⟩
  · intro v hv; rw [hv] at k10; injection k10 with k10; subst k10; exact num _ hc.1.1.2
  · intro v hv; rw [hv] at k9; injection k9 with k9; subst k9; exact num _ hc.1.1.1
  · intro v hv; rw [hv] at k11; injection k11 with k11; subst k11; exact num _ hc.1.2
  · intro v hv; rw [hv] at k12; injection k12 with k12; subst k12; exact num _ hc.2
  · intro hn; simp [build, stepLimitOf, hn]
  · intro y hy
    have := hA.stepLimit
    simp only [build, stepLimitOf, hy] at this ⊢
    cases hi : y.intLike? with
    | none => simp [hi] at this
    | some i =>
      simp only [hi] at this ⊢
      by_cases hp : 0 < i
      · exact ⟨i, rfl, hp, by simp [hp]⟩
      · simp [hp] at this

/-- C17: hosts — one per host configuration, in file order; OS / service / process flags say
exactly which names the file lists, the value is the sensitive value or the file's value (0 when
absent), the deny-lists are keyed by addresses -/
theorem C17_hosts (m : List (Y × Y)) (d : Loaded) (hc sm : List (Y × Y)) (osl svl prl : List Y)
    (h : load (.map m) = .ok d) (hhc : getKey m "host_configurations" = some (.map hc))
    (hse : getKey m "sensitive_hosts" = some (.map sm))
    (hos : getKey m "os" = some (.list osl)) (hsv : getKey m "services" = some (.list svl))
    (hpr : getKey m "processes" = some (.list prl)) :
    d.hosts = hc.map (fun kv => parseHost osl svl prl (parseSensitive sm) kv.1 kv.2) := by
  obtain ⟨S, hS, _, rfl⟩ := C17_denotes m d h
  obtain ⟨_, _, k3, k4, k5, k6, _, _, _, _, _, _, k13, _⟩ := getSections_keys hS
  rw [hos] at k3; injection k3 with k3
  rw [hsv] at k4; injection k4 with k4
  rw [hpr] at k5; injection k5 with k5
  rw [hse] at k6; injection k6 with k6
  rw [hhc] at k13; injection k13 with k13
  simp [build, Sect.sensitiveL, ← k3, ← k4, ← k5, ← k6, ← k13, listOf, mapOf]

/-- what `parseHost` reads off one host configuration -/
theorem C17_host_fields (osl svl prl : List Y) (sens : List ((Nat × Nat) × Rat)) (key : Y)
    (cm : List (Y × Y)) (hos : Y) (hsv hpr : List Y)
    (h1 : getKey cm "os" = some hos) (h2 : getKey cm "services" = some (.list hsv))
    (h3 : getKey cm "processes" = some (.list hpr)) :
    let hd := parseHost osl svl prl sens key (.map cm)
    hd.addr = pairOfKey key ∧
    hd.os = osl.map (fun o => o.pyEq hos) ∧
    hd.services = svl.map (fun s => pyIn s hsv) ∧
    hd.processes = prl.map (fun p => pyIn p hpr) ∧
    (∀ v, sens.lookup (pairOfKey key) = some v → hd.value = v) ∧
    (sens.lookup (pairOfKey key) = none → hd.value = ((getKey cm "value").bind Y.toRat?).getD 0) := by
  intro hd
  refine ⟨?_, ?_, ?_, ?_, ?_, ?_⟩
  · simp [hd, parseHost]
  · simp [hd, parseHost, mapOf, h1]
  · simp [hd, parseHost, mapOf, h2, listOf]
  · simp [hd, parseHost, mapOf, h3, listOf]
  · intro v hv; simp [hd, parseHost, hv]
  · intro hn; simp [hd, parseHost, hn, mapOf]

/-- C17: subnet firewall allow-lists, keyed by `(source, destination)` pairs -/
theorem C17_firewall (m : List (Y × Y)) (d : Loaded) (fw : List (Y × Y)) (h : load (.map m) = .ok d)
    (hfw : getKey m "firewall" = some (.map fw)) : d.firewall = parseFirewall fw := by
  obtain ⟨S, hS, _, rfl⟩ := C17_denotes m d h
  have k14 := (getSections_keys hS).2.2.2.2.2.2.2.2.2.2.2.2.2
  rw [hfw] at k14; injection k14 with k14
  simp [build, ← k14, mapOf]

end NASim.Load
